#!/bin/sh
# One-off setup after a fresh restore (offline): checks the toolchain and validates the reference
# hash implementations (known-answer vectors + cross-check against the library headers).
set -e
cd "$(dirname "$0")"
REPO=${VERIF_REPO:-/repo}
mkdir -p build evidence
g++ -std=gnu++17 -O1 -fsanitize=address,undefined -I$REPO/common/include -Iharness harness/selftest.cpp -o build/selftest
./build/selftest > build/selftest.out
grep -q "selftest ok" build/selftest.out
rm -f build/selftest build/selftest.out
python3 -c "import json,sys; json.load(open('MANIFEST.json')); json.load(open('known_findings.json'))"
echo "setup ok"
