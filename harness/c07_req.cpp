// C07 (REQ part) — req_sketch (HRA and LRA) conserves weight, keeps exact extremes and answers coherently
// over random merge trees.  Oracle and case driver: vf/c07_quantiles_oracle.hpp.
#include "vf/core.hpp"
#include "vf/c07_quantiles_oracle.hpp"
#include <req_sketch.hpp>

using namespace datasketches;
namespace vf {

const char* property_id() { return "C07"; }
unsigned case_timeout_s() { return 300; }
uint64_t num_cases(bool thorough) { return c07::cases_per_type(thorough) * c07::num_types(); }   // item types round-robin
void final_report() {}

struct ReqFam {
  static const char* name() { return "req"; }
  template<typename K> using SK = req_sketch<typename c07::Tr<K>::T, typename c07::Tr<K>::Cmp>;
  struct Cfg { bool hra; };
  static Cfg cfg(Rng& r) { Cfg c; c.hra = r.coin(); return c; }
  static std::string cfg_str(const Cfg& c) { return c.hra ? "req-HRA" : "req-LRA"; }
  // requested k; odd values are documented to be rounded down, minimum 4
  static uint32_t pick_k(Rng& r, bool thorough) {
    static const uint32_t ks[] = {4, 4, 4, 5, 6, 6, 8, 10, 12, 12, 13, 20, 30, 50};
    if (thorough && r.chance(0.1)) return r.pick({100u, 200u, 254u});
    return ks[r.below(sizeof ks / sizeof ks[0])];
  }
  template<typename K> static SK<K> make(uint32_t k, const Cfg& c, const typename c07::Tr<K>::Cmp& cmp) { return SK<K>(static_cast<uint16_t>(k), c.hra, cmp); }
  template<typename K> static SK<K> roundtrip(const SK<K>& sk, const typename c07::Tr<K>::Cmp& cmp, bool stream) {
    typedef typename c07::Tr<K>::T T;
    if (stream) {
      std::stringstream ss(std::ios::in | std::ios::out | std::ios::binary);
      sk.serialize(ss);
      return SK<K>::deserialize(ss, serde<T>(), cmp);
    }
    const auto bytes = sk.serialize();
    return SK<K>::deserialize(bytes.data(), bytes.size(), serde<T>(), cmp);
  }

  static const bool self_merge_ok = false;     // req_sketch::merge has no self-merge handling
  static bool convert_gap(uint32_t k, uint64_t n) { return n >= 6ULL * k; }
  static uint32_t large_k(bool mx) { return mx ? 1024 : 512; }
  template<typename K> static int level0_unsorted(const SK<K>& sk) {
    const auto s = sk.to_string(false, false);
    const std::string text(s.begin(), s.end());
    if (text.find("Sorted         : false") != std::string::npos) return 1;
    if (text.find("Sorted         : true") != std::string::npos) return 0;
    return -1;
  }
  static uint64_t exact_cap(uint32_t k) { const uint32_t ke = std::max<uint32_t>(k & ~1u, 4); return 6ULL * ke - 1; }

  // the sketch states its capacity in to_string(): "Capacity items : <sum of nominal compactor capacities>"
  template<typename T> static void bound(const SK<T>& sk, uint32_t retained, uint64_t, const std::string& ctx) {
    const auto s = sk.to_string(false, false);
    const std::string text(s.begin(), s.end());
    const char* tag = "Capacity items :";
    const size_t p = text.find(tag);
    checked();
    if (p == std::string::npos) { fail("harness|req-to_string-format", "no 'Capacity items' line in to_string()"); return; }
    const uint64_t cap = strtoull(text.c_str() + p + strlen(tag), nullptr, 10);
    VF_CHECK(retained <= cap, "req|space-bound|retained-above-nominal-capacity", ctx + " capacity=" + std::to_string(cap));
  }
  template<typename T> static void counters(const SK<T>& sk, const c07::Observed& o, bool after_merge) {
    count(sk.is_HRA() ? "req_obs_hra" : "req_obs_lra");
    if (o.empty) return;
    if (!o.est) count("req_single_compactor");
    else count(after_merge ? "req_multi_compactor_after_merge" : "req_multi_compactor_after_updates");
    if (o.distinct_weights >= 3) count("req_three_or_more_levels");
  }
};

void run_case(uint64_t idx, Rng& r) { c07::run_case_any<ReqFam>(idx, r); }

} // namespace vf
