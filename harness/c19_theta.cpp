// C19 — value semantics / every byte returned: Theta family (update / compact sketch, union, intersection, a-not-b)
#ifndef C19_PART
#define C19_PART 0
#endif
#include "vf/c19_thetalike.hpp"
#include <theta_sketch.hpp>
#include <theta_union.hpp>
#include <theta_intersection.hpp>
#include <theta_a_not_b.hpp>

using namespace datasketches;
namespace vf {
const char* property_id() { return "C19"; }
unsigned case_timeout_s() { return 120; }
uint64_t num_cases(bool thorough) { return (C19_PART == 0 ? 2 : 3) * (thorough ? 3000 : 160); }
void final_report() {}

struct ThetaTT {
  typedef track_alloc<uint64_t> A;
  typedef update_theta_sketch_alloc<A> UpdateSk;
  typedef compact_theta_sketch_alloc<A> CompactSk;
  typedef theta_union_alloc<A> Union;
  typedef theta_intersection_alloc<A> Intersection;
  typedef theta_a_not_b_alloc<A> ANotB;
  static const char* fam() { return "theta"; }
  static void make_update(void* mem, const TCfg& c, uint8_t lg_k, Arena* a) {
    new (mem) UpdateSk(UpdateSk::builder(A(a)).set_lg_k(lg_k).set_resize_factor(static_cast<theta_constants::resize_factor>(c.rf)).set_p(c.p).set_seed(c.seed).build());
  }
  static void feed(UpdateSk& u, uint64_t key, Rng& r) {
    switch (r.below(3)) {
      case 0: u.update(key); break;
      case 1: u.update(std::string("k") + std::to_string(key)); break;
      default: u.update(&key, sizeof key); break;
    }
  }
  template<typename E> static std::string entry_str(const E& e) { return std::to_string(e); }
  static std::string image(const CompactSk& s) { return bytes_hex(s.serialize()); }
  static void deserialize(void* mem, const CompactSk& src, const TCfg& c, Arena* a, Rng& r) {
    const uint64_t how = r.below(3);
    if (how == 0) {
      auto b = src.serialize(8);
      new (mem) CompactSk(CompactSk::deserialize(b.data() + 8, b.size() - 8, c.seed, A(a)));
    } else if (how == 1) {
      auto b = src.serialize_compressed();
      new (mem) CompactSk(CompactSk::deserialize(b.data(), b.size(), c.seed, A(a)));
    } else {
      std::stringstream ss(std::ios::in | std::ios::out | std::ios::binary);
      if (r.coin()) src.serialize(ss); else src.serialize_compressed(ss);
      new (mem) CompactSk(CompactSk::deserialize(ss, c.seed, A(a)));
    }
  }
  static void make_union(void* mem, const TCfg& c, uint8_t lg_k, Arena* a) {
    new (mem) Union(Union::builder(A(a)).set_lg_k(lg_k).set_resize_factor(static_cast<theta_constants::resize_factor>(c.rf)).set_p(c.p).set_seed(c.seed).build());
  }
  static void make_intersection(void* mem, const TCfg& c, Arena* a) { new (mem) Intersection(c.seed, A(a)); }
  static void make_anotb(void* mem, const TCfg& c, Arena* a) { new (mem) ANotB(c.seed, A(a)); }
};

// the unit is compiled twice (registry flag -DC19_PART=0 / 1) to keep each compile short
void run_case(uint64_t idx, Rng& r) {
#if C19_PART == 0
  if (idx % 2 == 0) run_program<TLUpdateFam<ThetaTT>>(r); else run_program<TLCompactFam<ThetaTT>>(r);
#else
  switch (idx % 3) {
    case 0: run_program<TLUnionFam<ThetaTT>>(r); break;
    case 1: run_program<TLIntersectionFam<ThetaTT>>(r); break;
    default: run_program<TLANotBFam<ThetaTT>>(r); break;
  }
#endif
}
} // namespace vf
