// C09 — serialization round trip: HLL (compact + updatable images x HLL_4/6/8 x LIST/SET/HLL modes, HLL_4 with
// and without auxiliary exceptions, union results) and CPC (all five flavors + union results).
// Compiled with -fno-access-control only to READ the CPC bit matrix (logical content).
#include "vf/core.hpp"
#include "vf/gen.hpp"
#include "vf/c09_rt.hpp"
#include <hll.hpp>
#include <cpc_sketch.hpp>
#include <cpc_union.hpp>

using namespace datasketches;
namespace vf {
using namespace c09;

const char* property_id() { return "C09"; }
unsigned case_timeout_s() { return 120; }
uint64_t num_cases(bool thorough) { return thorough ? 60000 : 3000; }

static uint64_t cpc_max_checked = 0, cpc_max_exceeded = 0;
void final_report() {
  // get_max_serialized_size_bytes of CPC is documented as "large enough for at least 99.9 percent of sketches"
  const double m = static_cast<double>(cpc_max_checked);
  const double allowed = 0.001 * m + 5 * std::sqrt(0.001 * m) + 3;
  if (static_cast<double>(cpc_max_exceeded) > allowed)
    fail("cpc|size|exceeds-estimated-max-more-often-than-documented", "exceeded " + std::to_string(cpc_max_exceeded) + " of " + std::to_string(cpc_max_checked));
}

// ------------------------------------------------------------------ items with a large HLL value (aux exceptions)
// value of an item = leading zeros of h2 + 1; an HLL_4 slot needs an exception when value - curMin >= 15
struct HighItems { std::vector<uint64_t> v16, v22, v32; };
static const HighItems& high_items() {
  static HighItems H;
  if (H.v16.empty()) {
    for (uint64_t x = 0x51ed27ULL; H.v16.size() < 40 || H.v22.size() < 3; ++x) {
      const H128 h = ref_hash_u64(x, DEFAULT_SEED);
      const int lz = h.h2 ? __builtin_clzll(h.h2) : 64;
      if (lz >= 21 && H.v22.size() < 3) H.v22.push_back(x);
      else if (lz >= 15 && lz < 21 && H.v16.size() < 40) H.v16.push_back(x);
      if (x > 0x51ed27ULL + 40000000ULL) break;
    }
    // items whose value is 32 (kxq1 accumulator, 6-bit range): found by an offline search, verified here
    for (uint64_t x : {0x70707acc14ULL, 0x70924dd088ULL, 0x70929ccd91ULL}) {
      const H128 h = ref_hash_u64(x, DEFAULT_SEED);
      if (h.h2 != 0 && __builtin_clzll(h.h2) >= 31) H.v32.push_back(x);
    }
  }
  return H;
}

// ------------------------------------------------------------------ HLL
static const char* type_name(target_hll_type t) { return t == HLL_4 ? "HLL_4" : t == HLL_6 ? "HLL_6" : "HLL_8"; }
static uint32_t rd32(const uint8_t* p) { uint32_t v; memcpy(&v, p, 4); return v; }

// logical content: sorted coupons (LIST/SET) or the k registers (HLL), read from an HLL_8 compact image of a copy
static std::string hll_content(const hll_sketch& s) {
  hll_sketch c8(s, HLL_8);
  const auto b = c8.serialize_compact();
  const int mode = b[hll_constants::MODE_BYTE] & 3;
  std::string o = "mode=" + std::to_string(mode) + ";";
  if (mode == 2) {
    const size_t k = 1ULL << b[hll_constants::LG_K_BYTE];
    o += "registers=" + hexbytes(b.data() + hll_constants::HLL_BYTE_ARR_START, std::min<size_t>(k, b.size() - hll_constants::HLL_BYTE_ARR_START), 1 << 20) + ";";
  } else {
    const size_t off = mode == 0 ? hll_constants::LIST_INT_ARR_START : hll_constants::HASH_SET_INT_ARR_START;
    std::vector<uint32_t> c;
    for (size_t p = off; p + 4 <= b.size(); p += 4) c.push_back(rd32(&b[p]));
    std::sort(c.begin(), c.end());
    o += "coupons=";
    for (uint32_t x : c) o += std::to_string(x) + ",";
    o += ";";
  }
  return o;
}

static std::string observe_hll(const hll_sketch& s, bool with_hip) {
  Obs o;
  o.add("lg_k", static_cast<uint32_t>(s.get_lg_config_k())).add("type", type_name(s.get_target_type())).add("empty", s.is_empty())
   .add("compact", s.is_compact()).add("composite", s.get_composite_estimate());
  if (with_hip) {
    o.add("estimate", s.get_estimate());
    for (uint8_t k = 1; k <= 3; ++k) o.add("lb" + std::to_string(k), s.get_lower_bound(k)).add("ub" + std::to_string(k), s.get_upper_bound(k));
  }
  o.add("compact_bytes", s.get_compact_serialization_bytes()).add("updatable_bytes", s.get_updatable_serialization_bytes());
  return o.s + hll_content(s);
}

// canonical order of the hash-table parts of an image (SET coupons, HLL_4 auxiliary map)
static Bytes canon_hll(const Bytes& b) {
  if (b.size() < 8) return b;
  Bytes o(b);
  const int mode = b[hll_constants::MODE_BYTE] & 3;
  const int type = (b[hll_constants::MODE_BYTE] >> 2) & 3;
  auto sort_u32 = [&](size_t off) {
    if (off >= o.size()) return;
    std::vector<uint32_t> v((o.size() - off) / 4);
    for (size_t i = 0; i < v.size(); ++i) v[i] = rd32(&o[off + 4 * i]);
    std::sort(v.begin(), v.end());
    for (size_t i = 0; i < v.size(); ++i) memcpy(&o[off + 4 * i], &v[i], 4);
  };
  if (mode == 1) sort_u32(hll_constants::HASH_SET_INT_ARR_START);
  else if (mode == 2 && type == 0) sort_u32(hll_constants::HLL_BYTE_ARR_START + (1ULL << b[hll_constants::LG_K_BYTE]) / 2);
  return o;
}

static void hll_fill(hll_sketch& s, uint64_t n, uint64_t base) { for (uint64_t i = 0; i < n; ++i) s.update(base + i); }

static void case_hll(Rng& r) {
  describe("hll (generating state)");
  const bool T = G().thorough();
  const target_hll_type type = static_cast<target_hll_type>(r.below(3));
  uint8_t lg_k = static_cast<uint8_t>(r.chance(0.5) ? r.range(4, 7) : r.range(8, T ? 13 : 11));
  const bool full = r.chance(0.1);
  const uint64_t k = 1ULL << lg_k;
  const unsigned cls = static_cast<unsigned>(r.below(13));
  std::string desc;
  std::unique_ptr<hll_sketch> sk(new hll_sketch(lg_k, type, full));
  const uint64_t base = r.next() >> 8;
  uint64_t n = 0;
  bool injected = false;
  auto inject = [&](unsigned how_many, bool very_high) {
    const HighItems& H = high_items();
    for (unsigned i = 0; i < how_many; ++i) sk->update(very_high ? H.v22[r.below(H.v22.size())] : H.v16[r.below(H.v16.size())]);
    injected = true;
  };
  switch (cls) {
    case 0: desc = "empty"; break;
    case 1: n = 1; desc = "single"; break;
    case 2: n = 2 + r.below(6); desc = "list"; break;                       // LIST holds up to 7
    case 3: n = 7 + r.below(3); desc = "list-boundary"; break;
    case 4: n = lg_k >= 8 ? 9 + r.below(std::max<uint64_t>(1, 3 * k / 32 - 9)) : 8 + r.below(20); desc = "set-or-small-hll"; break;
    case 5: n = lg_k >= 8 ? 3 * k / 32 - 3 + r.below(8) : k / 2 + r.below(k); desc = "set-boundary"; break;
    case 6: n = k / 4 + r.below(2 * k); desc = "hll-sparse"; break;
    case 7: n = 2 * k + r.below(30 * k); desc = "hll-dense"; break;         // curMin > 0 for small k
    case 8: n = r.below(k / 2 + 1); hll_fill(*sk, n, base); inject(1 + static_cast<unsigned>(r.below(4)), false); n = 0; desc = "hll-aux-few"; break;
    case 9: n = r.below(k + 1); hll_fill(*sk, n, base); inject(5 + static_cast<unsigned>(r.below(30)), false); n = 0; desc = "hll-aux-many"; break;
    case 11: { n = r.chance(0.3) ? r.below(6) : r.below(4 * k); hll_fill(*sk, n, base); const HighItems& H = high_items();
               for (size_t i = 0; i < H.v32.size() && i <= r.below(3); ++i) sk->update(H.v32[i]); n = 0; desc = "value-32"; if (!H.v32.empty()) count("hll_state_with_value_32"); break; }
    case 10: n = 20 * k + r.below(40 * k); hll_fill(*sk, n, base); inject(1 + static_cast<unsigned>(r.below(3)), true); n = 0; desc = "hll-curmin-aux"; break;
    default: {
      // union result (out-of-order flag), possibly with a different lg_k / type
      const uint64_t n1 = r.chance(0.2) ? r.below(8) : r.below(4 * k), n2 = r.chance(0.2) ? r.below(8) : r.below(4 * k);
      hll_sketch a(lg_k, static_cast<target_hll_type>(r.below(3))); hll_fill(a, n1, base);
      hll_sketch b(static_cast<uint8_t>(r.range(4, 12)), static_cast<target_hll_type>(r.below(3))); hll_fill(b, n2, base + n1 / 2);
      hll_union u(static_cast<uint8_t>(r.range(lg_k, 13)));
      u.update(a); u.update(b);
      if (r.chance(0.3)) u.update(high_items().v16[r.below(40)]);
      sk.reset(new hll_sketch(u.get_result(type)));
      lg_k = sk->get_lg_config_k();
      desc = "union-result n1=" + std::to_string(n1) + " n2=" + std::to_string(n2);
    }
  }
  hll_fill(*sk, n, base);
  if (cls <= 11 && r.chance(0.1)) { sk.reset(new hll_sketch(*sk, static_cast<target_hll_type>(r.below(3)))); desc += " converted"; }
  const target_hll_type ty = sk->get_target_type();
  describe(std::string("hll ") + type_name(ty) + " lg_k=" + std::to_string(lg_k) + " full=" + std::to_string(full) + " " + desc + " n=" + std::to_string(n));
  const std::string ctx = G().cur_desc;

  // classify the state from its own compact image (mode byte, flags, aux count)
  int mode0 = -1; bool ooo = false; uint32_t aux0 = 0; uint8_t cur_min = 0;
  {
    const auto b = sk->serialize_compact();
    mode0 = b[hll_constants::MODE_BYTE] & 3;
    ooo = b[hll_constants::FLAGS_BYTE] & hll_constants::OUT_OF_ORDER_FLAG_MASK;
    if (mode0 == 2) { aux0 = rd32(&b[hll_constants::AUX_COUNT_INT]); cur_min = b[hll_constants::HLL_CUR_MIN_BYTE]; }
  }
  static const char* mname[] = {"LIST", "SET", "HLL"};
  count(std::string("hll_") + type_name(ty) + "_" + mname[mode0]);
  if (sk->is_empty()) count(mode0 == 2 ? "hll_empty_full_size" : "hll_empty");
  if (mode0 == 2 && ty == HLL_4) { count(aux0 ? "hll4_with_aux_exceptions" : "hll4_without_aux_exceptions"); if (cur_min > 0) count(aux0 ? "hll4_curmin_positive_with_aux" : "hll4_curmin_positive"); }
  if (ooo) count(std::string("hll_out_of_order_") + mname[mode0]);
  sig(mix64(mix64(lg_k, ty), mix64(mode0 * 4 + ooo, mix64(aux0, std::hash<std::string>()(hll_content(*sk))))));
  (void)injected;

  for (int fmt = 0; fmt < 2; ++fmt) {
    const bool compact = fmt == 0;
    Ops<hll_sketch> o;
    o.fam = std::string("hll|") + type_name(ty) + "|" + mname[mode0] + (compact ? "|compact" : "|updatable");
    o.has_header = compact;    // serialize_updatable() offers no header argument
    o.to_bytes = [compact](const hll_sketch& s, unsigned h) { return to_std_bytes(compact ? s.serialize_compact(h) : s.serialize_updatable()); };
    o.to_stream = [compact](const hll_sketch& s, std::ostream& os) { if (compact) s.serialize_compact(os); else s.serialize_updatable(os); };
    o.from_bytes = [](const void* p, size_t n) { return hll_sketch::deserialize(p, n); };
    o.from_stream = [](std::istream& is) { return hll_sketch::deserialize(is); };
    o.advertised = [compact](const hll_sketch& s) { return static_cast<long long>(compact ? s.get_compact_serialization_bytes() : s.get_updatable_serialization_bytes()); };
    // documented: for HLL_4 the maximum "can be exceeded in extremely rare cases" (a grown auxiliary table)
    bool aux_grown = false;
    if (ty == HLL_4 && mode0 == 2) { const auto b = sk->serialize_updatable(); aux_grown = b[hll_constants::LG_ARR_BYTE] > hll_constants::LG_AUX_ARR_INTS[lg_k]; }
    if (!aux_grown) o.max_size = [lg_k, ty](const hll_sketch&) { return static_cast<long long>(hll_sketch::get_max_updatable_serialization_bytes(lg_k, ty)); };
    else count("hll4_aux_table_grown_max_not_applicable");
    o.observe = [](const hll_sketch& s) { return observe_hll(s, true); };
    o.canon = canon_hll;
    // HIP is order dependent by design: a SET restored from a compact image is re-inserted in image order, so its
    // later promotion may visit coupons in another order; compare HIP-derived numbers only where the order is preserved
    const bool hip_after = !(mode0 == 1 && compact);
    o.observe_after = [hip_after](const hll_sketch& s) { return observe_hll(s, hip_after); };
    o.cont = [k, ty](hll_sketch& s, Rng& cr) {
      const uint64_t m = cr.chance(0.3) ? cr.below(10) : (cr.chance(0.5) ? cr.below(k / 4 + 2) : cr.below(4 * k));
      const uint64_t b2 = cr.next() >> 8;
      for (uint64_t i = 0; i < m; ++i) s.update(b2 + i);
      if (cr.chance(0.3)) s.update(high_items().v16[cr.below(40)]);
      if (cr.chance(0.1) && !high_items().v32.empty()) s.update(high_items().v32[cr.below(high_items().v32.size())]);
      if (cr.chance(0.4)) {
        hll_sketch other(static_cast<uint8_t>(cr.range(4, 12)), static_cast<target_hll_type>(cr.below(3)));
        const uint64_t m2 = cr.below(2 * k);
        for (uint64_t i = 0; i < m2; ++i) other.update(b2 + m / 2 + i);
        hll_union u(static_cast<uint8_t>(cr.range(4, 13)));
        if (cr.coin()) { u.update(s); u.update(other); } else { u.update(other); u.update(s); }
        s = u.get_result(cr.coin() ? ty : static_cast<target_hll_type>(cr.below(3)));
      }
    };
    hll_sketch work(*sk);
    roundtrip(o, work, r, ctx);
  }
}

// ------------------------------------------------------------------ CPC
static std::string observe_cpc(const cpc_sketch& s) {
  Obs o;
  o.add("lg_k", static_cast<uint32_t>(s.get_lg_k())).add("empty", s.is_empty()).add("coupons", s.get_num_coupons())
   .add("estimate", s.get_estimate()).add("validate", s.validate());
  for (unsigned k = 1; k <= 3; ++k) o.add("lb" + std::to_string(k), s.get_lower_bound(k)).add("ub" + std::to_string(k), s.get_upper_bound(k));
  // logical content: the coupon bit matrix (private read, see -fno-access-control)
  const auto m = s.build_bit_matrix();
  o.raw("matrix", hexbytes(m.data(), m.size() * 8, 1 << 20));
  o.add("window_offset", static_cast<uint32_t>(s.window_offset)).add("first_interesting_column", static_cast<uint32_t>(s.first_interesting_column))
   .add("was_merged", s.was_merged);
  return o.s;
}

static void case_cpc(Rng& r) {
  describe("cpc (generating state)");
  const bool T = G().thorough();
  // "clustered": coupons confined to a narrow band of rows plus a few rows far away, so that the row deltas of the
  // compressed pair list contain a long unary (Golomb high) part; uniform hashing never produces that
  const bool clustered = r.chance(0.15);
  const uint8_t lg_k = static_cast<uint8_t>(clustered ? r.range(12, (T || r.chance(0.2)) ? 14 : 13) : (r.chance(0.6) ? r.range(4, 7) : r.range(8, T ? 12 : 10)));
  const uint64_t k = 1ULL << lg_k;
  const uint64_t seed = r.chance(0.6) ? DEFAULT_SEED : r.next();
  const unsigned cls = clustered ? 9 : static_cast<unsigned>(r.below(9));
  // target coupon counts by flavor: SPARSE C<3K/32, HYBRID <K/2, PINNED <27K/8, SLIDING beyond
  uint64_t n = 0; std::string desc;
  switch (cls) {
    case 0: n = 0; desc = "empty"; break;
    case 1: n = 1; desc = "single"; break;
    case 2: n = 1 + r.below(std::max<uint64_t>(1, 3 * k / 32)); desc = "sparse"; break;
    case 3: n = 3 * k / 32 + r.below(k / 2 - 3 * k / 32 + 1); desc = "hybrid"; break;
    case 4: n = k / 2 + r.below(3 * k); desc = "pinned"; break;
    case 5: n = 4 * k + r.below(12 * k); desc = "sliding"; break;
    case 6: n = 16 * k + r.below(T ? 200 * k : 60 * k); desc = "sliding-late"; break;
    case 9: desc = "clustered-rows"; break;
    default: desc = "union-result"; break;
  }
  std::unique_ptr<cpc_sketch> sk;
  const uint64_t base = r.next() >> 8;
  if (cls == 9) {
    sk.reset(new cpc_sketch(lg_k, seed));
    const uint64_t width = k >> r.range(3, 5);                       // band of k/8 .. k/32 rows
    const bool band_low = r.coin();
    const uint64_t lo = band_low ? 0 : k - width;                    // band at one end, outliers in the opposite quarter
    const unsigned target = static_cast<unsigned>(r.below(3));       // aim just below the SPARSE limit, into HYBRID, or at PINNED
    uint64_t want = target == 0 ? 3 * k / 32 - 2 - r.below(k / 64) : target == 1 ? 3 * k / 32 + r.below(k / 4) : (lg_k == 12 ? k + r.below(k) : k / 4 + r.below(k / 8));
    uint64_t got = 0; unsigned far = 0; const unsigned far_want = 1 + static_cast<unsigned>(r.below(3));
    for (uint64_t v = base; got < want || far < far_want; ++v) {
      const uint64_t row = ref_hash_u64(v, seed).h1 & (k - 1);
      if (row >= lo && row < lo + width) { if (got < want) { sk->update(v); ++got; } }
      else if ((band_low ? row >= 3 * k / 4 : row < k / 4) && far < far_want) { sk->update(v); ++far; }
    }
    n = got + far;
    desc += " width=" + std::to_string(width) + " low=" + std::to_string(band_low) + " far=" + std::to_string(far);
  } else if (cls <= 6) {
    sk.reset(new cpc_sketch(lg_k, seed));
    for (uint64_t i = 0; i < n; ++i) sk->update(base + i);
  } else {
    const uint64_t n1 = r.chance(0.2) ? r.below(4) : r.below(8 * k), n2 = r.chance(0.2) ? r.below(4) : r.below(8 * k);
    cpc_sketch a(lg_k, seed); for (uint64_t i = 0; i < n1; ++i) a.update(base + i);
    cpc_sketch b(static_cast<uint8_t>(r.range(lg_k, lg_k + 2)), seed); for (uint64_t i = 0; i < n2; ++i) b.update(base + n1 / 2 + i);
    cpc_union u(static_cast<uint8_t>(r.range(lg_k, lg_k + 1)), seed);
    u.update(a); u.update(b);
    sk.reset(new cpc_sketch(u.get_result()));
    desc += " n1=" + std::to_string(n1) + " n2=" + std::to_string(n2);
  }
  describe("cpc lg_k=" + std::to_string(sk->get_lg_k()) + " seed=" + std::to_string(seed) + " " + desc + " n=" + std::to_string(n));
  static const char* fl[] = {"EMPTY", "SPARSE", "HYBRID", "PINNED", "SLIDING"};
  const int flavor = static_cast<int>(sk->determine_flavor());
  count(std::string("cpc_flavor_") + fl[flavor] + (sk->was_merged ? "_merged" : ""));
  if (cls == 9) count(std::string("cpc_clustered_rows_") + fl[flavor]);
  sig(mix64(mix64(sk->get_lg_k(), sk->get_num_coupons()), mix64(flavor, sk->was_merged)));

  Ops<cpc_sketch> o;
  o.fam = std::string("cpc|") + fl[flavor] + (sk->was_merged ? "|merged" : "");
  o.to_bytes = [](const cpc_sketch& s, unsigned h) { return to_std_bytes(s.serialize(h)); };
  o.to_stream = [](const cpc_sketch& s, std::ostream& os) { s.serialize(os); };
  o.from_bytes = [seed](const void* p, size_t n2) { return cpc_sketch::deserialize(p, n2, seed); };
  o.from_stream = [seed](std::istream& is) { return cpc_sketch::deserialize(is, seed); };
  o.observe = observe_cpc;
  o.cont = [k, seed](cpc_sketch& s, Rng& cr) {
    const uint64_t m = cr.chance(0.3) ? cr.below(10) : cr.below(6 * k);
    const uint64_t b2 = cr.next() >> 8;
    for (uint64_t i = 0; i < m; ++i) s.update(b2 + i);
    if (cr.chance(0.4)) {
      cpc_sketch other(static_cast<uint8_t>(cr.range(s.get_lg_k(), s.get_lg_k() + 2)), seed);
      const uint64_t m2 = cr.below(6 * k);
      for (uint64_t i = 0; i < m2; ++i) other.update(b2 + m / 2 + i);
      cpc_union u(s.get_lg_k(), seed);
      if (cr.coin()) { u.update(s); u.update(other); } else { u.update(other); u.update(s); }
      s = u.get_result();
    }
  };
  const uint8_t lgk0 = sk->get_lg_k();
  Result res = roundtrip(o, *sk, r, G().cur_desc);
  if (res.ok) {
    ++cpc_max_checked; count("cpc_estimated_max_checked");
    if (res.image.size() > cpc_sketch::get_max_serialized_size_bytes(lgk0)) { ++cpc_max_exceeded; count("cpc_estimated_max_exceeded"); }
  }
}

void run_case(uint64_t idx, Rng& r) {
  const uint64_t slot = idx / 16 + idx;
  if (slot % 3 < 2) case_hll(r); else case_cpc(r);
}

} // namespace vf
