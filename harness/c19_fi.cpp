// C19 — value semantics / every byte returned: frequent items sketch with instrumented items and tracked-allocator strings
#include "vf/c19_life.hpp"
#include <frequent_items_sketch.hpp>
#include <sstream>

using namespace datasketches;
namespace vf {
const char* property_id() { return "C19"; }
unsigned case_timeout_s() { return 120; }
uint64_t num_cases(bool thorough) { return 2 * (thorough ? 3000 : 160); }
void final_report() {}

template<typename T, typename W> struct FiFam {
  typedef ItemKind<T> IK;
  typedef track_alloc<T> A;
  typedef std::equal_to<T> Eq;
  typedef frequent_items_sketch<T, W, typename IK::Hash, Eq, A> Obj;
  struct Cfg { uint8_t lg_max1, lg_max2, lg_start; uint64_t domain; uint32_t max_batch; };
  static const char* name() { static const std::string n = std::string("fi_") + IK::tag(); return n.c_str(); }
  static Cfg gen_cfg(Rng& r) {
    Cfg c; c.lg_max1 = static_cast<uint8_t>(r.range(3, 8)); c.lg_max2 = r.coin() ? c.lg_max1 : static_cast<uint8_t>(r.range(3, 8));
    c.lg_start = 3;
    c.domain = r.chance(0.4) ? 12 : (r.coin() ? 300 : 100000);
    c.max_batch = r.chance(0.3) ? 5 : (r.coin() ? 100 : 2000);
    return c;
  }
  static std::string cfg_str(const Cfg& c) { return "lg_max1=" + std::to_string(c.lg_max1) + " lg_max2=" + std::to_string(c.lg_max2) + " domain=" + std::to_string(c.domain) + " max_batch=" + std::to_string(c.max_batch); }
  static void construct(void* mem, const Cfg& c, Arena* a, Rng& r) {
    const uint8_t lg_max = r.coin() ? c.lg_max1 : c.lg_max2;
    new (mem) Obj(lg_max, static_cast<uint8_t>(r.range(3, lg_max)), Eq(), A(a));
  }
  static void mutate(Obj& o, const Cfg& c, Rng& r, Arena* scratch) {
    const uint64_t n = 1 + r.below(c.max_batch);
    for (uint64_t i = 0; i < n; ++i) {
      // skewed stream: low ids are heavy
      const uint64_t id = r.chance(0.5) ? r.below(std::min<uint64_t>(c.domain, 6)) : r.below(c.domain);
      const W w = static_cast<W>(1 + r.below(r.chance(0.1) ? 1000 : 3));
      if (r.coin()) { T it = IK::make(id, scratch); o.update(it, w); }
      else o.update(IK::make(id, scratch), w);
    }
  }
  static std::string readout(const Obj& o, const Cfg&) {
    std::string s = "empty=" + std::to_string(o.is_empty()) + " total=" + str(o.get_total_weight()) + " maxerr=" + str(o.get_maximum_error()) +
      " active=" + std::to_string(o.get_num_active_items()) + " eps=" + dstr(o.get_epsilon());
    for (int e = 0; e < 2; ++e) {
      auto rows = o.get_frequent_items(e ? NO_FALSE_NEGATIVES : NO_FALSE_POSITIVES);
      s += e ? " nfn=" : " nfp=";
      for (auto& row : rows) s += IK::show(row.get_item()) + ":" + str(row.get_estimate()) + ":" + str(row.get_lower_bound()) + ":" + str(row.get_upper_bound()) + ",";
    }
    s += " bytes=" + bytes_hex(o.serialize(0, IK::serde(nullptr)));
    return s;
  }
  static void query(const Obj& o, const Cfg& c, Rng& r) {
    Arena local(7);
    T probe = IK::make(r.below(c.domain), &local);
    (void)o.get_estimate(probe); (void)o.get_lower_bound(probe); (void)o.get_upper_bound(probe);
    auto rows = o.get_frequent_items(NO_FALSE_POSITIVES, static_cast<W>(2));
    (void)rows.size();
    (void)o.get_serialized_size_bytes(IK::serde(nullptr));
  }
  static const bool HAS_MERGE_REF = true, HAS_MERGE_MOVE = true, HAS_RESET = false, HAS_ROUNDTRIP = true;
  // x.merge(x): every counter, the total weight and the error offset double; no key is added, so nothing is purged
  static const bool SINGLE_INSTANCE = true;
  static Arena* arena_of(const Obj& o) { return o.map.get_allocator().arena; }   // private member: -fno-access-control
  static const int SELF_MERGE = SM_DOUBLES;
  static SelfMergeFacts self_merge_facts(const Obj& o, const Cfg&) {
    SelfMergeFacts f;
    double est = 0, lb = 0;
    std::string items;
    auto rows = o.get_frequent_items(NO_FALSE_NEGATIVES, static_cast<W>(0));
    for (auto& row : rows) { est += static_cast<double>(row.get_estimate()); lb += static_cast<double>(row.get_lower_bound()); }
    f.doubles = {static_cast<double>(o.get_total_weight()), static_cast<double>(o.get_maximum_error()), est, lb};
    f.same = "active=" + std::to_string(o.get_num_active_items()) + " rows=" + std::to_string(rows.size());
    return f;
  }
  static void merge_ref(Obj& d, const Obj& s, const Cfg&) { d.merge(s); }
  static void merge_move(Obj& d, Obj&& s, const Cfg&) { d.merge(std::move(s)); }
  static void reset(Obj&, const Cfg&) {}
  static void roundtrip(void* mem, const Obj& src, const Cfg&, Arena* a, Rng& r) {
    if (r.coin()) {
      const unsigned hdr = r.coin() ? 0 : 8;
      auto b = src.serialize(hdr, IK::serde(a));
      new (mem) Obj(Obj::deserialize(b.data() + hdr, b.size() - hdr, IK::serde(a), Eq(), A(a)));
    } else {
      std::stringstream ss(std::ios::in | std::ios::out | std::ios::binary);
      src.serialize(ss, IK::serde(a));
      new (mem) Obj(Obj::deserialize(ss, IK::serde(a), Eq(), A(a)));
    }
  }
  static std::string mode(const Obj& o, const Cfg&) { return o.is_empty() ? "empty" : (o.get_maximum_error() > 0 ? "purged" : "exact"); }
};

void run_case(uint64_t idx, Rng& r) {
  if (idx % 2 == 0) run_program<FiFam<Item, uint64_t>>(r);
  else run_program<FiFam<tstring, uint64_t>>(r);
}
} // namespace vf
