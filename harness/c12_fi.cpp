// C12 — Frequent-items bounds always bracket the true frequency.
// Exact per-item weights as the oracle; every item of the universe queried after every batch, merge and round trip.
#include "vf/core.hpp"
#include <frequent_items_sketch.hpp>
#include <sstream>
#include <memory>

using namespace datasketches;
namespace vf {

const char* property_id() { return "C12"; }
unsigned case_timeout_s() { return 120; }
uint64_t num_cases(bool thorough) { return thorough ? 60000 : 1600; }
void final_report() {}

template<typename T> struct ItemGen;
template<> struct ItemGen<int64_t> { static int64_t make(uint64_t x) { return (x & 1) ? int64_t(x * 1000003) : -int64_t(x); } static const char* name() { return "i64"; } };
template<> struct ItemGen<std::string> { static std::string make(uint64_t x) { std::string s = "item-" + std::to_string(x); if (x % 5 == 0) s += std::string(1 + x % 30, 'q'); if (x == 3) s = ""; return s; } static const char* name() { return "str"; } };

template<typename T, typename W> struct Model {
  std::map<T, W> truth;
  W total = 0;
  double max_eps = 0;      // largest epsilon among contributing sketches
  bool same_size = true;   // all contributing sketches have the same lg_max_map_size
  uint8_t lg_max;
  void add(const T& it, W w) { if (w == 0) return; truth[it] += w; total += w; }
  void merge(const Model& o) { for (auto& kv : o.truth) truth[kv.first] += kv.second; total += o.total; max_eps = std::max(max_eps, o.max_eps); if (o.lg_max != lg_max || !o.same_size) same_size = false; }
};

template<typename T, typename W>
static void observe(const frequent_items_sketch<T, W>& s, const Model<T, W>& m, const std::vector<T>& universe, Rng& r, const std::string& after, const std::string& keyprefix) {
  const std::string K = keyprefix;
  const std::string ctx = std::string(ItemGen<T>::name()) + " after " + after + " lg_max=" + std::to_string(m.lg_max) + " distinct=" + std::to_string(m.truth.size()) +
    " total=" + str(m.total) + " active=" + std::to_string(s.get_num_active_items()) + " maxerr=" + str(s.get_maximum_error());
  VF_CHECK(s.get_total_weight() == m.total, K + "total-weight", ctx + " got=" + str(s.get_total_weight()));
  const W maxerr = s.get_maximum_error();
  std::set<T> tracked_heavy_nfn, all_nfp;
  uint32_t active_seen = 0;
  for (const T& it : universe) {
    auto f = m.truth.find(it);
    const W truth = f == m.truth.end() ? W(0) : f->second;
    const W lb = s.get_lower_bound(it), ub = s.get_upper_bound(it), est = s.get_estimate(it);
    VF_CHECK(lb <= truth, K + "lower-bound-above-truth", ctx + " item=" + str(it) + " lb=" + str(lb) + " truth=" + str(truth));
    VF_CHECK(truth <= ub, K + "upper-bound-below-truth", ctx + " item=" + str(it) + " ub=" + str(ub) + " truth=" + str(truth));
    VF_CHECK(lb <= est && est <= ub, K + "estimate-outside-bounds", ctx + " lb=" + str(lb) + " est=" + str(est) + " ub=" + str(ub));
    VF_CHECK(ub - lb == maxerr, K + "ub-minus-lb-not-max-error", ctx + " ub-lb=" + str(ub - lb));
    if (lb > 0) ++active_seen;
  }
  if (m.lg_max <= 10) {
    const double eps = s.get_epsilon();
    VF_CHECK(eps == 3.5 / double(1u << m.lg_max), K + "epsilon-value", ctx + " eps=" + str(eps));
    VF_CHECK(std::fabs(frequent_items_sketch<T, W>::get_epsilon(m.lg_max) - eps) == 0, K + "epsilon-static-vs-instance", ctx);
    const double bound_eps = m.same_size ? eps : std::max(eps, m.max_eps);
    VF_CHECK(static_cast<double>(maxerr) <= bound_eps * static_cast<double>(m.total), K + "max-error-exceeds-epsilon-times-total", ctx + " eps=" + str(bound_eps));
    if (m.same_size) count("eps_bound_checked_same_size");
  }
  // result sets at several thresholds
  std::vector<W> thresholds = {maxerr, W(maxerr + 1), W(maxerr * 2 + 3), W(m.total / 10 + maxerr), W(0), W(maxerr / 2)};
  if (!m.truth.empty()) { auto it = m.truth.begin(); std::advance(it, r.below(m.truth.size())); thresholds.push_back(it->second); if (it->second > 0) thresholds.push_back(it->second - 1); }
  for (size_t ti = 0; ti < thresholds.size(); ++ti) {
    const W t = thresholds[ti];
    for (int et = 0; et < 2; ++et) {
      const auto type = et == 0 ? NO_FALSE_NEGATIVES : NO_FALSE_POSITIVES;
      auto rows = (ti == 0 && r.coin()) ? s.get_frequent_items(type) : s.get_frequent_items(type, t);
      std::set<T> got;
      W prev_est = 0; bool first = true; bool desc = true;
      for (auto& row : rows) {
        got.insert(row.get_item());
        if (!first && row.get_estimate() > prev_est) desc = false;
        prev_est = row.get_estimate(); first = false;
        VF_CHECK(row.get_lower_bound() == s.get_lower_bound(row.get_item()) && row.get_upper_bound() == s.get_upper_bound(row.get_item()) &&
                 row.get_estimate() == s.get_estimate(row.get_item()), K + "row-disagrees-with-getters", ctx);
        auto f = m.truth.find(row.get_item());
        VF_CHECK(f != m.truth.end(), K + "row-item-never-offered", ctx + " item=" + str(row.get_item()));
        if (type == NO_FALSE_POSITIVES && f != m.truth.end())
          VF_CHECK(f->second > t, K + "false-positive-in-NO_FALSE_POSITIVES", ctx + " item=" + str(row.get_item()) + " truth=" + str(f->second) + " threshold=" + str(t));
      }
      VF_CHECK(got.size() == rows.size(), K + "duplicate-rows", ctx);
      VF_CHECK(desc, K + "rows-not-descending-by-estimate", ctx);
      if (type == NO_FALSE_NEGATIVES) {
        // every item whose true weight exceeds the threshold must be present.  For thresholds below the
        // maximum error the sketch only examines items that still have a counter (documented), so the
        // clause is applied to tracked items there.
        for (auto& kv : m.truth) {
          if (!(kv.second > t)) continue;
          if (t < maxerr && s.get_lower_bound(kv.first) == 0) continue;
          VF_CHECK(got.count(kv.first), K + "false-negative-in-NO_FALSE_NEGATIVES", ctx + " item=" + str(kv.first) + " truth=" + str(kv.second) + " threshold=" + str(t));
        }
      }
      count(et == 0 ? "result_sets_nfn" : "result_sets_nfp");
    }
  }
  sig(mix64(mix64(m.lg_max, s.get_num_active_items()), mix64(uint64_t(maxerr), m.truth.size())));
}

template<typename T, typename W>
static frequent_items_sketch<T, W> roundtrip(const frequent_items_sketch<T, W>& s, Rng& r, const std::string& K) {
  {  // the two writers produce one format: the stream image equals the bytes image, so either reader reads either
    std::stringstream sw; s.serialize(sw);
    const std::string a = sw.str();
    auto b = s.serialize(0);
    VF_CHECK(a.size() == b.size() && memcmp(a.data(), b.data(), a.size()) == 0, K + "stream-image-differs-from-bytes-image", "sizes " + std::to_string(a.size()) + " / " + std::to_string(b.size()));
  }
  const int how = int(r.below(4));
  if (how == 2) {   // written to a stream, read from memory
    std::stringstream sw; s.serialize(sw); const std::string img = sw.str();
    count("roundtrip_stream_to_bytes");
    return frequent_items_sketch<T, W>::deserialize(img.data(), img.size());
  }
  if (how == 3) {   // written to memory, read from a stream
    auto bytes = s.serialize(0);
    std::stringstream sr(std::string(reinterpret_cast<const char*>(bytes.data()), bytes.size()));
    count("roundtrip_bytes_to_stream");
    return frequent_items_sketch<T, W>::deserialize(sr);
  }
  if (how == 0) {
    unsigned hdr = r.pick({0u, 0u, 3u, 8u});
    auto bytes = s.serialize(hdr);
    VF_CHECK(bytes.size() == hdr + s.get_serialized_size_bytes(), K + "serialized-size", "hdr=" + std::to_string(hdr));
    count("roundtrip_bytes");
    return frequent_items_sketch<T, W>::deserialize(bytes.data() + hdr, bytes.size() - hdr);
  }
  std::stringstream ss; s.serialize(ss);
  count("roundtrip_stream");
  return frequent_items_sketch<T, W>::deserialize(ss);
}

template<typename T, typename W>
static void run_program(Rng& r) {
  const bool TH = G().thorough();
  const std::string K = std::string("fi|") + ItemGen<T>::name() + (std::is_floating_point<W>::value ? "-f64w|" : "|");
  const int nleaves = 1 + int(r.below(4));
  const uint64_t domain = r.chance(0.3) ? 3 + r.below(30) : 20 + r.below(TH ? 4000 : 1200);
  std::vector<T> universe;
  for (uint64_t i = 0; i < std::min<uint64_t>(domain, 700); ++i) universe.push_back(ItemGen<T>::make(r.chance(0.9) ? i : r.below(domain)));
  for (int i = 0; i < 4; ++i) universe.push_back(ItemGen<T>::make((1ULL << 40) + r.below(1000)));   // never offered
  describe(std::string(ItemGen<T>::name()) + " leaves=" + std::to_string(nleaves) + " domain=" + std::to_string(domain));

  typedef frequent_items_sketch<T, W> SK;
  std::vector<std::unique_ptr<SK>> sk;
  std::vector<Model<T, W>> md;
  for (int l = 0; l < nleaves; ++l) {
    const uint8_t lg_max = uint8_t(r.chance(0.6) ? r.range(3, 6) : r.range(3, TH ? 12 : 10));
    const uint8_t lg_start = uint8_t(r.range(3, lg_max));
    sk.emplace_back(new SK(lg_max, lg_start));
    Model<T, W> m; m.lg_max = lg_max; m.max_eps = 3.5 / double(1u << lg_max);
    md.push_back(m);
    const int shape = int(r.below(6));
    const uint64_t nupd = r.chance(0.1) ? 0 : r.below(TH ? 6000 : 2000);
    for (uint64_t i = 0; i < nupd; ++i) {
      uint64_t x; W w = 1;
      switch (shape) {
        case 0: x = r.below(domain); break;                                                   // uniform, unit weights
        case 1: { double u = r.unit(); x = uint64_t(double(domain) * u * u * u); w = W(1 + r.below(10)); break; }   // skewed
        case 2: x = i < nupd / 2 ? i % 4 : 4 + (i % std::max<uint64_t>(domain - 4, 1)); break;  // fill with heavy then flood with distinct
        case 3: x = i; break;                                                                  // all distinct: purges wipe counters
        case 4: x = r.below(domain); w = W(r.below(4)); break;                                 // zero weights included
        default: x = r.below(domain); w = r.chance(0.01) ? W(1000000) : W(1 + r.below(3)); break;
      }
      x %= domain;
      if (std::is_floating_point<W>::value && r.chance(0.8)) { w = W(double(1 + r.below(40)) / 8.0); count("fractional_weight_updates"); }   // dyadic fractions: sums stay exact
      T it = ItemGen<T>::make(x);
      if (w == 0) count("zero_weight");
      const uint32_t active_before = sk[l]->get_num_active_items();
      if (r.coin()) sk[l]->update(it, w); else { T tmp = it; sk[l]->update(std::move(tmp), w); }
      md[l].add(it, w);
      if ((std::is_signed<W>::value || std::is_floating_point<W>::value) && r.chance(0.01)) {
        // invalid weights are refused through both overloads and leave the sketch exactly as it was (checked by the next observe)
        T key = ItemGen<T>::make(x);
        std::vector<W> bad; bad.push_back(W(-1)); bad.push_back(W(-1000000));
        if (std::is_floating_point<W>::value) { bad.push_back(W(std::numeric_limits<double>::quiet_NaN())); bad.push_back(W(std::numeric_limits<double>::infinity())); bad.push_back(W(-2.5)); }
        for (W bw : bad) {
          VF_CHECK(throws([&] { sk[l]->update(key, bw); }), K + "invalid-weight-accepted|lvalue", G().cur_desc + " w=" + str(bw));
          T tmp = key; VF_CHECK(throws([&] { sk[l]->update(std::move(tmp), bw); }), K + "invalid-weight-accepted|rvalue", G().cur_desc + " w=" + str(bw));
        }
        count("rejected_weight_updates");
        observe(*sk[l], md[l], universe, r, "rejected weights", K);
      }
      const uint32_t active_after = sk[l]->get_num_active_items();
      if (active_after < active_before) { count("purges"); if (active_after == 0) count("purge_removed_every_counter"); }
      if (nupd < 60 || i % (nupd / 3 + 1) == 0) observe(*sk[l], md[l], universe, r, "update batch", K);
    }
    observe(*sk[l], md[l], universe, r, "updates", K);
    if (std::is_signed<W>::value || std::is_floating_point<W>::value) VF_CHECK(throws([&] { sk[l]->update(ItemGen<T>::make(1), W(-1)); }), K + "negative-weight-accepted", G().cur_desc);
    if (r.chance(0.4)) {
      const bool all_purged = sk[l]->get_num_active_items() == 0 && md[l].total > 0;
      SK d = roundtrip(*sk[l], r, K);
      if (all_purged) count("roundtrip_of_all_purged_sketch");
      // a sketch whose counters were all purged is written as an *empty* image: distinct key (format-level finding)
      observe(d, md[l], universe, r, "roundtrip", all_purged ? K + "roundtrip-of-all-purged-sketch|" : K + "roundtrip|");
      if (!all_purged) {
        VF_CHECK(d.get_maximum_error() == sk[l]->get_maximum_error() && d.get_num_active_items() == sk[l]->get_num_active_items(), K + "roundtrip|offset-or-active-count", G().cur_desc);
        if (r.coin()) { sk[l].reset(new SK(std::move(d))); count("continue_on_restored"); }
      }
    }
  }
  // assignment between leaves of (usually) different map sizes: the target must take over everything, incl. lg_max_map_size
  if (sk.size() >= 2 && r.chance(0.5)) {
    const size_t a = r.below(sk.size()); size_t b = r.below(sk.size());
    if (a != b) {
      if (md[a].lg_max != md[b].lg_max) count("assign_across_map_sizes");
      switch (r.below(3)) {
        case 0: *sk[a] = *sk[b]; count("copy_assign"); break;
        case 1: { SK tmp(*sk[b]); *sk[a] = std::move(tmp); count("move_assign"); break; }
        default: { SK tmp(*sk[b]); sk[a].reset(new SK(std::move(tmp))); count("move_construct"); break; }
      }
      md[a] = md[b];
      observe(*sk[a], md[a], universe, r, "assignment", K + "assign|");
      observe(*sk[b], md[b], universe, r, "assignment-source", K + "assign-source|");
      // the assignee keeps behaving like its source: same further updates on both
      for (int i = 0; i < 200; ++i) {
        T it = ItemGen<T>::make(r.below(domain)); W w = W(1 + r.below(5));
        sk[a]->update(it, w); md[a].add(it, w); sk[b]->update(it, w); md[b].add(it, w);
      }
      observe(*sk[a], md[a], universe, r, "updates-after-assignment", K + "assign|");
      observe(*sk[b], md[b], universe, r, "updates-after-assignment-source", K + "assign-source|");
      VF_CHECK(sk[a]->get_maximum_error() == sk[b]->get_maximum_error() && sk[a]->get_num_active_items() == sk[b]->get_num_active_items() && sk[a]->get_epsilon() == sk[b]->get_epsilon(),
               K + "assign|assignee-diverges-from-source-under-identical-updates", G().cur_desc);
    }
  }
  std::vector<size_t> alive(sk.size());
  for (size_t i = 0; i < alive.size(); ++i) alive[i] = i;
  while (alive.size() > 1) {
    size_t a = r.below(alive.size()), b = r.below(alive.size());
    if (a == b) continue;
    size_t ia = alive[a], ib = alive[b];
    if (r.chance(0.2)) {   // a sketch merged with itself stands for its stream twice
      auto& self = *sk[ia];
      self.merge(self);
      const auto twice = md[ia]; md[ia].merge(twice);
      observe(*sk[ia], md[ia], universe, r, "self-merge", K + "self-merge|");
      count(md[ia].total > 0 ? "self_merge_nonempty" : "self_merge_empty");
    }
    if (sk[ib]->get_num_active_items() == 0 && md[ib].total > 0) count("merge_of_all_purged_source");
    if (sk[ib]->get_maximum_error() > 0) count("merge_of_purged_source");
    if (r.coin()) { sk[ia]->merge(*sk[ib]); observe(*sk[ib], md[ib], universe, r, "merge-source-unchanged", K + "merge-source|"); count("merge_lvalue"); }
    else { sk[ia]->merge(std::move(*sk[ib])); count("merge_rvalue"); }
    md[ia].merge(md[ib]);
    alive.erase(alive.begin() + b);
    observe(*sk[ia], md[ia], universe, r, "merge", K + "merge|");
  }
  if (want_sample()) sample("{\"config\":" + jstr(G().cur_desc) + ",\"total_weight\":" + jstr(str(md[alive[0]].total)) + ",\"distinct_items\":" + std::to_string(md[alive[0]].truth.size()) +
                            ",\"max_error\":" + jstr(str(sk[alive[0]]->get_maximum_error())) + "}");
}


// adversarial key set: every key has the same home cell in the final table, so they form one probe run of several hundred
// cells (far beyond 255) -- chosen with the library's own cell function (mining inputs only; the oracle stays the exact model)
static void long_cluster_case(Rng& r) {
  typedef frequent_items_sketch<int64_t, uint64_t> SK;
  const uint8_t lg = uint8_t(r.range(9, 11));
  const uint8_t start = r.coin() ? lg : uint8_t(r.range(3, lg));
  const uint64_t mask = (uint64_t(1) << lg) - 1, home = r.below(mask + 1);
  const size_t want = size_t(r.range(270, std::min(900, int((3u << lg) / 4) - 20)));   // the map refuses probe runs of 1024 cells ("drift limit reached"), a documented limit
  describe("long cluster lg_max=" + std::to_string(lg) + " start=" + std::to_string(start) + " home=" + std::to_string(home) + " keys=" + std::to_string(want));
  std::vector<int64_t> keys;
  for (int64_t k = int64_t(r.below(1000000)); keys.size() < want; ++k) if ((fmix64(std::hash<int64_t>()(k)) & mask) == home) keys.push_back(k);
  SK sk(lg, start); Model<int64_t, uint64_t> m; m.lg_max = lg; m.max_eps = SK::get_epsilon(lg);
  std::vector<int64_t> universe(keys.begin(), keys.end());
  universe.push_back(keys.back() + 1); universe.push_back(-12345);
  const std::string K = "fi|i64|long-cluster|";
  for (size_t i = 0; i < keys.size(); ++i) { const uint64_t w = 10 + i; sk.update(keys[i], w); m.add(keys[i], w); if (i == 255 || i == 256 || i == 300 || i + 1 == keys.size()) observe(sk, m, universe, r, "long cluster build", K); }
  for (int i = 0; i < 200; ++i) { const int64_t k = keys[r.below(keys.size())]; sk.update(k, 1); m.add(k, 1); }
  observe(sk, m, universe, r, "long cluster re-updates", K);
  count("long_cluster_cases");
}

void run_case(uint64_t idx, Rng& r) {
  if (idx % 40 == 17) { long_cluster_case(r); return; }
  switch (r.below(4)) {
    case 0: run_program<int64_t, uint64_t>(r); break;
    case 1: run_program<std::string, uint64_t>(r); break;
    case 2: run_program<int64_t, double>(r); break;
    default: run_program<int64_t, int64_t>(r); break;
  }
}

} // namespace vf
