// C04 — HLL union equals the sketch of the concatenated streams at reduced precision.
// Reference-model monitor: random programs over one hll_union(lg_max_k) — update(const hll_sketch&),
// update(hll_sketch&&), raw update(x) overloads, get_result(type), estimates/bounds, reset — with operands
// built from known item lists (every lg_k, target type, mode, start_full_size, empties).  The result is read
// through the public API only (updatable image of get_result(type), independent decoder) and compared with
// the independent coupon model of *every item offered since the last reset*, folded to the observed lg_k;
// the same operands are replayed in every permutation (all n! for n <= 4), with and without interleaved
// get_result/estimate calls and as lvalues / rvalues.
// Private state of the union (gadget mode, rebuild flag) is read with -fno-access-control ONLY to count which
// union_impl branches were reached (coverage floor); it never feeds the oracle.
#include "vf/core.hpp"
#include "vf/gen.hpp"
#include "vf/c03_hll_model.hpp"
#include <memory>

using namespace datasketches;
namespace vf {
using namespace hllm;

const char* property_id() { return "C04"; }
unsigned case_timeout_s() { return 1500; }
uint64_t num_cases(bool thorough) { return thorough ? 60000 : 4000; }
void final_report() {}

struct Operand {
  bool raw = false;                   // raw batch offered through union.update(x) vs a sketch
  std::vector<Val> items;             // raw batch: the items (sketch operands do not keep theirs)
  std::vector<uint32_t> coupons;      // model coupons of the non-ignored items
  std::unique_ptr<hll_sketch> sk;
  unsigned lg_k = 0; int type = 0; bool full = false;
  int mode = -1;                      // observed from the operand's own image
  bool has_ge32 = false;              // holds a planted rare input with coupon value >= 32 (coverage only)
  bool ge32_mod4_3 = false;           // ... whose slot index is 3 mod 4
  bool all_at_curmin = false;         // HLL_4 operand with cur_min > 0 and every slot exactly at cur_min (coverage only)
  unsigned cur_min = 0;               // HLL_4 operands in HLL mode: cur_min field of the own image (coverage only)
  unsigned min_reg = 0;               // smallest decoded register (HLL mode; > 0 means every slot was hit) (coverage only)
  bool empty() const { return coupons.empty(); }
  std::string desc;
};

struct Final {
  bool valid = false;
  unsigned lg_k = 0; int mode = -1;
  std::vector<uint32_t> coupons; std::vector<uint8_t> regs;
};

struct Engine {
  unsigned lg_max_k = 0;
  std::unique_ptr<hll_union> u;
  std::vector<uint32_t> offered;      // coupons of everything offered since the last reset
  bool any_offered = false;
  bool hll_input_seen = false;        // a non-empty HLL-mode sketch was offered since construction
  bool reset_seen = false;
  bool epoch_open = false;            // after a reset(): no non-empty input has followed yet
  bool first_hll_by_rvalue = false;   // exact epoch after a reset: the first (HLL-mode) input came through update(&&)
  bool relaxed = false;               // lg_k rule of the current epoch: only 4 <= lg_k <= lg_max_k is asserted
  unsigned exp_lg_k = 0;              // min(lg_max_k, lg_k of every non-empty HLL-mode operand) since construction
  int fresh = 0;                      // 1: last update down-sampled the first (gadget empty) HLL operand; 2: other fresh down-sample
  std::string trace;
  std::string ctx;
};

static const char* rel_name(unsigned a, unsigned b) { return a < b ? "lt" : (a == b ? "eq" : "gt"); }

// coverage only: which union_impl branch will this update take?
static void classify(Engine& E, const Operand& op, bool rvalue) {
  typedef std::allocator<uint8_t> A;
  HllSketchImpl<A>* g = E.u->gadget_.sketch_impl;
  const hll_mode gm = g->getCurMode();
  const bool g_reports_empty = g->isEmpty();
  const bool flag = gm == HLL && static_cast<HllArray<A>*>(g)->isRebuildKxqCurminFlag();
  const unsigned glgk = g->getLgConfigK();
  if (op.empty()) { count(op.mode == M_HLL ? "offered_empty_hll_mode_operand" : "offered_empty_operand"); return; }
  const char* gs = g_reports_empty ? "empty" : (gm == LIST ? "list" : (gm == SET ? "set" : "hll"));
  count(std::string("impl_src_") + mode_name(op.mode) + "_gadget_" + gs + "_" + rel_name(op.lg_k, glgk));
  if (op.mode == M_HLL) count(std::string("src_hll_vs_lg_max_k_") + rel_name(op.lg_k, E.lg_max_k));
  if (flag) count("update_with_rebuild_flag_pending");
  if (g_reports_empty && E.any_offered) count("diag_gadget_reports_empty_though_items_offered");
  if (rvalue && g_reports_empty && op.type == 2 && op.lg_k <= E.lg_max_k && (op.mode == M_HLL || op.lg_k == E.lg_max_k)) count("rvalue_adopted_as_gadget");
  // scenario counters from harness knowledge only
  if (E.fresh == 1 && op.mode == M_HLL) count("downsample_first_then_hll");
  if (E.fresh == 1 && op.mode != M_HLL) count("downsample_first_then_coupon_operand");
  if (E.fresh == 2 && op.mode == M_HLL) count("downsample_gadget_then_hll");
  if (E.fresh != 0 && rvalue && op.type == 2) count("downsample_then_rvalue_hll8");
  // what this update will leave behind
  int nf = 0;
  if (op.mode == M_HLL) {
    if (!E.any_offered && op.lg_k > E.lg_max_k) nf = 1;
    else if (E.any_offered && gm != HLL && op.lg_k > E.lg_max_k) nf = 2;
    else if (E.any_offered && gm == HLL && op.lg_k < glgk) nf = 2;
  }
  E.fresh = nf;
  // the source is folded into a smaller register array (mergeHll with src_k > dst_k)
  const bool folded = op.mode == M_HLL && ((g_reports_empty || gm != HLL) ? op.lg_k > E.lg_max_k : op.lg_k > glgk);
  if (op.mode == M_HLL && !g_reports_empty && gm == HLL && op.lg_k < glgk) count("gadget_fold_gap_" + std::to_string(glgk - op.lg_k));
  if (op.has_ge32 && op.mode == M_HLL && !folded) count(std::string("same_k_merge_from_") + type_name(op.type) + "_operand_with_register_ge32");
  if (folded) {
    const unsigned tgt_lg = (g_reports_empty || gm != HLL) ? E.lg_max_k : glgk;
    count("fold_gap_" + std::to_string(op.lg_k - tgt_lg) + "_" + type_name(op.type));
    if (op.has_ge32) count(std::string("downsample_from_") + type_name(op.type) + "_operand_with_register_ge32");
    if (op.has_ge32 && op.ge32_mod4_3) count(std::string("downsample_from_") + type_name(op.type) + "_operand_with_register_ge32_slot_mod4_eq3");
    count(std::string("downsample_from_") + type_name(op.type) + "_operand");
    if (op.min_reg > 0) count(std::string("downsample_from_dense_") + type_name(op.type) + "_operand");
    if (op.type == 0 && op.cur_min > 0) count("downsample_from_hll4_operand_with_curmin_gt0");
    if (op.type == 0 && op.cur_min > 0 && gm == HLL && !g_reports_empty) count("downsample_from_hll4_operand_with_curmin_gt0_into_hll_gadget");
  }
  if (op.mode == M_HLL && !folded && op.type == 0 && op.cur_min > 0) count("same_k_merge_from_hll4_operand_with_curmin_gt0");
  if (op.all_at_curmin) {
    count("offered_hll4_operand_with_all_slots_at_curmin");
    if (g_reports_empty && !folded) count("hll4_all_slots_at_curmin_copied_into_empty_gadget");
    if (!g_reports_empty) count("hll4_all_slots_at_curmin_merged_into_nonempty_gadget");
  }
  if (nf == 1) count("downsample_first_operand");
  if (nf == 2) count("downsample_later");
}

// After reset() the property does not say whether precision given up earlier returns, and the library keeps the reduced
// lg_k when raw items / LIST / SET inputs follow: that continuation stays under the relaxed rule.  But when the FIRST
// non-empty input after the reset is an HLL-mode sketch, the earlier inputs are no longer part of the union and the
// statement applies in full: lg_k == min(lg_max_k, lg_k of the HLL-mode inputs since the reset).
static void epoch_rule(Engine& E, const Operand& op, bool rvalue) {
  if (!E.reset_seen || !E.epoch_open || op.empty()) return;
  E.epoch_open = false;
  if (!op.raw && op.mode == M_HLL) {
    E.relaxed = false;
    E.first_hll_by_rvalue = rvalue;
    E.exp_lg_k = E.lg_max_k;          // offer() lowers it to op.lg_k if that is smaller
    const unsigned stale = E.u->get_lg_config_k();
    count(rvalue ? "reset_then_hll_first_rvalue" : "reset_then_hll_first_lvalue");
    if (std::min(op.lg_k, E.lg_max_k) > stale) count(rvalue ? "reset_then_hll_first_above_stale_gadget_lg_k_rvalue" : "reset_then_hll_first_above_stale_gadget_lg_k_lvalue");
  } else {
    E.relaxed = true;
    count("reset_then_coupon_or_raw_first");
  }
}

static void do_reset(Engine& E) {
  E.u->reset();
  E.offered.clear(); E.any_offered = false; E.reset_seen = true; E.fresh = 0; E.trace += "RESET ";
  E.epoch_open = true; E.relaxed = true;
  count("resets");
}

static void offer(Engine& E, const Operand& op, bool rvalue) {
  epoch_rule(E, op, rvalue);
  if (op.raw) {
    for (const Val& v : op.items) apply_update(*E.u, v);
    if (!op.items.empty()) E.fresh = 0;
    count("raw_batches");
    count("raw_updates", op.items.size());
    E.trace += "R" + std::to_string(op.items.size()) + " ";
  } else {
    classify(E, op, rvalue);
    if (rvalue) {
      hll_sketch tmp(*op.sk);
      E.u->update(std::move(tmp));
      count("rvalue_updates");
      // tmp (moved-from, possibly holding the former gadget) is destroyed here
    } else {
      E.u->update(*op.sk);
      count("lvalue_updates");
    }
    E.trace += std::string(rvalue ? "M(" : "S(") + op.desc + ") ";
    if (op.mode == M_HLL && !op.empty() && op.lg_k < E.exp_lg_k) E.exp_lg_k = op.lg_k;
    if (op.mode == M_HLL && !op.empty()) E.hll_input_seen = true;
  }
  E.offered.insert(E.offered.end(), op.coupons.begin(), op.coupons.end());
  if (!op.coupons.empty()) E.any_offered = true;
}

// interleaved read-only calls (the estimate family triggers the deferred rebuild inside the gadget)
static void poke(Engine& E, Rng& r) {
  const uint64_t w = r.below(8);
  switch (w) {
    case 0: (void)E.u->get_estimate(); E.fresh = 0; E.trace += "e "; break;
    case 1: (void)E.u->get_composite_estimate(); E.fresh = 0; E.trace += "c "; break;
    case 2: (void)E.u->get_lower_bound(static_cast<uint8_t>(1 + r.below(3))); E.fresh = 0; E.trace += "lb "; break;
    case 3: (void)E.u->get_upper_bound(static_cast<uint8_t>(1 + r.below(3))); E.fresh = 0; E.trace += "ub "; break;
    case 4: case 5: { hll_sketch t = E.u->get_result(tgt(static_cast<int>(r.below(3)))); (void)t.get_estimate(); E.trace += "g "; break; }
    case 6: (void)E.u->is_empty(); E.trace += "ie "; break;
    default: (void)E.u->get_lg_config_k(); (void)E.u->get_target_type(); E.trace += "k "; break;
  }
  count("interleaved_calls");
}

static void compare_content(const Engine& E, const Decoded& d, const std::string& chan, const std::string& ctx) {
  if (!d.err.empty()) { checked(); fail("union|result|" + chan + "|image-inconsistent", ctx + " " + d.err); return; }
  checked();
  Diff df;
  if (d.coupon_mode()) {
    VF_CHECK(!d.duplicate_coupon, "union|result|" + chan + "|duplicate-coupon", ctx);
    VF_CHECK(d.stored_count == d.coupons.size(), "union|result|" + chan + "|coupon-count-field-vs-coupons-present",
             ctx + " count-field=" + std::to_string(d.stored_count) + " coupons-present=" + std::to_string(d.coupons.size()));
    df = diff_coupons(d.coupons, sorted_distinct(E.offered));
  } else {
    std::vector<uint8_t> want(size_t(1) << d.lg_k, 0);
    fold_into(want, d.lg_k, E.offered);
    df = diff_registers(d.regs, want);
  }
  if (df.lost) fail("union|content|item-lost", ctx + " via=" + chan + " result-mode=" + mode_name(d.mode) + " lg_k=" + std::to_string(d.lg_k) + df.detail);
  if (df.extra) fail("union|content|item-never-offered", ctx + " via=" + chan + " result-mode=" + mode_name(d.mode) + " lg_k=" + std::to_string(d.lg_k) + df.detail);
}

static Final observe(Engine& E, Rng& r, bool final_obs, bool need8 = false) {
  Final F;
  const std::string ctx = E.ctx + " trace=[" + E.trace + "] offered=" + std::to_string(E.offered.size());
  count("observations");
  const unsigned ulgk = E.u->get_lg_config_k();
  if (!E.relaxed && E.reset_seen) {
    VF_CHECK(ulgk == E.exp_lg_k, std::string("union|lg_k|after-reset|first-input-hll-mode-by-") + (E.first_hll_by_rvalue ? "rvalue" : "lvalue") +
             "|not-min-of-lg_max_k-and-hll-mode-inputs-since-reset", ctx + " observed=" + std::to_string(ulgk) + " expected=" + std::to_string(E.exp_lg_k));
  } else if (!E.relaxed) {
    VF_CHECK(ulgk == E.exp_lg_k, "union|lg_k|not-min-of-lg_max_k-and-hll-mode-operands", ctx + " observed=" + std::to_string(ulgk) + " expected=" + std::to_string(E.exp_lg_k));
  } else {
    VF_CHECK(ulgk <= E.lg_max_k && ulgk >= 4, "union|lg_k|outside-4..lg_max_k-after-reset", ctx + " observed=" + std::to_string(ulgk));
  }
  const int only = final_obs ? -1 : static_cast<int>(r.below(3));
  double comp[3] = {-1, -1, -1};
  for (int t = 2; t >= 0; --t) {
    if (only >= 0 && t != only && !(need8 && t == 2)) continue;
    const std::string tctx = ctx + " get_result(" + type_name(t) + ")";
    std::unique_ptr<hll_sketch> resp;
    try { resp.reset(new hll_sketch(E.u->get_result(tgt(t)))); }
    catch (const std::exception& e) { checked(); fail(std::string("union|get_result|") + type_name(t) + "|conversion-threw", tctx + " what=" + e.what()); continue; }
    hll_sketch& res = *resp;
    if (t == 0) { size_t ge15 = 0; for (uint32_t c : E.offered) ge15 += cp_value(c) >= 15; if (ge15 > 48) count("get_result_hll4_with_more_than_48_offered_values_ge15"); }
    VF_CHECK(res.get_target_type() == tgt(t), "union|get_result|target-type", tctx);
    VF_CHECK(res.get_lg_config_k() == ulgk, "union|get_result|lg_k-differs-from-union", tctx + " result=" + std::to_string(res.get_lg_config_k()) + " union=" + std::to_string(ulgk));
    Decoded d = read_native(res);
    compare_content(E, d, std::string("own-image-") + type_name(t), tctx);
    if (d.err.empty()) {
      VF_CHECK(d.type == t, "union|get_result|image-target-type", tctx);
      count(std::string("result_mode_") + mode_name(d.mode));
      count(std::string("result_type_") + type_name(t));
    }
    if (t != 2 && (final_obs || r.chance(0.3))) {
      Decoded d8 = read_as_hll8(res);
      compare_content(E, d8, std::string("hll8-copy-of-") + type_name(t), tctx);
    }
    if (d.err.empty() && (d.coupon_mode() || (!E.reset_seen && !E.hll_input_seen))) {
      const std::vector<uint32_t> model = sorted_distinct(E.offered);
      SingleSketchRef& ref = single_sketch_ref(d.lg_k);
      if (d.coupon_mode()) {
        // compact image: count field, coupons present, coupon set
        auto cb = res.serialize_compact();
        Decoded dc = decode_compact(cb.data(), cb.size());
        if (!dc.err.empty()) { checked(); fail(std::string("union|result|compact-image-") + type_name(t) + "|image-inconsistent", tctx + " " + dc.err); }
        else {
          VF_CHECK(dc.mode == d.mode && dc.lg_k == d.lg_k, std::string("union|result|compact-image-") + type_name(t) + "|mode-or-lg_k-differs-from-updatable-image", tctx);
          VF_CHECK(dc.stored_count == dc.coupons.size(), std::string("union|result|compact-image-") + type_name(t) + "|coupon-count-field-vs-coupons-present",
                   tctx + " count-field=" + std::to_string(dc.stored_count) + " coupons-present=" + std::to_string(dc.coupons.size()));
          VF_CHECK(!dc.duplicate_coupon && dc.coupons == model, std::string("union|result|compact-image-") + type_name(t) + "|coupon-set-differs-from-model",
                   tctx + diff_coupons(dc.coupons, model).detail);
        }
        // in coupon mode the estimate is a function of the number of distinct coupons: same as the single sketch's
        double want = 0;
        if (ref.estimate_for(model.size(), &want)) {
          const double got = res.get_estimate(), gotc = res.get_composite_estimate();
          VF_CHECK(rel_eq(got, want, 1e-12) && rel_eq(gotc, want, 1e-12), "union|result|coupon-mode|estimate-differs-from-single-sketch-with-the-same-distinct-coupons",
                   tctx + " distinct-coupons=" + std::to_string(model.size()) + " estimate=" + str(got) + " composite=" + str(gotc) + " single-sketch=" + str(want));
          count("coupon_mode_estimate_vs_single_sketch");
        }
      }
      // no HLL-mode input and no reset so far: the gadget has been a lazily started sketch of lg_max_k fed coupons only,
      // so it is in the mode of the single sketch that saw the same items
      if (!E.reset_seen && !E.hll_input_seen) {
        const int want_mode = ref.mode_for(model.size());
        VF_CHECK(d.mode == want_mode, "union|result|mode-differs-from-single-sketch-fed-the-same-items",
                 tctx + " result-mode=" + mode_name(d.mode) + " single-sketch-mode=" + mode_name(want_mode) + " distinct-coupons=" + std::to_string(model.size()));
        count("result_mode_vs_single_sketch");
      }
    }
    VF_CHECK(res.is_empty() == !E.any_offered, "union|result|is_empty", tctx + " reported=" + (res.is_empty() ? "empty" : "non-empty"));
    comp[t] = res.get_composite_estimate();
    if (t == 2 && d.err.empty()) { F.valid = true; F.lg_k = d.lg_k; F.mode = d.mode; F.coupons = d.coupons; F.regs = d.regs; }
  }
  // results of the three types hold identical content, so (C03) their composite estimates agree: a result
  // whose estimator registers were not brought up to date with its registers shows up here
  for (int t = 0; t < 2; ++t) {
    if (comp[t] < 0 || comp[2] < 0) continue;
    VF_CHECK(rel_eq(comp[t], comp[2], 1e-12), "union|get_result|composite-estimate-differs-across-result-types",
             ctx + " " + type_name(t) + "=" + str(comp[t]) + " hll8=" + str(comp[2]));
    count("result_composite_comparisons");
  }
  VF_CHECK(E.u->is_empty() == !E.any_offered, "union|is_empty", ctx + " reported=" + (E.u->is_empty() ? "empty" : "non-empty"));
  return F;
}

static void new_engine(Engine& E, unsigned lg_max_k, const std::string& ctx) {
  E = Engine();
  E.lg_max_k = lg_max_k; E.exp_lg_k = lg_max_k; E.ctx = ctx;
  E.u.reset(new hll_union(static_cast<uint8_t>(lg_max_k)));
}

struct Cfg { uint64_t salt; int fixed_kind; };

static Val make_val(const Cfg& c, uint64_t id) {
  Rng r2(mix64(c.salt, id));
  return gen_val(r2, 1ULL << 40, c.fixed_kind);
}

void run_case(uint64_t idx, Rng& r) {
  const bool T = G().thorough();
  const unsigned LGMAX = T ? 21 : 13;
  unsigned lg_max_k = static_cast<unsigned>((T && r.chance(0.12)) ? r.range(14, 21) : r.range(4, 13));
  Cfg cfg; cfg.salt = r.next(); cfg.fixed_kind = r.chance(0.6) ? -1 : static_cast<int>(r.pick({int(V_U64), int(V_I64), int(V_F64), int(V_STR), int(V_BYTES), int(V_I32), int(V_F32)}));
  // gap cases: a fixed handful per run (case index 0..3) with an HLL-mode operand of lg_k 20/21 (started full-size, 2e5
  // inputs) folded by 16 or 17 bits, either directly (lg_max_k 4/5) or as the gadget shrunk by a later lg_k 4/5 operand;
  // thorough additionally sweeps every fold gap 1..17 x source type x both roles (case index 4..207)
  const bool gap_fixed = idx < 4;
  const bool gap_sweep = T && idx >= 4 && idx < 4 + 17 * 3 * 2 * 2;
  const bool gap_case = gap_fixed || gap_sweep;
  size_t nops = static_cast<size_t>(r.range(2, 6));
  size_t gap_at = 99, gap_small_at = 99;
  unsigned gap_src = 0, gap_small = 0; int gap_type = 2; uint64_t gap_cnt = 0;
  if (gap_case) {
    int role = 0; unsigned gap = 16;
    if (gap_fixed) {
      switch (idx) {
        case 0: gap_src = 20; gap = 16; gap_type = 2; role = 0; break;
        case 1: gap_src = 21; gap = 17; gap_type = 2; role = 0; break;
        case 2: gap_src = 21; gap = 16; gap_type = 2; role = 1; break;
        default: gap_src = 20; gap = 16; gap_type = static_cast<int>(r.below(2)); role = 1; break;
      }
    } else {
      const uint64_t j = idx - 4;
      gap = 1 + static_cast<unsigned>(j % 17); gap_type = static_cast<int>((j / 17) % 3); role = static_cast<int>((j / 51) % 2);
      gap_src = static_cast<unsigned>(r.range(gap + 4, 21));
    }
    nops = role == 0 ? static_cast<size_t>(r.range(2, 3)) : static_cast<size_t>(r.range(2, 3));
    gap_at = 0;
    if (role == 0) lg_max_k = gap_src - gap;
    else { lg_max_k = gap_src; gap_small = gap_src - gap; gap_small_at = 1; }
    gap_cnt = std::min<uint64_t>(200000, std::max<uint64_t>(64, 6ULL << gap_src));
    cfg.fixed_kind = V_U64;
    count("gap_cases");
  }
  const bool scenario = !gap_case && r.chance(0.12) && lg_max_k < LGMAX;   // first operand must be down-sampled, second is HLL-mode
  // dense scenario: an operand filled past ~k ln k (every slot hit, HLL_4 cur_min > 0) that must be folded down:
  //   variant 1: its lg_k is above lg_max_k;  variant 2: another HLL-mode operand of smaller lg_k shrinks the gadget
  const int dense_variant = (!gap_case && !scenario && r.chance(0.16)) ? 1 + static_cast<int>(r.below(2)) : 0;
  size_t dense_at = nops, small_at = nops;
  unsigned dense_lg_k = 0;
  if (dense_variant == 1) { lg_max_k = static_cast<unsigned>(r.range(4, 8)); dense_lg_k = static_cast<unsigned>(std::min<int64_t>(10, lg_max_k + (r.chance(0.6) ? 1 : r.range(2, 3)))); dense_at = r.below(nops); }
  if (dense_variant == 2) {
    dense_lg_k = static_cast<unsigned>(r.range(5, 9)); lg_max_k = static_cast<unsigned>(r.range(dense_lg_k, 13));
    dense_at = r.below(nops); small_at = (dense_at + 1 + r.below(nops - 1)) % nops;
  }
  // level scenario: an operand (lg_k 4..7, mostly HLL_4) whose inputs were selected with the reference hash so that every
  // slot sits at exactly one value v (HLL_4: cur_min = v, all slots at cur_min), presented to a union that copies /
  // converts it (lg_max_k >= its lg_k) or folds it
  const bool level_case = !gap_case && !scenario && dense_variant == 0 && r.chance(0.08);
  const size_t level_at = level_case ? r.below(nops) : nops;
  unsigned level_lg_k = 0;
  if (level_case) { level_lg_k = static_cast<unsigned>(r.range(4, 7)); if (r.chance(0.75)) lg_max_k = static_cast<unsigned>(r.range(level_lg_k, 10)); else lg_max_k = static_cast<unsigned>(r.range(4, level_lg_k)); }
  // rare scenario: an HLL-mode operand (HLL_6 half of the time) one or two bits above lg_max_k that holds one of the
  // hard-coded rare inputs with coupon value >= 32 (mostly one whose slot index is 3 mod 4) and is folded by the union
  const bool rare_case = !gap_case && !scenario && dense_variant == 0 && !level_case && !rare_keys().empty() && r.chance(0.12);
  size_t rare_at = 99;
  if (rare_case) { lg_max_k = static_cast<unsigned>(r.range(4, 11)); rare_at = r.below(nops); count("rare_scenario_cases"); }
  if (rare_keys().size() < 2) count("rare_keys_failed_verification");
  // coupon scenario: lg_max_k >= 8 and only raw batches / LIST- and SET-mode sketches (equal and different lg_k), sized so
  // that the gadget spends the program in SET mode (or just crosses into HLL by its own promotion)
  const bool coupon_case = !gap_case && !scenario && dense_variant == 0 && !level_case && !rare_case && r.chance(0.12);
  if (coupon_case) { lg_max_k = static_cast<unsigned>(r.range(8, std::min<unsigned>(LGMAX, 13))); count("coupon_scenario_cases"); }
  const uint64_t coupon_budget = coupon_case ? (3ULL << (lg_max_k - 3)) / 4 : 0;      // aims at modes only; modes are observed
  std::vector<Operand> ops(nops);
  // planted pair of inputs whose coupons share the full 26-bit address but differ in value (two distinct coupons in
  // coupon mode, one register in HLL mode): the two halves go to the same or to different operands
  const bool plant = r.chance(0.3) && !same_address_pairs().empty();
  const AddrPair plant_pair = plant ? same_address_pairs()[r.below(same_address_pairs().size())] : AddrPair{0, 0, 0, 0};
  const size_t plant_hi_at = plant ? r.below(nops) : nops, plant_lo_at = plant ? r.below(nops) : nops;
  uint64_t universe = 0;
  bool any_big = lg_max_k >= 17;
  std::string cdesc = "lg_max_k=" + std::to_string(lg_max_k) + " ops=[";
  for (size_t i = 0; i < nops; ++i) {
    Operand& op = ops[i];
    op.raw = !(scenario && i < 2) && i != dense_at && i != small_at && i != level_at && i != gap_at && i != gap_small_at && i != rare_at && r.chance(0.2);
    std::vector<uint64_t> level_keys;
    uint64_t cnt;
    unsigned dense_target = 0;          // dense operands: feed until every slot holds at least this value (model), then a little more
    if (coupon_case) op.raw = r.chance(0.3);
    if (op.raw) {
      cnt = r.chance(0.5) ? r.below(12) : r.below(r.chance(0.2) ? 3000 : 300);
      if (coupon_case) cnt = r.chance(0.3) ? r.below(8) : 8 + r.below(std::max<uint64_t>(1, coupon_budget / (r.chance(0.15) ? 1 : nops)));
      op.desc = "raw";
    } else {
      // lg_k: near lg_max_k half of the time so that <, =, > all happen
      if (scenario && i == 0) op.lg_k = static_cast<unsigned>(r.range(lg_max_k + 1, std::min<unsigned>(LGMAX, lg_max_k + 4)));
      else if (r.chance(0.55)) op.lg_k = static_cast<unsigned>(std::min<int64_t>(LGMAX, std::max<int64_t>(4, static_cast<int64_t>(lg_max_k) + r.range(-3, 3))));
      else op.lg_k = static_cast<unsigned>((T && r.chance(0.1)) ? r.range(14, 21) : r.range(4, 13));
      op.type = static_cast<int>(r.below(3));
      op.full = r.chance(0.25);
      uint64_t k = 1ULL << op.lg_k;
      uint64_t thr = op.lg_k >= 8 ? (3 * (k >> 3)) / 4 : 8;     // used only to aim at a mode; the mode is then *observed*
      uint64_t want = r.below(100);
      if (scenario && i < 2) want = 99;
      bool dense = false;
      if (i == dense_at) { op.lg_k = dense_lg_k; dense = true; }
      else if (i == small_at) { op.lg_k = static_cast<unsigned>(r.chance(0.6) ? dense_lg_k - 1 : r.range(4, dense_lg_k - 1)); want = 99; }
      else if (op.lg_k <= 8 && want >= 48 && r.chance(0.2)) dense = true;
      if (dense) { op.full = r.chance(0.1); op.type = r.chance(0.5) ? 0 : static_cast<int>(1 + r.below(2)); }
      if (i == gap_at) { op.lg_k = gap_src; op.type = gap_type; op.full = true; dense = false; }
      if (i == gap_small_at) { op.lg_k = gap_small; want = 99; op.full = r.coin(); dense = false; }
      if (i == rare_at) {
        op.lg_k = static_cast<unsigned>(std::min<int64_t>(LGMAX, lg_max_k + r.range(1, 2))); want = 99; dense = false;
        const uint64_t tt = r.below(4); op.type = tt < 2 ? 1 : (tt == 2 ? 0 : 2);
      }
      k = 1ULL << op.lg_k; thr = op.lg_k >= 8 ? (3 * (k >> 3)) / 4 : 8;
      if (coupon_case) {
        op.full = false; dense = false;
        op.lg_k = r.chance(0.45) ? lg_max_k : static_cast<unsigned>(r.range(4, LGMAX > 13 ? 14 : 13));
        k = 1ULL << op.lg_k; thr = op.lg_k >= 8 ? (3 * (k >> 3)) / 4 : 8;
        const uint64_t cap = std::max<uint64_t>(1, std::min<uint64_t>(thr, coupon_budget / (r.chance(0.15) ? 1 : nops)));
        cnt = r.chance(0.4) ? 1 + r.below(7) : (op.lg_k >= 8 ? 1 + r.below(cap) : 1 + r.below(7));
      }
      else if (i == gap_at) cnt = gap_cnt;
      else if (i == level_at) {
        op.lg_k = level_lg_k; op.full = r.chance(0.1); op.type = r.chance(0.7) ? 0 : static_cast<int>(1 + r.below(2));
        level_keys = level_stream(r, op.lg_k, static_cast<unsigned>(1 + r.below(3)), static_cast<unsigned>(r.chance(0.5) ? 0 : r.below(3)));
        if (r.chance(0.3)) {
          // highfill operand: HLL_6/HLL_8 whose slots mostly hold values >= 15 (every one an exception once converted to HLL_4)
          op.type = static_cast<int>(1 + r.below(2)); op.full = r.coin();
          level_keys = high_value_keys();
          r.shuffle(level_keys);
          count("highfill_operands_built");
        }
        cnt = level_keys.size(); dense = false;
        count("level_operands_built");
      }
      else if (dense) {
        // n in [~k ln k, 40 k]: every slot hit, HLL_4 cur_min >= 1 (often 2..4)
        const double base_n = static_cast<double>(k) * (std::log(static_cast<double>(k)) + 1.0 + static_cast<double>(r.below(8)));
        cnt = std::min<uint64_t>(40 * k, static_cast<uint64_t>(base_n * (1.0 + r.unit())));
        if (r.chance(0.7)) { dense_target = static_cast<unsigned>(1 + r.below(3)); cnt = 40 * k; }   // stop shortly after the slot minimum reaches the target (just after a cur-min shift)
        count("dense_operands_built");
      }
      else if (want < 8) cnt = 0;
      else if (want < 28) cnt = 1 + r.below(7);
      else if (want < 48 && op.lg_k >= 8) cnt = 8 + r.below(thr > 9 ? thr - 8 : 1);
      else {
        if (op.full && r.chance(0.7)) cnt = 1 + r.below(2 * k > 4000 ? 4000 : 2 * k);      // full-size start: HLL mode with few items
        else cnt = thr * 3 / 2 + 8 + r.below(std::min<uint64_t>(2 * k, T ? 40000 : 5000));
        if (op.lg_k >= 17 && !op.full && !r.chance(0.25)) { op.full = true; cnt = 1 + r.below(5000); }   // real promotion at lg_k>=17 is expensive: mostly start full-size
      }
      if (op.lg_k >= 17) any_big = true;
    }
    // items: a window of the shared universe (overlaps between operands are likely)
    // (a dense operand mostly gets a window of its own: otherwise the other operands re-supply its registers)
    const uint64_t base = universe == 0 ? 0 : (((i == dense_at && r.chance(0.75)) || i == gap_at) ? universe : r.below(universe + 1));
    if (!op.raw) op.sk.reset(new hll_sketch(static_cast<uint8_t>(op.lg_k), tgt(op.type), op.full));
    std::vector<uint8_t> dregs;
    size_t below_target = 0;
    if (dense_target) { dregs.assign(size_t(1) << op.lg_k, 0); below_target = dregs.size(); }
    uint64_t ph = cnt, pl = cnt;        // positions of the planted inputs inside this operand (cnt = none)
    if (plant && cnt >= 2 && !dense_target && level_keys.empty()) {
      if (i == plant_hi_at) ph = r.below(cnt);
      if (i == plant_lo_at) { pl = r.below(cnt); if (pl == ph) pl = (pl + 1) % cnt; }
      if (ph < cnt || pl < cnt) count("planted_same_address_coupon_halves");
      if (ph < cnt && pl < cnt) count("planted_same_address_pair_in_one_operand");
    }
    uint64_t prare = cnt;               // position of a planted rare input (coupon value >= 32)
    RareKey rk{0, 0};
    if (!op.raw && cnt >= 1 && !dense_target && level_keys.empty() && !rare_keys().empty() && (i == rare_at || r.chance(0.04))) {
      const auto& rks = rare_keys();
      rk = rks[r.below(rks.size())];
      if (i == rare_at && r.chance(0.7)) for (const auto& q : rks) if ((q.coupon & 3u) == 3u && r.chance(0.6)) { rk = q; break; }
      prare = r.below(cnt);
      if (prare == ph || prare == pl) prare = cnt; else { op.has_ge32 = true; op.ge32_mod4_3 = (rk.coupon & 3u) == 3u; count("rare_value_ge32_inputs_planted"); }
    }
    for (uint64_t j = 0; j < cnt; ++j) {
      Val v;
      if (!level_keys.empty()) { v.kind = V_U64; v.u = level_keys[j]; } else v = make_val(cfg, base + j);
      if (j == ph) { v = Val(); v.kind = V_U64; v.u = plant_pair.x_hi; }
      if (j == pl) { v = Val(); v.kind = V_U64; v.u = plant_pair.x_lo; }
      if (j == prare) { v = Val(); v.kind = V_U64; v.u = rk.x; }
      if (!v.ignored()) {
        const uint32_t c = coupon_of(v);
        op.coupons.push_back(c);
        if (dense_target) {
          uint8_t& rg = dregs[cp_slot(c, op.lg_k)];
          const uint8_t nv = static_cast<uint8_t>(cp_value(c));
          if (nv > rg) { if (rg < dense_target && nv >= dense_target) --below_target; rg = nv; }
          if (below_target == 0) { cnt = std::min<uint64_t>(cnt, j + 1 + r.below((dregs.size() >> 2) + 1)); dense_target = 0; }
        }
      }
      if (op.raw) op.items.push_back(v); else apply_update(*op.sk, v);
    }
    universe = std::max<uint64_t>(universe, base + cnt);
    if (!op.raw) {
      Decoded d = read_native(*op.sk);
      op.mode = d.err.empty() ? d.mode : -1;
      if (d.err.empty() && d.mode == M_HLL) {
        op.cur_min = d.type == 0 ? d.cur_min : 0;
        op.min_reg = d.regs.empty() ? 0 : *std::min_element(d.regs.begin(), d.regs.end());
        if (op.type == 0 && op.cur_min > 0) count("operand_hll4_curmin_gt0");
        if (op.type == 0 && op.cur_min > 0 && d.num_at_cur_min == (1u << op.lg_k)) { op.all_at_curmin = true; count("operand_hll4_all_slots_exactly_at_curmin"); }
        if (op.type == 0 && op.cur_min > 1) count("operand_hll4_curmin_gt1");
        if (op.min_reg > 0) count("operand_dense_all_slots_hit");
      }
      op.desc = "lg" + std::to_string(op.lg_k) + "," + type_name(op.type) + (op.full ? "F" : "") + "," + mode_name(op.mode) + "," + std::to_string(cnt);
      count(std::string("operand_") + mode_name(op.mode) + (op.empty() ? "_empty" : ""));
      count(std::string("operand_") + type_name(op.type));
    }
    cdesc += op.desc + (op.raw ? std::to_string(cnt) : "") + (i + 1 < nops ? " | " : "");
  }
  cdesc += "]";
  describe(cdesc);

  // ---------------------------------------------------------------- base program (may contain resets)
  {
    Engine E; new_engine(E, lg_max_k, cdesc + " base");
    const bool silent = scenario ? r.chance(0.7) : r.chance(0.35);
    const double p_rv = r.pick({0.0, 0.5, 1.0});
    const bool with_reset = !scenario && r.chance(0.3);
    const size_t reset_at = with_reset ? static_cast<size_t>(r.below(nops)) + 1 : 0;   // after that many operands
    if (r.chance(0.3)) observe(E, r, false);     // empty union
    std::vector<size_t> seq;
    for (size_t i = 0; i < nops; ++i) seq.push_back(i);
    if (with_reset) for (size_t i = 0; i < nops; ++i) if (r.chance(0.4)) seq.push_back(r.below(nops));   // re-offer some operands after the reset
    for (size_t s = 0; s < seq.size(); ++s) {
      offer(E, ops[seq[s]], r.chance(p_rv));
      if (!silent) { while (r.chance(0.45)) poke(E, r); if (r.chance(0.6)) observe(E, r, false); }
      if (with_reset && s + 1 == reset_at) {
        do_reset(E);
        if (r.chance(0.5)) observe(E, r, false);
      }
    }
    Final F = observe(E, r, !any_big, true);
    count(silent ? "silent_runs" : "chatty_runs");
    if (F.valid) sig(mix64(mix64(lg_max_k, F.lg_k * 4 + static_cast<uint64_t>(F.mode)), mix64(E.offered.size(), nops)));
    if (want_sample()) sample("{\"config\":" + jstr(cdesc) + ",\"base_trace\":" + jstr(E.trace) + ",\"result_lg_k\":" + std::to_string(F.lg_k) +
                              ",\"result_mode\":" + jstr(mode_name(F.mode)) + ",\"estimate\":" + str(E.u->get_estimate()) + "}");
  }

  // ---------------------------------------------------------------- every permutation of the operands
  // In a quarter of the cases every presentation starts with an earlier life: an HLL-mode sketch of small lg_k (leaves the
  // gadget at a reduced lg_k), then reset().  Presentations whose first non-empty operand is an HLL-mode sketch are then
  // under the exact lg_k rule and are compared with each other; the others stay under the relaxed rule.
  Operand pre;
  const bool prelude = !any_big && lg_max_k > 4 && r.chance(0.25);
  if (prelude) {
    pre.lg_k = static_cast<unsigned>(r.range(4, lg_max_k - 1)); pre.type = static_cast<int>(r.below(3)); pre.full = true;
    pre.sk.reset(new hll_sketch(static_cast<uint8_t>(pre.lg_k), tgt(pre.type), true));
    const uint64_t pc = 1 + r.below(200);
    for (uint64_t j = 0; j < pc; ++j) { Val v = make_val(cfg, (1ULL << 30) + j); if (!v.ignored()) pre.coupons.push_back(coupon_of(v)); apply_update(*pre.sk, v); }
    if (pre.coupons.empty()) { Val v; v.kind = V_U64; v.u = 1; pre.coupons.push_back(coupon_of(v)); apply_update(*pre.sk, v); }
    pre.mode = M_HLL;
    pre.desc = "PRE lg" + std::to_string(pre.lg_k) + "," + type_name(pre.type) + "F";
    count("prelude_cases");
  }
  std::vector<size_t> perm(nops);
  for (size_t i = 0; i < nops; ++i) perm[i] = i;
  const size_t max_perms = any_big ? 4 : (nops <= 4 ? 24 : 12);
  Final first;
  std::string first_trace;
  size_t done = 0;
  auto run_perm = [&](const std::vector<size_t>& p) {
    Engine E; new_engine(E, lg_max_k, cdesc + " perm");
    const bool silent = r.chance(0.5);
    const double p_rv = r.pick({0.0, 0.5, 1.0});
    const bool step_obs = !silent && !any_big && r.chance(0.5);
    if (prelude) {
      offer(E, pre, r.coin());
      if (!silent && r.chance(0.3)) poke(E, r);
      do_reset(E);
    }
    for (size_t s = 0; s < p.size(); ++s) {
      offer(E, ops[p[s]], r.chance(p_rv));
      if (!silent) { while (r.chance(0.35)) poke(E, r); if (step_obs) observe(E, r, false); }
    }
    Final F = observe(E, r, !any_big && r.chance(0.5), true);
    count("perm_runs"); count(silent ? "silent_runs" : "chatty_runs");
    if (p_rv == 0.0) count("all_lvalue_runs"); else if (p_rv == 1.0) count("all_rvalue_runs");
    if (F.valid) {
      if (E.relaxed) count("presentations_under_relaxed_lg_k_rule");     // lg_k may legitimately differ: not cross-compared
      else if (!first.valid) { first = F; first_trace = E.trace; }
      else {
        const std::string c2 = cdesc + " A=[" + first_trace + "] B=[" + E.trace + "]";
        VF_CHECK(F.lg_k == first.lg_k, prelude ? "union|order-dependence|after-reset|lg_k-differs-between-presentations" : "union|order-dependence|lg_k-differs-between-presentations", c2 + " " + std::to_string(first.lg_k) + " vs " + std::to_string(F.lg_k));
        if (F.lg_k == first.lg_k && F.mode == M_HLL && first.mode == M_HLL)
          VF_CHECK(F.regs == first.regs, "union|order-dependence|registers-differ-between-presentations", c2 + diff_registers(F.regs, first.regs).detail);
        if (F.mode != M_HLL && first.mode != M_HLL)
          VF_CHECK(F.coupons == first.coupons, "union|order-dependence|coupons-differ-between-presentations", c2 + diff_coupons(F.coupons, first.coupons).detail);
        count("cross_presentation_comparisons");
      }
      sig(mix64(mix64(lg_max_k, F.lg_k * 4 + static_cast<uint64_t>(F.mode)), mix64(E.offered.size(), mix64(p[0], p[p.size() - 1]))));
    }
    ++done;
  };
  if (nops <= 4 && (!any_big || gap_case)) {
    do { run_perm(perm); } while (std::next_permutation(perm.begin(), perm.end()));
    count("exhaustive_permutation_cases");
  } else {
    run_perm(perm);
    while (done < max_perms) { r.shuffle(perm); run_perm(perm); }
    count("sampled_permutation_cases");
  }
  count(std::string("lg_max_k_") + (lg_max_k < 8 ? "4_7" : (lg_max_k <= 13 ? "8_13" : "14_21")));
  if (scenario) count("scenario_cases");
  if (level_case) count("level_scenario_cases");
  if (plant) count("planted_same_address_coupon_pairs");
  if (dense_variant) count("dense_scenario_cases_v" + std::to_string(dense_variant));
  (void)idx;
}

} // namespace vf
