// C10 (unit C2: t-digest, Bloom filter, density) — images keep the documented cross-language layout; old images stay readable.
// See vf/c10_monitor.hpp for the case space, vf/c10_decode.hpp for the independent decoders.  Compiled with -fno-access-control.
#define C10_C2
#include "vf/c10_fam_c.hpp"
#include "vf/c10_monitor.hpp"

namespace vf { namespace c10 {
void register_unit_families() { register_group_c(); }
uint64_t random_cases(bool thorough) { return thorough ? 100000 : 1500; }
// ---------------------------------------------------------------- t-digest reference-implementation formats (big endian), synthesised
// verbose ("asBytes"):      i32 1 | f64 min | f64 max | f64 compression | i32 numCentroids | (f64 weight, f64 mean)*
// compact ("asSmallBytes"): i32 2 | f64 min | f64 max | f32 compression | i16 centroid capacity, i16 buffer capacity | i16 numCentroids |
//                           (f32 weight, f32 mean)*
template<typename T> static void legacy_tdigest_case(int form, int rep) {
  Rng r(0x7D16 + 17 * form + rep);
  const uint16_t k = rep % 2 ? 100 : 37;
  const uint32_t nc = rep == 0 ? 1 : uint32_t(2 + r.below(60));
  std::vector<double> means; std::vector<uint64_t> ws;
  double m = -50.0;
  for (uint32_t i = 0; i < nc; ++i) { m += 0.5 + double(r.below(64)) * 0.25; means.push_back(m); ws.push_back(i == 0 || i + 1 == nc ? 1 : 1 + r.below(40)); }
  const double mn = means.front(), mx = means.back();
  uint64_t total = 0; for (uint64_t x : ws) total += x;
  Wr w;
  if (form == 1) { w.u32be(1).f64be(mn).f64be(mx).f64be(double(k)).u32be(nc); for (uint32_t i = 0; i < nc; ++i) w.f64be(double(ws[i])).f64be(means[i]); }
  else { w.u32be(2).f64be(mn).f64be(mx).f32be(float(k)).u16be(uint16_t(2 * k + 10)).u16be(uint16_t(5 * k)).u16be(uint16_t(nc)); for (uint32_t i = 0; i < nc; ++i) w.f32be(float(ws[i])).f32be(float(means[i])); }
  for (int stream = 0; stream < 2; ++stream) {
    const std::string P = stream ? "stream" : "bytes";
    const std::string key = std::string("legacy|tdigest|reference-format-") + (form == 1 ? "verbose" : "compact") + "|" + (sizeof(T) == 8 ? "double" : "float") + "|" + P + "|";
    try {
      const tdigest<T> s = read_tdigest<T>(w.b, stream != 0);
      VF_CHECK(s.get_k() == k, key + "k", "got " + std::to_string(s.get_k()));
      VF_CHECK(s.get_total_weight() == total, key + "total-weight", "got " + std::to_string(s.get_total_weight()) + " want " + std::to_string(total));
      VF_CHECK(s.get_min_value() == static_cast<T>(mn) && s.get_max_value() == static_cast<T>(mx), key + "min-max", "");
      std::vector<T> gm; std::vector<uint64_t> gw;
      for (const auto& c : s.centroids_) { gm.push_back(c.get_mean()); gw.push_back(c.get_weight()); }
      std::vector<T> wm; for (double x : means) wm.push_back(static_cast<T>(x));
      VF_CHECK(same_bits(gm, wm) && gw == ws, key + "centroids", "got " + std::to_string(gm.size()) + " want " + std::to_string(nc));
      VF_CHECK(s.get_rank(static_cast<T>(mx + 1)) == 1.0 && s.get_rank(static_cast<T>(mn - 1)) == 0.0, key + "rank-outside-range", "");
    } catch (const std::exception& e) { checked(); fail(key + "deserialize-threw", e.what()); }
    count("legacy_tdigest_" + P);
  }
  sig(img_hash(w.b));
}

// ---------------------------------------------------------------- t-digest current format, every form, synthesised
// byte0 preLongs (1 empty/single, 2) 1 serVer=1 2 type=20 3-4 k 5 flags (bit0 empty, bit1 single value, bit2 reverse merge) 6-7 unused |
// single: value | else u32 numCentroids u32 numBuffered | min max | (mean, weight)* | buffered values*
template<typename T> static void synth_tdigest(int form, int rep) {
  Rng r(0x7D20 + 11 * form + rep);
  const uint16_t k = rep & 1 ? 200 : 25;
  const bool rev = rep & 2;
  std::vector<T> means, buf; std::vector<uint64_t> ws;
  static const char* names[] = {"empty", "single-value-short-form", "centroids-only", "centroids-and-buffer", "one-buffered-value-long-form"};
  if (form == 1) { means.push_back(T(42.5)); ws.push_back(1); }
  if (form == 2 || form == 3) { double m = -10; const uint32_t nc = 2 + uint32_t(r.below(40)); for (uint32_t i = 0; i < nc; ++i) { m += 0.25 + double(r.below(32)) * 0.125; means.push_back(T(m)); ws.push_back(i == 0 || i + 1 == nc ? 1 : 1 + r.below(30)); } }
  if (form == 3) for (uint32_t i = 0, nb = 1 + uint32_t(r.below(10)); i < nb; ++i) buf.push_back(T(double(r.below(400)) * 0.125 - 20.0));
  if (form == 4) buf.push_back(T(-3.25));
  T mn = 0, mx = 0; bool first = true; uint64_t total = buf.size();
  for (T v : means) { if (first || v < mn) mn = v; if (first || v > mx) mx = v; first = false; }
  for (T v : buf) { if (first || v < mn) mn = v; if (first || v > mx) mx = v; first = false; }
  for (uint64_t x : ws) total += x;
  auto put = [](Wr& w, T v) { if (sizeof(T) == 8) w.f64(double(v)); else w.f32(float(v)); };
  Wr w;
  if (form == 0) w.u8(1).u8(1).u8(20).u16(k).u8(1).u16(0);
  else if (form == 1) { w.u8(1).u8(1).u8(20).u16(k).u8(uint8_t(2 | (rev ? 4 : 0))).u16(0); put(w, means[0]); }
  else {
    w.u8(2).u8(1).u8(20).u16(k).u8(rev ? 4 : 0).u16(0).u32(uint32_t(means.size())).u32(uint32_t(buf.size())); put(w, mn); put(w, mx);
    for (size_t i = 0; i < means.size(); ++i) { put(w, means[i]); if (sizeof(T) == 8) w.u64(ws[i]); else w.u32(uint32_t(ws[i])); }
    for (T v : buf) put(w, v);
  }
  for (int stream = 0; stream < 2; ++stream) {
    const std::string P = stream ? "stream" : "bytes";
    const std::string key = std::string("legacy|tdigest|synthesised-") + names[form] + "|" + (sizeof(T) == 8 ? "double" : "float") + "|" + P + "|";
    try {
      tdigest<T> s = read_tdigest<T>(w.b, stream != 0);
      VF_CHECK(s.get_k() == k && s.is_empty() == (form == 0) && s.get_total_weight() == total, key + "k-empty-or-weight", "weight " + std::to_string(s.get_total_weight()) + " want " + std::to_string(total));
      if (form != 0) {
        VF_CHECK(s.get_min_value() == mn && s.get_max_value() == mx, key + "min-max", "");
        std::vector<std::pair<T, uint64_t>> got, want;
        for (const auto& c : s.centroids_) got.push_back({c.get_mean(), c.get_weight()});
        for (T v : s.buffer_) got.push_back({v, 1});
        for (size_t i = 0; i < means.size(); ++i) want.push_back({means[i], ws[i]});
        for (T v : buf) want.push_back({v, 1});
        std::stable_sort(got.begin(), got.end()); std::stable_sort(want.begin(), want.end());
        VF_CHECK(got == want, key + "centroids-and-buffered-values", "got " + std::to_string(got.size()) + " want " + std::to_string(want.size()));
        VF_CHECK(s.get_rank(T(mx + 1)) == 1.0 && s.get_rank(T(mn - 1)) == 0.0, key + "rank-outside-range", "");
        s.update(T(mx + 5));
        VF_CHECK(s.get_total_weight() == total + 1 && s.get_max_value() == T(mx + 5), key + "usable-after-read", "");
      }
    } catch (const std::exception& e) { checked(); fail(key + "deserialize-threw", e.what()); }
    count("legacy_tdigest_current_" + P);
  }
  count(std::string("legacy_tdigest_") + names[form]);
  sig(img_hash(w.b));
}

// ---------------------------------------------------------------- Bloom filter images synthesised from the documented layout
// byte0 preLongs (3 empty, 4) 1 serVer=1 2 family=21 3 flags (4 empty) 4-5 numHashes 6-7 unused | u64 seed | u32 bitArrayLongs u32 unused |
// [u64 numBitsSet (all ones = not counted) | bit array]   — an empty filter is the 24-byte preamble without the bit count
static void synth_bloom(int rep) {
  Rng r(0xB100F + rep);
  const bool empty = rep < 2;
  const uint64_t seed = rep & 1 ? 0xfeedfacecafeULL : 9001;
  const uint16_t nh = uint16_t(1 + rep); const uint32_t longs = 1 + uint32_t(r.below(20)); const uint64_t m = uint64_t(longs) * 64;
  std::vector<uint8_t> bits(m / 8, 0); std::vector<uint64_t> items;
  auto idx = [&](uint64_t x, std::vector<uint64_t>& out) { uint8_t b[8]; for (int i = 0; i < 8; ++i) b[i] = uint8_t(x >> (8 * i)); const uint64_t h0 = ref_xxh64(b, 8, seed), h1 = ref_xxh64(b, 8, h0); for (uint64_t i = 1; i <= nh; ++i) out.push_back(((h0 + i * h1) >> 1) % m); };
  if (!empty) for (int i = 0; i < 25; ++i) { items.push_back(r.next()); std::vector<uint64_t> ix; idx(items.back(), ix); for (uint64_t j : ix) bits[j >> 3] |= uint8_t(1u << (j & 7)); }
  uint64_t pop = 0; for (uint8_t b : bits) pop += __builtin_popcount(b);
  const bool counted = rep & 2;
  Wr w; w.u8(empty ? 3 : 4).u8(1).u8(21).u8(empty ? 4 : 0).u16(nh).u16(0).u64(seed).u32(longs).u32(0);
  if (!empty) { w.u64(counted ? pop : UINT64_MAX); for (uint8_t b : bits) w.u8(b); }
  for (int stream = 0; stream < 2; ++stream) {
    const std::string P = stream ? "stream" : "bytes";
    const std::string key = std::string("legacy|bloom|synthesised-") + (empty ? "empty-24-bytes" : counted ? "with-bit-count" : "bit-count-not-stored") + "|" + P + "|";
    try {
      bloom_filter s = read_bloom(w.b, stream != 0);
      VF_CHECK(s.get_capacity() == m && s.get_num_hashes() == nh && s.get_seed() == seed && s.is_empty() == empty, key + "configuration", "");
      VF_CHECK(s.get_bits_used() == pop, key + "bits-used", std::to_string(s.get_bits_used()) + " vs " + std::to_string(pop));
      bool ok = true;
      for (uint64_t x : items) ok = ok && s.query(x);
      Rng pr(77);
      for (int i = 0; i < 200; ++i) { const uint64_t x = pr.next(); std::vector<uint64_t> ix; idx(x, ix); bool all = true; for (uint64_t j : ix) all = all && ((bits[j >> 3] >> (j & 7)) & 1); ok = ok && s.query(x) == all; }
      VF_CHECK(ok, key + "queries-vs-reference-bits", "");
    } catch (const std::exception& e) { checked(); fail(key + "deserialize-threw", e.what()); }
    count("legacy_bloom_" + P);
  }
  sig(img_hash(w.b));
}

std::vector<Extra>& extras() {
  static std::vector<Extra> x;
  static bool init = false;
  if (!init) {
    init = true;
    for (int form = 1; form <= 2; ++form) for (int rep = 0; rep < 5; ++rep) {
      x.push_back(Extra{"legacy tdigest double", [form, rep]() { legacy_tdigest_case<double>(form, rep); }});
      x.push_back(Extra{"legacy tdigest float", [form, rep]() { legacy_tdigest_case<float>(form, rep); }});
    }
    for (int form = 0; form < 5; ++form) for (int rep = 0; rep < 4; ++rep) {
      x.push_back(Extra{"synth tdigest double", [form, rep]() { synth_tdigest<double>(form, rep); }});
      x.push_back(Extra{"synth tdigest float", [form, rep]() { synth_tdigest<float>(form, rep); }});
    }
    for (int rep = 0; rep < 6; ++rep) x.push_back(Extra{"synth bloom", [rep]() { synth_bloom(rep); }});
  }
  return x;
}
} }
