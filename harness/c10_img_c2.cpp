// C10 (unit C2: t-digest, Bloom filter, density) — images keep the documented cross-language layout; old images stay readable.
// See vf/c10_monitor.hpp for the case space, vf/c10_decode.hpp for the independent decoders.  Compiled with -fno-access-control.
#define C10_C2
#include "vf/c10_fam_c.hpp"
#include "vf/c10_monitor.hpp"

namespace vf { namespace c10 {
void register_unit_families() { register_group_c(); }
uint64_t random_cases(bool thorough) { return thorough ? 100000 : 1500; }
// ---------------------------------------------------------------- t-digest reference-implementation formats (big endian), synthesised
// verbose ("asBytes"):      i32 1 | f64 min | f64 max | f64 compression | i32 numCentroids | (f64 weight, f64 mean)*
// compact ("asSmallBytes"): i32 2 | f64 min | f64 max | f32 compression | i16 centroid capacity, i16 buffer capacity | i16 numCentroids |
//                           (f32 weight, f32 mean)*
template<typename T> static void legacy_tdigest_case(int form, int rep) {
  Rng r(0x7D16 + 17 * form + rep);
  const uint16_t k = rep % 2 ? 100 : 37;
  const uint32_t nc = rep == 0 ? 1 : uint32_t(2 + r.below(60));
  std::vector<double> means; std::vector<uint64_t> ws;
  double m = -50.0;
  for (uint32_t i = 0; i < nc; ++i) { m += 0.5 + double(r.below(64)) * 0.25; means.push_back(m); ws.push_back(i == 0 || i + 1 == nc ? 1 : 1 + r.below(40)); }
  const double mn = means.front(), mx = means.back();
  uint64_t total = 0; for (uint64_t x : ws) total += x;
  Wr w;
  if (form == 1) { w.u32be(1).f64be(mn).f64be(mx).f64be(double(k)).u32be(nc); for (uint32_t i = 0; i < nc; ++i) w.f64be(double(ws[i])).f64be(means[i]); }
  else { w.u32be(2).f64be(mn).f64be(mx).f32be(float(k)).u16be(uint16_t(2 * k + 10)).u16be(uint16_t(5 * k)).u16be(uint16_t(nc)); for (uint32_t i = 0; i < nc; ++i) w.f32be(float(ws[i])).f32be(float(means[i])); }
  for (int stream = 0; stream < 2; ++stream) {
    const std::string P = stream ? "stream" : "bytes";
    const std::string key = std::string("legacy|tdigest|reference-format-") + (form == 1 ? "verbose" : "compact") + "|" + (sizeof(T) == 8 ? "double" : "float") + "|" + P + "|";
    try {
      const tdigest<T> s = read_tdigest<T>(w.b, stream != 0);
      VF_CHECK(s.get_k() == k, key + "k", "got " + std::to_string(s.get_k()));
      VF_CHECK(s.get_total_weight() == total, key + "total-weight", "got " + std::to_string(s.get_total_weight()) + " want " + std::to_string(total));
      VF_CHECK(s.get_min_value() == static_cast<T>(mn) && s.get_max_value() == static_cast<T>(mx), key + "min-max", "");
      std::vector<T> gm; std::vector<uint64_t> gw;
      for (const auto& c : s.centroids_) { gm.push_back(c.get_mean()); gw.push_back(c.get_weight()); }
      std::vector<T> wm; for (double x : means) wm.push_back(static_cast<T>(x));
      VF_CHECK(same_bits(gm, wm) && gw == ws, key + "centroids", "got " + std::to_string(gm.size()) + " want " + std::to_string(nc));
      VF_CHECK(s.get_rank(static_cast<T>(mx + 1)) == 1.0 && s.get_rank(static_cast<T>(mn - 1)) == 0.0, key + "rank-outside-range", "");
    } catch (const std::exception& e) { checked(); fail(key + "deserialize-threw", e.what()); }
    count("legacy_tdigest_" + P);
  }
  sig(img_hash(w.b));
}

std::vector<Extra>& extras() {
  static std::vector<Extra> x;
  static bool init = false;
  if (!init) {
    init = true;
    for (int form = 1; form <= 2; ++form) for (int rep = 0; rep < 5; ++rep) {
      x.push_back(Extra{"legacy tdigest double", [form, rep]() { legacy_tdigest_case<double>(form, rep); }});
      x.push_back(Extra{"legacy tdigest float", [form, rep]() { legacy_tdigest_case<float>(form, rep); }});
    }
  }
  return x;
}
} }
