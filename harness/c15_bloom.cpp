// C15 — Bloom filter: no false negatives in any representation; bitwise set algebra.
// Bit-level model driven by the reference XXH64; owned and caller-memory filters; every view checked.
#include <set>
#include "vf/core.hpp"
#include "vf/gen.hpp"
#include "vf/refhash.hpp"
#include <bloom_filter.hpp>
#include <sstream>
#include <cstring>
#include <memory>

using namespace datasketches;
namespace vf {

const char* property_id() { return "C15"; }
unsigned case_timeout_s() { return 120; }
uint64_t num_cases(bool thorough) { return thorough ? 16000 : 2400; }
void final_report() {}

// documented canonical bytes for the Bloom filter overloads (unsigned: zero-extend, signed: sign-extend to 64 bits)
static std::string bloom_bytes(const Val& v) {
  auto le8 = [](uint64_t x) { std::string b(8, '\0'); for (int i = 0; i < 8; ++i) b[i] = char(x >> (8 * i)); return b; };
  switch (v.kind) {
    case V_U64: return le8(v.u);
    case V_I64: return le8(v.u);
    case V_U32: return le8(uint64_t(uint32_t(v.u)));
    case V_I32: return le8(uint64_t(int64_t(int32_t(uint32_t(v.u)))));
    case V_U16: return le8(uint64_t(uint16_t(v.u)));
    case V_I16: return le8(uint64_t(int64_t(int16_t(uint16_t(v.u)))));
    case V_U8:  return le8(uint64_t(uint8_t(v.u)));
    case V_I8:  return le8(uint64_t(int64_t(int8_t(uint8_t(v.u)))));
    case V_F64: return le8(canon_double_bits(v.d));
    case V_F32: return le8(canon_double_bits(double(v.f)));
    default: return v.s;
  }
}
static bool bloom_ignored(const Val& v) { return (v.kind == V_STR || v.kind == V_BYTES) && v.s.empty(); }

struct CaseAbort {};

struct Bits {
  uint64_t cap; uint16_t nh; uint64_t seed;
  std::vector<uint8_t> b;   // cap/8 bytes
  Bits(uint64_t c, uint16_t h, uint64_t s): cap(c), nh(h), seed(s), b(c / 8, 0) {}
  void idx(const Val& v, std::vector<uint64_t>& out) const {
    std::string by = bloom_bytes(v);
    const uint64_t h0 = ref_xxh64(by.data(), by.size(), seed), h1 = ref_xxh64(by.data(), by.size(), h0);
    out.clear();
    for (uint64_t i = 1; i <= nh; ++i) out.push_back(((h0 + i * h1) >> 1) % cap);
  }
  bool has(const Val& v) const { if (bloom_ignored(v)) return false; std::vector<uint64_t> ix; idx(v, ix); for (auto i : ix) if (!(b[i >> 3] & (1 << (i & 7)))) return false; return true; }
  void add(const Val& v) { if (bloom_ignored(v)) return; std::vector<uint64_t> ix; idx(v, ix); for (auto i : ix) b[i >> 3] |= uint8_t(1 << (i & 7)); }
  uint64_t pop() const { uint64_t n = 0; for (auto x : b) n += __builtin_popcount(x); return n; }
};

template<typename F> static bool q(const F& f, const Val& v) {
  switch (v.kind) {
    case V_U64: return f.query(static_cast<uint64_t>(v.u));
    case V_I64: return f.query(static_cast<int64_t>(v.u));
    case V_U32: return f.query(static_cast<uint32_t>(v.u));
    case V_I32: return f.query(static_cast<int32_t>(static_cast<uint32_t>(v.u)));
    case V_U16: return f.query(static_cast<uint16_t>(v.u));
    case V_I16: return f.query(static_cast<int16_t>(static_cast<uint16_t>(v.u)));
    case V_U8:  return f.query(static_cast<uint8_t>(v.u));
    case V_I8:  return f.query(static_cast<int8_t>(static_cast<uint8_t>(v.u)));
    case V_F64: return f.query(v.d);
    case V_F32: return f.query(v.f);
    case V_STR: return f.query(v.s);
    default: return f.query(static_cast<const void*>(v.s.data()), v.s.size());
  }
}
static bool qu(bloom_filter& f, const Val& v) {
  switch (v.kind) {
    case V_U64: return f.query_and_update(static_cast<uint64_t>(v.u));
    case V_I64: return f.query_and_update(static_cast<int64_t>(v.u));
    case V_U32: return f.query_and_update(static_cast<uint32_t>(v.u));
    case V_I32: return f.query_and_update(static_cast<int32_t>(static_cast<uint32_t>(v.u)));
    case V_U16: return f.query_and_update(static_cast<uint16_t>(v.u));
    case V_I16: return f.query_and_update(static_cast<int16_t>(static_cast<uint16_t>(v.u)));
    case V_U8:  return f.query_and_update(static_cast<uint8_t>(v.u));
    case V_I8:  return f.query_and_update(static_cast<int8_t>(static_cast<uint8_t>(v.u)));
    case V_F64: return f.query_and_update(v.d);
    case V_F32: return f.query_and_update(v.f);
    case V_STR: return f.query_and_update(v.s);
    default: return f.query_and_update(static_cast<const void*>(v.s.data()), v.s.size());
  }
}

struct Live {
  std::unique_ptr<bloom_filter> f;
  Bits m;
  std::shared_ptr<std::vector<uint64_t>> mem;   // caller memory (8-byte aligned) when the filter lives in it
  std::vector<Val> inserted;                    // items inserted and not removed by intersect/invert/reset
  bool insert_valid = true;                     // false once intersect/invert made "inserted" unreliable
  Live(uint64_t c, uint16_t h, uint64_t s): m(c, h, s) {}
  size_t mem_bytes() const { return mem ? mem->size() * 8 : 0; }
  uint8_t* mem_ptr() const { return reinterpret_cast<uint8_t*>(mem->data()); }
};

static std::string cfg(const Live& L) { return "cap=" + std::to_string(L.m.cap) + " nh=" + std::to_string(L.m.nh) + " seed=" + std::to_string(L.m.seed) + (L.mem ? " caller-memory" : " owned"); }

// compare a view (any bloom_filter object) with the model
static void check_view(bloom_filter& v, const Live& L, Rng& r, const std::string& view, const std::string& after, uint64_t domain, int kind) {
  const std::string K = "bloom|" + view + "|";
  const std::string ctx = view + " after " + after + " " + cfg(L) + " inserted=" + std::to_string(L.inserted.size());
  VF_CHECK(v.get_capacity() == L.m.cap && v.get_num_hashes() == L.m.nh && v.get_seed() == L.m.seed, K + "config", ctx);
  const uint64_t pop = L.m.pop();
  VF_CHECK(v.is_empty() == (pop == 0), K + "is_empty", ctx + " model_bits=" + std::to_string(pop));
  if (L.insert_valid) {
    size_t step = L.inserted.size() > 400 ? L.inserted.size() / 400 : 1;
    for (size_t i = r.below(step); i < L.inserted.size(); i += step) {
      checked();
      if (!q(v, L.inserted[i])) { fail(K + "false-negative", ctx + " item=" + L.inserted[i].to_string()); break; }
    }
  }
  for (int i = 0; i < 40; ++i) {   // arbitrary probes: query must equal "all k model bits set"
    Val p = gen_val(r, domain * 2 + 16, kind);
    checked();
    if (q(v, p) != L.m.has(p)) { fail(K + "query-differs-from-bit-model", ctx + " item=" + p.to_string() + " model=" + std::to_string(L.m.has(p))); break; }
  }
  VF_CHECK(v.get_bits_used() == pop, K + "bits_used", ctx + " got=" + std::to_string(v.get_bits_used()) + " model=" + std::to_string(pop));
  VF_CHECK(v.is_empty() == (pop == 0), K + "is_empty-after-bits_used", ctx);
}

// decode a serialized image / caller memory with the documented layout and compare the bit array
static void check_image(const uint8_t* img, size_t len, const Live& L, const std::string& what, const std::string& after) {
  const std::string K = "bloom|" + what + "|";
  const std::string ctx = what + " after " + after + " " + cfg(L);
  const uint64_t pop = L.m.pop();
  VF_CHECK(len >= 24, K + "image-too-short", ctx);
  if (len < 24) return;
  const bool empty_flag = img[3] & 4;
  VF_CHECK(img[1] == 1 && img[2] == 21, K + "server-or-family", ctx);
  VF_CHECK(rd32le(img + 4) % 65536 == L.m.nh, K + "num-hashes-field", ctx);
  VF_CHECK(rd64le(img + 8) == L.m.seed, K + "seed-field", ctx);
  VF_CHECK(uint64_t(rd32le(img + 16)) * 64 == L.m.cap, K + "length-field", ctx);
  if (empty_flag) {
    VF_CHECK(img[0] == 3 && len == 24, K + "empty-image-shape", ctx);
    VF_CHECK(pop == 0, K + "empty-flag-on-non-empty-filter", ctx + " model_bits=" + std::to_string(pop));
    return;
  }
  VF_CHECK(img[0] == 4 && len == 32 + L.m.cap / 8, K + "image-size", ctx + " len=" + std::to_string(len));
  if (len != 32 + L.m.cap / 8) return;
  const uint64_t nbs = rd64le(img + 24);
  VF_CHECK(nbs == UINT64_MAX || nbs == pop, K + "stored-bit-count", ctx + " stored=" + std::to_string(nbs) + " model=" + std::to_string(pop));
  VF_CHECK(memcmp(img + 32, L.m.b.data(), L.m.cap / 8) == 0, K + "bit-array-differs-from-model", ctx);
}

// every operation available on a read-only view leaves the caller's bytes untouched
static void readonly_view_is_passive(Live& L, Rng& r, const std::string& after, uint64_t domain, int kind) {
  if (!L.mem) return;
  std::vector<uint8_t> before(L.mem_ptr(), L.mem_ptr() + L.mem_bytes());
  {
    const bloom_filter w = bloom_filter::wrap(L.mem_ptr(), L.mem_bytes());
    bloom_filter wc(w);
    check_view(wc, L, r, "fresh-wrap-first", after, domain, kind);     // includes get_bits_used(), is_empty(), queries
    (void)wc.serialize(); (void)wc.to_string(); (void)wc.get_serialized_size_bytes();
    bloom_filter wc2(wc); (void)wc2.get_bits_used();
  }
  VF_CHECK(memcmp(before.data(), L.mem_ptr(), before.size()) == 0, "bloom|read-only-view|caller-memory-modified-by-read-only-operations", cfg(L) + " after " + after);
  count("readonly_passive_checks");
}

static void observe(Live& L, Rng& r, const std::string& after, uint64_t domain, int kind) {
  if (L.mem && r.chance(0.5)) { readonly_view_is_passive(L, r, after, domain, kind); count("fresh_wrap_before_live_readout"); }
  check_view(*L.f, L, r, "live", after, domain, kind);
  // copy
  if (r.chance(0.3)) { bloom_filter c(*L.f); check_view(c, L, r, "copy", after, domain, kind); count("view_copy"); }
  // serialized forms
  if (r.chance(0.4)) {
    unsigned hdr = r.pick({0u, 0u, 5u, 8u, 32u});
    auto bytes = L.f->serialize(hdr);
    std::stringstream ss; L.f->serialize(ss); std::string sb = ss.str();
    VF_CHECK(bytes.size() == hdr + L.f->get_serialized_size_bytes(), "bloom|serialize|size-vs-advertised", cfg(L));
    VF_CHECK(sb.size() == bytes.size() - hdr && memcmp(sb.data(), bytes.data() + hdr, sb.size()) == 0, "bloom|serialize|stream-vs-bytes", cfg(L));
    check_image(bytes.data() + hdr, bytes.size() - hdr, L, "image", after);
    {
      std::vector<uint64_t> al((bytes.size() - hdr + 7) / 8 + 1);
      memcpy(al.data(), bytes.data() + hdr, bytes.size() - hdr);
      bloom_filter d = bloom_filter::deserialize(al.data(), bytes.size() - hdr);
      check_view(d, L, r, "deserialized-bytes", after, domain, kind);
      std::stringstream s2(sb + "TAIL");
      bloom_filter d2 = bloom_filter::deserialize(s2);
      VF_CHECK(static_cast<size_t>(s2.tellg()) == sb.size(), "bloom|deserialize-stream|consumed-length", cfg(L) + " tellg=" + std::to_string(s2.tellg()));
      check_view(d2, L, r, "deserialized-stream", after, domain, kind);
      const bloom_filter w = bloom_filter::wrap(al.data(), bytes.size() - hdr);
      bloom_filter wc(w);
      check_view(wc, L, r, "wrap-of-image", after, domain, kind);
      count("view_restored");
    }
  }
  // views of the caller's memory
  if (L.mem) {
    check_image(L.mem_ptr(), 32 + L.m.cap / 8, L, "caller-memory", after);
    if (r.chance(0.6)) {
      const bloom_filter w = bloom_filter::wrap(L.mem_ptr(), L.mem_bytes());
      VF_CHECK(w.is_read_only() && w.is_wrapped() && !w.is_memory_owned(), "bloom|fresh-wrap|flags", cfg(L));
      // the read-only view reaches the object under test by copy / move construction or by copy / move assignment onto an
      // existing writable object (which must become read-only with it)
      static const char* hows[] = {"copy-construction", "move-construction", "copy-assignment", "move-assignment"};
      const int how = int(r.below(4));
      std::unique_ptr<bloom_filter> wcp;
      if (how == 0) wcp.reset(new bloom_filter(w));
      else if (how == 1) { bloom_filter t = bloom_filter::wrap(L.mem_ptr(), L.mem_bytes()); wcp.reset(new bloom_filter(std::move(t))); }
      else {
        wcp.reset(new bloom_filter(bloom_filter::builder::create_by_size(64 * (1 + r.below(4)), 2, 7)));
        wcp->update(uint64_t(1));
        if (how == 2) *wcp = w;
        else { bloom_filter t = bloom_filter::wrap(L.mem_ptr(), L.mem_bytes()); *wcp = std::move(t); }
      }
      bloom_filter& wc = *wcp;
      count(std::string("readonly_view_via_") + hows[how]);
      VF_CHECK(wc.is_read_only() && wc.is_wrapped(), std::string("bloom|read-only-view|flags-after-") + hows[how], cfg(L));
      check_view(wc, L, r, "fresh-wrap", after, domain, kind);
      count("view_fresh_wrap");
      if (!L.inserted.empty() && L.insert_valid) count("rewrap_after_updates");
      // writes through the read-only view are refused and change nothing
      Val x = gen_val(r, domain, kind);
      if (!bloom_ignored(x)) {
        VF_CHECK(throws([&] { apply_update(wc, x); }), "bloom|read-only-view|update-accepted", cfg(L));
        VF_CHECK(throws([&] { qu(wc, x); }), "bloom|read-only-view|query_and_update-accepted", cfg(L));
      }
      VF_CHECK(throws([&] { wc.reset(); }), "bloom|read-only-view|reset-accepted", cfg(L));
      VF_CHECK(throws([&] { wc.invert(); }), "bloom|read-only-view|invert-accepted", cfg(L));
      bloom_filter other = bloom_filter::builder::create_by_size(L.m.cap, L.m.nh, L.m.seed);
      other.update(uint64_t(12345));
      VF_CHECK(throws([&] { wc.union_with(other); }), "bloom|read-only-view|union_with-accepted", cfg(L));
      VF_CHECK(throws([&] { wc.intersect(other); }), "bloom|read-only-view|intersect-accepted", cfg(L));
      if (G().viol_keys_this_case.count("bloom|read-only-view|invert-accepted") || G().viol_keys_this_case.count("bloom|read-only-view|union_with-accepted") ||
          G().viol_keys_this_case.count("bloom|read-only-view|intersect-accepted") || G().viol_keys_this_case.count("bloom|read-only-view|reset-accepted") ||
          G().viol_keys_this_case.count("bloom|read-only-view|update-accepted") || G().viol_keys_this_case.count("bloom|read-only-view|query_and_update-accepted"))
        throw CaseAbort();   // the caller's memory was modified through a read-only view: everything after would be a cascade
      check_image(L.mem_ptr(), 32 + L.m.cap / 8, L, "caller-memory", "refused writes through a read-only view");
      count("readonly_refusals");
    }
    if (r.chance(0.3) && L.m.pop() > 0) {
      // hand the memory over to a fresh writable wrap (the old view is dropped: two writable views of one
      // buffer are not kept alive together)
      L.f.reset();
      L.f.reset(new bloom_filter(bloom_filter::writable_wrap(L.mem_ptr(), L.mem_bytes())));
      VF_CHECK(!L.f->is_read_only() && L.f->is_wrapped(), "bloom|writable-wrap|flags", cfg(L));
      check_view(*L.f, L, r, "fresh-writable-wrap", after, domain, kind);
      count("view_writable_rewrap");
    }
  }
  sig(mix64(mix64(L.m.cap, L.m.nh), mix64(L.m.pop(), L.inserted.size())));
}

static Live make_live(Rng& r, uint64_t nbits, uint16_t nh, uint64_t seed, bool in_memory) {
  const uint64_t cap = (nbits + 63) & ~uint64_t(63);
  Live L(cap, nh, seed);
  if (in_memory) {
    const size_t need = bloom_filter::get_serialized_size_bytes(nbits);
    const size_t extra = r.below(3) * 8;
    L.mem.reset(new std::vector<uint64_t>((need + extra) / 8, 0xA5A5A5A5A5A5A5A5ULL));
    L.f.reset(new bloom_filter(bloom_filter::builder::initialize_by_size(L.mem_ptr(), L.mem_bytes(), nbits, nh, seed)));
    count("filters_in_caller_memory");
  } else {
    L.f.reset(new bloom_filter(bloom_filter::builder::create_by_size(nbits, nh, seed)));
    count("filters_owned");
  }
  return L;
}

static void fpp_case(Rng& r) {
  const uint64_t n = 500 + r.below(2500);
  const double p = r.pick({0.2, 0.05, 0.01});
  const uint64_t seed = r.next();
  describe("fpp n=" + std::to_string(n) + " p=" + str(p));
  bloom_filter f = bloom_filter::builder::create_by_accuracy(n, p, seed);
  for (uint64_t i = 0; i < n; ++i) f.update(uint64_t(i * 2));
  uint64_t fp = 0; const uint64_t probes = 40000;
  for (uint64_t i = 0; i < probes; ++i) fp += f.query(uint64_t(i * 2 + 1));
  const double rate = double(fp) / probes;
  const double tol = 1.3 * p + 4 * std::sqrt(p * (1 - p) / probes);
  VF_CHECK(rate <= tol, "bloom|accuracy|false-positive-rate-above-target", "n=" + std::to_string(n) + " p=" + str(p) + " measured=" + str(rate) + " allowed=" + str(tol));
  for (uint64_t i = 0; i < n; i += 7) VF_CHECK(f.query(uint64_t(i * 2)), "bloom|accuracy|false-negative", "i=" + std::to_string(i));
  // invalid builder arguments refused
  VF_CHECK(throws([&] { bloom_filter::builder::create_by_size(0, 3, 1); }), "bloom|builder|zero-bits-accepted", "");
  VF_CHECK(throws([&] { bloom_filter::builder::create_by_size(100, 0, 1); }), "bloom|builder|zero-hashes-accepted", "");
  VF_CHECK(throws([&] { bloom_filter::builder::create_by_accuracy(0, 0.1, 1); }), "bloom|builder|zero-items-accepted", "");
  VF_CHECK(throws([&] { bloom_filter::builder::create_by_accuracy(10, 0.0, 1); }), "bloom|builder|zero-prob-accepted", "");
  VF_CHECK(throws([&] { bloom_filter::builder::create_by_accuracy(10, 1.5, 1); }), "bloom|builder|prob-above-one-accepted", "");
  { std::vector<uint64_t> small(4); VF_CHECK(throws([&] { bloom_filter::builder::initialize_by_size(small.data(), 32, 1000, 3, 1); }), "bloom|builder|short-memory-accepted", ""); }
  count("fpp_cases");
  sig(mix64(n, fp));
}


// A legal filter of 2^32 bits or more (512 MB): capacities and bit indices no longer fit 32 bits.  The model is
// sparse (set of expected bit positions from the reference hash), the views are made one at a time to bound memory.
// mid = true: the same sparse-model case at 64 KB .. 320 KB of bit array (sizes that are not a multiple of the 64 KB
// chunk the stream reader uses), with the stream-restored view added: a reader that loses a partial chunk shows here.
static void giant_filter_case(Rng& r, bool mid = false) {
  const uint64_t nbits = mid ? 64 * (r.chance(0.3) ? 8192 * uint64_t(r.range(1, 4)) + uint64_t(r.range(1, 3)) : uint64_t(r.range(8193, 40000)))
                             : (uint64_t(1) << 32) + 64 * uint64_t(r.range(1 << 20, 1 << 24));   // 2^32 + 2^26 .. 2^32 + 2^30 bits (up to 640 MB)
  const uint16_t nh = uint16_t(r.range(2, 5));
  const uint64_t seed = r.next();
  const std::string ctx = std::string(mid ? "mid" : "giant") + " nbits=" + std::to_string(nbits) + " nh=" + std::to_string(nh) + " seed=" + std::to_string(seed);
  describe(ctx);
  std::set<uint64_t> pos;
  auto positions = [&](uint64_t item, std::vector<uint64_t>& out) {
    uint8_t by[8]; for (int i = 0; i < 8; ++i) by[i] = uint8_t(item >> (8 * i));
    const uint64_t h0 = ref_xxh64(by, 8, seed), h1 = ref_xxh64(by, 8, h0);
    out.clear();
    for (uint64_t i = 1; i <= nh; ++i) out.push_back(((h0 + i * h1) >> 1) % nbits);
  };
  auto model_has = [&](uint64_t item) { std::vector<uint64_t> ix; positions(item, ix); for (auto i : ix) if (!pos.count(i)) return false; return true; };
  std::vector<uint64_t> items;
  std::unique_ptr<bloom_filter> f(new bloom_filter(bloom_filter::builder::create_by_size(nbits, nh, seed)));
  VF_CHECK(f->get_capacity() == nbits && f->is_empty(), "bloom|giant|live|config", ctx + " capacity=" + std::to_string(f->get_capacity()));
  bool above32 = false;
  for (int i = 0; i < 600; ++i) {
    const uint64_t it = r.next();
    std::vector<uint64_t> ix; positions(it, ix);
    const bool before = model_has(it);
    const bool got = (i & 1) ? f->query_and_update(it) : (f->update(it), before);
    VF_CHECK(got == before, "bloom|giant|live|query_and_update-differs-from-bit-model", ctx);
    for (auto x : ix) { pos.insert(x); if (x >> 32) above32 = true; }
    items.push_back(it);
  }
  if (above32) count("giant_bit_index_above_2p32");
  auto check = [&](const bloom_filter& v, const std::string& view) {
    const std::string K = std::string(mid ? "bloom|mid|" : "bloom|giant|") + view + "|";
    VF_CHECK(v.get_capacity() == nbits && v.get_num_hashes() == nh && v.get_seed() == seed, K + "config", ctx + " capacity=" + std::to_string(v.get_capacity()));
    VF_CHECK(!v.is_empty(), K + "is_empty", ctx);
    for (auto it : items) { checked(); if (!v.query(it)) { fail(K + "false-negative", ctx + " item=" + std::to_string(it)); break; } }
    for (int i = 0; i < 300; ++i) { const uint64_t p = r.next(); checked(); if (v.query(p) != model_has(p)) { fail(K + "query-differs-from-bit-model", ctx); break; } }
  };
  check(*f, "live");
  VF_CHECK(f->get_bits_used() == pos.size(), "bloom|giant|live|bits_used", ctx + " got=" + std::to_string(f->get_bits_used()) + " model=" + std::to_string(pos.size()));
  auto img = f->serialize();
  if (mid) {
    std::stringstream ss; f->serialize(ss);
    const std::string sb = ss.str();
    VF_CHECK(sb.size() == img.size() && std::memcmp(sb.data(), img.data(), img.size()) == 0, "bloom|mid|stream-image|differs-from-bytes-image", ctx);
    std::stringstream s2(sb + "TAIL");
    bloom_filter d = bloom_filter::deserialize(s2);
    check(d, "deserialized-stream");
    VF_CHECK(d.get_bits_used() == pos.size(), "bloom|mid|deserialized-stream|bits_used", ctx + " got=" + std::to_string(d.get_bits_used()));
    auto img2 = d.serialize();
    VF_CHECK(img2.size() == img.size() && std::memcmp(img2.data(), img.data(), img.size()) == 0, "bloom|mid|deserialized-stream|image-differs-from-original", ctx);
    VF_CHECK(uint64_t(s2.tellg()) == sb.size(), "bloom|mid|deserialized-stream|stream-position", ctx + " pos=" + std::to_string((long long)s2.tellg()));
    count("mid_filter_stream_restores");
    if ((nbits / 8) % 65536) count("mid_filter_partial_last_chunk");
  }
  f.reset();
  const uint64_t want_len = 32 + nbits / 8;
  VF_CHECK(img.size() == want_len, "bloom|giant|image|image-size", ctx + " len=" + std::to_string(img.size()));
  if (img.size() != want_len) return;
  VF_CHECK(uint64_t(rd32le(img.data() + 16)) * 64 == nbits, "bloom|giant|image|length-field", ctx);
  {
    uint64_t pc = 0; const uint64_t* w = reinterpret_cast<const uint64_t*>(img.data() + 32);
    for (uint64_t i = 0; i < nbits / 64; ++i) if (w[i]) pc += uint64_t(__builtin_popcountll(w[i]));
    bool all = true; for (auto x : pos) if (!(img[32 + (x >> 3)] & (1 << (x & 7)))) { all = false; break; }
    VF_CHECK(pc == pos.size() && all, "bloom|giant|image|bit-array-differs-from-model", ctx + " popcount=" + std::to_string(pc) + " model=" + std::to_string(pos.size()));
  }
  { bloom_filter w = bloom_filter::wrap(img.data(), img.size()); check(w, "wrap-of-image"); VF_CHECK(w.get_bits_used() == pos.size(), "bloom|giant|wrap-of-image|bits_used", ctx); }
  {
    bloom_filter w = bloom_filter::writable_wrap(img.data(), img.size());
    check(w, "writable-wrap-of-image");
    const uint64_t it = r.next(); std::vector<uint64_t> ix; positions(it, ix);
    w.update(it); items.push_back(it); for (auto x : ix) pos.insert(x);
    bool all = true; for (auto x : ix) if (!(img[32 + (x >> 3)] & (1 << (x & 7)))) all = false;
    VF_CHECK(all, "bloom|giant|writable-wrap-of-image|update-not-in-caller-memory", ctx);
  }
  { bloom_filter d = bloom_filter::deserialize(img.data(), img.size()); check(d, "deserialized-bytes"); VF_CHECK(d.get_bits_used() == pos.size(), "bloom|giant|deserialized-bytes|bits_used", ctx + " got=" + std::to_string(d.get_bits_used())); }
  count(mid ? "mid_filter_cases" : "giant_filter_cases");
  sig(mix64(nbits, pos.size()));
}

static void run_body(uint64_t idx, Rng& r);
void run_case(uint64_t idx, Rng& r) { try { run_body(idx, r); } catch (const CaseAbort&) { count("cases_aborted_after_violation"); } }

static void run_body(uint64_t idx, Rng& r) {
  if (idx % 40 == 13) { fpp_case(r); return; }
  if (idx % 2000 == 777) { giant_filter_case(r); return; }
  if (idx % 50 == 27) { giant_filter_case(r, true); return; }
  const bool T = G().thorough();
  const uint64_t nbits = r.chance(0.3) ? uint64_t(r.range(1, 200)) : (r.chance(0.5) ? 64 * uint64_t(r.range(1, 64)) : uint64_t(r.range(65, T ? 60000 : 9000)));
  const uint16_t nh = uint16_t(r.chance(0.04) ? r.pick({255, 256, 257, 300, 512, 1000}) : (r.chance(0.8) ? r.range(1, 7) : r.range(8, 20)));   // num_hashes is a 16-bit parameter
  if (nh >= 256) count("num_hashes_ge_256_cases");
  const uint64_t seed = r.chance(0.3) ? 0 : r.next();
  const uint64_t domain = 1 + r.below(r.chance(0.5) ? 50 : 3000);
  const int kind = r.chance(0.5) ? -1 : int(r.below(V_NKINDS));
  describe("nbits=" + std::to_string(nbits) + " nh=" + std::to_string(nh) + " seed=" + std::to_string(seed) + " domain=" + std::to_string(domain) + " kind=" + std::to_string(kind));
  if (nbits % 64) count("size_not_multiple_of_64");
  std::vector<Live> pool;
  pool.reserve(8);
  const int nlive = 1 + int(r.below(3));
  for (int i = 0; i < nlive; ++i) pool.push_back(make_live(r, nbits, nh, seed, r.chance(0.5)));
  for (auto& L : pool) observe(L, r, "construction", domain, kind);
  const uint64_t nops = r.below(T ? 1500 : 500);
  for (uint64_t i = 0; i < nops; ++i) {
    Live& L = pool[r.below(pool.size())];
    const uint64_t op = r.below(1000);
    std::string what;
    if (op < 600) {
      Val v = gen_val(r, domain, kind);
      apply_update(*L.f, v); L.m.add(v); if (!bloom_ignored(v)) L.inserted.push_back(v); else count("ignored_empty_input");
      what = "update"; count(std::string("update_") + kind_name(v.kind));
    } else if (op < 800) {
      Val v = gen_val(r, domain, kind);
      const bool before = L.m.has(v);
      const bool got = qu(*L.f, v);
      VF_CHECK(got == before, "bloom|query_and_update|return-differs-from-prior-membership", cfg(L) + " item=" + v.to_string() + " got=" + std::to_string(got) + " model=" + std::to_string(before));
      L.m.add(v); if (!bloom_ignored(v)) L.inserted.push_back(v);
      what = "query_and_update"; count(before ? "qu_present" : "qu_absent");
    } else if (op < 860 && pool.size() >= 2) {
      Live& O = pool[r.below(pool.size())];
      if (&O == &L) continue;
      L.f->union_with(*O.f);
      for (size_t b = 0; b < L.m.b.size(); ++b) L.m.b[b] |= O.m.b[b];
      if (O.insert_valid) L.inserted.insert(L.inserted.end(), O.inserted.begin(), O.inserted.end());
      what = "union_with"; count("union");
      check_view(*O.f, O, r, "union-source", what, domain, kind);
    } else if (op < 900 && pool.size() >= 2) {
      Live& O = pool[r.below(pool.size())];
      if (&O == &L) continue;
      L.f->intersect(*O.f);
      for (size_t b = 0; b < L.m.b.size(); ++b) L.m.b[b] &= O.m.b[b];
      L.insert_valid = false; L.inserted.clear();
      what = "intersect"; count("intersect");
    } else if (op < 925) {
      L.f->invert();
      for (auto& b : L.m.b) b = uint8_t(~b);
      L.insert_valid = false; L.inserted.clear();
      what = "invert"; count("invert");
    } else if (op < 940) {
      L.f->reset();
      std::fill(L.m.b.begin(), L.m.b.end(), 0); L.inserted.clear(); L.insert_valid = true;
      what = "reset"; count("reset");
    } else if (op < 970) {
      // incompatible operands are refused and change nothing
      int which = int(r.below(5));
      if (which == 3 && L.m.nh < 2) which = 1;       // fewer hashes needs nh >= 2
      if (which == 4 && L.m.cap < 128) which = 0;    // smaller capacity needs cap >= 128
      bloom_filter o = bloom_filter::builder::create_by_size(which == 0 ? L.m.cap + 64 : (which == 4 ? L.m.cap - 64 : L.m.cap),
        uint16_t(which == 1 ? L.m.nh + 1 : (which == 3 ? L.m.nh - 1 : L.m.nh)), which == 2 ? L.m.seed + 1 : L.m.seed);
      count("incompatible_kind_" + std::to_string(which));
      o.update(uint64_t(7));
      VF_CHECK(!L.f->is_compatible(o), "bloom|is_compatible|true-for-incompatible", cfg(L) + " which=" + std::to_string(which));
      VF_CHECK(throws([&] { L.f->union_with(o); }), "bloom|incompatible|union_with-accepted", cfg(L) + " which=" + std::to_string(which));
      VF_CHECK(throws([&] { L.f->intersect(o); }), "bloom|incompatible|intersect-accepted", cfg(L) + " which=" + std::to_string(which));
      VF_CHECK(!o.is_compatible(*L.f), "bloom|is_compatible|true-for-incompatible", cfg(L) + " reversed which=" + std::to_string(which));
      VF_CHECK(throws([&] { o.union_with(*L.f); }), "bloom|incompatible|union_with-accepted", cfg(L) + " reversed which=" + std::to_string(which));
      what = "refused incompatible operand"; count("incompatible_refusals");
    } else if (op < 985 && pool.size() >= 2) {
      // assignment: the target takes over the complete state of the source (owned targets/sources only:
      // two live views of one caller buffer are not kept)
      size_t ai = r.below(pool.size()), bi = r.below(pool.size());
      if (ai == bi || pool[ai].mem || pool[bi].mem) continue;
      Live& A = pool[ai]; Live& B = pool[bi];
      const bool src_dirty_hint = !B.inserted.empty();
      if (r.coin()) { *A.f = *B.f; count("copy_assign"); if (src_dirty_hint) count("copy_assign_from_updated_source"); }
      else { bloom_filter tmp(*B.f); *A.f = std::move(tmp); count("move_assign"); }
      A.m = B.m; A.inserted = B.inserted; A.insert_valid = B.insert_valid;
      observe(A, r, "assignment", domain, kind);
      check_view(*B.f, B, r, "assignment-source", "assignment", domain, kind);
      continue;
    } else if (pool.size() < 4) {
      // new filter from a view of an existing one: copy (owned) or deserialized
      Live N(L.m.cap, L.m.nh, L.m.seed);
      N.m = L.m; N.inserted = L.inserted; N.insert_valid = L.insert_valid;
      if (L.mem || r.coin()) { auto bytes = L.f->serialize(); std::vector<uint64_t> al(bytes.size() / 8 + 1); memcpy(al.data(), bytes.data(), bytes.size()); N.f.reset(new bloom_filter(bloom_filter::deserialize(al.data(), bytes.size()))); }
      else N.f.reset(new bloom_filter(*L.f));
      pool.push_back(std::move(N));
      count("derived_filters");
      observe(pool.back(), r, "derivation", domain, kind);
      continue;
    } else continue;
    if (nops < 60 || r.chance(0.12) || op >= 800) observe(L, r, what, domain, kind);
  }
  for (auto& L : pool) observe(L, r, "end", domain, kind);
  if (want_sample()) sample("{\"config\":" + jstr(G().cur_desc) + ",\"filters\":" + std::to_string(pool.size()) + ",\"ops\":" + std::to_string(nops) + ",\"bits_set_first\":" + std::to_string(pool[0].m.pop()) + "}");
}

} // namespace vf
