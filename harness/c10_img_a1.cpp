// C10 (unit A1: Theta, Tuple, Array-of-doubles) — images keep the documented cross-language layout; old images stay
// readable.  See vf/c10_monitor.hpp for the case space, vf/c10_decode.hpp for the independent decoders.
#define C10_A1
#include "vf/c10_fam_a.hpp"
#include "vf/c10_monitor.hpp"

namespace vf { namespace c10 {

void register_unit_families() { register_group_a(); }
uint64_t random_cases(bool thorough) { return thorough ? 200000 : 1500; }

// ---------------------------------------------------------------- shipped Theta images written by Java: cross-language hashing
// (their read-outs are compared by the generic shipped-image cases).  The estimation images were produced in Java by update(i),
// i = 0..8191 (theta_sketch_test.cpp): their entries must be exactly the reference MurmurHash3 hashes (>> 1) below theta.
static void shipped_theta_java_hashes(const std::string& file) {
  std::string img;
  const std::string path = repo_root() + "/theta/test/" + file;
  if (!read_file(path, img)) { checked(); fail("shipped|file-missing", path); return; }
  const compact_theta_sketch s = read_theta(img, false, DEFAULT_SEED);
  std::vector<uint64_t> want_e;
  for (int64_t i = 0; i < 8192; ++i) { const uint64_t h = ref_hash_i64(i, DEFAULT_SEED).h1 >> 1; if (h < s.get_theta64()) want_e.push_back(h); }
  std::sort(want_e.begin(), want_e.end());
  VF_CHECK(theta_entries(s) == want_e, "shipped|theta|java-entries-vs-reference-murmur3", file + ": entries=" + std::to_string(s.get_num_retained()) + " reference=" + std::to_string(want_e.size()));
  VF_CHECK(s.get_seed_hash() == ref_seed_hash(DEFAULT_SEED), "shipped|theta|java-seed-hash-vs-reference", file);
  count("shipped_java_hash_checked");
  sig(mix64(img_hash(img), 7));
}

// ---------------------------------------------------------------- legacy Theta images synthesised from the documented layouts
// v1: byte0 preLongs=3 1 serVer=1 2 type=3 3-7 unused (no seed hash) | u32 count, f32 p | u64 theta | entries   (always ordered)
// v2: byte0 preLongs 1|2|3, serVer=2, type=3, 3-4 unused, 5 flags, 6-7 seed hash | [u32 count, f32 p] | [u64 theta] | entries (ordered)
// v3: as written today, plus forms only other implementations write (Java single-item flag bit 5, theta stored though exact)
struct LegacyTheta { std::string name; std::string img; bool empty; bool ordered; uint64_t theta; std::vector<uint64_t> entries; uint64_t seed; };

static std::vector<uint64_t> some_hashes(Rng& r, size_t n, uint64_t below, bool sorted) {
  std::set<uint64_t> s;
  while (s.size() < n) { uint64_t h = r.next() >> 1; if (below < MAX_THETA) h %= below; if (h != 0) s.insert(h); }
  std::vector<uint64_t> v(s.begin(), s.end());
  if (!sorted) r.shuffle(v);
  return v;
}

static std::vector<LegacyTheta> legacy_theta_images() {
  std::vector<LegacyTheta> out;
  Rng r(0xC1071E6A);
  for (int rep = 0; rep < 3; ++rep) {
    const uint64_t seed = rep == 2 ? 0x1234567 : DEFAULT_SEED;
    const uint16_t sh = ref_seed_hash(seed);
    const float p = 1.0f;
    const uint64_t est_theta = (MAX_THETA / 7) * (2 + rep);
    const size_t n = 3 + rep * 40;
    // ---- v1
    { Wr w; w.u8(3).u8(1).u8(3).u8(0).u8(0).u8(0x1e).u16(0).u32(0).f32(p).u64(MAX_THETA);
      out.push_back({"v1-empty", w.b, true, true, MAX_THETA, {}, seed}); }
    { auto e = some_hashes(r, n, MAX_THETA, true); Wr w; w.u8(3).u8(1).u8(3).u8(0).u8(0).u8(0x1a).u16(0).u32(uint32_t(e.size())).f32(p).u64(MAX_THETA); for (auto x : e) w.u64(x);
      out.push_back({"v1-exact", w.b, false, true, MAX_THETA, e, seed}); }
    { auto e = some_hashes(r, n, est_theta, true); Wr w; w.u8(3).u8(1).u8(3).u8(0).u8(0).u8(0x1a).u16(0).u32(uint32_t(e.size())).f32(p).u64(est_theta); for (auto x : e) w.u64(x);
      out.push_back({"v1-estimation", w.b, false, true, est_theta, e, seed}); }
    { Wr w; w.u8(3).u8(1).u8(3).u8(0).u8(0).u8(0x1a).u16(0).u32(0).f32(0.5f).u64(est_theta);
      out.push_back({"v1-estimation-no-entries", w.b, false, true, est_theta, {}, seed}); }
    // ---- v2
    { Wr w; w.u8(1).u8(2).u8(3).u8(0).u8(0).u8(0x1e).u16(sh);
      out.push_back({"v2-empty-1-long", w.b, true, true, MAX_THETA, {}, seed}); }
    { auto e = some_hashes(r, n, MAX_THETA, true); Wr w; w.u8(2).u8(2).u8(3).u8(0).u8(0).u8(0x1a).u16(sh).u32(uint32_t(e.size())).f32(p); for (auto x : e) w.u64(x);
      out.push_back({"v2-exact-2-longs", w.b, false, true, MAX_THETA, e, seed}); }
    { auto e = some_hashes(r, n, est_theta, true); Wr w; w.u8(3).u8(2).u8(3).u8(0).u8(0).u8(0x1a).u16(sh).u32(uint32_t(e.size())).f32(p).u64(est_theta); for (auto x : e) w.u64(x);
      out.push_back({"v2-estimation-3-longs", w.b, false, true, est_theta, e, seed}); }
    { Wr w; w.u8(3).u8(2).u8(3).u8(0).u8(0).u8(0x1e).u16(sh).u32(0).f32(p).u64(MAX_THETA);
      out.push_back({"v2-empty-3-longs", w.b, true, true, MAX_THETA, {}, seed}); }
    // ---- v3 forms
    { Wr w; w.u8(1).u8(3).u8(3).u16(0).u8(0x1e).u16(sh);
      out.push_back({"v3-empty", w.b, true, true, MAX_THETA, {}, seed}); }
    { auto e = some_hashes(r, 1, MAX_THETA, true); Wr w; w.u8(1).u8(3).u8(3).u16(0).u8(0x1a).u16(sh).u64(e[0]);
      out.push_back({"v3-single-item", w.b, false, true, MAX_THETA, e, seed}); }
    { auto e = some_hashes(r, 1, MAX_THETA, true); Wr w; w.u8(1).u8(3).u8(3).u16(0).u8(0x3a).u16(sh).u64(e[0]);
      out.push_back({"v3-single-item-java-flag", w.b, false, true, MAX_THETA, e, seed}); }
    { auto e = some_hashes(r, n, MAX_THETA, false); Wr w; w.u8(2).u8(3).u8(3).u16(0).u8(0x0a).u16(sh).u32(uint32_t(e.size())).u32(0); for (auto x : e) w.u64(x);
      out.push_back({"v3-exact-unordered", w.b, false, false, MAX_THETA, e, seed}); }
    { auto e = some_hashes(r, n, est_theta, true); Wr w; w.u8(3).u8(3).u8(3).u16(0).u8(0x1a).u16(sh).u32(uint32_t(e.size())).u32(0).u64(est_theta); for (auto x : e) w.u64(x);
      out.push_back({"v3-estimation-ordered", w.b, false, true, est_theta, e, seed}); }
    { auto e = some_hashes(r, n, MAX_THETA, true); Wr w; w.u8(3).u8(3).u8(3).u16(0).u8(0x1a).u16(sh).u32(uint32_t(e.size())).u32(0).u64(MAX_THETA); for (auto x : e) w.u64(x);
      out.push_back({"v3-exact-with-theta-long", w.b, false, true, MAX_THETA, e, seed}); }
  }
  return out;
}

static void legacy_theta_case(const LegacyTheta& L) {
  for (int stream = 0; stream < 2; ++stream) {
    const std::string P = stream ? "stream" : "bytes";
    const std::string key = "legacy|theta|" + L.name + "|" + P + "|";
    try {
      const compact_theta_sketch s = read_theta(L.img, stream != 0, L.seed);
      VF_CHECK(s.is_empty() == L.empty, key + "is-empty", "");
      VF_CHECK(s.get_theta64() == L.theta, key + "theta", "got " + std::to_string(s.get_theta64()));
      VF_CHECK(theta_entries(s) == L.entries, key + "entries", "got " + std::to_string(s.get_num_retained()) + " want " + std::to_string(L.entries.size()));
      if (L.entries.size() > 1) VF_CHECK(s.is_ordered() == L.ordered, key + "is-ordered", "");
      VF_CHECK(s.get_seed_hash() == ref_seed_hash(L.seed), key + "seed-hash", "");
      const double want_est = L.empty ? 0.0 : double(L.entries.size()) / (double(L.theta) / double(MAX_THETA));
      VF_CHECK(std::fabs(s.get_estimate() - want_est) <= 1e-9 * std::max(1.0, want_est), key + "estimate", str(s.get_estimate()) + " vs " + str(want_est));
    } catch (const std::exception& e) { checked(); fail(key + "deserialize-threw", e.what()); }
    count("legacy_theta_" + P);
  }
  // zero-copy reader on the same legacy image
  try {
    const auto wv = wrapped_compact_theta_sketch::wrap(L.img.data(), L.img.size(), L.seed);
    const std::string key = "legacy|theta|" + L.name + "|wrap|";
    VF_CHECK(wv.is_empty() == L.empty, key + "is-empty", "");
    VF_CHECK(wv.get_theta64() == L.theta, key + "theta", "");
    VF_CHECK(theta_entries(wv) == L.entries, key + "entries", "got " + std::to_string(wv.get_num_retained()));
    count("legacy_theta_wrap");
  } catch (const std::exception& e) { checked(); fail("legacy|theta|" + L.name + "|wrap|threw", e.what()); }
  count("legacy_" + L.name);
  sig(img_hash(L.img));
}

// ---------------------------------------------------------------- legacy Tuple image (serial version 1, sketch type 5; same field layout)
static void legacy_tuple_case(int rep) {
  Rng r(0x7071E + rep);
  const uint64_t seed = rep == 1 ? 77 : DEFAULT_SEED;
  const uint16_t sh = ref_seed_hash(seed);
  const bool est = rep != 0;
  const uint64_t theta = est ? MAX_THETA / 3 : MAX_THETA;
  auto keys = some_hashes(r, 5 + rep * 10, theta, true);
  Wr w; w.u8(est ? 3 : 2).u8(1).u8(9).u8(5).u8(0).u8(0x1a).u16(sh).u32(uint32_t(keys.size())).u32(0);
  if (est) w.u64(theta);
  std::vector<double> sums;
  for (auto kx : keys) { double s = double(kx % 1000) * 0.5; sums.push_back(s); w.u64(kx).f64(s); }
  for (int stream = 0; stream < 2; ++stream) {
    const std::string P = stream ? "stream" : "bytes";
    const std::string key = "legacy|tuple|serial-version-1-type-5|" + P + "|";
    try {
      const tuple_cmp s = read_tuple(w.b, stream != 0, seed);
      std::vector<uint64_t> gk; std::vector<double> gs;
      for (const auto& e : s) { gk.push_back(e.first); gs.push_back(e.second); }
      VF_CHECK(gk == keys && gs == sums, key + "entries", "");
      VF_CHECK(s.get_theta64() == theta && !s.is_empty() && s.is_ordered(), key + "theta-or-flags", "");
    } catch (const std::exception& e) { checked(); fail(key + "deserialize-threw", e.what()); }
    count("legacy_tuple_" + P);
  }
  sig(img_hash(w.b));
}

// ---------------------------------------------------------------- Theta v4 (compressed) images synthesised for every entry width
// byte0 preLongs (1 exact, 2 estimation) 1 serVer=4 2 type=3 3 entryBits 4 numEntriesBytes 5 flags=0x1A 6-7 seedHash | [u64 theta] |
// numEntries (LE, numEntriesBytes bytes) | deltas of the ascending entries, entryBits bits each, packed most significant bit first
static void legacy_theta_v4_width(unsigned bits) {
  Rng r(0x7E4 + bits);
  const uint64_t seed = bits % 3 == 0 ? 424242 : DEFAULT_SEED;
  static const uint32_t counts[] = {1, 2, 7, 8, 9, 16, 23, 300};
  uint32_t n = counts[bits % 8];
  if (bits >= 54) n = std::min<uint32_t>(n, bits >= 62 ? 1u : (1u << (62 - bits)));   // keep the sum of deltas below 2^63
  std::vector<uint64_t> entries; std::string bitsbuf; uint64_t prev = 0, acc = 0; unsigned nacc = 0;
  Wr body;
  for (uint32_t i = 0; i < n; ++i) {
    uint64_t delta = bits == 64 ? 0 : (r.next() >> (64 - bits));
    if (i == 0) delta |= uint64_t(1) << (bits - 1);      // the first delta uses the full width
    if (delta == 0) delta = 1;
    prev += delta; entries.push_back(prev);
    for (int b = int(bits) - 1; b >= 0; --b) { acc = (acc << 1) | ((delta >> b) & 1); if (++nacc == 8) { body.u8(uint8_t(acc)); acc = 0; nacc = 0; } }
  }
  if (nacc) body.u8(uint8_t(acc << (8 - nacc)));
  const bool est = bits & 1;
  const uint64_t theta = est ? prev + 1 + r.below(1000) : MAX_THETA;
  const unsigned neb = n < 256 ? 1 : 2;
  Wr w; w.u8(est ? 2 : 1).u8(4).u8(3).u8(uint8_t(bits)).u8(uint8_t(neb)).u8(0x1a).u16(ref_seed_hash(seed));
  if (est) w.u64(theta);
  for (unsigned i = 0; i < neb; ++i) w.u8(uint8_t(n >> (8 * i)));
  w.b += body.b;
  { const Theta d = decode_theta(w.b.data(), w.b.size()); VF_CHECK(d.entries == entries, "harness|synthesised-v4-image-inconsistent", "bits=" + std::to_string(bits)); }
  for (int path = 0; path < 3; ++path) {
    const std::string P = path == 0 ? "bytes" : path == 1 ? "stream" : "wrap";
    const std::string key = "legacy|theta|v4-synthesised-width|" + P + "|";
    const std::string ctx = "entry_bits=" + std::to_string(bits) + " entries=" + std::to_string(n);
    try {
      std::vector<uint64_t> got; uint64_t th; bool emp, ord;
      if (path == 2) { const auto wv = wrapped_compact_theta_sketch::wrap(w.b.data(), w.b.size(), seed); got = theta_entries(wv); th = wv.get_theta64(); emp = wv.is_empty(); ord = wv.is_ordered(); }
      else { const compact_theta_sketch s = read_theta(w.b, path == 1, seed); got = theta_entries(s); th = s.get_theta64(); emp = s.is_empty(); ord = s.is_ordered(); }
      VF_CHECK(got == entries, key + "entries", ctx + " got " + std::to_string(got.size()));
      VF_CHECK(th == theta && !emp && ord, key + "theta-or-flags", ctx);
    } catch (const std::exception& e) { checked(); fail(key + "deserialize-threw", ctx + ": " + e.what()); }
    count("legacy_theta_v4_" + P);
  }
  sig(img_hash(w.b));
}

std::vector<Extra>& extras() {
  static std::vector<Extra> x;
  static bool init = false;
  if (!init) {
    init = true;
    for (const char* f : {"theta_compact_estimation_from_java_v1.sk", "theta_compact_estimation_from_java_v2.sk"})
      x.push_back(Extra{std::string("java hashes ") + f, [f]() { shipped_theta_java_hashes(f); }});
    static const std::vector<LegacyTheta> lt = legacy_theta_images();
    for (size_t i = 0; i < lt.size(); ++i) x.push_back(Extra{"legacy theta " + lt[i].name, [i]() { legacy_theta_case(lt[i]); }});
    for (int rep = 0; rep < 3; ++rep) x.push_back(Extra{"legacy tuple", [rep]() { legacy_tuple_case(rep); }});
    for (unsigned bits = 1; bits <= 63; ++bits) x.push_back(Extra{"theta v4 width " + std::to_string(bits), [bits]() { legacy_theta_v4_width(bits); }});
  }
  return x;
}

} } // namespace vf::c10
