// C10 (unit B2: frequent items, count-min) — images keep the documented cross-language layout; old images stay readable.
// See vf/c10_monitor.hpp for the case space, vf/c10_decode.hpp for the independent decoders.
#define C10_B2
#include "vf/c10_fam_b.hpp"
#include "vf/c10_monitor.hpp"

namespace vf { namespace c10 {
void register_unit_families() { register_group_b(); }
uint64_t random_cases(bool thorough) { return thorough ? 150000 : 1500; }
std::vector<Extra>& extras() { static std::vector<Extra> x; return x; }
} }
