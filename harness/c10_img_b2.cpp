// C10 (unit B2: frequent items, count-min) — images keep the documented cross-language layout; old images stay readable.
// See vf/c10_monitor.hpp for the case space, vf/c10_decode.hpp for the independent decoders.
#define C10_B2
#include "vf/c10_fam_b.hpp"
#include "vf/c10_monitor.hpp"

namespace vf { namespace c10 {
void register_unit_families() { register_group_b(); }
uint64_t random_cases(bool thorough) { return thorough ? 150000 : 1500; }
// ---------------------------------------------------------------- frequent items: images synthesised from the documented layout
// byte0 preLongs (1 empty, 4) 1 serVer=1 2 family=10 3 lgMaxMapSize 4 lgCurMapSize 5 flags 6-7 unused | u32 numActive u32 unused |
// W totalWeight | W offset | W weights[] | items[]
// "due to a mistake different bits were used in C++ and Java to indicate empty sketch therefore both are set and checked for
// compatibility with historical binary format" (frequent_items_sketch.hpp): flags 0x01 (older C++), 0x04 (older Java) and 0x05
// all denote an empty sketch.
template<typename T> static void wr_item(Wr& w, const T& v);
template<> void wr_item<int64_t>(Wr& w, const int64_t& v) { w.u64(uint64_t(v)); }
template<> void wr_item<std::string>(Wr& w, const std::string& v) { w.u32(uint32_t(v.size())); w.b += v; }

template<typename T> static void legacy_fi_empty(uint8_t flags, int rep) {
  const uint8_t lg_max = uint8_t(3 + rep * 4), lg_cur = uint8_t(3 + rep);
  Wr w; w.u8(1).u8(1).u8(10).u8(lg_max).u8(lg_cur).u8(flags).u16(0);
  const std::string tn = sizeof(T) == 8 ? "int64" : "string";
  for (int stream = 0; stream < 2; ++stream) {
    const std::string P = stream ? "stream" : "bytes";
    const std::string key = "legacy|fi|empty-flags-0x0" + std::to_string(flags) + "|" + tn + "|" + P + "|";
    try {
      const auto s = FiFam<T>::read(w.b, stream != 0);
      VF_CHECK(s.is_empty() && s.get_num_active_items() == 0 && s.get_total_weight() == 0 && s.get_maximum_error() == 0, key + "not-empty", "");
      const std::string re = FiFam<T>::write(s, false);
      const Fi<T> d = decode_fi<T>(re.data(), re.size());
      VF_CHECK(d.empty && d.lg_max == lg_max && d.lg_cur == lg_cur, key + "map-sizes", "lg_max=" + std::to_string(d.lg_max) + " lg_cur=" + std::to_string(d.lg_cur));
      VF_CHECK(std::fabs(s.get_epsilon() - 3.5 / double(1u << lg_max)) < 1e-15, key + "epsilon", str(s.get_epsilon()));
    } catch (const std::exception& e) { checked(); fail(key + "deserialize-threw", e.what()); }
    count("legacy_fi_empty_" + P);
  }
  sig(img_hash(w.b) + flags);
}

template<typename T> static void legacy_fi_nonempty(int rep) {
  Rng r(0xF1 + rep);
  const uint8_t lg_max = uint8_t(4 + rep), lg_cur = uint8_t(3 + (rep & 1));
  const uint32_t n = 1 + uint32_t(r.below((1u << lg_cur) * 3 / 4));
  const uint64_t offset = rep == 0 ? 0 : 5 + r.below(50);
  std::vector<T> items; std::vector<uint64_t> wts; std::set<T> seen; uint64_t total = offset * 3;
  while (items.size() < n) { Rng ir(r.next()); T it = GenItem<T>::make(ir, 1ULL << 30); if (seen.insert(it).second) { items.push_back(it); wts.push_back(1 + r.below(1000)); total += wts.back(); } }
  Wr w; w.u8(4).u8(1).u8(10).u8(lg_max).u8(lg_cur).u8(0).u16(0).u32(n).u32(0).u64(total).u64(offset);
  for (uint64_t x : wts) w.u64(x);
  for (const T& it : items) wr_item<T>(w, it);
  const std::string tn = sizeof(T) == 8 ? "int64" : "string";
  for (int stream = 0; stream < 2; ++stream) {
    const std::string P = stream ? "stream" : "bytes";
    const std::string key = "legacy|fi|synthesised-nonempty|" + tn + "|" + P + "|";
    try {
      const auto s = FiFam<T>::read(w.b, stream != 0);
      VF_CHECK(!s.is_empty() && s.get_num_active_items() == n && s.get_total_weight() == total && s.get_maximum_error() == offset, key + "counts", "");
      bool ok = true;
      for (size_t i = 0; i < n; ++i) ok = ok && s.get_lower_bound(items[i]) == wts[i] && s.get_estimate(items[i]) == wts[i] + offset && s.get_upper_bound(items[i]) == wts[i] + offset;
      VF_CHECK(ok, key + "item-weights", "n=" + std::to_string(n));
    } catch (const std::exception& e) { checked(); fail(key + "deserialize-threw", e.what()); }
    count("legacy_fi_nonempty_" + P);
  }
  sig(img_hash(w.b));
}

// ---------------------------------------------------------------- count-min: images synthesised from the documented layout
// byte0 preLongs=2 1 serVer=1 2 family=18 3 flags (bit0 empty) 4-7 unused | u32 numBuckets u8 numHashes u16 seedHash u8 unused |
// [W totalWeight | W cells[numHashes*numBuckets]]   (an empty sketch is the 16-byte preamble alone)
static void legacy_countmin(int rep) {
  Rng r(0xC3 + rep);
  const uint64_t seed = rep & 1 ? 12345 : DEFAULT_SEED;
  const uint8_t nh = uint8_t(1 + rep % 4); const uint32_t nb = 3 + uint32_t(r.below(40));
  const bool empty = rep < 2;
  std::vector<uint64_t> cells; uint64_t total = 0;
  Wr w; w.u8(2).u8(1).u8(18).u8(empty ? 1 : 0).u32(0).u32(nb).u8(nh).u16(ref_seed_hash(seed)).u8(0);
  if (!empty) { total = 1000 + r.below(1000); w.u64(total); for (uint32_t i = 0; i < uint32_t(nh) * nb; ++i) { cells.push_back(r.below(500)); w.u64(cells.back()); } }
  for (int stream = 0; stream < 2; ++stream) {
    const std::string P = stream ? "stream" : "bytes";
    const std::string key = std::string("legacy|countmin|synthesised-") + (empty ? "empty" : "nonempty") + "|" + P + "|";
    try {
      const auto s = CmFam<uint64_t>::read(w.b, stream != 0, seed);
      VF_CHECK(s.get_num_hashes() == nh && s.get_num_buckets() == nb && s.get_seed() == seed, key + "shape", "");
      VF_CHECK(s.is_empty() == empty && s.get_total_weight() == total, key + "weight-or-empty", "");
      std::vector<uint64_t> got(s.begin(), s.end());
      if (empty) cells.assign(size_t(nh) * nb, 0);
      VF_CHECK(got == cells, key + "cells-row-major", "");
    } catch (const std::exception& e) { checked(); fail(key + "deserialize-threw", e.what()); }
    count("legacy_countmin_" + P);
  }
  sig(img_hash(w.b));
}

std::vector<Extra>& extras() {
  static std::vector<Extra> x;
  static bool init = false;
  if (!init) {
    init = true;
    for (uint8_t fl : {uint8_t(1), uint8_t(4), uint8_t(5)}) for (int rep = 0; rep < 2; ++rep) {
      x.push_back(Extra{"legacy fi empty int64", [fl, rep]() { legacy_fi_empty<int64_t>(fl, rep); }});
      x.push_back(Extra{"legacy fi empty string", [fl, rep]() { legacy_fi_empty<std::string>(fl, rep); }});
    }
    for (int rep = 0; rep < 4; ++rep) {
      x.push_back(Extra{"legacy fi nonempty int64", [rep]() { legacy_fi_nonempty<int64_t>(rep); }});
      x.push_back(Extra{"legacy fi nonempty string", [rep]() { legacy_fi_nonempty<std::string>(rep); }});
      x.push_back(Extra{"legacy countmin", [rep]() { legacy_countmin(rep); }});
    }
  }
  return x;
}
} }
