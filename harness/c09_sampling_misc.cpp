// C09 — serialization round trip: -DC09_S=1: var_opt_sketch, var_opt_union, ebpps_sketch (int64 / std::string / custom
// serde items); -DC09_S=2: tdigest float/double (image with and without the unmerged buffer) and density_sketch.
#ifndef C09_S
#error "compile with -DC09_S=1 (VarOpt), 3 (VarOpt union), 4 (EBPPS) or 2 (t-digest, density)"
#endif
#include "vf/core.hpp"
#include "vf/gen.hpp"
#include "vf/c09_rt.hpp"
#include "vf/c09_rec.hpp"
#if C09_S != 2
#include <var_opt_sketch.hpp>
#include <var_opt_union.hpp>
#include <ebpps_sketch.hpp>
#else
#include <tdigest.hpp>
#include <density_sketch.hpp>
#endif

using namespace datasketches;
namespace vf {
using namespace c09;

const char* property_id() { return "C09"; }
// "huge" states: a count of b in [1000,1024] doubled d in {22,23} times by merging a sketch with a copy of itself lands
// just below 2^32 (b*2^22 < 2^32 for b < 1024), exactly on it (b = 1024, d = 22) or above it (d = 23): a 32-bit
// accumulator anywhere in the (de)serialisation code wraps
static inline uint64_t huge_base(vf::Rng& r) { return r.chance(0.2) ? 1024 : static_cast<uint64_t>(r.range(1000, 1023)); }
static inline unsigned huge_doublings(vf::Rng& r) { return r.chance(0.4) ? 22 : 23; }
unsigned case_timeout_s() { return 120; }
uint64_t num_cases(bool thorough) { return C09_S == 2 ? (thorough ? 50000 : 2500) : (thorough ? 20000 : 1000); }
void final_report() {}

#if C09_S != 2
// ------------------------------------------------------------------ item types
template<typename T> struct SItem;
template<> struct SItem<int64_t> { typedef serde<int64_t> SerDe; static const char* name() { return "int64"; } static int64_t gen(Rng& r) { return r.range(-1000, 1000); } };
template<> struct SItem<std::string> { typedef serde<std::string> SerDe; static const char* name() { return "string"; }
  static std::string gen(Rng& r) { std::string s; const size_t l = r.chance(0.1) ? 0 : r.below(7); for (size_t i = 0; i < l; ++i) s += static_cast<char>('a' + r.below(26)); return s; } };
template<> struct SItem<Rec> { typedef RecSerde SerDe; static const char* name() { return "custom"; }
  static Rec gen(Rng& r) { Rec x; x.a = static_cast<int32_t>(r.range(-300, 300)); const size_t l = r.below(4); for (size_t i = 0; i < l; ++i) x.s += static_cast<char>('a' + r.below(26)); return x; } };

static double gen_weight(Rng& r) {
  switch (r.below(6)) { case 0: return 1.0; case 1: return 1.0 + static_cast<double>(r.below(10)); case 2: return std::ldexp(1.0 + r.unit(), static_cast<int>(r.range(-8, 8)));
    case 3: return 1000.0 * (1 + r.below(100)); default: return 0.5 + r.unit(); }
}

// ------------------------------------------------------------------ VarOpt sketch
template<typename T> static bool lessT(const T& a, const T& b) { return a < b; }

template<typename T>
static std::string observe_vo(const var_opt_sketch<T>& s) {
  Obs o;
  o.add("k", s.get_k()).add("n", s.get_n()).add("samples", s.get_num_samples()).add("empty", s.is_empty());
  std::vector<std::string> it;
  double tw = 0;
  for (auto p : s) { it.push_back(item_str(p.first) + "*" + Obs::f64(p.second)); tw += p.second; }
  o.add("iterated", static_cast<uint64_t>(it.size()));
  std::string inorder; for (auto& x : it) inorder += x + ",";
  o.raw("items_in_order", inorder);     // H region (exact weights) then R region
  auto all = s.estimate_subset_sum([](const T&) { return true; });
  o.add("ss_all_lb", all.lower_bound).add("ss_all_est", all.estimate).add("ss_all_ub", all.upper_bound).add("total_weight", all.total_sketch_weight);
  Rng pr(777); const T pivot = SItem<T>::gen(pr);
  auto half = s.estimate_subset_sum([&pivot](const T& x) { return x < pivot; });
  o.add("ss_half_lb", half.lower_bound).add("ss_half_est", half.estimate).add("ss_half_ub", half.upper_bound);
  o.add("serialized_size", static_cast<uint64_t>(s.get_serialized_size_bytes(typename SItem<T>::SerDe())));
  return o.s;
}

template<typename T>
static void vo_fill(var_opt_sketch<T>& s, uint64_t n, Rng& r, int heavy_mode) {
  for (uint64_t i = 0; i < n; ++i) {
    double w = gen_weight(r);
    if (heavy_mode == 1) w = 1.0;                                       // all-equal weights: everything ends in R
    else if (heavy_mode == 2 && r.chance(0.05)) w = 1e9 * (1 + r.below(5));   // a few giants stay in H
    s.update(SItem<T>::gen(r), w);
  }
}

#if C09_S == 1
template<typename T>
static void case_varopt(Rng& r) {
  describe(std::string("varopt<") + SItem<T>::name() + "> (generating state)");
  typedef var_opt_sketch<T> S;
  typedef typename SItem<T>::SerDe SD;
  const std::string fam = std::string("varopt<") + SItem<T>::name() + ">";
  const uint32_t k = static_cast<uint32_t>(r.chance(0.2) ? r.range(1, 3) : r.range(4, 40));
  const resize_factor rf = static_cast<resize_factor>(r.below(4));
  const unsigned cls = static_cast<unsigned>(r.below(9));
  uint64_t n = 0; const char* desc = "";
  switch (cls) {
    case 0: n = 0; desc = "empty"; break;
    case 1: n = 1; desc = "single"; break;
    case 8: n = huge_base(r); desc = "huge-n"; break;
    case 2: n = 1 + r.below(k); desc = "warmup"; break;              // r == 0: exact
    case 3: n = k; desc = "warmup-full"; break;
    case 4: n = k + 1 + r.below(3); desc = "just-sampling"; break;
    case 5: n = k + 1 + r.below(20 * k); desc = "sampling"; break;
    case 6: n = 5 * k + r.below(50 * k); desc = "sampling-deep"; break;
    default: n = k + 1 + r.below(10 * k); desc = "sampling-heavy"; break;
  }
  pin_random(r.next());
  std::unique_ptr<S> sk(new S(k, rf));
  vo_fill(*sk, n, r, cls == 7 ? 2 : (r.chance(0.2) ? 1 : 0));
  if (cls == 8) {
    // n beyond 2^32: union of the sketch with itself, resolved, repeatedly
    const unsigned d = huge_doublings(r);
    for (unsigned i = 0; i < d; ++i) { var_opt_union<T> u(k); u.update(*sk); u.update(*sk); *sk = u.get_result(); }
    n = sk->get_n();
    count(n >> 32 ? "varopt_n_at_or_above_2^32" : "varopt_n_just_below_2^32");
  }
  bool has_long = false;
  { T li; if (cls >= 1 && cls <= 7 && r.chance(0.08) && LongItem<T>::make(r, li)) { sk->update(li, 1e12); has_long = true; } }   // > 64 KiB item, heavy: stays in H
  describe(fam + " k=" + std::to_string(k) + " rf=" + std::to_string(static_cast<int>(rf)) + " " + desc + " n=" + std::to_string(n));
  count(fam + "_" + desc);
  sig(mix64(mix64(k, sk->get_n()), mix64(sk->get_num_samples(), std::hash<std::string>()(fam) + cls)));
  Ops<S> o;
  o.fam = fam;
  o.to_bytes = [](const S& s, unsigned h) { return to_std_bytes(s.serialize(h, SD())); };
  o.to_stream = [](const S& s, std::ostream& os) { s.serialize(os, SD()); };
  o.from_bytes = [](const void* p, size_t m) { return S::deserialize(p, m, SD()); };
  o.from_stream = [](std::istream& is) { return S::deserialize(is, SD()); };
  o.advertised = [](const S& s) { return static_cast<long long>(s.get_serialized_size_bytes(SD())); };
  o.observe = observe_vo<T>;
  o.cont = [k](S& s, Rng& cr) { vo_fill(s, cr.chance(0.3) ? cr.below(4) : cr.below(6 * k + 4), cr, cr.chance(0.3) ? 2 : 0); };
  const Result res = roundtrip(o, *sk, r, G().cur_desc);
  if (has_long && res.ok && res.image.size() > 65536) count("varopt_long_string_in_image");
}

#endif
#if C09_S == 3
// ------------------------------------------------------------------ VarOpt union
template<typename T>
static std::string observe_vou(const var_opt_union<T>& u) {
  pin_random(0x5eed5eedULL);     // resolving the gadget into a result may draw random numbers
  std::string o = "result:" + observe_vo<T>(u.get_result());
  o += "union_serialized_size=" + std::to_string(u.get_serialized_size_bytes(typename SItem<T>::SerDe())) + ";";
  return o;
}

template<typename T>
static void vou_feed(var_opt_union<T>& u, unsigned how_many, Rng& r) {
  for (unsigned i = 0; i < how_many; ++i) {
    const uint32_t k = static_cast<uint32_t>(r.range(1, 30));
    var_opt_sketch<T> s(k);
    const uint64_t n = r.chance(0.15) ? 0 : (r.chance(0.4) ? r.below(k + 1) : r.below(12 * k));
    vo_fill(s, n, r, r.chance(0.3) ? 2 : (r.chance(0.2) ? 1 : 0));
    u.update(s);
  }
}

template<typename T>
static void case_varopt_union(Rng& r) {
  describe(std::string("varopt_union<") + SItem<T>::name() + "> (generating state)");
  typedef var_opt_union<T> S;
  typedef typename SItem<T>::SerDe SD;
  const std::string fam = std::string("varopt_union<") + SItem<T>::name() + ">";
  const uint32_t max_k = static_cast<uint32_t>(r.range(1, 30));
  const unsigned inputs = static_cast<unsigned>(r.chance(0.15) ? 0 : r.range(1, 5));
  pin_random(r.next());
  std::unique_ptr<S> sk(new S(max_k));
  vou_feed(*sk, inputs, r);
  if (r.chance(0.12)) {
    var_opt_sketch<T> big(max_k); vo_fill(big, huge_base(r), r, 0);
    const unsigned d = huge_doublings(r) - 1;
    for (unsigned i = 0; i < d; ++i) { var_opt_union<T> u(max_k); u.update(big); u.update(big); big = u.get_result(); }
    sk->update(big); sk->update(big);
    count(sk->get_result().get_n() >> 32 ? "varopt_union_n_at_or_above_2^32" : "varopt_union_n_just_below_2^32");
  }
  bool has_long = false;
  { T li; if (r.chance(0.08) && LongItem<T>::make(r, li)) { var_opt_sketch<T> one(max_k); vo_fill(one, r.below(5), r, 0); one.update(li, 1e12); sk->update(one); has_long = true; } }
  describe(fam + " max_k=" + std::to_string(max_k) + " inputs=" + std::to_string(inputs));
  const auto res0 = sk->get_result();
  count(fam + (inputs == 0 ? "_empty" : (res0.get_n() > res0.get_num_samples() ? "_estimation" : "_exact")));
  sig(mix64(mix64(max_k, res0.get_n()), mix64(res0.get_num_samples(), std::hash<std::string>()(fam) + inputs)));
  Ops<S> o;
  o.fam = fam;
  o.to_bytes = [](const S& s, unsigned h) { return to_std_bytes(s.serialize(h, SD())); };
  o.to_stream = [](const S& s, std::ostream& os) { s.serialize(os, SD()); };
  o.from_bytes = [](const void* p, size_t m) { return S::deserialize(p, m, SD()); };
  o.from_stream = [](std::istream& is) { return S::deserialize(is, SD()); };
  o.advertised = [](const S& s) { return static_cast<long long>(s.get_serialized_size_bytes(SD())); };
  o.observe = observe_vou<T>;
  o.cont = [](S& s, Rng& cr) { vou_feed(s, static_cast<unsigned>(cr.range(0, 3)), cr); };
  const Result res = roundtrip(o, *sk, r, G().cur_desc);
  if (has_long && res.ok && res.image.size() > 65536) count("varopt_union_long_string_in_image");
}

#endif
#if C09_S == 4
// ------------------------------------------------------------------ EBPPS
template<typename T>
static std::string observe_ebpps(const ebpps_sketch<T>& s) {
  Obs o;
  o.add("k", s.get_k()).add("n", s.get_n()).add("c", s.get_c()).add("cumulative_weight", s.get_cumulative_weight()).add("empty", s.is_empty());
  pin_random(0xabcdef12ULL);     // inclusion of the partial item is a coin flip inside get_result() / begin()
  std::string res;
  for (const auto& x : s.get_result()) res += item_str(x) + ",";
  o.raw("result", res);
  pin_random(0xabcdef12ULL);
  std::string it; uint64_t cnt = 0;
  for (auto i = s.begin(); i != s.end(); ++i) { it += item_str(*i) + ","; ++cnt; }
  o.raw("iterated", it).add("iterated_count", cnt);
  o.add("serialized_size", static_cast<uint64_t>(s.get_serialized_size_bytes(typename SItem<T>::SerDe())));
  return o.s;
}

template<typename T>
static void eb_fill(ebpps_sketch<T>& s, uint64_t n, Rng& r, bool unit_weights) {
  for (uint64_t i = 0; i < n; ++i) s.update(SItem<T>::gen(r), unit_weights ? 1.0 : gen_weight(r));
}

template<typename T>
static void case_ebpps(Rng& r) {
  describe(std::string("ebpps<") + SItem<T>::name() + "> (generating state)");
  typedef ebpps_sketch<T> S;
  typedef typename SItem<T>::SerDe SD;
  const std::string fam = std::string("ebpps<") + SItem<T>::name() + ">";
  const uint32_t k = static_cast<uint32_t>(r.chance(0.2) ? r.range(1, 2) : r.range(3, 30));
  const unsigned cls = static_cast<unsigned>(r.below(8));
  uint64_t n = 0; const char* desc = "";
  switch (cls) {
    case 0: n = 0; desc = "empty"; break;
    case 1: n = 1; desc = "single"; break;
    case 7: n = huge_base(r); desc = "huge-n"; break;
    case 2: n = 1 + r.below(k); desc = "filling"; break;
    case 3: n = k + r.below(3); desc = "boundary"; break;
    case 4: n = k + 1 + r.below(30 * k); desc = "sampling"; break;
    case 5: n = k + 1 + r.below(30 * k); desc = "sampling-unit-weights"; break;
    default: desc = "post-merge"; break;
  }
  pin_random(r.next());
  std::unique_ptr<S> sk(new S(k));
  if (cls <= 5) eb_fill(*sk, n, r, cls == 5);
  else if (cls == 7) {
    eb_fill(*sk, n, r, r.coin());
    const unsigned d = huge_doublings(r);
    for (unsigned i = 0; i < d; ++i) { S copy(*sk); sk->merge(copy); }
    n = sk->get_n();
    count(n >> 32 ? "ebpps_n_at_or_above_2^32" : "ebpps_n_just_below_2^32");
  } else {
    eb_fill(*sk, r.below(10 * k), r, false);
    S other(static_cast<uint32_t>(r.range(1, 30))); eb_fill(other, r.below(10 * k), r, r.coin());
    sk->merge(other);
    n = sk->get_n();
  }
  bool has_long = false;
  { T li; if (cls >= 1 && cls <= 6 && r.chance(0.1) && LongItem<T>::make(r, li)) { sk->update(li, 1e15); has_long = true; } }   // > 64 KiB item, far heavier than everything else
  describe(fam + " k=" + std::to_string(k) + " " + desc + " n=" + std::to_string(n));
  count(fam + "_" + desc);
  { const double c = sk->get_c(); if (c != std::floor(c)) count(fam + "_with_partial_item"); else if (!sk->is_empty()) count(fam + "_without_partial_item"); }
  sig(mix64(mix64(sk->get_k(), sk->get_n()), mix64(dbits(std::floor(sk->get_c() * 1024)), std::hash<std::string>()(fam) + cls)));
  Ops<S> o;
  o.fam = fam;
  o.to_bytes = [](const S& s, unsigned h) { return to_std_bytes(s.serialize(h, SD())); };
  o.to_stream = [](const S& s, std::ostream& os) { s.serialize(os, SD()); };
  o.from_bytes = [](const void* p, size_t m) { return S::deserialize(p, m, SD()); };
  o.from_stream = [](std::istream& is) { return S::deserialize(is, SD()); };
  o.advertised = [](const S& s) { return static_cast<long long>(s.get_serialized_size_bytes(SD())); };
  o.observe = observe_ebpps<T>;
  o.cont = [k](S& s, Rng& cr) {
    eb_fill(s, cr.chance(0.3) ? cr.below(4) : cr.below(6 * k + 4), cr, cr.chance(0.2));
    if (cr.chance(0.4)) { S other(static_cast<uint32_t>(cr.range(1, 30))); eb_fill(other, cr.below(10 * k), cr, cr.coin()); s.merge(other); }
  };
  const Result res = roundtrip(o, *sk, r, G().cur_desc);
  if (has_long && res.ok && res.image.size() > 65536) count("ebpps_long_string_in_image");
}

#endif

void run_case(uint64_t idx, Rng& r) {
  switch ((idx / 16 + idx) % 3) {
#if C09_S == 1
    case 0: case_varopt<int64_t>(r); break;
    case 1: case_varopt<std::string>(r); break;
    default: case_varopt<Rec>(r); break;
#elif C09_S == 3
    case 0: case_varopt_union<int64_t>(r); break;
    case 1: case_varopt_union<std::string>(r); break;
    default: case_varopt_union<Rec>(r); break;
#else
    case 0: case_ebpps<int64_t>(r); break;
    case 1: case_ebpps<std::string>(r); break;
    default: case_ebpps<Rec>(r); break;
#endif
  }
}

#else
// ------------------------------------------------------------------ t-digest
template<typename T> struct TdName;
template<> struct TdName<float> { static const char* name() { return "tdigest<float>"; } };
template<> struct TdName<double> { static const char* name() { return "tdigest<double>"; } };

template<typename T> static T td_value(Rng& r, int shape) {
  switch (shape) {
    case 0: return static_cast<T>(r.range(-1000, 1000)) * static_cast<T>(0.125);
    case 1: return static_cast<T>(std::ldexp(1.0 + r.unit(), static_cast<int>(r.range(-20, 20))));
    case 2: return static_cast<T>(r.below(5));                          // heavy duplicates
    default: return static_cast<T>(r.unit() * 1e6 - 5e5);
  }
}

template<typename T>
static std::string observe_td(const tdigest<T>& s) {
  Obs o;
  o.add("k", static_cast<uint32_t>(s.get_k())).add("empty", s.is_empty()).add("total_weight", s.get_total_weight());
  o.call("min", [&] { return s.get_min_value(); });
  o.call("max", [&] { return s.get_max_value(); });
  if (!s.is_empty()) {
    const T mn = s.get_min_value(), mx = s.get_max_value();
    std::string rk, qs;
    std::vector<T> splits;
    for (int i = -1; i <= 21; ++i) {
      const T v = static_cast<T>(mn + (mx - mn) * (static_cast<double>(i) / 20.0));
      rk += Obs::f64(s.get_rank(v)) + ",";
      if (i >= 0 && i <= 20 && (splits.empty() || splits.back() < v)) splits.push_back(v);
    }
    o.raw("ranks", rk);
    for (double q : {0.0, 1e-4, 0.001, 0.01, 0.05, 0.1, 0.25, 0.5, 0.75, 0.9, 0.95, 0.99, 0.999, 0.9999, 1.0}) qs += item_str(s.get_quantile(q)) + ",";
    o.raw("quantiles", qs);
    if (!splits.empty()) {
      std::string c; for (double v : s.get_CDF(splits.data(), static_cast<uint32_t>(splits.size()))) c += Obs::f64(v) + ",";
      o.raw("cdf", c);
      std::string p; for (double v : s.get_PMF(splits.data(), static_cast<uint32_t>(splits.size()))) p += Obs::f64(v) + ",";
      o.raw("pmf", p);
    }
  } else {
    o.call("rank_on_empty", [&] { return s.get_rank(static_cast<T>(0)); });
    o.call("quantile_on_empty", [&] { return s.get_quantile(0.5); });
  }
  // centroids (means and weights) as printed by the library
  const auto txt = s.to_string(true);
  o.raw("to_string", std::string(txt.begin(), txt.end()));
  return o.s;
}

template<typename T>
static void td_fill(tdigest<T>& s, uint64_t n, Rng& r, int shape) { for (uint64_t i = 0; i < n; ++i) s.update(td_value<T>(r, shape)); }

template<typename T>
static void case_tdigest(Rng& r) {
  describe(std::string(TdName<T>::name()) + " (generating state)");
  typedef tdigest<T> S;
  const std::string base = TdName<T>::name();
  const unsigned cls = static_cast<unsigned>(r.below(11));
  // (huge-weight: k >= 100 so that no single centroid of tdigest<float>, whose centroid weights are 32 bit, reaches 2^32)
  const uint16_t k = static_cast<uint16_t>(cls == 8 ? r.range(100, 200) : cls == 9 ? r.range(800, 1500) : (r.chance(0.7) ? r.range(10, 30) : r.range(31, 200)));
  const int shape = cls == 8 ? static_cast<int>(r.pick({0, 1, 3})) : static_cast<int>(r.below(4));
  // the unmerged buffer holds up to 4k values before it is folded into the centroids
  uint64_t n = 0; const char* desc = ""; bool compress_after = false;
  switch (cls) {
    case 0: n = 0; desc = "empty"; break;
    case 1: n = 1; desc = "single"; break;
    case 2: n = 2 + r.below(6); desc = "few-buffered"; break;
    case 3: n = 2 + r.below(4 * k); desc = "buffered-only"; break;
    case 4: n = 2 + r.below(4 * k); compress_after = true; desc = "compressed-no-buffer"; break;
    case 5: n = 5 * k + r.below(20 * k); desc = "centroids-and-buffer"; break;
    case 6: n = 5 * k + r.below(20 * k); compress_after = true; desc = "centroids-only"; break;
    case 7: n = 50 * k + r.below(100 * k); desc = "deep"; break;
    case 8: n = huge_base(r); desc = "huge-weight"; break;
    case 9: n = 3 * k + r.below(2 * k); desc = "many-centroids"; break;   // the stream reader takes centroids in pieces of 1024
    default: desc = "post-merge"; break;
  }
  std::unique_ptr<S> sk(new S(k));
  if (cls <= 7) td_fill(*sk, n, r, shape);
  else if (cls == 9) {
    td_fill(*sk, n, r, 3);
    for (unsigned i = 0; i < 14; ++i) { S copy(*sk); sk->merge(copy); }      // the centroid count grows with the total weight
    if (r.coin()) td_fill(*sk, r.below(k), r, 3);
    n = sk->get_total_weight();
  } else if (cls == 8) {
    td_fill(*sk, n, r, shape);
    const unsigned d = huge_doublings(r);
    for (unsigned i = 0; i < d; ++i) { S copy(*sk); sk->merge(copy); }
    if (r.chance(0.5)) td_fill(*sk, r.below(2 * k), r, shape);      // some values waiting in the buffer on top
    n = sk->get_total_weight();
    count(base + (n >> 32 ? "_weight_at_or_above_2^32" : "_weight_just_below_2^32"));
  } else {
    td_fill(*sk, r.below(12 * k), r, shape);
    S other(static_cast<uint16_t>(r.chance(0.5) ? k : r.range(10, 100))); td_fill(other, r.below(12 * k), r, static_cast<int>(r.below(4)));
    sk->merge(other);
    td_fill(*sk, r.below(k), r, shape);
    n = sk->get_total_weight();
  }
  if (compress_after) sk->compress();
  describe(base + " k=" + std::to_string(k) + " shape=" + std::to_string(shape) + " " + desc + " n=" + std::to_string(n));
  const std::string ctx = G().cur_desc;
  count(base + "_" + desc);
  sig(mix64(mix64(k, sk->get_total_weight()), mix64(cls * 8 + shape, std::hash<std::string>()(base))));

  for (int fmt = 0; fmt < 2; ++fmt) {
    const bool with_buffer = fmt == 0;
    S work(*sk);
    // classify by the image actually produced: does it carry buffered values?
    Ops<S> o;
    o.fam = base + (with_buffer ? "|with-buffer" : "|without-buffer") + (cls == 8 ? "|huge-weight" : "");
    // state class of its own: exactly one value, still waiting in the buffer (as printed by the library)
    if (with_buffer && work.get_total_weight() == 1) {
      const auto t = work.to_string(false);
      if (std::string(t.begin(), t.end()).find("Buffered           : 1") != std::string::npos) { o.fam += "|single-buffered-value"; count("tdigest_single_buffered_value"); }
    }
    o.to_bytes = [with_buffer](const S& s, unsigned h) { return to_std_bytes(s.serialize(h, with_buffer)); };
    o.to_stream = [with_buffer](const S& s, std::ostream& os) { s.serialize(os, with_buffer); };
    o.from_bytes = [](const void* p, size_t m) { return S::deserialize(p, m); };
    o.from_stream = [](std::istream& is) { return S::deserialize(is); };
    o.advertised = [with_buffer](const S& s) { return static_cast<long long>(s.get_serialized_size_bytes(with_buffer)); };
    o.observe = observe_td<T>;
    o.cont = [k, shape](S& s, Rng& cr) {
      td_fill(s, cr.chance(0.3) ? cr.below(5) : cr.below(10 * k), cr, cr.chance(0.7) ? shape : static_cast<int>(cr.below(4)));
      if (cr.chance(0.4)) { S other(static_cast<uint16_t>(cr.chance(0.5) ? k : cr.range(10, 100))); td_fill(other, cr.below(10 * k), cr, shape); s.merge(other); }
    };
    Result res = roundtrip(o, work, r, ctx);
    if (res.ok && res.image.size() >= 16 && res.image[0] == 2) {
      uint32_t nb; memcpy(&nb, &res.image[12], 4);
      uint32_t nc; memcpy(&nc, &res.image[8], 4);
      if (nc > 1024) count("tdigest_image_over_1024_centroids"); if (nc > 2048) count("tdigest_image_over_2048_centroids");
      if (with_buffer) count(nb > 0 ? (nc > 0 ? "tdigest_image_centroids_and_buffer" : "tdigest_image_buffer_only") : "tdigest_image_with_buffer_flag_but_empty_buffer");
      else { count("tdigest_image_without_buffer"); VF_CHECK(nb == 0, o.fam + "|image|buffer-count-nonzero", ctx); }
    }
  }
}

// ------------------------------------------------------------------ density
template<typename T> struct DnName;
template<> struct DnName<float> { static const char* name() { return "density<float>"; } };
template<> struct DnName<double> { static const char* name() { return "density<double>"; } };

template<typename T>
static std::string observe_dn(const density_sketch<T>& s) {
  Obs o;
  o.add("k", static_cast<uint32_t>(s.get_k())).add("dim", s.get_dim()).add("n", s.get_n()).add("retained", s.get_num_retained())
   .add("empty", s.is_empty()).add("estimation", s.is_estimation_mode());
  std::vector<std::string> pts; uint64_t tw = 0;
  for (auto it = s.begin(); it != s.end(); ++it) {
    const auto p = *it;
    std::string x = "(";
    if (p.first.size() > 16) {     // large dimension: every coordinate goes into a position-dependent hash
      uint64_t h = p.first.size(); size_t i = 0;
      for (const T v : p.first) { uint64_t b = 0; memcpy(&b, &v, sizeof(T)); h = mix64(h, b + (++i)); }
      x += "dim" + std::to_string(p.first.size()) + "#" + std::to_string(h) + " first=" + item_str(p.first.front()) + " last=" + item_str(p.first.back());
    } else
    for (const T v : p.first) x += item_str(v) + " ";
    pts.push_back(x + ")*" + std::to_string(p.second)); tw += p.second;
  }
  o.add("iterated", static_cast<uint64_t>(pts.size())).add("total_weight", tw);
  std::sort(pts.begin(), pts.end());
  std::string all; for (auto& x : pts) all += x + ",";
  o.raw("points", all);
  Rng pr(4242);
  std::string est;
  for (int i = 0; i < 5; ++i) { std::vector<T> q(s.get_dim()); for (auto& v : q) v = static_cast<T>(pr.unit() * 4 - 2); try { est += item_str(s.get_estimate(q)) + ","; } catch (const std::exception&) { est += "throws,"; } }
  o.raw("estimates", est);
  return o.s;
}

template<typename T>
static void dn_fill(density_sketch<T>& s, uint64_t n, Rng& r) {
  std::vector<T> p(s.get_dim());
  for (uint64_t i = 0; i < n; ++i) { for (auto& v : p) v = static_cast<T>(r.chance(0.2) ? static_cast<double>(r.range(-3, 3)) : r.unit() * 4 - 2); s.update(p); }
}

template<typename T>
static void case_density(Rng& r) {
  describe(std::string(DnName<T>::name()) + " (generating state)");
  typedef density_sketch<T> S;
  const std::string fam = DnName<T>::name();
  const bool large_dim = r.chance(0.08);      // the stream reader takes a point in pieces of 4096 coordinates
  static const uint32_t big_dims[] = {4095, 4096, 4097, 5000, 8192, 8193, 9000, 65537};
  const uint16_t k = static_cast<uint16_t>(large_dim ? r.range(2, 4) : r.range(2, 12));
  const uint32_t dim = large_dim ? big_dims[r.below(8)] : static_cast<uint32_t>(r.range(1, 4));
  const unsigned cls = large_dim ? static_cast<unsigned>(r.range(1, dim > 10000 ? 2 : 4)) : static_cast<unsigned>(r.below(8));
  uint64_t n = 0; const char* desc = "";
  switch (cls) {
    case 0: n = 0; desc = "empty"; break;
    case 1: n = 1; desc = "single"; break;
    case 7: n = huge_base(r); desc = "huge-n"; break;
    case 2: n = 1 + r.below(k); desc = "exact"; break;
    case 3: n = k + r.below(k + 2); desc = "compaction-boundary"; break;
    case 4: n = 2 * k + r.below(30 * k); desc = "estimation"; break;
    case 5: n = 30 * k + r.below(200 * k); desc = "estimation-deep"; break;
    default: desc = "post-merge"; break;
  }
  pin_random(r.next());
  std::unique_ptr<S> sk(new S(k, dim));
  if (cls <= 5) dn_fill(*sk, n, r);
  else if (cls == 7) {
    dn_fill(*sk, n, r);
    const unsigned d = huge_doublings(r);
    for (unsigned i = 0; i < d; ++i) { S copy(*sk); sk->merge(copy); }
    n = sk->get_n();
    count(n >> 32 ? "density_n_at_or_above_2^32" : "density_n_just_below_2^32");
  } else { dn_fill(*sk, r.below(20 * k), r); S other(k, dim); dn_fill(other, r.below(20 * k), r); sk->merge(other); n = sk->get_n(); }
  describe(fam + " k=" + std::to_string(k) + " dim=" + std::to_string(dim) + " " + desc + " n=" + std::to_string(n));
  count(fam + "_" + desc);
  if (dim > 4096) count("density_dim_over_4096"); if (dim > 8192) count("density_dim_over_8192"); if (dim > 65536) count("density_dim_over_65536");
  sig(mix64(mix64(k, dim), mix64(sk->get_n(), sk->get_num_retained() + std::hash<std::string>()(fam))));
  Ops<S> o;
  o.fam = fam;
  o.to_bytes = [](const S& s, unsigned h) { return to_std_bytes(s.serialize(h)); };
  o.to_stream = [](const S& s, std::ostream& os) { s.serialize(os); };
  o.from_bytes = [](const void* p, size_t m) { return S::deserialize(p, m); };
  o.from_stream = [](std::istream& is) { return S::deserialize(is); };
  o.observe = observe_dn<T>;
  o.cont = [k, dim](S& s, Rng& cr) {
    dn_fill(s, cr.chance(0.3) ? cr.below(4) : cr.below(10 * k), cr);
    if (cr.chance(0.4)) { S other(k, dim); dn_fill(other, cr.below(15 * k), cr); s.merge(other); }
  };
  roundtrip(o, *sk, r, G().cur_desc);
}

void run_case(uint64_t idx, Rng& r) {
  switch ((idx / 16 + idx) % 5) {
    case 0: case_tdigest<float>(r); break;
    case 1: case_tdigest<double>(r); break;
    case 2: if ((idx / 5) % 2) case_tdigest<float>(r); else case_tdigest<double>(r); break;
    case 3: case_density<float>(r); break;
    default: case_density<double>(r); break;
  }
}
#endif

} // namespace vf
