// C03 — HLL content is the per-slot max of coupons in every mode and register width.
// Reference-model monitor: one generated stream is fed, in several presentation orders, to parallel
// sketches of every target type (HLL_4/6/8) x start_full_size; at checkpoints that straddle the
// LIST->SET->HLL promotions and the HLL_4 cur-min shifts the logical content of every sketch is read
// through the public API only (updatable image of an HLL_8 copy, the sketch's own image, images of copies
// converted to every type), decoded with an independent decoder and compared with an independent
// coupon model built from the reference MurmurHash3.
#include "vf/core.hpp"
#include "vf/gen.hpp"
#include "vf/c03_hll_model.hpp"
#include <memory>
#include <sstream>

using namespace datasketches;
namespace vf {
using namespace hllm;

const char* property_id() { return "C03"; }
unsigned case_timeout_s() { return 1500; }
uint64_t num_cases(bool thorough) { return thorough ? 6000 : 448; }
void final_report() {}

// ---------------------------------------------------------------- inputs with rare, high coupon values
struct HiItem { uint8_t value; uint64_t x; uint32_t coupon; };
static const std::vector<HiItem>& hi_pool() {
  static std::vector<HiItem> pool;
  static bool built = false;
  if (!built) {
    built = true;
    for (uint64_t i = 0; i < (1u << 22); ++i) {
      const uint64_t x = i * 0x9e3779b97f4a7c15ULL + 12345;
      const uint32_t c = coupon_of_hash(ref_hash_u64(x, HLL_HASH_SEED));
      if (cp_value(c) >= 15) pool.push_back(HiItem{static_cast<uint8_t>(cp_value(c)), x, c});
    }
  }
  return pool;
}

// ---------------------------------------------------------------- model of "the set of distinct inputs"
struct Model {
  unsigned lg_k = 0;
  std::vector<uint8_t> regs;                 // per-slot maximum at lg_k
  std::unordered_set<uint32_t> distinct;     // distinct coupons, tracked up to cap (coupon modes cannot hold more)
  size_t cap = 0;
  bool overflow = false;
  bool nonempty = false;
  uint64_t offered = 0;
  void init(unsigned lgk) {
    lg_k = lgk; regs.assign(size_t(1) << lgk, 0); distinct.clear(); overflow = false; nonempty = false; offered = 0;
    cap = (lgk >= 8 ? (size_t(1) << (lgk - 3)) : 8) + 64;
  }
  void add(uint32_t c) {
    ++offered; nonempty = true;
    uint8_t& r = regs[cp_slot(c, lg_k)];
    const uint8_t v = static_cast<uint8_t>(cp_value(c));
    if (v > r) r = v;
    if (!overflow) { distinct.insert(c); if (distinct.size() > cap) overflow = true; }
  }
};

struct Sk {
  std::unique_ptr<hll_sketch> s;
  int type; bool full; int order;            // order 0 = A (as generated), 1 = B (chunks permuted), 2 = C (whole stream reversed),
                                             // 3 = D: fed like A, but now and then replaced by its own deserialized image
  int prev_cur_min = -1;
  std::vector<uint32_t> prev_aux;
  std::vector<uint8_t> prev_aux_vals;
  bool seen_list = false, seen_set = false;
  double est = 0, comp = 0;
};

struct ChunkRec { uint64_t seed; uint64_t len; uint64_t next_id_before; uint64_t pos_before; };

struct Case {
  unsigned lg_k;
  uint64_t salt; uint64_t domain; int fixed_kind; double dup_p;
  std::vector<std::pair<uint64_t, uint64_t>> inject;   // (stream position, pool x) sorted by position
  std::vector<std::pair<uint32_t, uint32_t>> planted;  // coupons (larger value, smaller value) of planted same-address pairs
  Model m;
  std::vector<Sk> sks;
  std::string cfg;
  uint64_t fed = 0;
  uint64_t ncheck = 0;
  bool cp_every = false;      // checkpoint after every input (short crafted streams)
  bool conv_always = false;   // convert copies to every type at every checkpoint
};

static Val make_val(const Case& C, uint64_t id) {
  Rng r2(mix64(C.salt, id));
  return gen_val(r2, C.domain, C.fixed_kind);
}

static std::vector<Val> gen_chunk(const Case& C, const ChunkRec& rec, uint64_t* next_id_after) {
  std::vector<Val> out;
  out.reserve(rec.len);
  Rng rr(rec.seed);
  uint64_t next_id = rec.next_id_before;
  auto inj = std::lower_bound(C.inject.begin(), C.inject.end(), std::make_pair(rec.pos_before, uint64_t(0)));
  for (uint64_t j = 0; j < rec.len; ++j) {
    const uint64_t pos = rec.pos_before + j;
    if (inj != C.inject.end() && inj->first == pos) {
      Val v; v.kind = V_U64; v.u = inj->second; out.push_back(v); ++inj;
      continue;
    }
    uint64_t id;
    if (next_id > 0 && rr.chance(C.dup_p)) id = rr.below(next_id); else id = next_id++;
    out.push_back(make_val(C, id));
  }
  if (next_id_after) *next_id_after = next_id;
  return out;
}

static void check_content(const Decoded& d, const Model& m, const std::vector<uint32_t>& model_sorted,
                          const std::string& keyp, const std::string& ctx) {
  if (!d.err.empty()) { checked(); fail(keyp + "|image-inconsistent", ctx + " " + d.err); return; }
  VF_CHECK(d.lg_k == m.lg_k, keyp + "|lg_k-changed", ctx + " image lg_k=" + std::to_string(d.lg_k));
  if (d.coupon_mode()) {
    VF_CHECK(!d.duplicate_coupon, keyp + "|coupon-mode|duplicate-coupon", ctx);
    VF_CHECK(d.stored_count == d.coupons.size(), keyp + "|coupon-mode|count-field-vs-cells",
             ctx + " count=" + std::to_string(d.stored_count) + " cells=" + std::to_string(d.coupons.size()));
    checked();
    if (m.overflow) {
      fail(keyp + "|coupon-mode|coupon-missing", ctx + " still in coupon mode with " + std::to_string(d.coupons.size()) +
           " coupons though more than " + std::to_string(m.cap) + " distinct coupons were offered");
    } else {
      Diff df = diff_coupons(d.coupons, model_sorted);
      if (df.lost) fail(keyp + "|coupon-mode|coupon-missing", ctx + df.detail);
      if (df.extra) fail(keyp + "|coupon-mode|coupon-extra", ctx + df.detail);
    }
  } else {
    checked();
    Diff df = diff_registers(d.regs, m.regs);
    if (df.lost) fail(keyp + "|hll-mode|register-below-model", ctx + df.detail);
    if (df.extra) fail(keyp + "|hll-mode|register-above-model", ctx + df.detail);
  }
}

// Replace the sketch by what deserialize() makes of one of its own images, then re-present inputs it already holds.
static void roundtrip(Case& C, Rng& r, Sk& K, const std::vector<Val>& held) {
  static const char* forms[] = {"compact-bytes", "updatable-bytes", "compact-stream", "updatable-stream"};
  const int form = static_cast<int>(r.below(4));
  const Decoded before = read_native(*K.s);
  const std::string ctx = C.cfg + " fed=" + std::to_string(C.fed) + " sketch=" + type_name(K.type) + " form=" + forms[form] + " mode=" + mode_name(before.mode);
  size_t re = 0;
  try {
    if (form == 0) { auto b = K.s->serialize_compact(); hll_sketch rs = hll_sketch::deserialize(b.data(), b.size()); *K.s = std::move(rs); }
    else if (form == 1) { auto b = K.s->serialize_updatable(); hll_sketch rs = hll_sketch::deserialize(b.data(), b.size()); *K.s = std::move(rs); }
    else {
      std::stringstream ss(std::ios::in | std::ios::out | std::ios::binary);
      if (form == 2) K.s->serialize_compact(ss); else K.s->serialize_updatable(ss);
      hll_sketch rs = hll_sketch::deserialize(ss);
      *K.s = std::move(rs);
    }
    if (!held.empty()) {
      re = 1 + r.below(8);
      for (size_t i = 0; i < re; ++i) apply_update(*K.s, held[r.below(held.size())]);
    }
  } catch (const std::exception& e) {
    checked();
    fail(std::string("restored|") + forms[form] + "|deserialize-or-valid-update-threw", ctx + " what=" + e.what());
  }
  count(std::string("restored_from_") + forms[form]);
  count(std::string("restored_in_mode_") + mode_name(before.mode));
  if (re > 0) count(std::string("restored_from_") + forms[form] + "_in_" + mode_name(before.mode) + "_mode_then_re_presented_held_input");
}

static Sk* find_sk(Case& C, int type, bool full, int order) {
  for (auto& k : C.sks) if (k.type == type && k.full == full && k.order == order) return &k;
  return nullptr;
}

static void checkpoint(Case& C, Rng& r, bool final_cp) {
  Model& m = C.m;
  ++C.ncheck;
  count("checkpoints");
  std::vector<uint32_t> model_sorted;
  if (!m.overflow) { model_sorted.assign(m.distinct.begin(), m.distinct.end()); std::sort(model_sorted.begin(), model_sorted.end()); }
  const std::string ctx0 = C.cfg + " fed=" + std::to_string(C.fed) + " distinct" + (m.overflow ? ">" : "=") + std::to_string(m.distinct.size());
  const bool do_conv = final_cp || C.conv_always || r.chance(m.lg_k >= 16 ? 0.1 : 0.3);
  uint64_t mode_sig = 0;
  for (Sk& K : C.sks) {
    const hll_sketch& s = *K.s;
    const std::string tn = type_name(K.type);
    const std::string ctx = ctx0 + " sketch=" + tn + (K.full ? "/full" : "/lazy") + "/order" + char('A' + K.order);
    // --- content through the sketch's own image and through an HLL_8 copy
    Decoded nat = read_native(s);
    Decoded as8 = read_as_hll8(s);
    check_content(as8, m, model_sorted, tn + "|as-hll8-copy", ctx);
    check_content(nat, m, model_sorted, tn + "|own-image", ctx);
    if (nat.err.empty()) {
      VF_CHECK(nat.type == K.type, tn + "|own-image|target-type", ctx + " image type=" + std::to_string(nat.type));
      if (as8.err.empty()) VF_CHECK(as8.type == 2, tn + "|as-hll8-copy|target-type", ctx);
      count(std::string("mode_") + mode_name(nat.mode));
      count(std::string("mode_") + mode_name(nat.mode) + "_" + tn);
      if (nat.mode == M_LIST) K.seen_list = true;
      if (nat.coupon_mode()) {
        if (nat.coupons.size() >= 20200) count("coupon_mode_bounds_checked_ge_20200_coupons");
        if (nat.coupons.size() >= 40400) count("coupon_mode_bounds_checked_ge_40400_coupons");
        if (nat.coupons.size() >= 60600) count("coupon_mode_bounds_checked_ge_60600_coupons");
        if (m.lg_k >= 18 && nat.mode == M_SET) count("set_mode_at_lg_k_ge_18");
      }
      if (nat.coupon_mode() && !m.overflow) {
        for (auto& q : C.planted) if (m.distinct.count(q.first) && m.distinct.count(q.second))
          count(nat.mode == M_LIST ? "same_address_pair_held_in_list_mode" : "same_address_pair_held_in_set_mode");
      } else if (nat.mode == M_HLL) {
        for (auto& q : C.planted) if (m.regs[cp_slot(q.first, m.lg_k)] == cp_value(q.first)) { count("same_address_pair_decides_hll_register"); break; }
      }
      if (nat.mode == M_SET) K.seen_set = true;
      if (nat.mode == M_HLL && !K.full && K.seen_list && !K.seen_set && m.lg_k < 8) { count("lgk_lt8_list_then_hll"); K.seen_list = false; }
      if (nat.mode == M_HLL && !K.full && K.seen_set) { count("set_then_hll"); K.seen_set = false; K.seen_list = false; }
      if (nat.mode == M_HLL && K.full) count("full_size_hll_checkpoints");
      if (nat.mode == M_HLL && !nat.regs.empty() && *std::max_element(m.regs.begin(), m.regs.end()) >= 32) count(std::string("register_ge32_checked_") + tn);
      if (nat.coupon_mode() && !nat.coupons.empty() && cp_value(nat.coupons.back()) >= 32) count("coupon_value_ge32_checked_in_coupon_mode");
      if (nat.mode == M_HLL && K.full && !m.nonempty) count("full_size_empty_hll");
      mode_sig = mix64(mode_sig, static_cast<uint64_t>(nat.mode) * 4 + static_cast<uint64_t>(K.type));
      if (nat.mode == M_HLL && K.type == 0) {
        count("hll4_hll_checkpoints");
        if (nat.cur_min >= 1 && nat.num_at_cur_min == (1u << m.lg_k)) count("hll4_all_slots_exactly_at_curmin");
        if (nat.cur_min >= 2 && nat.num_at_cur_min == (1u << m.lg_k)) count("hll4_all_slots_exactly_at_curmin_ge2");
        if (nat.cur_min >= 1 && nat.num_at_cur_min < (1u << m.lg_k) && nat.num_at_cur_min * 4 >= (3u << m.lg_k)) count("hll4_most_slots_at_curmin");
        if (nat.cur_min >= 1) count("hll4_curmin_ge1");
        if (nat.cur_min >= 1 && as8.err.empty()) count("hll4_curmin_gt0_read_through_hll8_copy");
        if (nat.cur_min >= 2) count("hll4_curmin_ge2");
        if (nat.cur_min >= 4) count("hll4_curmin_ge4");
        if (nat.aux_count > 0) count("hll4_aux_present");
        if (nat.aux_count * 4 > (3u << m.lg_k)) count("hll4_native_over_75pct_slots_are_exceptions");
        if (nat.aux_count > 48) count("hll4_native_more_than_48_exceptions");
        if (nat.aux_count > 0 && nat.cur_min >= 2) count("hll4_aux_present_curmin_ge2");
        if (K.prev_cur_min >= 0 && static_cast<int>(nat.cur_min) > K.prev_cur_min) {
          count("hll4_curmin_shift_observed");
          std::vector<uint32_t> both;
          std::set_intersection(K.prev_aux.begin(), K.prev_aux.end(), nat.aux_slots.begin(), nat.aux_slots.end(), std::back_inserter(both));
          if (!both.empty()) count("hll4_shift_with_surviving_aux");
          if (both.size() < K.prev_aux.size()) count("hll4_shift_aux_demoted");
        }
        // an exception raised to a larger exception while cur_min >= 1 (no shift in between)
        if (K.prev_cur_min >= 1 && static_cast<int>(nat.cur_min) == K.prev_cur_min) {
          for (size_t a = 0; a < K.prev_aux.size(); ++a) {
            auto it = std::lower_bound(nat.aux_slots.begin(), nat.aux_slots.end(), K.prev_aux[a]);
            if (it != nat.aux_slots.end() && *it == K.prev_aux[a] && nat.regs[*it] > K.prev_aux_vals[a]) { count("hll4_exception_raised_to_larger_exception_curmin_ge1"); break; }
          }
        }
        K.prev_cur_min = static_cast<int>(nat.cur_min);
        K.prev_aux_vals.clear();
        for (uint32_t sl : nat.aux_slots) K.prev_aux_vals.push_back(nat.regs[sl]);
        K.prev_aux = nat.aux_slots;
        mode_sig = mix64(mode_sig, nat.cur_min * 1000003ULL + nat.aux_count);
      }
    }
    // --- emptiness, estimates, bounds
    VF_CHECK(s.is_empty() == !m.nonempty, tn + "|is_empty", ctx + " reported=" + (s.is_empty() ? "empty" : "non-empty"));
    VF_CHECK(s.get_lg_config_k() == m.lg_k, tn + "|get_lg_config_k", ctx);
    VF_CHECK(s.get_target_type() == tgt(K.type), tn + "|get_target_type", ctx);
    K.est = s.get_estimate();
    K.comp = s.get_composite_estimate();
    double lb[4], ub[4];
    lb[0] = ub[0] = K.est;
    for (uint8_t sd = 1; sd <= 3; ++sd) { lb[sd] = s.get_lower_bound(sd); ub[sd] = s.get_upper_bound(sd); }
    const std::string bd = ctx + " est=" + str(K.est) + " lb=" + str(lb[1]) + "," + str(lb[2]) + "," + str(lb[3]) +
      " ub=" + str(ub[1]) + "," + str(ub[2]) + "," + str(ub[3]);
    for (int sd = 1; sd <= 3; ++sd) {
      VF_CHECK(lb[sd] <= K.est, tn + "|bounds|lower-above-estimate", bd);
      VF_CHECK(K.est <= ub[sd], tn + "|bounds|upper-below-estimate", bd);
      VF_CHECK(lb[sd] <= lb[sd - 1] && ub[sd] >= ub[sd - 1], tn + "|bounds|not-nested", bd);
    }
    VF_CHECK(std::isfinite(K.est) && std::isfinite(K.comp) && K.est >= 0 && K.comp >= 0, tn + "|estimate|not-finite-nonnegative", bd + " comp=" + str(K.comp));
    // --- copies converted to every type (and a plain copy) hold the same content
    if (do_conv) {
      size_t ge15 = 0;
      if (nat.err.empty() && nat.mode == M_HLL) for (uint8_t v : m.regs) ge15 += v >= 15;
      const bool mostly_ge15 = ge15 * 4 > m.regs.size() * 3;
      for (int t = 0; t < 3; ++t) {
        const std::string kp = tn + "|converted-to-" + type_name(t);
        std::unique_ptr<hll_sketch> cp;
        try { cp.reset(new hll_sketch(s, tgt(t))); }
        catch (const std::exception& e) { checked(); fail(kp + "|conversion-threw", ctx + " slots>=15: " + std::to_string(ge15) + "/" + std::to_string(m.regs.size()) + " what=" + e.what()); continue; }
        hll_sketch& c = *cp;
        if (t == 0 && K.type != 0 && nat.err.empty() && nat.mode == M_HLL) {
          if (ge15 * 2 > m.regs.size()) count(std::string("converted_to_hll4_from_") + tn + "_with_over_50pct_slots_ge15");
          if (mostly_ge15) count(std::string("converted_to_hll4_from_") + tn + "_with_over_75pct_slots_ge15");
          if (mostly_ge15 && K.full) count("converted_to_hll4_from_full_size_sketch_with_over_75pct_slots_ge15");
          if (ge15 > 48) count("converted_to_hll4_with_more_than_48_exception_slots");
        }
        Decoded dc = read_native(c);
        check_content(dc, m, model_sorted, kp, ctx);
        if (dc.err.empty()) VF_CHECK(dc.type == t, kp + "|target-type", ctx);
        VF_CHECK(c.get_target_type() == tgt(t) && c.get_lg_config_k() == m.lg_k, kp + "|type-or-lg_k", ctx);
        VF_CHECK(c.is_empty() == !m.nonempty, kp + "|is_empty", ctx);
        VF_CHECK(rel_eq(c.get_composite_estimate(), K.comp, 1e-12), kp + "|composite-estimate-differs",
                 ctx + " copy=" + str(c.get_composite_estimate()) + " source=" + str(K.comp));
        VF_CHECK(rel_eq(c.get_estimate(), K.est, 1e-12), kp + "|estimate-differs",
                 ctx + " copy=" + str(c.get_estimate()) + " source=" + str(K.est));
        count("converted_copies");
        if (K.type == 0 && nat.err.empty() && nat.mode == M_HLL && nat.cur_min >= 1 && nat.num_at_cur_min == (1u << m.lg_k))
          count(std::string("hll4_all_slots_at_curmin_converted_to_") + type_name(t));
        if (K.type == 0 && nat.err.empty() && nat.mode == M_HLL && nat.cur_min >= 1) count(std::string("hll4_curmin_gt0_converted_to_") + type_name(t));
        if (dc.err.empty() && dc.mode == M_HLL && t == 0 && dc.aux_count > 0) count("converted_to_hll4_with_aux");
        if (dc.err.empty() && dc.mode == M_HLL && t == 0 && dc.cur_min > 0) count("converted_to_hll4_curmin_gt0");
      }
      hll_sketch pc(s);
      Decoded dp = read_native(pc);
      check_content(dp, m, model_sorted, tn + "|copy-constructed", ctx);
    }
  }
  // --- cross-sketch agreement
  for (int full = 0; full < 2; ++full) {
    for (int order = 0; order < 3; ++order) {
      Sk* ref = find_sk(C, 2, full != 0, order);
      if (!ref) continue;
      for (int t = 0; t < 2; ++t) {
        Sk* o = find_sk(C, t, full != 0, order);
        if (!o) continue;
        const std::string ctx = ctx0 + (full ? " full" : " lazy") + " order" + char('A' + order) + " " + type_name(t) + " vs hll8";
        VF_CHECK(rel_eq(o->comp, ref->comp, 1e-12), "composite-estimate|differs-across-types", ctx + " " + str(o->comp) + " vs " + str(ref->comp));
        VF_CHECK(rel_eq(o->est, ref->est, 1e-12), "in-order-estimate|differs-across-types", ctx + " " + str(o->est) + " vs " + str(ref->est));
        count("cross_type_comparisons");
      }
    }
    for (int t = 0; t < 3; ++t) {
      Sk* ref = find_sk(C, t, full != 0, 0);
      if (!ref) continue;
      if (Sk* o = find_sk(C, t, full != 0, 3)) {
        // same stream, same order, but restored from its own images along the way: same estimates as the twin
        const std::string ctx = ctx0 + (full ? " full " : " lazy ") + type_name(t) + " restored twin vs never-serialized twin";
        VF_CHECK(rel_eq(o->comp, ref->comp, 1e-12), "restored-twin|composite-estimate-differs-from-never-serialized-twin", ctx + " " + str(o->comp) + " vs " + str(ref->comp));
        VF_CHECK(rel_eq(o->est, ref->est, 1e-12), "restored-twin|estimate-differs-from-never-serialized-twin", ctx + " " + str(o->est) + " vs " + str(ref->est));
        count("restored_twin_comparisons");
      }
      for (int order = 1; order < 3; ++order) {
        Sk* o = find_sk(C, t, full != 0, order);
        if (!o) continue;
        const std::string ctx = ctx0 + (full ? " full " : " lazy ") + type_name(t) + " order" + char('A' + order) + " vs orderA";
        VF_CHECK(rel_eq(o->comp, ref->comp, 1e-12), "composite-estimate|differs-across-orders", ctx + " " + str(o->comp) + " vs " + str(ref->comp));
        count("cross_order_comparisons");
        if (order == 2) count("cross_order_comparisons_full_reverse");
      }
    }
  }
  sig(mix64(mix64(m.lg_k, m.overflow ? (1ULL << 40) + m.offered : m.distinct.size()), mode_sig));
}

void run_case(uint64_t idx, Rng& r) {
  const bool T = G().thorough();
  Case C;
  // ---- configuration
  unsigned lg_k;
  if (T) lg_k = static_cast<unsigned>(r.chance(0.75) ? r.range(4, 14) : r.range(15, 21));
  else lg_k = static_cast<unsigned>(r.range(4, 14));
  if (r.chance(0.25)) lg_k = static_cast<unsigned>(r.range(4, 7));      // extra weight on direct LIST->HLL and early cur-min shifts
  // two crafted variants:
  //  bigset: a fixed handful of cases per run (case index 0..7) with lg_k 18..21 kept in coupon mode right up to the
  //          SET->HLL promotion point (bounds of the coupon-mode estimator with tens of thousands of coupons)
  //  levels: lg_k 4..7, inputs chosen with the reference hash so that EVERY slot sits at exactly 1, then exactly 2, ...
  //          (HLL_4: cur_min = v with all slots "at cur_min"), checkpoint and conversions after every input
  const bool bigset = idx < 8;
  const bool levels = !bigset && r.chance(0.08);
  if (bigset) lg_k = 18 + static_cast<unsigned>(idx % 4);
  //  highfill (a third of the levels cases): lg_k 4..9, the inputs are the whole pool of coupons with value >= 15, so that
  //          most slots of the HLL_6/HLL_8 sketches hold values >= 15; converted to HLL_4 every such slot is an exception
  const bool highfill = levels && r.chance(0.35);
  if (levels) lg_k = static_cast<unsigned>(highfill ? r.range(4, 9) : r.range(4, 7));
  C.lg_k = lg_k;
  const uint64_t k = 1ULL << lg_k;
  const uint64_t thr = lg_k >= 8 ? (3 * (k >> 3)) / 4 : 8;               // only used to *place* checkpoints and choose lengths
  const uint64_t regime = r.below(100);
  uint64_t n;
  bool mega = false;
  if (regime < 15) n = r.below(41);
  else if (regime < 40) n = static_cast<uint64_t>(static_cast<double>(thr) * (0.4 + 1.4 * r.unit())) + r.below(12);
  else if (regime < 65) n = k / 2 + r.below(8 * k);
  else {
    uint64_t cap;
    if (!T) cap = lg_k <= 7 ? 300000 : (lg_k <= 10 ? 150000 : 60000);
    else {
      cap = lg_k <= 10 ? 3000000 : 1000000;
      if (r.chance(0.03)) { cap = lg_k <= 10 ? 30000000 : 4000000; mega = true; }
    }
    const uint64_t lo = std::min<uint64_t>(8 * k, cap / 2);
    // log-uniform between lo and cap
    n = static_cast<uint64_t>(static_cast<double>(lo) * std::pow(static_cast<double>(cap) / static_cast<double>(lo), r.unit()));
  }
  if (!T) n = std::min<uint64_t>(n, 300000);
  if (T && !mega) n = std::min<uint64_t>(n, 3000000);
  uint64_t stop_at = 0;
  std::vector<uint64_t> cps;          // bigset: checkpoints by number of distinct coupons
  if (bigset) {
    n = 2 * thr + 1000;
    stop_at = idx < 4 ? thr : thr - r.below(60);
    const uint64_t first = std::min<uint64_t>(15000, stop_at / 2);
    for (uint64_t i = 0; i < 10; ++i) cps.push_back(first + (stop_at - first) * i / 10);
  }
  std::vector<uint64_t> lvl_keys;
  if (levels && highfill) {
    if (lg_k <= 7 && r.chance(0.4)) lvl_keys = level_stream(r, lg_k, 1, 0);      // cur_min 1 first (natively fed HLL_4)
    std::vector<uint64_t> hv;
    for (const HiItem& h : hi_pool()) hv.push_back(h.x);
    r.shuffle(hv);
    if (r.chance(0.3)) hv.resize(hv.size() / 2 + r.below(hv.size() / 2));
    lvl_keys.insert(lvl_keys.end(), hv.begin(), hv.end());
    n = lvl_keys.size();
    C.conv_always = true;
    count("highfill_cases");
  } else if (levels) {
    unsigned nlevels = static_cast<unsigned>(1 + r.below(3));
    // optionally: one slot that already holds an exception (value v1 >= cur_min + 15) is raised to a larger exception v2
    const HiItem* e1 = nullptr; const HiItem* e2 = nullptr;
    if (r.chance(0.6)) {
      const auto& pool = hi_pool();
      std::vector<std::pair<const HiItem*, const HiItem*>> cand;
      for (size_t a = 0; a < pool.size(); ++a) for (size_t b = 0; b < pool.size(); ++b)
        if (pool[a].value >= 16 && pool[b].value > pool[a].value && cp_slot(pool[a].coupon, lg_k) == cp_slot(pool[b].coupon, lg_k)) cand.emplace_back(&pool[a], &pool[b]);
      if (!cand.empty()) {
        auto pr = cand[r.below(cand.size())];
        e1 = pr.first; e2 = pr.second;
        nlevels = std::min<unsigned>(nlevels, static_cast<unsigned>(e1->value) - 15u);
      }
    }
    lvl_keys = level_stream(r, lg_k, nlevels, static_cast<unsigned>(r.below(4)));
    if (e1) {
      if (r.coin()) { lvl_keys.push_back(e1->x); lvl_keys.push_back(e2->x); lvl_keys.push_back(e1->x); lvl_keys.push_back(e2->x); }
      else { lvl_keys.insert(lvl_keys.begin(), e1->x); lvl_keys.push_back(e2->x); lvl_keys.push_back(e2->x); lvl_keys.push_back(e1->x); }
      count("exception_then_larger_exception_planted");
    }
    if (r.chance(0.3) && !rare_keys().empty()) { lvl_keys.push_back(rare_keys()[r.below(rare_keys().size())].x); count("rare_value_ge32_inputs_planted"); }
    for (uint64_t d = r.below(6); d > 0 && lvl_keys.size() > 1; --d) {       // re-presentations of earlier inputs
      const size_t a = r.below(lvl_keys.size() - 1);
      const size_t b = a + 1 + r.below(lvl_keys.size() - a);
      lvl_keys.insert(lvl_keys.begin() + static_cast<long>(b), lvl_keys[a]);
    }
    n = lvl_keys.size();
    C.cp_every = true; C.conv_always = true;
    count("exact_level_cases");
  }
  mega = n > 400000;
  static const double dups[] = {0.0, 0.0, 0.1, 0.5, 0.9};
  C.dup_p = dups[r.below(5)];
  if (n > 400000 && C.dup_p > 0.5) C.dup_p = 0.5;
  if (bigset) C.dup_p = 0.0;
  C.salt = r.next();
  C.fixed_kind = r.chance(0.45) ? -1 : static_cast<int>(r.below(V_NKINDS));
  if (n > 50000 && (C.fixed_kind == V_U8 || C.fixed_kind == V_I8)) C.fixed_kind = V_I64;   // 256 values only: pointless for long streams
  C.domain = r.chance(0.2) ? std::max<uint64_t>(1, n / 3) : (1ULL << 40);
  if (bigset) { C.domain = 1ULL << 40; C.fixed_kind = r.pick({int(V_U64), int(V_I64), int(V_F64), int(V_STR), int(V_BYTES)}); }
  // injected inputs with rare high coupon values (aux exceptions at small cur_min)
  const bool do_inject = !levels && lg_k <= 12 && n >= 4 && r.chance(0.5);
  std::set<uint64_t> used;
  // planted pairs of inputs whose coupons share the full 26-bit address but differ in value: two distinct coupons in
  // LIST/SET mode (in either arrival order), one slot keeping the larger value in HLL mode
  if (levels) for (size_t i = 0; i < lvl_keys.size(); ++i) C.inject.emplace_back(i, lvl_keys[i]);
  if (!levels && n >= 2 && r.chance(0.4)) {
    const auto& pp = same_address_pairs();
    const uint64_t npairs = 1 + r.below(3);
    for (uint64_t i = 0; i < npairs && !pp.empty(); ++i) {
      const AddrPair& ap = pp[r.below(pp.size())];
      const uint64_t zone = r.below(3);
      const uint64_t span = zone == 0 ? std::min<uint64_t>(n, 6) : (zone == 1 ? std::min<uint64_t>(n, std::max<uint64_t>(thr, 6)) : n);
      uint64_t p1 = r.below(span), p2 = r.below(span);
      if (p1 == p2 || used.count(p1) || used.count(p2)) continue;
      if (p1 > p2) std::swap(p1, p2);
      bool dup_pair = false;
      for (auto& q : C.planted) if (q.first == ap.c_hi) dup_pair = true;
      if (dup_pair) continue;
      used.insert(p1); used.insert(p2);
      const bool larger_first = r.coin();
      C.inject.emplace_back(p1, larger_first ? ap.x_hi : ap.x_lo);
      C.inject.emplace_back(p2, larger_first ? ap.x_lo : ap.x_hi);
      C.planted.emplace_back(ap.c_hi, ap.c_lo);
      count("planted_same_address_coupon_pairs");
      count(larger_first ? "planted_pair_larger_value_first" : "planted_pair_smaller_value_first");
    }
    std::sort(C.inject.begin(), C.inject.end());
  }
  if (!levels && n >= 1 && r.chance(0.15) && !rare_keys().empty()) {
    // rare inputs with coupon value >= 32 (kxq1, 6th bit of the 6-bit packing, HLL_4 exception for any cur_min)
    for (uint64_t i = 1 + r.below(2); i > 0; --i) {
      const uint64_t pos = r.below(n);
      if (!used.insert(pos).second) continue;
      C.inject.emplace_back(pos, rare_keys()[r.below(rare_keys().size())].x);
      count("rare_value_ge32_inputs_planted");
    }
    std::sort(C.inject.begin(), C.inject.end());
  }
  if (rare_keys().size() < 2) count("rare_keys_failed_verification");
  if (do_inject) {
    const auto& pool = hi_pool();
    const uint64_t cnt = 1 + r.below(6);
    const uint64_t span = std::min<uint64_t>(n, r.chance(0.5) ? 4 * k : n);
    for (uint64_t i = 0; i < cnt; ++i) {
      const uint64_t pos = r.below(span);
      if (!used.insert(pos).second) continue;
      C.inject.emplace_back(pos, pool[r.below(pool.size())].x);
    }
    std::sort(C.inject.begin(), C.inject.end());
    count("cases_with_injected_high_values");
  }
  const bool do_reset_history = r.chance(0.12);
  const bool do_recopy = r.chance(0.3);
  const bool do_roundtrip = !bigset && !mega && r.chance(0.6);
  std::vector<Val> held;     // a sample of inputs already presented (re-presented to restored sketches)
  const bool shuffle_b = r.coin();
  C.cfg = std::string(bigset ? "BIGSET " : (levels ? "LEVELS " : "")) + "lg_k=" + std::to_string(lg_k) + " n=" + std::to_string(n) + " dup=" + str(C.dup_p) + " kind=" + std::to_string(C.fixed_kind) +
    " domain=" + std::to_string(C.domain) + " inject=" + std::to_string(C.inject.size()) + " same_addr_pairs=" + std::to_string(C.planted.size()) + " reset_history=" + std::to_string(do_reset_history);
  describe(C.cfg);
  C.m.init(lg_k);

  // ---- sketches: type x start_full_size x order
  auto add_sk = [&](int type, bool full, int order) {
    Sk K; K.type = type; K.full = full; K.order = order;
    K.s.reset(new hll_sketch(static_cast<uint8_t>(lg_k), tgt(type), full));
    C.sks.push_back(std::move(K));
  };
  if (bigset) {
    add_sk(0, false, 0); add_sk(1, false, 0); add_sk(2, false, 0); add_sk(2, false, 1);
    count("bigset_cases");
  } else if (!mega) {
    for (int t = 0; t < 3; ++t) for (int f = 0; f < 2; ++f) for (int o = 0; o < 2; ++o) add_sk(t, f != 0, o);
    if (do_roundtrip) { for (int t = 0; t < 3; ++t) add_sk(t, false, 3); if (r.coin()) add_sk(static_cast<int>(r.below(3)), true, 3); }
  } else {
    add_sk(0, false, 0); add_sk(1, false, 0); add_sk(2, false, 0); add_sk(0, true, 1); add_sk(2, true, 1); add_sk(0, false, 1);
    count("mega_streams");
  }
  if (do_reset_history) {
    // an earlier life that must leave no trace: junk, then reset()
    const uint64_t junk = r.below(3 * k + 20);
    for (uint64_t i = 0; i < junk; ++i) {
      Val v; v.kind = V_U64; v.u = mix64(C.salt ^ 0xdeadULL, i);
      for (Sk& K : C.sks) apply_update(*K.s, v);
    }
    for (Sk& K : C.sks) K.s->reset();
    count("reset_histories");
  }
  checkpoint(C, r, false);   // empty

  // ---- the stream
  std::vector<ChunkRec> recs;
  uint64_t next_id = 0;
  uint64_t next_cp = 1;
  const double growth = lg_k >= 17 ? 1.0 + 2.0 * r.unit() : (0.15 + 0.85 * r.unit());
  const uint64_t chunk_cap = lg_k <= 10 ? (n <= 60000 ? 2048 : 16384) : 65536;
  while (C.fed < n) {
    const size_t dc = C.m.distinct.size();
    uint64_t len;
    const bool dense = C.cp_every || (!C.m.overflow && (dc < 12 || (lg_k >= 8 && dc + 4 >= thr && dc <= thr + 3)));
    uint64_t bs_target = 0;
    if (dense) len = 1;
    else if (bigset) {
      bs_target = stop_at;
      for (uint64_t t : cps) if (t > dc) { bs_target = t; break; }
      len = std::max<uint64_t>(1, std::min<uint64_t>(bs_target > dc ? bs_target - dc : 1, thr > dc + 4 ? thr - 4 - dc : 1));
    } else {
      len = std::max<uint64_t>(1, next_cp > C.fed ? next_cp - C.fed : 1);
      if (!C.m.overflow && lg_k >= 8 && dc + 4 < thr) len = std::min<uint64_t>(len, thr - 4 - dc);
    }
    len = std::min<uint64_t>(std::min<uint64_t>(len, n - C.fed), chunk_cap);
    ChunkRec rec{r.next(), len, next_id, C.fed};
    std::vector<Val> vals = gen_chunk(C, rec, &next_id);
    recs.push_back(rec);
    // order A
    for (const Val& v : vals) {
      for (Sk& K : C.sks) if (K.order == 0 || K.order == 3) apply_update(*K.s, v);
      if (v.ignored()) { count("ignored_empty_string"); continue; }
      if (do_roundtrip) { if (held.size() < 64) held.push_back(v); else if (r.chance(0.05)) held[r.below(64)] = v; }
      C.m.add(coupon_of(v));
      if (v.kind == V_F64 && (std::isnan(v.d) || (v.d == 0 && std::signbit(v.d)))) count("special_double");
    }
    // order B: same chunk, permuted
    if (len > 1) { if (shuffle_b) r.shuffle(vals); else std::reverse(vals.begin(), vals.end()); }
    for (const Val& v : vals) for (Sk& K : C.sks) if (K.order == 1) apply_update(*K.s, v);
    C.fed += len;
    count("updates", len);
    if (bigset && C.m.distinct.size() >= stop_at) n = C.fed;     // stop right at (or just below) the promotion point
    const bool bs_cp = bigset && bs_target != 0 && C.m.distinct.size() >= bs_target;
    bool force = false;
    if (lg_k <= 10) {
      // light poll of the HLL_4 image header: a cur-min shift forces a full checkpoint right away
      Sk* h4 = find_sk(C, 0, false, 0);
      if (h4) {
        Decoded d = read_native(*h4->s);
        if (d.err.empty() && d.mode == M_HLL && h4->prev_cur_min >= 0 && static_cast<int>(d.cur_min) != h4->prev_cur_min) force = true;
      }
    }
    if (dense || force || bs_cp || (!bigset && C.fed >= next_cp) || C.fed == n) {
      const bool last = C.fed == n;
      if (last) {
        // order C: the whole stream in reverse, fresh sketches, compared at the end only
        if (n <= (T ? 400000u : 120000u) && r.chance(0.6)) {
          const size_t first_new = C.sks.size();
          for (int t = 0; t < 3; ++t) add_sk(t, false, 2);
          if (r.coin()) add_sk(0, true, 2);
          for (size_t ri = recs.size(); ri-- > 0;) {
            std::vector<Val> vv = gen_chunk(C, recs[ri], nullptr);
            for (size_t j = vv.size(); j-- > 0;) for (size_t q = first_new; q < C.sks.size(); ++q) apply_update(*C.sks[q].s, vv[j]);
          }
          count("full_reverse_orders");
        }
      }
      if (do_roundtrip && r.chance(C.cp_every ? 0.15 : 0.35)) {
        std::vector<Sk*> cand;
        for (Sk& K : C.sks) if (K.order == 3) cand.push_back(&K);
        if (!cand.empty()) {
          roundtrip(C, r, *cand[r.below(cand.size())], held);
          if (r.coin()) roundtrip(C, r, *cand[r.below(cand.size())], held);
        }
      }
      if (do_recopy && r.chance(0.2)) {
        // value semantics in the history: continue with a copy of the sketch
        Sk& K = C.sks[r.below(C.sks.size())];
        hll_sketch tmp(*K.s);
        *K.s = std::move(tmp);
        count("continued_with_copy");
      }
      checkpoint(C, r, last);
      if (C.fed >= next_cp) next_cp = C.fed + 1 + static_cast<uint64_t>(static_cast<double>(C.fed) * growth);
    }
  }
  if (n == 0) checkpoint(C, r, true);
  count(std::string("lg_k_") + (lg_k < 8 ? "4_7" : (lg_k <= 14 ? "8_14" : "15_21")));
  if (want_sample()) {
    std::string first;
    if (!recs.empty()) { std::vector<Val> vv = gen_chunk(C, recs[0], nullptr); for (size_t i = 0; i < vv.size() && i < 4; ++i) first += vv[i].to_string() + ";"; }
    sample("{\"config\":" + jstr(C.cfg) + ",\"first_inputs\":" + jstr(first) + ",\"checkpoints\":" + std::to_string(C.ncheck) +
           ",\"sketches\":" + std::to_string(C.sks.size()) + ",\"final_estimate_hll8\":" + str(C.sks.empty() ? 0.0 : find_sk(C, 2, false, 0)->est) + "}");
  }
  (void)idx;
}

} // namespace vf
