// C06 (deterministic grids) — the shared bound / estimator *functions* over their input domain:
//   binomial_bounds::get_lower_bound / get_upper_bound  (num_samples x theta x std devs)
//   hll_sketch::get_rel_err / hll_union::get_rel_err     (lg_k 4..21)
//   compute_icon_estimate                                 (lg_k 4..26 x coupon count)
//   HarmonicNumbers::getBitMapEstimate                    (HLL linear-counting estimator, k x hits)
//   CubicInterpolation::usingXAndYTables                  (HLL coupon estimator, coupon count)
//   INVERSE_POWERS_OF_2, KXP_BYTE_TABLE                   (exact table contents)
//   HllArray::getCompositeEstimate                        (lg_k 4..21 x raw estimate around and beyond the table end)
//   exact one-sided coverage of the binomial bounds        (true count N x theta x std devs, binomial pmf summed)
// The grid is sharded by case index; every grid point is an "evaluation".
#include "vf/core.hpp"
#include "vf/c06_common.hpp"
#include <binomial_bounds.hpp>
#include <inv_pow2_table.hpp>
#include <hll.hpp>
#include <icon_estimator.hpp>
#include <kxp_byte_lookup.hpp>

using namespace datasketches;
namespace vf {
using namespace c06;

const char* property_id() { return "C06"; }
unsigned case_timeout_s() { return 600; }
void final_report() {}

// ------------------------------------------------------------------ grids
static std::vector<uint64_t> build_ns() {
  std::vector<uint64_t> v;
  for (uint64_t i = 0; i <= 600; ++i) v.push_back(i);
  for (int j = 0; j <= 48; ++j) v.push_back(static_cast<uint64_t>(std::llround(1000.0 * std::pow(10.0, j / 8.0))));
  v.push_back(4294967295ULL);          // largest retained count a sketch can report (uint32)
  std::sort(v.begin(), v.end()); v.erase(std::unique(v.begin(), v.end()), v.end());
  return v;
}
static const std::vector<uint64_t>& NS() { static std::vector<uint64_t> v = build_ns(); return v; }

static std::vector<double> build_thetas(uint64_t ns, bool thorough) {
  std::vector<double> v;
  const int nlog = thorough ? 2000 : 400, nlin = thorough ? 2000 : 400;
  for (int i = 0; i < nlog; ++i) v.push_back(std::pow(10.0, -12.0 * (nlog - i) / nlog));        // 1e-12 .. <1
  for (int i = 1; i <= nlin; ++i) v.push_back(static_cast<double>(i) / nlin);                    // .. 1.0
  // sketch thetas are theta64 / 2^63: smallest values, and p = 0.5 / 0.1 style starting points
  v.push_back(std::ldexp(1.0, -63)); v.push_back(std::ldexp(1.0, -53)); v.push_back(1e-15); v.push_back(0.1f); v.push_back(0.001f);
  // branch thresholds of the approximation: theta = 1 - 1e-5, theta = num_samples / 360
  const double t1 = 1.0 - 1e-5;
  for (double t : {t1, std::nextafter(t1, 0.0), std::nextafter(t1, 2.0), 1.0 - 1e-6, 1.0 - 1e-9, std::nextafter(1.0, 0.0)}) v.push_back(t);
  if (ns >= 1 && ns < 360) {
    const double t2 = ns / 360.0;
    for (double t : {t2, std::nextafter(t2, 0.0), std::nextafter(t2, 2.0), t2 * 0.999, t2 * 1.001}) if (t > 0 && t <= 1) v.push_back(t);
    // estimate = num_samples / theta close to 500 (limit of the exact tail computation)
    for (double e : {499.0, 499.999, 500.0, 500.001}) { const double t = ns / e; if (t > 0 && t <= 1) v.push_back(t); }
  }
  return v;
}

// ------------------------------------------------------------------ exact coverage of the binomial bounds
// A sketch that samples N distinct items with probability theta retains K ~ Binomial(N, theta) of them.  The
// one-sided coverage  P[lb(K, theta, sd) <= N]  and  P[ub(K, theta, sd) >= N]  is computed EXACTLY by summing the
// binomial pmf (log-gamma form; terms below 1e-18 are dropped and counted against the coverage) and must reach the
// nominal one-sided level Phi(sd) minus a tolerance.  Tolerances per (side, std devs) = 3x the worst deficit observed on
// the unchanged tree over the thorough grid, rounded up, floor 0.001.  Observed worst (coverage - nominal):
//   lb: +0.00005 / -0.00244 (N*theta ~ 100) / -0.00061;   ub: +0.00009 / -0.00024 / -0.00256 (theta 0.999..0.99999)
static const double COV_TOL_LB[4] = {0, 0.001, 0.0075, 0.002};
static const double COV_TOL_UB[4] = {0, 0.001, 0.001, 0.008};
static const double ONE_SIDED[4] = {0, 0.8413447460685429, 0.9772498680518208, 0.9986501019683699};
static std::vector<uint64_t> build_cov_ns(bool thorough) {
  std::vector<uint64_t> v;
  for (uint64_t n = 1; n <= (thorough ? 200u : 60u); ++n) v.push_back(n);
  for (double x = (thorough ? 200 : 60); x <= (thorough ? 20000 : 6000); x *= (thorough ? 1.05 : 1.12)) v.push_back(static_cast<uint64_t>(x));
  std::sort(v.begin(), v.end()); v.erase(std::unique(v.begin(), v.end()), v.end());
  return v;
}
static const std::vector<uint64_t>& COV_NS() { static std::vector<uint64_t> v = build_cov_ns(G().thorough()); return v; }
static std::vector<double> build_cov_thetas(bool thorough) {
  std::vector<double> v;
  const int nlog = thorough ? 120 : 48;
  for (int i = 0; i <= nlog; ++i) v.push_back(1e-4 * std::pow(9000.0, static_cast<double>(i) / nlog));       // 1e-4 .. 0.9
  for (double t : {0.003, 0.01, 0.02, 0.05, 0.1, 0.25, 0.5, 0.75, 0.95, 0.99, 0.999}) v.push_back(t);
  // branch thresholds of binomial_bounds.hpp: theta = K/360 (K = 2..120) and their neighbours, theta = 1 - 1e-5
  for (int k : {2, 3, 5, 8, 13, 21, 34, 55, 89, 119, 120}) { const double t = k / 360.0; v.push_back(t); v.push_back(std::nextafter(t, 0.0)); v.push_back(std::nextafter(t, 1.0)); v.push_back(t * 0.98); v.push_back(t * 1.02); }
  { const double t1 = 1.0 - 1e-5; v.push_back(t1); v.push_back(std::nextafter(t1, 0.0)); v.push_back(std::nextafter(t1, 2.0)); v.push_back(1.0 - 1e-4); }
  std::sort(v.begin(), v.end()); v.erase(std::unique(v.begin(), v.end()), v.end());
  return v;
}

static void run_exact_coverage(uint64_t N) {
  describe("exact coverage of binomial_bounds for true count N=" + std::to_string(N));
  static const std::vector<double> thetas = build_cov_thetas(G().thorough());
  const double dn = static_cast<double>(N);
  uint64_t cells = 0, small_regime = 0, h = N;
  double worst[7] = {1, 1, 1, 1, 1, 1, 1}, worst_th[7] = {0, 0, 0, 0, 0, 0, 0};   // [sd] lower bound, [3 + sd] upper bound
  for (double th : thetas) {
    const double mean = dn * th, sdv = std::sqrt(dn * th * (1 - th));
    double covL[4] = {0, 0, 0, 0}, covU[4] = {0, 0, 0, 0}, mass = 0;
    const uint64_t x_lo = static_cast<uint64_t>(std::max(0.0, std::floor(mean - 12 * sdv - 40))), x_hi = std::min<uint64_t>(N, static_cast<uint64_t>(mean + 12 * sdv + 40));
    bool in_small = false;
    for (uint64_t x = x_lo; x <= x_hi; ++x) {
      const double dx = static_cast<double>(x);
      const double lp = std::lgamma(dn + 1.0) - std::lgamma(dx + 1.0) - std::lgamma(dn - dx + 1.0) + dx * std::log(th) + (dn - dx) * std::log1p(-th);
      const double p = std::exp(lp);
      if (p < 1e-18) continue;
      mass += p;
      if (x >= 2 && x <= 120 && th < dx / 360.0 && p > 1e-4) in_small = true;
      for (unsigned sd = 1; sd <= 3; ++sd) {
        if (binomial_bounds::get_lower_bound(x, th, sd) <= dn) covL[sd] += p;
        if (binomial_bounds::get_upper_bound(x, th, sd) >= dn) covU[sd] += p;
      }
    }
    auto ctx = [&](unsigned sd) { return "N=" + std::to_string(N) + " theta=" + str(th) + " std_devs=" + std::to_string(sd) + " P[lb<=N]=" + str(covL[sd]) + " P[ub>=N]=" + str(covU[sd]) +
                                        " nominal one-sided=" + str(ONE_SIDED[sd]) + " tolerance lb/ub=" + str(COV_TOL_LB[sd]) + "/" + str(COV_TOL_UB[sd]) + " pmf mass summed=" + str(mass); };
    VF_CHECK(mass > 1 - 1e-9, "harness|exact-coverage|pmf-mass-incomplete", ctx(1));
    for (unsigned sd = 1; sd <= 3; ++sd) {
      VF_CHECK(covL[sd] >= ONE_SIDED[sd] - COV_TOL_LB[sd], "binomial_bounds|exact-coverage|lower-bound-above-true-count-too-often", ctx(sd));
      VF_CHECK(covU[sd] >= ONE_SIDED[sd] - COV_TOL_UB[sd], "binomial_bounds|exact-coverage|upper-bound-below-true-count-too-often", ctx(sd));
      if (covL[sd] - ONE_SIDED[sd] < worst[sd]) { worst[sd] = covL[sd] - ONE_SIDED[sd]; worst_th[sd] = th; }
      if (covU[sd] - ONE_SIDED[sd] < worst[3 + sd]) { worst[3 + sd] = covU[sd] - ONE_SIDED[sd]; worst_th[3 + sd] = th; }
      h = mix64(h, dbits(std::floor(covL[sd] * 1e9)) ^ dbits(std::floor(covU[sd] * 1e9)));
    }
    ++cells; if (in_small) ++small_regime;
  }
  count("grid_exact_coverage_cells", cells);
  count("grid_exact_coverage_cells_in_equiv_table_regime", small_regime);
  {   // calibration record (ignored by the driver): worst coverage minus nominal for lb sd1..3, ub sd1..3 and the theta where it occurs
    std::string w = "[", t = "[";
    for (int i = 1; i <= 6; ++i) { w += str(worst[i]) + (i < 6 ? "," : "]"); t += str(worst_th[i]) + (i < 6 ? "," : "]"); }
    emit(std::string("{\"t\":\"cov\",\"N\":") + std::to_string(N) + ",\"worst\":" + w + ",\"theta\":" + t + "}");
  }
  sig(h);
}

// ------------------------------------------------------------------ case layout
enum Kind { K_ICON, K_BITMAP, K_MISC, K_COUPON, K_BINOM, K_EXACTCOV, K_COMPOSITE };
struct CaseDef { Kind kind; uint64_t arg; };
static std::vector<CaseDef> build_cases() {
  std::vector<CaseDef> c;
  for (uint64_t lg = 26; lg >= 4; --lg) c.push_back({K_ICON, lg});
  for (uint64_t lg = 21; lg >= 4; --lg) c.push_back({K_BITMAP, lg});
  for (uint64_t lg = 21; lg >= 4; --lg) c.push_back({K_COMPOSITE, lg});
  c.push_back({K_MISC, 0});
  c.push_back({K_COUPON, 0});
  for (uint64_t i = 0; i < NS().size(); ++i) c.push_back({K_BINOM, i});
  for (uint64_t i = 0; i < COV_NS().size(); ++i) c.push_back({K_EXACTCOV, i});
  return c;
}
static const std::vector<CaseDef>& cases() { static std::vector<CaseDef> c = build_cases(); return c; }
uint64_t num_cases(bool) { return cases().size(); }

// ------------------------------------------------------------------ binomial bounds
static void run_binom(uint64_t ns) {
  describe("binomial_bounds num_samples=" + std::to_string(ns));
  const std::vector<double> thetas = build_thetas(ns, G().thorough());
  uint64_t h = ns, n_points = 0, n_equiv = 0, n_tail = 0;
  for (double theta : thetas) {
    Chain c;
    c.est = ns / theta;     // the estimate the bounds are documented to bracket
    for (unsigned sd = 1; sd <= 3; ++sd) {
      c.lb[sd] = binomial_bounds::get_lower_bound(ns, theta, sd);
      c.ub[sd] = binomial_bounds::get_upper_bound(ns, theta, sd);
    }
    check_chain_lazy(c, "binomial_bounds", [&] { return "num_samples=" + std::to_string(ns) + " theta=" + str(theta); });
    ++n_points;
    if (theta == 1.0) {
      VF_CHECK(c.lb[3] == static_cast<double>(ns) && c.ub[3] == static_cast<double>(ns), "binomial_bounds|theta-1|bounds-not-exact", "num_samples=" + std::to_string(ns) + " " + c.to_string());
    }
    if (ns >= 2 && ns <= 120 && theta < 1 - 1e-5) { if (theta < ns / 360.0) ++n_equiv; else ++n_tail; }
    h = mix64(h, dbits(c.lb[2]) ^ (dbits(c.ub[2]) << 1));
  }
  count("grid_binomial_points", n_points);
  count("grid_binomial_equiv_table_branch", n_equiv);
  count("grid_binomial_exact_tail_branch", n_tail);
  if (ns > 120) count("grid_binomial_gaussian_branch", n_points);
  if (ns <= 1) count("grid_binomial_0_or_1_sample_branch", n_points);
  sig(h);
  if (want_sample()) sample("{\"binomial_num_samples\":" + std::to_string(ns) + ",\"thetas\":" + std::to_string(thetas.size()) + "}");
}

// ------------------------------------------------------------------ misc: invalid args, rel err, tables
static void run_misc() {
  describe("invalid arguments, HLL get_rel_err, exact tables");
  // documented argument validation of binomial_bounds ("theta must be in [0, 1]", "num_std_devs must be 1, 2 or 3")
  for (double bad : {-1e-9, -1.0, 1.0 + 1e-9, 2.0, -std::numeric_limits<double>::infinity(), std::numeric_limits<double>::infinity()}) {
    VF_CHECK(throws([&] { binomial_bounds::get_lower_bound(10, bad, 2); }), "binomial_bounds|invalid-theta|lower-bound-does-not-throw", "theta=" + str(bad));
    VF_CHECK(throws([&] { binomial_bounds::get_upper_bound(10, bad, 2); }), "binomial_bounds|invalid-theta|upper-bound-does-not-throw", "theta=" + str(bad));
  }
  for (unsigned bad : {0u, 4u, 5u, 255u, 256u}) {
    for (double theta : {0.5, 1.0, 1e-3}) {
      VF_CHECK(throws([&] { binomial_bounds::get_lower_bound(10, theta, bad); }), "binomial_bounds|invalid-num-std-devs|lower-bound-does-not-throw", "sd=" + std::to_string(bad));
      VF_CHECK(throws([&] { binomial_bounds::get_upper_bound(10, theta, bad); }), "binomial_bounds|invalid-num-std-devs|upper-bound-does-not-throw", "sd=" + std::to_string(bad));
    }
  }
  count("grid_invalid_argument_probes", 42);
  // HLL relative error: sign, nesting in std devs, monotone in lg_k, unioned >= HIP
  for (int uni = 0; uni < 2; ++uni) {
    for (uint8_t lg = 4; lg <= 21; ++lg) {
      for (uint8_t sd = 1; sd <= 3; ++sd) {
        const double lo = hll_sketch::get_rel_err(false, uni, lg, sd), up = hll_sketch::get_rel_err(true, uni, lg, sd);
        const std::string ctx = "unioned=" + std::to_string(uni) + " lg_k=" + std::to_string(lg) + " sd=" + std::to_string(sd) + " lower=" + str(lo) + " upper=" + str(up);
        VF_CHECK(std::isfinite(lo) && lo > 0, "hll|get_rel_err|lower-side-not-positive", ctx);
        VF_CHECK(std::isfinite(up) && up < 0 && up > -1, "hll|get_rel_err|upper-side-not-in-(-1,0)", ctx);
        VF_CHECK(hll_union::get_rel_err(false, uni, lg, sd) == lo && hll_union::get_rel_err(true, uni, lg, sd) == up, "hll|get_rel_err|union-and-sketch-differ", ctx);
        if (sd > 1) {
          VF_CHECK(lo > hll_sketch::get_rel_err(false, uni, lg, sd - 1), "hll|get_rel_err|lower-side-not-increasing-in-std-devs", ctx);
          VF_CHECK(up < hll_sketch::get_rel_err(true, uni, lg, sd - 1), "hll|get_rel_err|upper-side-not-increasing-in-std-devs", ctx);
        }
        if (lg > 4) {
          VF_CHECK(lo < hll_sketch::get_rel_err(false, uni, lg - 1, sd), "hll|get_rel_err|lower-side-not-decreasing-in-lg_k", ctx);
          VF_CHECK(up > hll_sketch::get_rel_err(true, uni, lg - 1, sd), "hll|get_rel_err|upper-side-not-decreasing-in-lg_k", ctx);
        }
        if (uni) {
          VF_CHECK(lo > hll_sketch::get_rel_err(false, false, lg, sd) && up < hll_sketch::get_rel_err(true, false, lg, sd), "hll|get_rel_err|unioned-error-not-above-hip-error", ctx);
        }
        count("grid_hll_rel_err_points");
      }
    }
  }
  for (uint8_t bad : {uint8_t(0), uint8_t(3), uint8_t(22), uint8_t(255)})
    VF_CHECK(throws([&] { hll_sketch::get_rel_err(false, false, bad, 1); }), "hll|get_rel_err|invalid-lg_k-does-not-throw", "lg_k=" + std::to_string(bad));
  for (uint8_t bad : {uint8_t(3), uint8_t(27)})
    VF_CHECK(throws([&] { compute_icon_estimate(bad, 100); }), "cpc|icon-estimate|invalid-lg_k-does-not-throw", "lg_k=" + std::to_string(bad));
  // exact tables feeding the HIP / kxq / kxp registers
  for (int i = 0; i < 256; ++i)
    VF_CHECK(INVERSE_POWERS_OF_2[i] == std::ldexp(1.0, -i), "tables|inverse-powers-of-2|entry-wrong", "i=" + std::to_string(i) + " value=" + str(INVERSE_POWERS_OF_2[i]));
  for (int b = 0; b < 256; ++b) {
    double want = 0;
    for (int col = 0; col < 8; ++col) if (((b >> col) & 1) == 0) want += std::ldexp(1.0, -(col + 1));
    VF_CHECK(KXP_BYTE_TABLE[b] == want, "tables|kxp-byte-table|entry-wrong", "byte=" + std::to_string(b) + " value=" + str(KXP_BYTE_TABLE[b]) + " want=" + str(want));
  }
  count("grid_table_entries", 512);
  sig(0x6d697363);
}

// ------------------------------------------------------------------ CPC ICON estimator
static void run_icon(uint8_t lg_k) {
  describe("compute_icon_estimate lg_k=" + std::to_string(lg_k));
  const uint64_t k = 1ULL << lg_k;
  // coupon counts: dense up to 8k (capped), dense around the polynomial/exponential switch (5.6k / 5.7k),
  // then pairs (C, C+1) on a geometric grid up to 48k (a sketch row holds at most 64 coupons)
  const uint64_t cap = G().thorough() ? 3000000 : 200000;
  std::vector<uint64_t> cs;
  const uint64_t dense = std::min<uint64_t>(8 * k, cap);
  for (uint64_t c = 0; c <= dense; ++c) cs.push_back(c);
  const uint64_t sw = static_cast<uint64_t>((lg_k < 14 ? 5.7 : 5.6) * static_cast<double>(k));
  for (uint64_t c = (sw > 3000 ? sw - 3000 : 0); c <= sw + 3000; ++c) cs.push_back(c);
  for (double x = 1; x < 48.0 * static_cast<double>(k); x *= 1.002) { cs.push_back(static_cast<uint64_t>(x)); cs.push_back(static_cast<uint64_t>(x) + 1); }
  std::sort(cs.begin(), cs.end()); cs.erase(std::unique(cs.begin(), cs.end()), cs.end());
  while (!cs.empty() && cs.back() > 0xffffffffULL) cs.pop_back();
  double prev = -1; uint64_t prevc = 0; uint64_t h = lg_k, n_pts = 0, n_tiny = 0, n_exp = 0;
  for (uint64_t c : cs) {
    const double e = compute_icon_estimate(lg_k, static_cast<uint32_t>(c));
    auto ctx = [&] { return "lg_k=" + std::to_string(lg_k) + " C=" + std::to_string(c) + " est=" + str(e); };
    VF_CHECK(std::isfinite(e), "cpc|icon-estimate|not-finite", ctx());
    VF_CHECK(e >= static_cast<double>(c), "cpc|icon-estimate|below-coupon-count", ctx());
    if (c == 0) VF_CHECK(e == 0.0, "cpc|icon-estimate|nonzero-for-empty", ctx());
    if (c == 1) VF_CHECK(e == 1.0, "cpc|icon-estimate|one-coupon-not-one", ctx());
    if (c > 0) VF_CHECK(e > prev, "cpc|icon-estimate|not-strictly-increasing-in-coupon-count", ctx() + " previous C=" + std::to_string(prevc) + " est=" + str(prev));
    // tiny C: the estimate is ~C (collision correction C(C-1)/(6k) to first order)
    if (c * 16 <= k) {
      const double dc = static_cast<double>(c), corr = dc * (dc - 1) / (6.0 * static_cast<double>(k));
      VF_CHECK(std::fabs(e - (dc + corr)) <= 0.25 * corr + 0.012 * dc, "cpc|icon-estimate|tiny-count-not-close-to-count", ctx() + " expected~" + str(dc + corr));
      ++n_tiny;
    }
    if (c > sw) ++n_exp;
    prev = e; prevc = c; h = mix64(h, dbits(e));
    ++n_pts;
  }
  count("grid_icon_points", n_pts); count("grid_icon_tiny_points", n_tiny); count("grid_icon_exponential_branch", n_exp);
  sig(h);
}

// ------------------------------------------------------------------ HLL linear-counting estimator
static void run_bitmap(uint8_t lg_k) {
  describe("HarmonicNumbers::getBitMapEstimate lg_k=" + std::to_string(lg_k));
  const int k = 1 << lg_k;
  // exact k * (H_k - H_{k-hits}) by summation from the top
  const int step = (k <= 65536 || G().thorough()) ? 1 : std::max(1, k / 65536);
  long double tail = 0;   // sum_{j=k-hits+1..k} 1/j
  double prev = -1; uint64_t h = lg_k, n_pts = 0;
  for (int hits = 0; hits < k; ++hits) {
    if (hits > 0) tail += 1.0L / static_cast<long double>(k - hits + 1);
    if (hits % step != 0 && hits < k - 64 && hits > 64) continue;
    const double e = HarmonicNumbers<>::getBitMapEstimate(k, hits);
    const double want = static_cast<double>(static_cast<long double>(k) * tail);
    auto ctx = [&] { return "k=" + std::to_string(k) + " hits=" + std::to_string(hits) + " est=" + str(e) + " exact=" + str(want); };
    VF_CHECK(std::isfinite(e) && std::fabs(e - want) <= 1e-9 * std::max(1.0, want) * std::max(1.0, static_cast<double>(lg_k)), "hll|bitmap-estimate|differs-from-k(H_k-H_(k-hits))", ctx());
    VF_CHECK(e >= static_cast<double>(hits) - 1e-9 * hits, "hll|bitmap-estimate|below-hit-count", ctx());
    if (hits > 0) VF_CHECK(e > prev, "hll|bitmap-estimate|not-increasing-in-hits", ctx());
    prev = e; h = mix64(h, dbits(std::floor(e * 16)));
    ++n_pts;
  }
  count("grid_bitmap_points", n_pts);
  sig(h);
}

// ------------------------------------------------------------------ HLL coupon estimator
static void run_coupon() {
  describe("CubicInterpolation::usingXAndYTables (HLL LIST/SET estimator)");
  const double K = 67108864.0;
  double prev = -1; uint64_t h = 7, n_pts = 0;
  // LIST/SET mode holds at most 3/4 * 2^(21-3) coupons
  for (uint64_t c = 0; c <= 262144; c += (c < 70000 || G().thorough() ? 1 : 7)) {
    const double dc = static_cast<double>(c);
    const double e = CubicInterpolation<>::usingXAndYTables(dc);
    const double want = dc + dc * (dc - 1) / (6.0 * K);     // first-order inverse of E[coupons | n]
    auto ctx = [&] { return "coupons=" + std::to_string(c) + " est=" + str(e) + " expected~" + str(want); };
    VF_CHECK(std::isfinite(e) && std::fabs(e - want) <= 1e-4 * dc + 1e-9, "hll|coupon-estimate|differs-from-collision-corrected-count", ctx());
    if (c > 0) VF_CHECK(e > prev, "hll|coupon-estimate|not-increasing-in-coupon-count", ctx());
    prev = e; h = mix64(h, dbits(std::floor(e * 1024)));
    ++n_pts;
  }
  count("grid_coupon_points", n_pts);
  sig(h);
}

// ------------------------------------------------------------------ HLL composite estimator as a function of the raw estimate
// The composite (non-HIP) estimate is a pure function of the register sums.  On a real HLL-mode array (HLL_8, reached by
// updates) the kxq registers are overwritten (-fno-access-control) so that the raw HLL estimate sweeps from half the last
// point of the interpolation table to six times it, with very fine steps around the table end, where interpolation hands over
// to proportional extrapolation: the estimate must be finite, non-decreasing, and must not move by more than 3x the relative
// step of the raw estimate (no jump between the two regimes).
static void run_composite(uint8_t lg_k) {
  describe("HllArray::getCompositeEstimate as a function of the raw estimate, lg_k=" + std::to_string(lg_k));
  typedef std::allocator<uint8_t> AL;
  hll_sketch sk(lg_k, HLL_8);
  for (uint64_t i = 0; sk.get_current_mode() != HLL; ++i) sk.update(bij(0x636f6d70ULL + i));
  HllArray<AL>* arr = static_cast<HllArray<AL>*>(sk.sketch_impl);
  const double* xarr = CompositeInterpolationXTable<AL>::get_x_arr(lg_k);
  const double xlast = xarr[CompositeInterpolationXTable<AL>::get_x_arr_length() - 1];
  arr->putKxQ1(0.0); arr->putKxQ0(1.0);
  const double raw_at_1 = arr->getHllRawEstimate();        // raw estimate = raw_at_1 / (kxq0 + kxq1)
  std::vector<double> targets;
  for (double x = 0.5 * xlast; x < 6.0 * xlast; x *= 1.0005) targets.push_back(x);
  for (double e : {1e-12, 1e-9, 1e-6, 1e-4, 1e-3}) { targets.push_back(xlast * (1 - e)); targets.push_back(xlast * (1 + e)); }
  targets.push_back(xlast);
  std::sort(targets.begin(), targets.end());
  double prev_x = 0, prev_y = 0; uint64_t pts = 0, h = lg_k;
  for (double x : targets) {
    arr->putKxQ0(raw_at_1 / x);
    const double raw = arr->getHllRawEstimate();
    const double y = sk.get_composite_estimate();
    auto ctx = [&] { return "lg_k=" + std::to_string(lg_k) + " raw estimate=" + str(raw) + " (table end " + str(xlast) + ") composite=" + str(y) + " previous raw=" + str(prev_x) + " composite=" + str(prev_y); };
    VF_CHECK(std::isfinite(y) && y > 0, "hll|composite-estimate|not-finite-or-not-positive", ctx());
    if (pts > 0) {
      VF_CHECK(y >= prev_y, "hll|composite-estimate|decreasing-in-raw-estimate", ctx());
      VF_CHECK(y / prev_y - 1.0 <= 3.0 * (raw / prev_x - 1.0) + 1e-12, "hll|composite-estimate|jump-in-raw-estimate", ctx());
    }
    if (raw > xlast) count("grid_composite_extrapolated_points");
    prev_x = raw; prev_y = y; ++pts; h = mix64(h, dbits(y));
  }
  count("grid_composite_points", pts);
  sig(h);
}

void run_case(uint64_t idx, Rng& r) {
  (void)r;
  const CaseDef& c = cases()[idx];
  switch (c.kind) {
    case K_ICON: run_icon(static_cast<uint8_t>(c.arg)); break;
    case K_BITMAP: run_bitmap(static_cast<uint8_t>(c.arg)); break;
    case K_MISC: run_misc(); break;
    case K_COUPON: run_coupon(); break;
    case K_BINOM: run_binom(NS()[c.arg]); break;
    case K_EXACTCOV: run_exact_coverage(COV_NS()[c.arg]); break;
    case K_COMPOSITE: run_composite(static_cast<uint8_t>(c.arg)); break;
  }
}

} // namespace vf
