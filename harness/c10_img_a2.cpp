// C10 (unit A2: HLL, CPC) — images keep the documented cross-language layout; old images stay readable.
// See vf/c10_monitor.hpp for the case space, vf/c10_decode.hpp for the independent decoders.
#define C10_A2
#include "vf/c10_fam_a.hpp"
#include "vf/c10_monitor.hpp"

namespace vf { namespace c10 {
void register_unit_families() { register_group_a(); }
uint64_t random_cases(bool thorough) { return thorough ? 40000 : 1000; }
// ---------------------------------------------------------------- HLL images synthesised from the documented layout (see vf/c10_decode.hpp)
struct SynthHll { std::string name, img; uint8_t lg_k; int tgt; bool empty; std::set<uint32_t> coupons; std::vector<uint8_t> regs; double hip; };

static std::vector<SynthHll> synth_hll_images() {
  std::vector<SynthHll> out;
  Rng r(0x411C10);
  for (int tgt = 0; tgt < 3; ++tgt) {
    const uint8_t lg_k = uint8_t(8 + tgt * 2);
    const uint32_t k = 1u << lg_k;
    auto coupon = [&]() { return uint32_t((1 + r.below(40)) << 26) | uint32_t(r.below(1u << 26)); };
    // LIST: empty flag forms (8-byte compact, updatable with 8 zero slots) and with coupons
    { Wr w; w.u8(2).u8(1).u8(7).u8(lg_k).u8(3).u8(4 | 8).u8(0).u8(uint8_t(tgt << 2)); out.push_back({"list-empty-compact", w.b, lg_k, tgt, true, {}, {}, 0}); }
    { Wr w; w.u8(2).u8(1).u8(7).u8(lg_k).u8(3).u8(4).u8(0).u8(uint8_t(tgt << 2)).zeros(32); out.push_back({"list-empty-updatable", w.b, lg_k, tgt, true, {}, {}, 0}); }
    { std::set<uint32_t> cs; while (cs.size() < 5) cs.insert(coupon());
      Wr w; w.u8(2).u8(1).u8(7).u8(lg_k).u8(3).u8(8).u8(5).u8(uint8_t(tgt << 2)); for (uint32_t c : cs) w.u32(c);
      out.push_back({"list-compact", w.b, lg_k, tgt, false, cs, {}, 0});
      Wr u; u.u8(2).u8(1).u8(7).u8(lg_k).u8(3).u8(0).u8(5).u8(uint8_t(tgt << 2)); for (uint32_t c : cs) u.u32(c); u.zeros(12);
      out.push_back({"list-updatable", u.b, lg_k, tgt, false, cs, {}, 0}); }
    // SET (compact), with the lgArr byte filled in and left 0 (the reader then derives the array size from the count)
    for (int lgarr0 = 0; lgarr0 < 2; ++lgarr0) {
      std::set<uint32_t> cs; const uint32_t cnt = 9 + uint32_t(r.below(12)); while (cs.size() < cnt) cs.insert(coupon());
      Wr w; w.u8(3).u8(1).u8(7).u8(lg_k).u8(lgarr0 ? 0 : 5).u8(8).u8(0).u8(uint8_t((tgt << 2) | 1)).u32(cnt); for (uint32_t c : cs) w.u32(c);
      out.push_back({lgarr0 ? "set-compact-lgarr-byte-unused" : "set-compact", w.b, lg_k, tgt, false, cs, {}, 0});
    }
    // HLL mode
    for (int compact = 0; compact < 2; ++compact) {
      const uint8_t cur_min = tgt == 0 ? 2 : 0;
      std::vector<uint8_t> regs(k);
      for (auto& v : regs) v = uint8_t(cur_min + (r.chance(0.1) ? 0 : r.below(12)));
      if (tgt == 0) for (int i = 0; i < 5; ++i) regs[r.below(k)] = uint8_t(cur_min + 15 + r.below(20));   // exceptions
      else for (int i = 0; i < 5; ++i) regs[r.below(k)] = uint8_t(33 + r.below(20));
      uint32_t at_min = 0; double kxq0 = 0, kxq1 = 0;
      for (uint8_t v : regs) { if (v == cur_min) ++at_min; if (v < 32) kxq0 += std::ldexp(1.0, -int(v)); else kxq1 += std::ldexp(1.0, -int(v)); }
      std::vector<uint32_t> aux;
      if (tgt == 0) for (uint32_t i = 0; i < k; ++i) if (regs[i] - cur_min >= 15) aux.push_back((uint32_t(regs[i]) << 26) | i);
      const double hip = 1000.0 * (1 + tgt) + 0.25;
      const uint8_t lg_aux = hll_lg_aux_arr_ints(lg_k);
      Wr w; w.u8(10).u8(1).u8(7).u8(lg_k).u8(tgt == 0 && !compact ? lg_aux : 0).u8(compact ? 8 : 0).u8(cur_min).u8(uint8_t((tgt << 2) | 2));
      w.f64(hip).f64(kxq0).f64(kxq1).u32(at_min).u32(uint32_t(aux.size()));
      if (tgt == 2) for (uint8_t v : regs) w.u8(v);
      else if (tgt == 1) { std::vector<uint8_t> b((size_t(k) * 3) / 4 + 1, 0); for (uint32_t i = 0; i < k; ++i) { const size_t bit = size_t(i) * 6; const unsigned x = unsigned(regs[i]) << (bit & 7); b[bit >> 3] |= uint8_t(x); b[(bit >> 3) + 1] |= uint8_t(x >> 8); } for (uint8_t v : b) w.u8(v); }
      else {
        for (uint32_t i = 0; i < k; i += 2) { auto nib = [&](uint32_t j) { const int d = regs[j] - cur_min; return uint8_t(d >= 15 ? 15 : d); }; w.u8(uint8_t(nib(i) | (nib(i + 1) << 4))); }
        if (compact) for (uint32_t a : aux) w.u32(a);
        else {   // open-addressing table of 2^lgAux ints: slot = (slotNo & mask), linear probing with an odd stride is the library's
                 // business; an image only needs every pair somewhere in the table — which the reader re-inserts
          std::vector<uint32_t> table(1u << lg_aux, 0); size_t pos = 0; for (uint32_t a : aux) { table[pos % table.size()] = a; pos += 3; } for (uint32_t a : table) w.u32(a);
        }
      }
      out.push_back({std::string("hll-") + (compact ? "compact" : "updatable") + (tgt == 0 && compact ? "-lgarr-byte-unused" : ""), w.b, lg_k, tgt, false, {}, regs, hip});
    }
  }
  return out;
}

static void synth_hll_case(const SynthHll& H) {
  const std::string tn = H.tgt == 0 ? "hll4" : H.tgt == 1 ? "hll6" : "hll8";
  for (int stream = 0; stream < 2; ++stream) {
    const std::string P = stream ? "stream" : "bytes";
    const std::string key = "legacy|hll|synthesised-" + H.name + "|" + tn + "|" + P + "|";
    try {
      const hll_sketch s = read_hll(H.img, stream != 0);
      VF_CHECK(s.get_lg_config_k() == H.lg_k && int(s.get_target_type()) == H.tgt, key + "lg-k-or-target-type", "");
      VF_CHECK(s.is_empty() == H.empty, key + "is-empty", "");
      const hll_sketch s8(s, HLL_8);
      const auto img8 = s8.serialize_updatable();
      const Hll d = decode_hll(img8.data(), img8.size(), false);
      if (H.regs.empty()) {
        VF_CHECK(std::set<uint32_t>(d.coupons.begin(), d.coupons.end()) == H.coupons && d.mode != 2, key + "coupons", "got " + std::to_string(d.coupons.size()));
        if (!H.empty) VF_CHECK(s.get_estimate() >= double(H.coupons.size()) && s.get_estimate() < H.coupons.size() * 1.01 + 1, key + "estimate", str(s.get_estimate()));
        else VF_CHECK(s.get_estimate() == 0.0, key + "estimate", "");
      } else {
        VF_CHECK(d.mode == 2 && d.regs == H.regs, key + "registers", "");
        VF_CHECK(s.get_estimate() == H.hip, key + "hip-estimate", str(s.get_estimate()));
      }
    } catch (const std::exception& e) { checked(); fail(key + "deserialize-threw", e.what()); }
    count("legacy_hll_" + P);
  }
  count("legacy_hll_" + H.name);
  sig(img_hash(H.img));
}

// ---------------------------------------------------------------- CPC: empty image with and without the HIP flag
// byte0 preInts=2 1 serVer=1 2 family=16 3 lgK 4 firstInterestingColumn=0 5 flags (bit1 compressed [, bit2 has HIP]) 6-7 seedHash
static void synth_cpc_empty(int rep) {
  const uint8_t lg_k = uint8_t(4 + rep * 3); const uint64_t seed = rep & 1 ? 777 : DEFAULT_SEED; const bool hip = rep & 2;
  Wr w; w.u8(2).u8(1).u8(16).u8(lg_k).u8(0).u8(hip ? 0x06 : 0x02).u16(ref_seed_hash(seed));
  for (int stream = 0; stream < 2; ++stream) {
    const std::string P = stream ? "stream" : "bytes";
    const std::string key = std::string("legacy|cpc|synthesised-empty-") + (hip ? "with-hip-flag" : "without-hip-flag") + "|" + P + "|";
    try {
      cpc_sketch s = read_cpc(w.b, stream != 0, seed);
      VF_CHECK(s.is_empty() && s.get_lg_k() == lg_k && s.get_num_coupons() == 0 && s.get_estimate() == 0.0, key + "content", "");
      s.update(uint64_t(1)); s.update(uint64_t(2));
      VF_CHECK(s.get_num_coupons() == 2 && s.get_estimate() > 1.5 && s.get_estimate() < 2.5, key + "usable-after-read", str(s.get_estimate()));
    } catch (const std::exception& e) { checked(); fail(key + "deserialize-threw", e.what()); }
    count("legacy_cpc_" + P);
  }
  sig(img_hash(w.b));
}

std::vector<Extra>& extras() {
  static std::vector<Extra> x;
  static bool init = false;
  if (!init) {
    init = true;
    static const std::vector<SynthHll> hs = synth_hll_images();
    for (size_t i = 0; i < hs.size(); ++i) x.push_back(Extra{"synth hll " + hs[i].name, [i]() { synth_hll_case(hs[i]); }});
    for (int rep = 0; rep < 4; ++rep) x.push_back(Extra{"synth cpc empty", [rep]() { synth_cpc_empty(rep); }});
  }
  return x;
}
} }
