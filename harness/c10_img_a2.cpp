// C10 (unit A2: HLL, CPC) — images keep the documented cross-language layout; old images stay readable.
// See vf/c10_monitor.hpp for the case space, vf/c10_decode.hpp for the independent decoders.
#define C10_A2
#include "vf/c10_fam_a.hpp"
#include "vf/c10_monitor.hpp"

namespace vf { namespace c10 {
void register_unit_families() { register_group_a(); }
uint64_t random_cases(bool thorough) { return thorough ? 40000 : 1000; }
std::vector<Extra>& extras() { static std::vector<Extra> x; return x; }
} }
