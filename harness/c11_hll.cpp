// C11 unit: HLL sketch images — compact and updatable x HLL_4/6/8 x LIST / SET / HLL (+ aux exceptions
// for HLL_4) + start-full-size empty + union result (out-of-order flag).
// compiled with -fno-access-control (coupon_update is used to plant HLL_4 aux exceptions cheaply).
#include "vf/c11_fault.hpp"
#include <hll.hpp>

using namespace datasketches;
namespace vf { namespace c11 {

unsigned variants(bool thorough) { return thorough ? 16 : 3; }

static uint64_t shash(const std::string& s) { uint64_t h = 1469598103934665603ULL; for (unsigned char c : s) h = mix64(h, c); return h; }

static std::string hll_readout(const hll_sketch& s) {
  std::string o;
  o += "lgk=" + std::to_string(s.get_lg_config_k()) + " type=" + std::to_string(static_cast<int>(s.get_target_type())) +
       " compact=" + std::to_string(s.is_compact()) + " empty=" + std::to_string(s.is_empty()) +
       " est=" + num(s.get_estimate()) + " comp=" + num(s.get_composite_estimate());
  for (uint8_t sd = 1; sd <= 3; ++sd) o += " b" + std::to_string(sd) + "=" + num(s.get_lower_bound(sd)) + "/" + num(s.get_upper_bound(sd));
  o += " cb=" + std::to_string(s.get_compact_serialization_bytes()) + " ub=" + std::to_string(s.get_updatable_serialization_bytes());
  o += " str=" + std::to_string(shash(s.to_string(true, true, true, true)));
  o += " serc=" + hexv(s.serialize_compact());
  o += " seru=" + hexv(s.serialize_updatable());
  { std::ostringstream os; s.serialize_compact(os); o += " sercs=" + std::to_string(os.str().size()); }
  { std::ostringstream os; s.serialize_updatable(os); o += " serus=" + std::to_string(os.str().size()); }
  hll_sketch as8(s, HLL_8);
  o += " as8=" + hexv(as8.serialize_updatable());
  return o;
}

static void hll_use(hll_sketch& s) {
  for (int i = 0; i < 50; ++i) s.update(static_cast<uint64_t>(i) * 7919 + 3);
  (void)s.get_estimate(); (void)s.get_composite_estimate(); (void)s.get_lower_bound(2); (void)s.get_upper_bound(2);
  (void)s.serialize_compact(); (void)s.serialize_updatable();
  hll_sketch fresh(8, HLL_6);
  for (int i = 0; i < 300; ++i) fresh.update(static_cast<uint64_t>(i) * 104729 + 11);
  hll_union u(10);
  u.update(s); u.update(fresh);
  hll_sketch r = u.get_result(HLL_4);
  (void)r.get_estimate(); (void)r.serialize_compact();
  hll_sketch copy(s, HLL_4);
  (void)copy.serialize_updatable();
  s.reset();
  s.update(static_cast<uint64_t>(1));
  (void)s.serialize_compact();
}

static std::string hll_bytes(const void* p, size_t n, bool use) {
  return accept([&] { return hll_sketch::deserialize(p, n); }, hll_readout, hll_use, use);
}
static std::string hll_stream(std::istream& is, bool use) {
  return accept([&] { return hll_sketch::deserialize(is); }, hll_readout, hll_use, use);
}

enum Mode { M_EMPTY, M_LIST, M_SET, M_HLL, M_HLL_AUX, M_FULL_EMPTY, M_UNION, M_BIG_LIST, M_BIG_SET };   // BIG: lg_k 21, tiny content

static hll_sketch hll_state(Rng& r, bool T, int mode, target_hll_type type) {
  uint8_t lg_k = static_cast<uint8_t>(r.range(4, T ? 9 : 8));
  if (mode == M_SET) lg_k = static_cast<uint8_t>(r.range(8, T ? 11 : 9));
  if (mode == M_BIG_LIST || mode == M_BIG_SET) {
    // large nominal configuration, tiny content: the count fields of the image are then bounded only by the large configured maximum
    hll_sketch s(static_cast<uint8_t>(r.range(20, 21)), type);
    const uint64_t n = mode == M_BIG_LIST ? 1 + r.below(7) : 9 + r.below(40), base = r.next();
    for (uint64_t i = 0; i < n; ++i) s.update(static_cast<uint64_t>(base + i * UINT64_C(0x9e3779b97f4a7c15)));
    return s;
  }
  if (mode == M_FULL_EMPTY) {
    lg_k = static_cast<uint8_t>(r.range(4, 7));
    return hll_sketch(lg_k, type, true);
  }
  hll_sketch s(lg_k, type, mode == M_HLL && r.chance(0.2));
  const uint64_t k = 1ULL << lg_k;
  const uint64_t base = r.next();
  uint64_t n = 0;
  switch (mode) {
    case M_EMPTY: n = 0; break;
    case M_LIST: n = 1 + r.below(7); break;
    case M_SET: n = 9 + r.below(k / 8 * 3 / 4 > 12 ? k / 8 * 3 / 4 - 10 : 2); break;   // stays below the promotion threshold most of the time
    default: n = 2 * k + r.below(20 * k); break;
  }
  for (uint64_t i = 0; i < n; ++i) s.update(static_cast<uint64_t>(base + i * UINT64_C(0x9e3779b97f4a7c15)));
  if (mode == M_HLL_AUX) {
    const int nx = static_cast<int>(r.range(1, 6));
    for (int i = 0; i < nx; ++i) {
      const uint32_t slot = static_cast<uint32_t>(r.below(k));
      const uint8_t value = static_cast<uint8_t>(r.range(24, 50));
      s.coupon_update(HllUtil<std::allocator<uint8_t>>::pair(slot, value));
    }
  }
  if (mode == M_UNION) {
    hll_union u(static_cast<uint8_t>(lg_k + r.below(2)));
    u.update(s);
    hll_sketch other(static_cast<uint8_t>(r.range(4, 9)), HLL_8);
    for (uint64_t i = 0; i < 3 * k; ++i) other.update(static_cast<uint64_t>(~base + i * 7919));
    u.update(other);
    return u.get_result(type);
  }
  return s;
}

static Bytes hll_image(Rng& r, bool T, int mode, target_hll_type type, bool compact) {
  hll_sketch s = hll_state(r, T, mode, type);
  auto v = compact ? s.serialize_compact() : s.serialize_updatable();
  return Bytes(v.begin(), v.end());
}

std::vector<Target> targets() {
  std::vector<Target> t;
  struct { const char* name; int m; } modes[] = {{"empty", M_EMPTY}, {"list", M_LIST}, {"set", M_SET}, {"hll", M_HLL}, {"hll_aux", M_HLL_AUX},
    {"full_empty", M_FULL_EMPTY}, {"union_result", M_UNION}, {"bigcfg_list", M_BIG_LIST}, {"bigcfg_set", M_BIG_SET}};
  const target_hll_type types[] = {HLL_4, HLL_6, HLL_8};
  const char* tn[] = {"hll4", "hll6", "hll8"};
  // order: mode fastest, so that neighbouring cases differ in mode/type/form
  for (int form = 0; form < 2; ++form) for (int ti = 0; ti < 3; ++ti) for (auto& m : modes) {
    if (m.m == M_HLL_AUX && ti != 0) continue;
    if ((m.m == M_EMPTY || m.m == M_FULL_EMPTY || m.m == M_UNION || m.m == M_BIG_LIST || m.m == M_BIG_SET) && ti == 1) continue;  // fewer duplicates of type-independent kinds
    const int mm = m.m; const target_hll_type ty = types[ti]; const bool compact = form == 0;
    BuildFn b = [mm, ty, compact](Rng& r, bool T) { return hll_image(r, T, mm, ty, compact); };
    const std::string kind = std::string(compact ? "compact_" : "updatable_") + tn[ti] + "_" + m.name;
    t.push_back({"hll", kind, "bytes", b, bytes_path(hll_bytes)});
    t.push_back({"hll", kind, "stream", b, stream_path(hll_stream)});
  }
  // older writers left the lgArr byte (offset 4) zero in compact images; the readers then derive the array size from the count
  for (int which = 0; which < 2; ++which) {
    BuildFn b = [which](Rng& r, bool T) { Bytes img = hll_image(r, T, which ? M_HLL_AUX : M_SET, which ? HLL_4 : (r.coin() ? HLL_6 : HLL_8), true); img[4] = 0; return img; };
    const char* kind = which ? "legacy_compact_hll4_aux_lgarr_byte_unused" : "legacy_compact_set_lgarr_byte_unused";
    t.push_back({"hll", kind, "bytes", b, bytes_path(hll_bytes)});
    t.push_back({"hll", kind, "stream", b, stream_path(hll_stream)});
  }
  return t;
}

}} // namespace
