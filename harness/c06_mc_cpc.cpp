// C06 (Monte-Carlo, CPC) — bias, spread and interval coverage of cpc_sketch (HIP estimate and bounds; the
// ICON estimate and its bounds on the same sketches) and of cpc_union results (merged => ICON).
// One case = one (family, lg_k, cardinality) cell; all its trials run in this case.
// Compiled with -fno-access-control: get_icon_estimate()/get_hip_estimate() are private read-outs.
#include "vf/core.hpp"
#include "vf/c06_common.hpp"
#include <cpc_sketch.hpp>
#include <cpc_union.hpp>

using namespace datasketches;
namespace vf {
using namespace c06;

const char* property_id() { return "C06"; }
unsigned case_timeout_s() { return 1800; }

// cpc_union_mixed: input A of lg_k+2 over keys [0, 0.7n) and input B of lg_k over keys [0.3n, n) (40% of the keys are in
// both) into a union of lg_k; the order alternates with the trial (finer input first / last).
// cpc_union_hires: union results (ICON estimate and bounds) at small lg_k with thousands of trials, additionally checked with
// the high-resolution interval-coverage clause (kappa-scaled tolerance, vf/c06_common.hpp) (the ICON interval is widest, and most asymmetric, at lg_k 4..7).
// cpc_hip_hires: directly fed sketches (HIP estimate and bounds) at lg_k 4..6 under the same high-resolution clause.
enum Fam { F_CPC, F_CPC_UNION, F_CPC_UNION_MIXED, F_CPC_UNION_HIRES, F_CPC_HIP_HIRES, F_N };
static const char* FAM_NAME[] = {"cpc", "cpc_union", "cpc_union_mixed", "cpc_union_hires", "cpc_hip_hires"};
typedef std::allocator<uint8_t> AL;

static std::vector<Cell> build_cells(bool thorough) {
  std::vector<Cell> cells;
  struct Cfg { uint8_t lg_k; uint32_t trials; int max_mi; };
  std::vector<Cfg> cfgs;
  if (!thorough) cfgs = {{4, 300, NMULTS - 1}, {6, 300, NMULTS - 1}, {9, 200, NMULTS - 1}, {11, 200, NMULTS - 3}};
  else cfgs = {{4, 3000, NMULTS - 1}, {5, 3000, NMULTS - 1}, {6, 3000, NMULTS - 1}, {7, 3000, NMULTS - 1}, {8, 3000, NMULTS - 1}, {9, 3000, NMULTS - 1},
               {10, 2000, NMULTS - 1}, {11, 1500, NMULTS - 1}, {12, 1000, NMULTS - 1}, {13, 800, NMULTS - 2}, {14, 600, NMULTS - 3}};
  std::vector<Cfg> thin;
  if (!thorough) thin = {{6, 300, NMULTS - 1}, {9, 200, NMULTS - 2}};
  else thin = {{5, 3000, NMULTS - 1}, {8, 3000, NMULTS - 1}, {11, 1500, NMULTS - 1}};
  for (uint8_t lg = 4; lg <= 7; ++lg)
    for (int mi : {7, 10}) {    // 8k and 64k
      Cell x; x.fam = F_CPC_UNION_HIRES; x.lg_k = lg; x.mi = mi; x.trials = thorough ? 16000 : (lg <= 5 ? 10000 : 4000); x.n = cardinality(lg, mi);
      x.cost = static_cast<double>(x.n) * x.trials * 1.4 + 5000.0 * x.trials;
      cells.push_back(x);
    }
  for (uint8_t lg = 4; lg <= 6; ++lg)
    for (int mi : {7, 10}) {    // 8k and 64k
      Cell x; x.fam = F_CPC_HIP_HIRES; x.lg_k = lg; x.mi = mi; x.trials = thorough ? 40000 : (lg <= 5 ? 20000 : 6000); x.n = cardinality(lg, mi);
      x.cost = static_cast<double>(x.n) * x.trials + 3000.0 * x.trials;
      cells.push_back(x);
    }
  for (int f = 0; f < F_CPC_UNION_HIRES; ++f)
    for (auto& c : (f == F_CPC_UNION_MIXED ? thin : cfgs))
      for (int mi = 0; mi <= c.max_mi; ++mi) {
        Cell x; x.fam = f; x.lg_k = c.lg_k; x.mi = mi; x.trials = c.trials; x.n = cardinality(c.lg_k, mi);
        x.cost = static_cast<double>(x.n) * x.trials * (f >= F_CPC_UNION ? 1.4 : 1.0) + 5000.0 * x.trials;
        cells.push_back(x);
      }
  order_cells(cells);
  return cells;
}
static const std::vector<Cell>& cells() { static std::vector<Cell> c = build_cells(G().thorough()); return c; }

uint64_t num_cases(bool thorough) { (void)thorough; return cells().size(); }
void final_report() {}

// published one-sigma relative error (mean of the two sides) from cpc_confidence.hpp
static double published_rse(bool icon, uint8_t lg_k) {
  const double k = static_cast<double>(1ULL << lg_k);
  double lo, hi;
  if (lg_k <= 14) {
    lo = (icon ? ICON_LOW_SIDE_DATA : HIP_LOW_SIDE_DATA)[3 * (lg_k - 4)] / 10000.0;
    hi = (icon ? ICON_HIGH_SIDE_DATA : HIP_HIGH_SIDE_DATA)[3 * (lg_k - 4)] / 10000.0;
  } else lo = hi = icon ? ICON_ERROR_CONSTANT : HIP_ERROR_CONSTANT;
  return 0.5 * (lo + hi) / std::sqrt(k);
}

static bool small_range(uint8_t lg_k, uint64_t n) { return n * 32 <= 3 * (1ULL << lg_k); }

static void check_window(double est, uint64_t n, uint8_t lg_k, const std::string& key, const std::string& ctx) {
  const Window w = small_range_window(n, static_cast<double>(1ULL << lg_k));
  VF_CHECK(w.lo <= est && est <= w.hi, key, ctx + " n=" + std::to_string(n) + " est=" + str(est) + " window=[" + str(w.lo) + "," + str(w.hi) + "]");
}

void run_case(uint64_t idx, Rng& r) {
  const Cell& cell = cells()[idx];
  const std::string fam = FAM_NAME[cell.fam];
  const uint64_t n = cell.n;
  const uint64_t base = r.next();
  seed_order(r);
  describe("mc family=" + fam + " lg_k=" + std::to_string(cell.lg_k) + " n=" + std::to_string(n) + " (" + std::to_string(MULTS[cell.mi].num) + "/" +
           std::to_string(MULTS[cell.mi].den) + " k) trials=" + std::to_string(cell.trials) + " keybase=" + std::to_string(base));
  const bool small = small_range(cell.lg_k, n);
  std::vector<Trial> tr, icon; tr.reserve(cell.trials);
  for (uint32_t t = 0; t < cell.trials; ++t) {
    const uint64_t kb = base + (static_cast<uint64_t>(t) << 32);
    const std::string ctx = "trial=" + std::to_string(t);
    auto key = [&](uint64_t i) { return bij(kb + i); };
    if (cell.fam == F_CPC || cell.fam == F_CPC_HIP_HIRES) {
      cpc_sketch s(cell.lg_k);
      for (uint64_t i = 0; i < n; ++i) s.update(key(i));
      Trial x; x.c = read_chain(s); check_chain(x.c, fam, ctx); x.exact_class = small;
      VF_CHECK(x.c.est == s.get_hip_estimate(), "cpc|unmerged-sketch-estimate-is-not-hip", ctx);
      if (small) check_window(x.c.est, n, cell.lg_k, "cpc|small-range|hip-estimate-outside-accuracy-window", ctx);
      tr.push_back(x);
      if (cell.fam == F_CPC_HIP_HIRES) continue;
      Trial y; y.c.est = s.get_icon_estimate();
      for (int kappa = 1; kappa <= 3; ++kappa) { y.c.lb[kappa] = get_icon_confidence_lb<AL>(s, kappa); y.c.ub[kappa] = get_icon_confidence_ub<AL>(s, kappa); }
      check_chain(y.c, "cpc_icon", ctx);
      if (small) check_window(y.c.est, n, cell.lg_k, "cpc_icon|small-range|icon-estimate-outside-accuracy-window", ctx);
      icon.push_back(y);
    } else {
      const bool mixed = cell.fam == F_CPC_UNION_MIXED;
      const uint64_t a_end = mixed ? n - n * 3 / 10 : n - n * 2 / 5, b_begin = mixed ? n * 3 / 10 : n * 2 / 5;
      cpc_sketch a(static_cast<uint8_t>(cell.lg_k + (mixed ? 2 : 0))), b(cell.lg_k);
      for (uint64_t i = 0; i < a_end; ++i) a.update(key(i));
      for (uint64_t i = b_begin; i < n; ++i) b.update(key(i));
      cpc_union u(cell.lg_k);
      if (mixed && (t & 1)) { u.update(b); u.update(a); } else { u.update(a); u.update(b); }
      const cpc_sketch res = u.get_result();
      Trial x; x.c = read_chain(res); check_chain(x.c, fam, ctx); x.exact_class = small;
      { const cpc_sketch res2 = u.get_result(); VF_CHECK(same_chain(read_chain(res2), x.c), fam + "|get_result|second-result-differs-from-first", ctx); }
      VF_CHECK(x.c.est == res.get_icon_estimate(), fam + "|result-estimate-is-not-icon", ctx);
      if (small) check_window(x.c.est, n, cell.lg_k, fam + "|small-range|estimate-outside-accuracy-window", ctx);
      tr.push_back(x);
    }
  }
  const std::string ctx = "family=" + fam + " lg_k=" + std::to_string(cell.lg_k) + " n=" + std::to_string(n);
  // small-range cells: the error is a rare collision event; the per-trial window replaces bias/spread
  const CellResult R = check_cell(tr, n, published_rse(cell.fam >= F_CPC_UNION && cell.fam != F_CPC_HIP_HIRES, cell.lg_k), fam, ctx, !small, true);
  if (cell.fam == F_CPC_UNION_HIRES || cell.fam == F_CPC_HIP_HIRES) {
    const std::string rec = check_interval_miss(tr, n, fam, ctx); count("mc_hires_cells");
    sample("{\"hires_cell\":" + jstr(rec) + "}");
  }
  if (cell.fam == F_CPC) { check_cell(icon, n, published_rse(true, cell.lg_k), "cpc_icon", ctx + " (icon estimate/bounds of an unmerged sketch)", !small, true); count("mc_icon_cells"); }
  count("mc_cells");
  count("mc_trials", cell.trials);
  count(std::string("mc_") + fam + "_" + (small ? "exact" : range_class(cell.lg_k, n)));
  sig(mix64(mix64(200 + cell.fam, cell.lg_k), mix64(n, dbits(std::floor(R.sd * 1e12)))));
  if (want_sample()) sample("{\"cell\":" + jstr(ctx) + ",\"trials\":" + std::to_string(cell.trials) + ",\"result\":" + jstr(R.to_string()) + "}");
}

} // namespace vf
