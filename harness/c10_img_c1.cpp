// C10 (unit C1: VarOpt, VarOpt union, EBPPS) — images keep the documented cross-language layout; old images stay readable.
// See vf/c10_monitor.hpp for the case space, vf/c10_decode.hpp for the independent decoders.  Compiled with -fno-access-control.
#define C10_C1
#include "vf/c10_fam_c.hpp"
#include "vf/c10_monitor.hpp"

namespace vf { namespace c10 {
void register_unit_families() { register_group_c(); }
uint64_t random_cases(bool thorough) { return thorough ? 150000 : 1500; }
// ---------------------------------------------------------------- VarOpt images synthesised from the documented layout
// byte0 low 6 bits preLongs (3 warm-up, 4 full), high 2 bits resize factor 1 serVer=2 2 family=13 3 flags 4-7 k | u64 n (the
// items-seen count; documented as limited to 48 bits, stored in a full long) | u32 h u32 r | [f64 totalWeightR] | f64 weights[h] | items[h+r]
static void synth_varopt(int rep) {
  Rng r(0x7A60 + rep);
  const bool full = rep & 1;
  const uint32_t k = 8 + 4 * uint32_t(rep);
  const uint32_t h = full ? uint32_t(r.below(k)) : 1 + uint32_t(r.below(k));
  const uint32_t rr = full ? k - h : 0;
  const uint64_t n = full ? (rep == 3 ? (uint64_t(1) << 40) + 12345 : k + 1000) : h;   // one count above 32 bits
  const uint8_t rf = uint8_t(rep % 4);
  const double tau = 7.5, total_r = tau * rr;
  std::vector<int64_t> items; std::vector<double> wts;
  for (uint32_t i = 0; i < h; ++i) wts.push_back(100.0 + double(r.below(10000)) * 0.5);
  for (uint32_t i = 0; i < h + rr; ++i) items.push_back(int64_t(r.below(1u << 30)) - 1000);
  Wr w; w.u8(uint8_t((full ? 4 : 3) | (rf << 6))).u8(2).u8(13).u8(0).u32(k).u64(n).u32(h).u32(rr);
  if (full) w.f64(total_r);
  for (double x : wts) w.f64(x);
  for (int64_t x : items) w.u64(uint64_t(x));
  std::vector<double> want_w = wts; for (uint32_t i = 0; i < rr; ++i) want_w.push_back(total_r / rr);
  for (int stream = 0; stream < 2; ++stream) {
    const std::string P = stream ? "stream" : "bytes";
    const std::string key = std::string("legacy|varopt|synthesised-") + (full ? "full" : "warmup") + "|" + P + "|";
    try {
      const auto s = read_varopt<int64_t>(w.b, stream != 0);
      VF_CHECK(s.get_k() == k && s.get_n() == n && s.get_num_samples() == h + rr && !s.is_empty(), key + "counts", "n=" + std::to_string(s.get_n()));
      std::vector<int64_t> gi; std::vector<double> gw;
      varopt_items(s, gi, gw);
      VF_CHECK(gi == items, key + "items-or-order", "");
      VF_CHECK(same_bits(gw, want_w), key + "weights", "h=" + std::to_string(h) + " r=" + std::to_string(rr));
      const std::string re = write_varopt(s, false);
      VF_CHECK(re == w.b, key + "reserialized-differs", "resize factor bits or field order not preserved");
    } catch (const std::exception& e) { checked(); fail(key + "deserialize-threw", e.what()); }
    count("legacy_varopt_" + P);
  }
  sig(img_hash(w.b));
}

std::vector<Extra>& extras() {
  static std::vector<Extra> x;
  static bool init = false;
  if (!init) { init = true; for (int rep = 0; rep < 6; ++rep) x.push_back(Extra{"synth varopt", [rep]() { synth_varopt(rep); }}); }
  return x;
}
} }
