// C10 (unit C1: VarOpt, VarOpt union, EBPPS) — images keep the documented cross-language layout; old images stay readable.
// See vf/c10_monitor.hpp for the case space, vf/c10_decode.hpp for the independent decoders.  Compiled with -fno-access-control.
#define C10_C1
#include "vf/c10_fam_c.hpp"
#include "vf/c10_monitor.hpp"

namespace vf { namespace c10 {
void register_unit_families() { register_group_c(); }
uint64_t random_cases(bool thorough) { return thorough ? 150000 : 1500; }
std::vector<Extra>& extras() { static std::vector<Extra> x; return x; }
} }
