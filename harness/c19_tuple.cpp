// C19 — value semantics / every byte returned: Tuple family with an instrumented summary type
#ifndef C19_PART
#define C19_PART 0
#endif
#include "vf/c19_thetalike.hpp"
#include <tuple_sketch.hpp>
#include <tuple_union.hpp>
#include <tuple_intersection.hpp>
#include <tuple_a_not_b.hpp>

using namespace datasketches;
namespace vf {
const char* property_id() { return "C19"; }
unsigned case_timeout_s() { return 120; }
uint64_t num_cases(bool thorough) { return (C19_PART == 0 ? 2 : 3) * (thorough ? 3000 : 160); }
void final_report() {}

// summary = Item; update value = Item (by const& or &&)
struct ItemUpdatePolicy {
  Item create() const { return Item(0); }
  void update(Item& summary, const Item& u) const { summary = Item((summary.id() + u.id()) & 0xffffffffULL); }
  void update(Item& summary, Item&& u) const { const uint64_t s = summary.id(); summary = std::move(u); summary = Item((s + summary.id()) & 0xffffffffULL); }
};
struct ItemUnionPolicy {
  void operator()(Item& summary, const Item& other) const { summary = Item((summary.id() + other.id()) & 0xffffffffULL); }
  void operator()(Item& summary, Item&& other) const { Item taken(std::move(other)); summary = Item((summary.id() + taken.id()) & 0xffffffffULL); }
};
struct ItemIntersectionPolicy {
  void operator()(Item& summary, const Item& other) const { summary = Item((summary.id() * 31 + other.id()) & 0xffffffffULL); }
  void operator()(Item& summary, Item&& other) const { Item taken(std::move(other)); summary = Item((summary.id() * 31 + taken.id()) & 0xffffffffULL); }
};

struct TupleTT {
  typedef track_alloc<Item> A;
  typedef update_tuple_sketch<Item, Item, ItemUpdatePolicy, A> UpdateSk;
  typedef compact_tuple_sketch<Item, A> CompactSk;
  typedef tuple_union<Item, ItemUnionPolicy, A> Union;
  typedef tuple_intersection<Item, ItemIntersectionPolicy, A> Intersection;
  typedef tuple_a_not_b<Item, A> ANotB;
  static const char* fam() { return "tuple"; }
  static void make_update(void* mem, const TCfg& c, uint8_t lg_k, Arena* a) {
    new (mem) UpdateSk(UpdateSk::builder(ItemUpdatePolicy(), A(a)).set_lg_k(lg_k).set_resize_factor(static_cast<theta_constants::resize_factor>(c.rf)).set_p(c.p).set_seed(c.seed).build());
  }
  static void feed(UpdateSk& u, uint64_t key, Rng& r) {
    const uint64_t v = 1 + r.below(1000);
    switch (r.below(4)) {
      case 0: { Item val(v); u.update(key, val); break; }
      case 1: u.update(key, Item(v)); break;
      case 2: u.update(std::string("k") + std::to_string(key), Item(v)); break;
      default: { Item val(v); u.update(&key, sizeof key, val); break; }
    }
  }
  template<typename E> static std::string entry_str(const E& e) { return std::to_string(e.first) + ":" + std::to_string(e.second.id()); }
  static std::string image(const CompactSk& s) { return bytes_hex(s.serialize(0, ItemSerde())); }
  static void deserialize(void* mem, const CompactSk& src, const TCfg& c, Arena* a, Rng& r) {
    if (r.coin()) {
      auto b = src.serialize(8, ItemSerde());
      new (mem) CompactSk(CompactSk::deserialize(b.data() + 8, b.size() - 8, c.seed, ItemSerde(), A(a)));
    } else {
      std::stringstream ss(std::ios::in | std::ios::out | std::ios::binary);
      src.serialize(ss, ItemSerde());
      new (mem) CompactSk(CompactSk::deserialize(ss, c.seed, ItemSerde(), A(a)));
    }
  }
  static void make_union(void* mem, const TCfg& c, uint8_t lg_k, Arena* a) {
    new (mem) Union(Union::builder(ItemUnionPolicy(), A(a)).set_lg_k(lg_k).set_resize_factor(static_cast<theta_constants::resize_factor>(c.rf)).set_p(c.p).set_seed(c.seed).build());
  }
  static void make_intersection(void* mem, const TCfg& c, Arena* a) { new (mem) Intersection(c.seed, ItemIntersectionPolicy(), A(a)); }
  static void make_anotb(void* mem, const TCfg& c, Arena* a) { new (mem) ANotB(c.seed, A(a)); }
};

// the unit is compiled twice (registry flag -DC19_PART=0 / 1) to keep each compile short
void run_case(uint64_t idx, Rng& r) {
#if C19_PART == 0
  if (idx % 2 == 0) run_program<TLUpdateFam<TupleTT>>(r); else run_program<TLCompactFam<TupleTT>>(r);
#else
  switch (idx % 3) {
    case 0: run_program<TLUnionFam<TupleTT>>(r); break;
    case 1: run_program<TLIntersectionFam<TupleTT>>(r); break;
    default: run_program<TLANotBFam<TupleTT>>(r); break;
  }
#endif
}
} // namespace vf
