// C10 (unit B1: KLL, REQ, classic quantiles) — images keep the documented cross-language layout; old images stay readable.
// See vf/c10_monitor.hpp for the case space, vf/c10_decode.hpp for the independent decoders.
#define C10_B1
#include "vf/c10_fam_b.hpp"
#include "vf/c10_monitor.hpp"

namespace vf { namespace c10 {
void register_unit_families() { register_group_b(); }
uint64_t random_cases(bool thorough) { return thorough ? 100000 : 1500; }
// ---------------------------------------------------------------- legacy classic-quantiles images synthesised from the documented layout
// byte0 preLongs 1 serVer 2 family=8 3 flags (bit2 empty, bit3 compact, bit4 sorted) 4-5 k 6-7 unused | u64 n | min | max |
// serVer 1: preLongs 5 (one more, no longer used, long after max), never compact: 2k base-buffer slots, then the levels
// serVer 2: preLongs 2, compact flag not set but always stored compact: n mod 2k base-buffer items, then the levels whose bit is set
// serVer 3 without the compact flag: 2k base-buffer slots, then the levels
// The accepted (serVer, preLongs, flags) combinations are the table in quantiles_sketch_impl.hpp check_header_validity.
static void legacy_quantiles_case(int form, int rep) {
  Rng r(0x9A171E5 + 31 * form + rep);
  static const uint16_t ks[] = {8, 16, 128};
  const uint16_t k = ks[rep % 3];
  // level bit patterns: non-compact forms use patterns without holes (every level below the top one present)
  static const uint64_t pats_full[] = {0, 1, 3, 7}; static const uint64_t pats_any[] = {0, 1, 2, 5, 6};
  const bool compact_storage = form == 2;
  const uint64_t pat = compact_storage ? pats_any[rep % 5] : pats_full[rep % 4];
  const uint64_t bb = rep % 4 == 3 ? 0 : 1 + r.below(2 * k - 1);
  const bool empty = rep == 7;
  const uint64_t n = empty ? 0 : pat * 2 * k + bb == 0 ? 1 : pat * 2 * k + bb;
  const uint64_t nbb = n % (2ULL * k);
  std::vector<IW<double>> want;
  std::vector<double> base, all;
  for (uint64_t i = 0; i < nbb; ++i) { double v = double(r.below(100000)) * 0.25 - 5000.0; base.push_back(v); want.push_back({v, 1}); all.push_back(v); }
  std::vector<std::vector<double>> levels;
  for (unsigned l = 0; (pat >> l) != 0; ++l) {
    std::vector<double> lv;
    if ((pat >> l) & 1) { for (unsigned i = 0; i < k; ++i) lv.push_back(double(r.below(100000)) * 0.25 - 5000.0); std::sort(lv.begin(), lv.end()); for (double v : lv) { want.push_back({v, uint64_t(2) << l}); all.push_back(v); } }
    levels.push_back(lv);
  }
  sort_iw(want);
  const double mn = all.empty() ? 0 : *std::min_element(all.begin(), all.end()), mx = all.empty() ? 0 : *std::max_element(all.begin(), all.end());
  const bool sorted_flag = form != 1 && (rep & 1);
  if (sorted_flag) std::sort(base.begin(), base.end());
  Wr w;
  const char* name = form == 1 ? "serial-version-1" : form == 2 ? "serial-version-2" : "serial-version-3-not-compact";
  if (empty) w.u8(1).u8(form == 3 ? 3 : uint8_t(form)).u8(8).u8(4).u16(k).u16(0);
  else {
    w.u8(form == 1 ? 5 : 2).u8(form == 3 ? 3 : uint8_t(form)).u8(8).u8(sorted_flag ? 16 : 0).u16(k).u16(0).u64(n).f64(mn).f64(mx);
    if (form == 1) w.u64(2 * k);   // formerly: allocated buffer size
    for (double v : base) w.f64(v);
    if (!compact_storage && pat != 0) for (uint64_t i = nbb; i < 2ULL * k; ++i) w.f64(-777.0);   // unused base-buffer slots
    for (const auto& lv : levels) for (double v : lv) w.f64(v);
  }
  for (int stream = 0; stream < 2; ++stream) {
    const std::string P = stream ? "stream" : "bytes";
    const std::string key = std::string("legacy|quantiles|") + name + "|" + P + "|";
    try {
      const auto s = QuantFam<double>::read(w.b, stream != 0);
      VF_CHECK(s.get_k() == k, key + "k", "");
      VF_CHECK(s.is_empty() == empty, key + "is-empty", "");
      if (!empty) {
        VF_CHECK(s.get_n() == n, key + "n", "got " + std::to_string(s.get_n()) + " want " + std::to_string(n));
        VF_CHECK(s.get_min_item() == mn && s.get_max_item() == mx, key + "min-max", "");
        VF_CHECK(view_pairs<double>(s) == want, key + "retained-items-and-weights", "k=" + std::to_string(k) + " n=" + std::to_string(n) + " pattern=" + std::to_string(pat));
        const double med = s.get_quantile(0.5);
        VF_CHECK(med >= mn && med <= mx, key + "median-outside-min-max", str(med));
      }
    } catch (const std::exception& e) { checked(); fail(key + "deserialize-threw", std::string(e.what()) + " k=" + std::to_string(k) + " n=" + std::to_string(n) + " pattern=" + std::to_string(pat)); }
    count("legacy_quantiles_" + P);
  }
  count(std::string("legacy_quantiles_") + name);
  sig(img_hash(w.b));
}

// ---------------------------------------------------------------- KLL: single item stored in the full (serial version 1) layout
// byte0 preInts=5 1 serVer=1 2 family=15 3 flags 4-5 k 6 m=8 7 unused | u64 n=1 | u16 minK u8 numLevels=1 u8 unused | u32 levels[0]=k-1 | min | max | item
template<typename T> static void legacy_kll_single(int rep) {
  Rng r(0x4B11 + rep);
  static const uint16_t ks[] = {8, 200, 333};
  const uint16_t k = ks[rep % 3];
  const T item = static_cast<T>(double(r.below(1000)) * 0.5 - 100.0);
  Wr w; w.u8(5).u8(1).u8(15).u8(rep & 1 ? 2 : 0).u16(k).u8(8).u8(0).u64(1).u16(k).u8(1).u8(0).u32(uint32_t(k) - 1);
  for (int i = 0; i < 3; ++i) { if (sizeof(T) == 4) w.f32(float(item)); else w.f64(double(item)); }
  for (int stream = 0; stream < 2; ++stream) {
    const std::string P = stream ? "stream" : "bytes";
    const std::string key = std::string("legacy|kll|single-item-in-full-layout|") + P + "|";
    try {
      const auto s = KllFam<T>::read(w.b, stream != 0);
      VF_CHECK(s.get_k() == k && s.get_n() == 1 && s.get_num_retained() == 1 && !s.is_empty() && !s.is_estimation_mode(), key + "counts", "");
      VF_CHECK(s.get_min_item() == item && s.get_max_item() == item && s.get_quantile(0.5) == item, key + "item", "");
      const std::string re = KllFam<T>::write(s, false);   // today's writer uses the short single-item form
      Kll<T> d = decode_kll<T>(re.data(), re.size());
      VF_CHECK(d.single && d.items.size() == 1 && d.items[0] == item, key + "rewritten-as-single-item-form", "");
    } catch (const std::exception& e) { checked(); fail(key + "deserialize-threw", e.what()); }
    count("legacy_kll_" + P);
  }
  sig(img_hash(w.b));
}

std::vector<Extra>& extras() {
  static std::vector<Extra> x;
  static bool init = false;
  if (!init) {
    init = true;
    for (int form = 1; form <= 3; ++form) for (int rep = 0; rep < 8; ++rep) x.push_back(Extra{"legacy quantiles form " + std::to_string(form), [form, rep]() { legacy_quantiles_case(form, rep); }});
    for (int rep = 0; rep < 4; ++rep) { x.push_back(Extra{"legacy kll float", [rep]() { legacy_kll_single<float>(rep); }}); x.push_back(Extra{"legacy kll double", [rep]() { legacy_kll_single<double>(rep); }}); }
  }
  return x;
}
} }
