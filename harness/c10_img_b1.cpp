// C10 (unit B1: KLL, REQ, classic quantiles) — images keep the documented cross-language layout; old images stay readable.
// See vf/c10_monitor.hpp for the case space, vf/c10_decode.hpp for the independent decoders.
#define C10_B1
#include "vf/c10_fam_b.hpp"
#include "vf/c10_monitor.hpp"

namespace vf { namespace c10 {
void register_unit_families() { register_group_b(); }
uint64_t random_cases(bool thorough) { return thorough ? 100000 : 1500; }
// ---------------------------------------------------------------- legacy classic-quantiles images synthesised from the documented layout
// byte0 preLongs 1 serVer 2 family=8 3 flags (bit2 empty, bit3 compact, bit4 sorted) 4-5 k 6-7 unused | u64 n | min | max |
// serVer 1: preLongs 5 (one more, no longer used, long after max), never compact: 2k base-buffer slots, then the levels
// serVer 2: preLongs 2, compact flag not set but always stored compact: n mod 2k base-buffer items, then the levels whose bit is set
// serVer 3 without the compact flag: 2k base-buffer slots, then the levels
// The accepted (serVer, preLongs, flags) combinations are the table in quantiles_sketch_impl.hpp check_header_validity.
static void legacy_quantiles_case(int form, int rep) {
  Rng r(0x9A171E5 + 31 * form + rep);
  static const uint16_t ks[] = {8, 16, 128};
  const uint16_t k = ks[rep % 3];
  // level bit patterns: non-compact forms use patterns without holes (every level below the top one present)
  static const uint64_t pats_full[] = {0, 1, 3, 7}; static const uint64_t pats_any[] = {0, 1, 2, 5, 6};
  const bool compact_storage = form == 2;
  const uint64_t pat = compact_storage ? pats_any[rep % 5] : pats_full[rep % 4];
  const uint64_t bb = rep % 4 == 3 ? 0 : 1 + r.below(2 * k - 1);
  const bool empty = rep == 7;
  const uint64_t n = empty ? 0 : pat * 2 * k + bb == 0 ? 1 : pat * 2 * k + bb;
  const uint64_t nbb = n % (2ULL * k);
  std::vector<IW<double>> want;
  std::vector<double> base, all;
  for (uint64_t i = 0; i < nbb; ++i) { double v = double(r.below(100000)) * 0.25 - 5000.0; base.push_back(v); want.push_back({v, 1}); all.push_back(v); }
  std::vector<std::vector<double>> levels;
  for (unsigned l = 0; (pat >> l) != 0; ++l) {
    std::vector<double> lv;
    if ((pat >> l) & 1) { for (unsigned i = 0; i < k; ++i) lv.push_back(double(r.below(100000)) * 0.25 - 5000.0); std::sort(lv.begin(), lv.end()); for (double v : lv) { want.push_back({v, uint64_t(2) << l}); all.push_back(v); } }
    levels.push_back(lv);
  }
  sort_iw(want);
  const double mn = all.empty() ? 0 : *std::min_element(all.begin(), all.end()), mx = all.empty() ? 0 : *std::max_element(all.begin(), all.end());
  const bool sorted_flag = form != 1 && (rep & 1);
  if (sorted_flag) std::sort(base.begin(), base.end());
  Wr w;
  const char* name = form == 1 ? "serial-version-1" : form == 2 ? "serial-version-2" : "serial-version-3-not-compact";
  if (empty) w.u8(1).u8(form == 3 ? 3 : uint8_t(form)).u8(8).u8(4).u16(k).u16(0);
  else {
    w.u8(form == 1 ? 5 : 2).u8(form == 3 ? 3 : uint8_t(form)).u8(8).u8(sorted_flag ? 16 : 0).u16(k).u16(0).u64(n).f64(mn).f64(mx);
    if (form == 1) w.u64(2 * k);   // formerly: allocated buffer size
    for (double v : base) w.f64(v);
    if (!compact_storage && pat != 0) for (uint64_t i = nbb; i < 2ULL * k; ++i) w.f64(-777.0);   // unused base-buffer slots
    for (const auto& lv : levels) for (double v : lv) w.f64(v);
  }
  for (int stream = 0; stream < 2; ++stream) {
    const std::string P = stream ? "stream" : "bytes";
    const std::string key = std::string("legacy|quantiles|") + name + "|" + P + "|";
    try {
      const auto s = QuantFam<double>::read(w.b, stream != 0);
      VF_CHECK(s.get_k() == k, key + "k", "");
      VF_CHECK(s.is_empty() == empty, key + "is-empty", "");
      if (!empty) {
        VF_CHECK(s.get_n() == n, key + "n", "got " + std::to_string(s.get_n()) + " want " + std::to_string(n));
        VF_CHECK(s.get_min_item() == mn && s.get_max_item() == mx, key + "min-max", "");
        VF_CHECK(view_pairs<double>(s) == want, key + "retained-items-and-weights", "k=" + std::to_string(k) + " n=" + std::to_string(n) + " pattern=" + std::to_string(pat));
        const double med = s.get_quantile(0.5);
        VF_CHECK(med >= mn && med <= mx, key + "median-outside-min-max", str(med));
      }
    } catch (const std::exception& e) { checked(); fail(key + "deserialize-threw", std::string(e.what()) + " k=" + std::to_string(k) + " n=" + std::to_string(n) + " pattern=" + std::to_string(pat)); }
    count("legacy_quantiles_" + P);
  }
  count(std::string("legacy_quantiles_") + name);
  sig(img_hash(w.b));
}

// ---------------------------------------------------------------- KLL: single item stored in the full (serial version 1) layout
// byte0 preInts=5 1 serVer=1 2 family=15 3 flags 4-5 k 6 m=8 7 unused | u64 n=1 | u16 minK u8 numLevels=1 u8 unused | u32 levels[0]=k-1 | min | max | item
template<typename T> static void legacy_kll_single(int rep) {
  Rng r(0x4B11 + rep);
  static const uint16_t ks[] = {8, 200, 333};
  const uint16_t k = ks[rep % 3];
  const T item = static_cast<T>(double(r.below(1000)) * 0.5 - 100.0);
  Wr w; w.u8(5).u8(1).u8(15).u8(rep & 1 ? 2 : 0).u16(k).u8(8).u8(0).u64(1).u16(k).u8(1).u8(0).u32(uint32_t(k) - 1);
  for (int i = 0; i < 3; ++i) { if (sizeof(T) == 4) w.f32(float(item)); else w.f64(double(item)); }
  for (int stream = 0; stream < 2; ++stream) {
    const std::string P = stream ? "stream" : "bytes";
    const std::string key = std::string("legacy|kll|single-item-in-full-layout|") + P + "|";
    try {
      const auto s = KllFam<T>::read(w.b, stream != 0);
      VF_CHECK(s.get_k() == k && s.get_n() == 1 && s.get_num_retained() == 1 && !s.is_empty() && !s.is_estimation_mode(), key + "counts", "");
      VF_CHECK(s.get_min_item() == item && s.get_max_item() == item && s.get_quantile(0.5) == item, key + "item", "");
      const std::string re = KllFam<T>::write(s, false);   // today's writer uses the short single-item form
      Kll<T> d = decode_kll<T>(re.data(), re.size());
      VF_CHECK(d.single && d.items.size() == 1 && d.items[0] == item, key + "rewritten-as-single-item-form", "");
    } catch (const std::exception& e) { checked(); fail(key + "deserialize-threw", e.what()); }
    count("legacy_kll_" + P);
  }
  sig(img_hash(w.b));
}

// ---------------------------------------------------------------- classic quantiles: the accepted forms of an EMPTY serial-version-3 image
// check_header_validity lists: preLongs 1 or 2, compact flag set or not (8 bytes are read in every case)
static void legacy_quantiles_empty_v3(int rep) {
  const uint8_t pre = rep & 1 ? 2 : 1; const bool compact = rep & 2; const uint16_t k = rep & 4 ? 128 : 16;
  Wr w; w.u8(pre).u8(3).u8(8).u8(uint8_t(4 | (compact ? 8 : 0))).u16(k).u16(0);
  if (pre == 2) w.u64(0);   // second preamble long (n = 0)
  for (int stream = 0; stream < 2; ++stream) {
    const std::string P = stream ? "stream" : "bytes";
    const std::string key = "legacy|quantiles|serial-version-3-empty-forms|" + P + "|";
    try {
      auto s = QuantFam<double>::read(w.b, stream != 0);
      VF_CHECK(s.is_empty() && s.get_k() == k && s.get_n() == 0, key + "content", "preLongs=" + std::to_string(pre) + " compact=" + std::to_string(compact));
      s.update(1.5);
      VF_CHECK(s.get_n() == 1 && s.get_min_item() == 1.5, key + "usable-after-read", "");
    } catch (const std::exception& e) { checked(); fail(key + "deserialize-threw", std::string(e.what()) + " preLongs=" + std::to_string(pre) + " compact=" + std::to_string(compact)); }
    count("legacy_quantiles_empty_" + P);
  }
  sig(img_hash(w.b));
}

// ---------------------------------------------------------------- KLL: several items in one level, full layout synthesised
// byte0 preInts=5 1 serVer=1 2 family=15 3 flags 4-5 k 6 m=8 7 unused | u64 n | u16 minK u8 numLevels=1 u8 unused | u32 levels[0]=k-n | min | max | items
template<typename T> static void legacy_kll_one_level(int rep) {
  Rng r(0x4B22 + rep);
  const uint16_t k = rep & 1 ? 200 : 20;
  const uint32_t n = 2 + uint32_t(r.below(k - 2));
  const bool sorted = rep & 2;
  std::vector<T> items; for (uint32_t i = 0; i < n; ++i) items.push_back(static_cast<T>(double(r.below(100000)) * 0.25 - 7000.0));
  if (sorted) std::sort(items.begin(), items.end());
  const T mn = *std::min_element(items.begin(), items.end()), mx = *std::max_element(items.begin(), items.end());
  auto put = [](Wr& w, T v) { if (sizeof(T) == 8) w.f64(double(v)); else w.f32(float(v)); };
  Wr w; w.u8(5).u8(1).u8(15).u8(sorted ? 2 : 0).u16(k).u8(8).u8(0).u64(n).u16(k).u8(1).u8(0).u32(uint32_t(k) - n);
  put(w, mn); put(w, mx); for (T v : items) put(w, v);
  std::vector<IW<T>> want; for (T v : items) want.push_back({v, 1}); sort_iw(want);
  for (int stream = 0; stream < 2; ++stream) {
    const std::string P = stream ? "stream" : "bytes";
    const std::string key = "legacy|kll|one-level-full-layout|" + P + "|";
    try {
      const auto s = KllFam<T>::read(w.b, stream != 0);
      VF_CHECK(s.get_k() == k && s.get_n() == n && s.get_num_retained() == n && !s.is_estimation_mode(), key + "counts", "");
      VF_CHECK(s.get_min_item() == mn && s.get_max_item() == mx, key + "min-max", "");
      VF_CHECK(KllFam<T>::write(s, false) == w.b, key + "reserialized-differs", "");   // before any query sorts level zero
      VF_CHECK(view_pairs<T>(s) == want, key + "items", "");
    } catch (const std::exception& e) { checked(); fail(key + "deserialize-threw", e.what()); }
    count("legacy_kll_one_level_" + P);
  }
  sig(img_hash(w.b));
}

std::vector<Extra>& extras() {
  static std::vector<Extra> x;
  static bool init = false;
  if (!init) {
    init = true;
    for (int form = 1; form <= 3; ++form) for (int rep = 0; rep < 8; ++rep) x.push_back(Extra{"legacy quantiles form " + std::to_string(form), [form, rep]() { legacy_quantiles_case(form, rep); }});
    for (int rep = 0; rep < 8; ++rep) x.push_back(Extra{"legacy quantiles empty v3", [rep]() { legacy_quantiles_empty_v3(rep); }});
    for (int rep = 0; rep < 4; ++rep) { x.push_back(Extra{"legacy kll one level float", [rep]() { legacy_kll_one_level<float>(rep); }}); x.push_back(Extra{"legacy kll one level double", [rep]() { legacy_kll_one_level<double>(rep); }}); }
    for (int rep = 0; rep < 4; ++rep) { x.push_back(Extra{"legacy kll float", [rep]() { legacy_kll_single<float>(rep); }}); x.push_back(Extra{"legacy kll double", [rep]() { legacy_kll_single<double>(rep); }}); }
  }
  return x;
}
} }
