// C11 unit: var_opt_sketch / var_opt_union / ebpps_sketch with int64 and std::string items.
#include "vf/c11_fault.hpp"
#include <var_opt_sketch.hpp>
#include <var_opt_union.hpp>
#include <ebpps_sketch.hpp>

using namespace datasketches;
namespace vf { namespace c11 {

unsigned variants(bool thorough) { return thorough ? 20 : 4; }

// read-outs that resolve a randomised state (union gadget -> result, EBPPS partial item) pin the library's generators
// themselves, so that the read-out is a pure function of the sketch state
static void pin() { random_utils::rand.seed(0x5eed1234ULL); random_utils::random_bit.seed(0x5eed1234U); }
template<typename V> static std::string strv(const V& v) { return hex(v.data(), v.size()); }

// ------------------------------------------------------------------ items
static std::string itm(int64_t v) { return std::to_string(v); }
static std::string itm(const std::string& s) { return "'" + hex(s.data(), s.size()) + "'"; }
template<typename T> struct Gen;
template<> struct Gen<int64_t> { static int64_t make(Rng& r) { return r.range(-1000, 1000); } };
template<> struct Gen<std::string> {
  static std::string make(Rng& r) { std::string s; const size_t l = r.chance(0.15) ? 0 : r.below(7); for (size_t i = 0; i < l; ++i) s += static_cast<char>('a' + r.below(26)); return s + long_pad(r); }
};
// ------------------------------------------------------------------ var_opt_sketch
template<typename T> static std::string vo_common(const var_opt_sketch<T>& s) {
  std::string o = "k=" + std::to_string(s.get_k()) + " n=" + std::to_string(s.get_n()) + " ns=" + std::to_string(s.get_num_samples()) +
                  " empty=" + std::to_string(s.is_empty());
  o += " I:";
  uint64_t cnt = 0;
  for (auto p : s) { o += itm(p.first) + "*" + num(p.second) + ","; ++cnt; }
  o += " iter=" + std::to_string(cnt);
  auto all = s.estimate_subset_sum([](const T&) { return true; });
  o += " all=" + num(all.lower_bound) + "/" + num(all.estimate) + "/" + num(all.upper_bound) + "/" + num(all.total_sketch_weight);
  Rng pr(777); const T pivot = Gen<T>::make(pr);
  auto half = s.estimate_subset_sum([&pivot](const T& x) { return x < pivot; });
  o += " half=" + num(half.lower_bound) + "/" + num(half.estimate) + "/" + num(half.upper_bound);
  o += " str=" + strv(s.to_string()) + " istr=" + strv(s.items_to_string());
  return o;
}
template<typename T> static std::string vo_readout(const var_opt_sketch<T>& s) {
  std::string o = vo_common(s);
  o += " ssz=" + std::to_string(s.get_serialized_size_bytes());
  const auto b = s.serialize();
  o += " ser=" + hexv(b);
  std::ostringstream os; s.serialize(os);
  o += " sers=" + std::to_string(os.str().size()) + " same=" + std::to_string(os.str() == std::string(b.begin(), b.end()));
  return o;
}
template<typename T> static void vo_use(var_opt_sketch<T>& s) {
  Rng r(99);
  for (int i = 0; i < 50; ++i) s.update(Gen<T>::make(r), 1.0 + (i % 7) * 0.5 + (i % 13 == 0 ? 1000.0 : 0.0));
  (void)vo_common(s); (void)s.serialize();
  var_opt_sketch<T> fresh(8);
  for (int i = 0; i < 30; ++i) fresh.update(Gen<T>::make(r), 1.0 + (i % 5));
  var_opt_union<T> u(16);
  u.update(s); u.update(fresh);
  pin();
  var_opt_sketch<T> res = u.get_result();
  (void)vo_common(res); (void)res.serialize(); (void)u.serialize();
}
// cheap read-outs for accepted objects that own a block > 64 MiB (see accept()): nothing here scales with the object's size
template<typename T> static void vo_cheap(var_opt_sketch<T>& s) {
  (void)s.get_k(); (void)s.get_n(); (void)s.get_num_samples(); (void)s.is_empty();
  Rng r(5); s.update(Gen<T>::make(r), 2.0);
  (void)s.get_n(); (void)s.get_num_samples();
}
template<typename T> static std::string vo_bytes(const void* p, size_t n, bool use) {
  return accept([&] { return var_opt_sketch<T>::deserialize(p, n); }, vo_readout<T>, vo_use<T>, use, vo_cheap<T>);
}
template<typename T> static std::string vo_stream(std::istream& is, bool use) {
  return accept([&] { return var_opt_sketch<T>::deserialize(is); }, vo_readout<T>, vo_use<T>, use, vo_cheap<T>);
}

enum VK { V_EMPTY, V_EXACT, V_SAMPLING, V_SAMPLING_LIGHT };
// heavy: a few giants that stay in the H region of a sampling sketch
template<typename T> static void vo_fill(var_opt_sketch<T>& s, uint64_t n, Rng& r, bool heavy, bool equal) {
  for (uint64_t i = 0; i < n; ++i) {
    double w = equal ? 1.0 : 0.5 + r.unit() * 4;
    if (heavy && (i % 5 == 2)) w = 1e6 * (1 + r.below(5));
    s.update(Gen<T>::make(r), w);
  }
}
template<typename T> static var_opt_sketch<T> vo_state(Rng& r, bool T_, int kind) {
  const uint32_t k = static_cast<uint32_t>(r.range(4, T_ ? 32 : 16));
  const resize_factor rf = static_cast<resize_factor>(r.below(4));
  var_opt_sketch<T> s(k, rf);
  switch (kind) {
    case V_EMPTY: break;
    case V_EXACT: vo_fill(s, 1 + r.below(k - 1), r, r.coin(), false); break;
    case V_SAMPLING: vo_fill(s, k + 2 + r.below(4 * k), r, true, false); break;
    default: vo_fill(s, k + 2 + r.below(4 * k), r, false, true); break;
  }
  return s;
}
template<typename T> static Bytes vo_image(Rng& r, bool T_, int kind) {
  auto s = vo_state<T>(r, T_, kind);
  auto v = s.serialize();
  return Bytes(v.begin(), v.end());
}

// ------------------------------------------------------------------ var_opt_union
template<typename T> static std::string vu_readout(const var_opt_union<T>& u) {
  std::string o = "U ssz=" + std::to_string(u.get_serialized_size_bytes());
  const auto b = u.serialize();
  o += " ser=" + hexv(b);
  std::ostringstream os; u.serialize(os);
  o += " sers=" + std::to_string(os.str().size()) + " same=" + std::to_string(os.str() == std::string(b.begin(), b.end()));
  o += " str=" + strv(u.to_string());
  pin();
  const var_opt_sketch<T> res = u.get_result();
  o += " R{" + vo_readout(res) + "}";
  return o;
}
template<typename T> static void vu_use(var_opt_union<T>& u) {
  Rng r(98);
  var_opt_sketch<T> fresh(8);
  for (int i = 0; i < 50; ++i) fresh.update(Gen<T>::make(r), 1.0 + (i % 5) + (i % 11 == 0 ? 5000.0 : 0.0));
  u.update(fresh);
  var_opt_sketch<T> small(20);
  for (int i = 0; i < 6; ++i) small.update(Gen<T>::make(r), 2.0 + i);
  u.update(small);
  pin();
  var_opt_sketch<T> res = u.get_result();
  (void)vo_common(res); (void)res.serialize(); (void)u.serialize();
}
template<typename T> static std::string vu_bytes(const void* p, size_t n, bool use) {
  return accept([&] { return var_opt_union<T>::deserialize(p, n); }, vu_readout<T>, vu_use<T>, use);
}
template<typename T> static std::string vu_stream(std::istream& is, bool use) {
  return accept([&] { return var_opt_union<T>::deserialize(is); }, vu_readout<T>, vu_use<T>, use);
}
enum UK { U_EMPTY, U_EXACT, U_SAMPLING };
template<typename T> static Bytes vu_image(Rng& r, bool T_, int kind) {
  const uint32_t max_k = static_cast<uint32_t>(r.range(4, T_ ? 32 : 16));
  var_opt_union<T> u(max_k);
  if (kind == U_EXACT) {
    var_opt_sketch<T> s(static_cast<uint32_t>(r.range(4, 32)));
    vo_fill(s, 1 + r.below(std::min<uint32_t>(s.get_k(), max_k) - 1), r, r.coin(), false);
    u.update(s);
  } else if (kind == U_SAMPLING) {
    // several sampling-mode inputs of different k, some smaller than max_k: the gadget gets marked items / an outer tau
    const unsigned m = static_cast<unsigned>(r.range(2, 4));
    for (unsigned i = 0; i < m; ++i) {
      const uint32_t k = static_cast<uint32_t>(i == 0 ? r.range(4, std::max<int64_t>(4, max_k - 1)) : r.range(4, 32));
      var_opt_sketch<T> s(k);
      vo_fill(s, k + 2 + r.below(3 * k), r, r.chance(0.7), r.chance(0.2));
      u.update(s);
    }
  }
  auto v = u.serialize();
  return Bytes(v.begin(), v.end());
}

// ------------------------------------------------------------------ ebpps
template<typename T> static std::string eb_common(const ebpps_sketch<T>& s) {
  std::string o = "k=" + std::to_string(s.get_k()) + " n=" + std::to_string(s.get_n()) + " c=" + num(s.get_c()) + " cw=" + num(s.get_cumulative_weight()) +
                  " empty=" + std::to_string(s.is_empty());
  pin();
  o += " R:";
  for (const auto& x : s.get_result()) o += itm(x) + ",";
  pin();
  o += " I:";
  uint64_t cnt = 0;
  for (auto it = s.begin(); it != s.end(); ++it) { o += itm(*it) + ","; ++cnt; }
  o += " iter=" + std::to_string(cnt);
  o += " str=" + strv(s.to_string()) + " istr=" + strv(s.items_to_string());
  return o;
}
template<typename T> static std::string eb_readout(const ebpps_sketch<T>& s) {
  std::string o = eb_common(s);
  o += " ssz=" + std::to_string(s.get_serialized_size_bytes());
  const auto b = s.serialize();
  o += " ser=" + hexv(b);
  std::ostringstream os; s.serialize(os);
  o += " sers=" + std::to_string(os.str().size()) + " same=" + std::to_string(os.str() == std::string(b.begin(), b.end()));
  return o;
}
template<typename T> static void eb_use(ebpps_sketch<T>& s) {
  Rng r(97);
  pin();
  for (int i = 0; i < 50; ++i) s.update(Gen<T>::make(r), 1.0 + (i % 7) * 0.5);
  ebpps_sketch<T> fresh(6);
  for (int i = 0; i < 30; ++i) fresh.update(Gen<T>::make(r), 1.0 + (i % 3));
  s.merge(fresh);
  (void)eb_common(s); (void)s.serialize();
}
template<typename T> static void eb_cheap(ebpps_sketch<T>& s) {
  (void)s.get_k(); (void)s.get_n(); (void)s.get_c(); (void)s.get_cumulative_weight(); (void)s.is_empty();
  Rng r(5); s.update(Gen<T>::make(r), 2.0);
  (void)s.get_n(); (void)s.get_c();
}
template<typename T> static std::string eb_bytes(const void* p, size_t n, bool use) {
  return accept([&] { return ebpps_sketch<T>::deserialize(p, n); }, eb_readout<T>, eb_use<T>, use, eb_cheap<T>);
}
template<typename T> static std::string eb_stream(std::istream& is, bool use) {
  return accept([&] { return ebpps_sketch<T>::deserialize(is); }, eb_readout<T>, eb_use<T>, use, eb_cheap<T>);
}
enum EK { E_EMPTY, E_EXACT, E_PARTIAL, E_WHOLE };
template<typename T> static Bytes eb_image(Rng& r, bool T_, int kind) {
  const uint32_t k = static_cast<uint32_t>(r.range(4, T_ ? 32 : 16));
  ebpps_sketch<T> s(k);
  switch (kind) {
    case E_EMPTY: break;
    case E_EXACT: { const uint64_t n = 1 + r.below(k - 1); for (uint64_t i = 0; i < n; ++i) s.update(Gen<T>::make(r), 1.0); break; }   // c == n, no partial item
    case E_PARTIAL: {
      const uint64_t n = k + 2 + r.below(4 * k);
      for (uint64_t i = 0; i < n; ++i) s.update(Gen<T>::make(r), 0.5 + r.unit() * 4);
      for (int t = 0; t < 20 && s.get_c() == std::floor(s.get_c()); ++t) s.update(Gen<T>::make(r), 0.3 + r.unit());
      break;
    }
    default: { const uint64_t n = k + 2 + r.below(4 * k); for (uint64_t i = 0; i < n; ++i) s.update(Gen<T>::make(r), 1.0); break; }   // equal weights: c == k
  }
  auto v = s.serialize();
  return Bytes(v.begin(), v.end());
}

// ------------------------------------------------------------------ registration
struct KindName { const char* name; int k; };
template<typename T> static void add_sampling(std::vector<std::vector<Target>>& fam, const std::string& suffix) {
  const KindName vks[] = {{"empty", V_EMPTY}, {"exact", V_EXACT}, {"sampling", V_SAMPLING}, {"sampling_light", V_SAMPLING_LIGHT}};
  const KindName uks[] = {{"empty", U_EMPTY}, {"exact", U_EXACT}, {"sampling", U_SAMPLING}};
  const KindName eks[] = {{"empty", E_EMPTY}, {"exact", E_EXACT}, {"sampling_partial", E_PARTIAL}, {"sampling_whole", E_WHOLE}};
  fam.emplace_back();
  for (auto& k : vks) {
    const int kk = k.k;
    BuildFn b = [kk](Rng& r, bool T_) { return vo_image<T>(r, T_, kk); };
    fam.back().push_back({"varopt_" + suffix, k.name, "bytes", b, bytes_path(vo_bytes<T>)});
    fam.back().push_back({"varopt_" + suffix, k.name, "stream", b, stream_path(vo_stream<T>)});
  }
  fam.emplace_back();
  for (auto& k : uks) {
    const int kk = k.k;
    BuildFn b = [kk](Rng& r, bool T_) { return vu_image<T>(r, T_, kk); };
    // the union preamble (4 longs) is followed by the gadget sketch image, whose own preamble is preamble as well
    auto pre = [](const Bytes& img) -> size_t { return img.size() <= 32 ? img.size() : std::min<size_t>(img.size(), 32 + 8 * (img[32] & 0x3f)); };
    fam.back().push_back({"varopt_union_" + suffix, k.name, "bytes", b, bytes_path(vu_bytes<T>), pre});
    fam.back().push_back({"varopt_union_" + suffix, k.name, "stream", b, stream_path(vu_stream<T>), pre});
  }
  fam.emplace_back();
  for (auto& k : eks) {
    const int kk = k.k;
    BuildFn b = [kk](Rng& r, bool T_) { return eb_image<T>(r, T_, kk); };
    // 5 preamble longs, then C (shown as long 5 of the header in the layout comment of ebpps_sketch_impl.hpp), then the items
    auto pre = [](const Bytes& img) -> size_t { return std::min<size_t>(img.size(), 48); };
    fam.back().push_back({"ebpps_" + suffix, k.name, "bytes", b, bytes_path(eb_bytes<T>), pre});
    fam.back().push_back({"ebpps_" + suffix, k.name, "stream", b, stream_path(eb_stream<T>), pre});
  }
}
std::vector<Target> targets() {
  std::vector<std::vector<Target>> fam;
  add_sampling<int64_t>(fam, "num");
  add_sampling<std::string>(fam, "string");
  std::vector<Target> t;
  for (size_t i = 0;; ++i) {
    bool any = false;
    for (auto& f : fam) if (i < f.size()) { t.push_back(f[i]); any = true; }
    if (!any) break;
  }
  return t;
}

}} // namespace
