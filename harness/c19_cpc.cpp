// C19 — value semantics / every byte returned: CPC sketch and union (allocator-templated classes)
// compiled with -fno-access-control only to label the internal flavor for the coverage floor
#include "vf/c19_life.hpp"
#include <cpc_sketch.hpp>
#include <cpc_union.hpp>
#include <sstream>

using namespace datasketches;
namespace vf {
const char* property_id() { return "C19"; }
unsigned case_timeout_s() { return 120; }
uint64_t num_cases(bool thorough) { return 2 * (thorough ? 3000 : 160); }
void final_report() {}

typedef track_alloc<uint8_t> A;
typedef cpc_sketch_alloc<A> Cpc;
typedef cpc_union_alloc<A> CpcU;

struct CCfg { uint8_t lg_k1, lg_k2; uint64_t seed, seed2; uint64_t domain; uint32_t max_batch; };
static CCfg gen_ccfg(Rng& r) {
  CCfg c; c.lg_k1 = static_cast<uint8_t>(r.range(4, 11)); c.lg_k2 = r.coin() ? c.lg_k1 : static_cast<uint8_t>(r.range(4, 11));
  c.seed = r.coin() ? DEFAULT_SEED : r.next(); c.seed2 = r.next();
  c.domain = r.chance(0.3) ? 100 : (1ULL << 40);
  c.max_batch = r.chance(0.3) ? 10 : (r.coin() ? 200 : 6000);
  return c;
}
static std::string ccfg_str(const CCfg& c) { return "lg_k1=" + std::to_string(c.lg_k1) + " lg_k2=" + std::to_string(c.lg_k2) + " seed=" + std::to_string(c.seed) + " domain=" + std::to_string(c.domain) + " max_batch=" + std::to_string(c.max_batch); }

static void feed(Cpc& s, const CCfg& c, Rng& r) {
  const uint64_t n = r.below(c.max_batch + 1);
  for (uint64_t i = 0; i < n; ++i) {
    const uint64_t v = r.below(c.domain);
    switch (r.below(4)) {
      case 0: s.update(v); break;
      case 1: s.update(std::string("s") + std::to_string(v)); break;
      case 2: s.update(static_cast<double>(v) * 0.5); break;
      default: s.update(&v, sizeof v); break;
    }
  }
}
static std::string flavor_of(const Cpc& s) {
  static const char* f[] = {"empty", "sparse", "hybrid", "pinned", "sliding"};
  const int v = static_cast<int>(s.determine_flavor());
  return v >= 0 && v < 5 ? f[v] : "?";
}
static std::string cpc_readout(const Cpc& s) {
  return "lg_k=" + std::to_string(s.get_lg_k()) + " empty=" + std::to_string(s.is_empty()) + " est=" + dstr(s.get_estimate()) + " lb=" + dstr(s.get_lower_bound(2)) + " ub=" + dstr(s.get_upper_bound(2)) +
    " valid=" + std::to_string(s.validate()) + " bytes=" + bytes_hex(s.serialize());
}

struct CpcFam {
  typedef Cpc Obj; typedef CCfg Cfg;
  static const char* name() { return "cpc"; }
  static Cfg gen_cfg(Rng& r) { return gen_ccfg(r); }
  static std::string cfg_str(const Cfg& c) { return ccfg_str(c); }
  static void construct(void* mem, const Cfg& c, Arena* a, Rng& r) { new (mem) Cpc(r.coin() ? c.lg_k1 : c.lg_k2, r.coin() ? c.seed : c.seed2, A(a)); }
  static void mutate(Obj& o, const Cfg& c, Rng& r, Arena*) { feed(o, c, r); }
  static std::string readout(const Obj& o, const Cfg&) { return cpc_readout(o); }
  static void query(const Obj& o, const Cfg&, Rng&) { (void)o.get_lower_bound(1); (void)o.get_upper_bound(3); auto s = o.to_string(); (void)s.size(); }
  static const bool SINGLE_INSTANCE = true;
  static Arena* arena_of(const Obj& o) { return o.get_allocator().arena; }
  static const bool HAS_MERGE_REF = false, HAS_MERGE_MOVE = false, HAS_RESET = false, HAS_ROUNDTRIP = true;
  static void merge_ref(Obj&, const Obj&, const Cfg&) {}
  static void merge_move(Obj&, Obj&&, const Cfg&) {}
  static void reset(Obj&, const Cfg&) {}
  static void roundtrip(void* mem, const Obj& src, const Cfg&, Arena* a, Rng& r) {
    const uint64_t seed = src.seed;   // private member (unit is built with -fno-access-control): the object's own seed
    if (r.coin()) { auto b = src.serialize(8); new (mem) Cpc(Cpc::deserialize(b.data() + 8, b.size() - 8, seed, A(a))); }
    else {
      std::stringstream ss(std::ios::in | std::ios::out | std::ios::binary);
      src.serialize(ss);
      new (mem) Cpc(Cpc::deserialize(ss, seed, A(a)));
    }
  }
  static std::string mode(const Obj& o, const Cfg&) { return flavor_of(o); }
};

struct CpcUnionFam {
  typedef CpcU Obj; typedef CCfg Cfg;
  static const char* name() { return "cpc_union"; }
  static Cfg gen_cfg(Rng& r) { return gen_ccfg(r); }
  static std::string cfg_str(const Cfg& c) { return ccfg_str(c); }
  static void construct(void* mem, const Cfg& c, Arena* a, Rng& r) { new (mem) CpcU(r.coin() ? c.lg_k1 : c.lg_k2, c.seed, A(a)); }
  static void mutate(Obj& o, const Cfg& c, Rng& r, Arena* scratch) {
    if (r.chance(0.08)) {   // feed the union its own result: safety only
      Cpc res = o.get_result();
      if (r.coin()) o.update(res); else o.update(std::move(res));
      xcount("cpc_union.update_with_own_result");
      return;
    }
    Cpc s(static_cast<uint8_t>(r.chance(0.6) ? (r.coin() ? c.lg_k1 : c.lg_k2) : r.range(4, 11)), c.seed, A(scratch));
    feed(s, c, r);
    if (r.coin()) { { OperandWatch w(scratch, false, "union-update"); o.update(s); } xcount("cpc_union.merge_ref"); }
    else {
      { OperandWatch w(scratch, true, "union-update"); o.update(std::move(s)); } xcount("cpc_union.merge_move");
      if (r.coin()) {   // the consumed sketch must remain assignable and usable
        Cpc live(static_cast<uint8_t>(r.coin() ? c.lg_k1 : r.range(4, 11)), r.coin() ? c.seed : c.seed2, A(scratch));
        feed(live, c, r);
        reuse_consumed_operand(s, live, r, [](const Cpc& x) { return cpc_readout(x); }, [&](Cpc& x) { feed(x, c, r); (void)x.get_estimate(); });
      }
    }
  }
  static std::string readout(const Obj& o, const Cfg&) { Cpc res = o.get_result(); return cpc_readout(res); }
  static void query(const Obj& o, const Cfg&, Rng&) { Cpc res = o.get_result(); (void)res.get_estimate(); }
  static Arena* arena_of(const Obj& o) { return o.bit_matrix.get_allocator().arena; }   // the union's own allocator (private member)
  static const bool HAS_MERGE_REF = false, HAS_MERGE_MOVE = false, HAS_RESET = false, HAS_ROUNDTRIP = false;
  static void merge_ref(Obj&, const Obj&, const Cfg&) {}
  static void merge_move(Obj&, Obj&&, const Cfg&) {}
  static void reset(Obj&, const Cfg&) {}
  static void roundtrip(void*, const Obj&, const Cfg&, Arena*, Rng&) {}
  static std::string mode(const Obj& o, const Cfg&) { return std::string(o.accumulator != nullptr ? "acc_" : "matrix_") + flavor_of(o.get_result()); }
};

void run_case(uint64_t idx, Rng& r) {
  if (idx % 2 == 0) run_program<CpcFam>(r); else run_program<CpcUnionFam>(r);
}
} // namespace vf
