// C16 — VarOpt samples conserve total weight and keep heavy items exactly; union preserves n and
// total weight; subset-sum estimates are unbiased over the sampling randomness.
//
// Conservation-law + reference-bookkeeping monitor.  Every item fed to a sketch carries a unique id
// and the harness keeps its exact input weight, so each sample read back from the library can be
// traced to the input it came from.  Three kinds of cases:
//   * stat cells (first NSTAT case indices): fixed small streams, T pinned seeds, mean of the
//     id-parity subset-sum estimate compared with the true subset weight (sketch and union results);
//   * stream cases: one sketch, hostile weighted stream, full read-out compared after updates;
//   * union cases: 2-6 sketches (different k / fill), var_opt_union in several orders, round trips,
//     chained unions, results checked for n / total weight / provenance.
// -fno-access-control is used ONLY for coverage counters (which union resolution path ran); no
// oracle clause reads private state.
#include "vf/core.hpp"
#include <var_opt_sketch.hpp>
#include <var_opt_union.hpp>
#include <sstream>
#include <limits>
#include <memory>

using namespace datasketches;
namespace vf {

// Item type: ids as uint64_t (unit c16_varopt) or as heap-allocated strings (unit c16_varopt_str,
// -DC16_STRING_ITEMS: the same workloads with a non-trivial item type, so that construction /
// destruction bookkeeping of the sample slots is exercised under ASan+LSan as well).
#ifdef C16_STRING_ITEMS
typedef std::string Item;
static const char ITEM_PREFIX[] = "item-with-a-long-heap-allocated-prefix-";
static Item mk(uint64_t id) { return std::string(ITEM_PREFIX) + std::to_string(id); }
static uint64_t id_of(const Item& it) {
  const size_t pl = sizeof(ITEM_PREFIX) - 1;
  if (it.size() <= pl || it.compare(0, pl, ITEM_PREFIX) != 0) return UINT64_MAX;
  uint64_t v = 0;
  for (size_t i = pl; i < it.size(); ++i) { if (it[i] < '0' || it[i] > '9') return UINT64_MAX; v = v * 10 + static_cast<uint64_t>(it[i] - '0'); }
  return v;
}
#else
typedef uint64_t Item;
static Item mk(uint64_t id) { return id; }
static uint64_t id_of(const Item& it) { return it; }
#endif
typedef var_opt_sketch<Item> VO;
typedef var_opt_union<Item> VU;

const char* property_id() { return "C16"; }
unsigned case_timeout_s() { return 300; }
#ifdef C16_STRING_ITEMS
static const uint64_t NSTAT_QUICK = 2, NSTAT_THOROUGH = 4;
uint64_t num_cases(bool thorough) { return thorough ? NSTAT_THOROUGH + 25000 : NSTAT_QUICK + 1500; }
#else
static const uint64_t NSTAT_QUICK = 10, NSTAT_THOROUGH = 20;
uint64_t num_cases(bool thorough) { return thorough ? NSTAT_THOROUGH + 150000 : NSTAT_QUICK + 6000; }
#endif
void final_report() {}

static const double REL = 1e-9;

// ---------------------------------------------------------------- per-case id/weight registry
static std::vector<double> W;             // exact input weight of every id issued in this case
static std::vector<double> adj_scratch;   // per id: adjusted weight seen in the current read-out (-1 = absent)
static std::vector<uint8_t> heavy_flag;   // per id: was observed as a heavy (exact-weight) sample while sampling
static std::vector<uint8_t> allowed_flag; // per id: is in the sample of some union input

static void reset_registry() { W.clear(); adj_scratch.clear(); heavy_flag.clear(); allowed_flag.clear(); }
static uint64_t new_id(double w) {
  W.push_back(w); adj_scratch.push_back(-1.0); heavy_flag.push_back(0); allowed_flag.push_back(0);
  return W.size() - 1;
}

static bool close_rel(long double a, long double b, double rel) {
  const long double d = a > b ? a - b : b - a;
  const long double m = std::max<long double>(a < 0 ? -a : a, b < 0 ? -b : b);
  return d <= rel * m;
}

// ---------------------------------------------------------------- weight generators
enum Kind { K_UNIFORM, K_EXPSPREAD, K_HEAVYTAIL, K_INCREASING, K_DECREASING, K_GIANT, K_DYADIC, K_EQUAL, K_DYADIC_EXP, K_SUBNORMAL, K_SUBNORMAL_MIX, K_HUGE, K_TAUADJ, K_NKINDS };
static const char* kind_name(int k) {
  static const char* n[] = {"uniform", "expspread", "heavytail", "increasing", "decreasing", "giant", "dyadic", "equal", "dyadic_exp", "subnormal", "subnormal_mix", "huge", "tau_adjacent"};
  return n[k];
}

struct WGen {
  int kind = 0;
  uint64_t n = 0;
  double base = 1;
  double p1 = 0;
  uint64_t giant_pos = 0, giant_pos2 = 0;
  bool geometric = false;
  uint64_t dy_range = 1;
  void init(Rng& r, int k, uint64_t n_) {
    kind = k; n = std::max<uint64_t>(n_, 1);
    base = r.pick({1.0, 1.0, 100.0, 1e-6, 1e9, 0.37});
    switch (kind) {
      case K_EXPSPREAD: p1 = r.pick({3.0, 10.0, 30.0, 60.0}); break;
      case K_HEAVYTAIL: p1 = r.pick({0.5, 1.0, 1.5, 3.0}); break;
      case K_INCREASING: case K_DECREASING: geometric = r.coin(); p1 = std::exp(std::log(r.pick({10.0, 1e6, 1e12})) / static_cast<double>(n)); break;
      case K_GIANT: giant_pos = r.below(n); giant_pos2 = r.chance(0.3) ? r.below(n) : n; p1 = r.pick({1e3, 1e9, 1e15}); break;
      case K_DYADIC: dy_range = r.pick<uint64_t>({4, 1000, 1u << 20}); break;
      case K_EQUAL: base = r.pick({1.0, 0.1, 49.0, 1234567.891, 1e-9, 3e9, 1.0 / 3.0}); break;
      case K_DYADIC_EXP: p1 = r.pick({3.0, 20.0, 55.0}); break;
      case K_SUBNORMAL: case K_SUBNORMAL_MIX: p1 = static_cast<double>(r.below(3)); break;
      // around 1e300, scaled so that k * (sum of all weights) stays far below DBL_MAX (the sketch forms such products)
      case K_HUGE: p1 = static_cast<double>(r.below(3)); base = std::min(1e300, 1e304 / (static_cast<double>(n) * 2000.0)); break;
      default: break;
    }
  }
  static double subnormal(Rng& r, int variant) {
    switch (variant) {
      case 0: return std::ldexp(1.0, -1023);                                       // all equal
      case 1: return std::ldexp(1.0 + r.unit(), -1024 - static_cast<int>(r.below(6)));   // [2^-1030, 2^-1023)
      default: return std::ldexp(static_cast<double>(1 + r.below(255)), -1030);    // j * 2^-1030
    }
  }
  // tau / min_heavy: current threshold and lightest exact-weight sample of the sketch being fed (0 = unknown)
  double next(Rng& r, uint64_t i, double tau, double min_heavy) {
    switch (kind) {
      case K_UNIFORM: return base * (0.001 + r.unit());
      case K_EXPSPREAD: return std::exp2((2 * r.unit() - 1) * p1) * (1 + r.unit());
      case K_HEAVYTAIL: return std::min(1e30, base / std::pow(1.0 - r.unit(), 1.0 / p1));
      case K_INCREASING: return geometric ? base * std::pow(p1, static_cast<double>(i % n)) : base * static_cast<double>(i + 1);
      case K_DECREASING: return geometric ? base * std::pow(p1, static_cast<double>(n - 1 - (i % n))) : base * static_cast<double>(n + (n - (i % n)));
      case K_GIANT: return (i == giant_pos || i == giant_pos2) ? base * p1 * (1 + r.unit()) : base * (0.5 + r.unit());
      case K_DYADIC: return static_cast<double>(1 + r.below(dy_range)) / 1024.0;
      case K_EQUAL: return base;
      // subnormal doubles with at least 44 significant bits left: [2^-1030, 2^-1022)
      case K_SUBNORMAL: return subnormal(r, static_cast<int>(p1));
      case K_SUBNORMAL_MIX: return r.coin() ? subnormal(r, 1 + static_cast<int>(r.below(2))) : std::ldexp(1.0 + r.unit(), -1022 + static_cast<int>(r.below(6)));
      case K_HUGE: return p1 == 0 ? base : (p1 == 1 ? base * (0.5 + r.unit()) : (r.chance(0.2) ? base : base * 1e-10 * (1 + r.unit())));
      case K_DYADIC_EXP: return std::exp2(static_cast<double>(r.range(-static_cast<int64_t>(p1), static_cast<int64_t>(p1))));
      case K_TAUADJ: {
        const double inf = std::numeric_limits<double>::infinity();
        if (tau > 0 && tau < 1e150 && r.chance(0.7)) {   // (bounded so that totals stay finite)
          switch (r.below(12)) {
            case 0: return tau;
            case 1: return std::nextafter(tau, inf);
            case 2: return std::nextafter(tau, 0.0);
            case 3: return tau * (1 + 1e-15);
            case 4: return tau * (1 - 1e-15);
            case 5: return min_heavy > 0 ? min_heavy : tau * 2;
            case 6: return min_heavy > 0 ? std::nextafter(min_heavy, inf) : tau / 2;
            case 7: return min_heavy > 0 ? std::nextafter(min_heavy, 0.0) : tau * 1.5;
            case 8: return tau * 2;
            case 9: return tau / 2;
            case 10: return tau * static_cast<double>(1 + r.below(5));
            default: return tau * (0.5 + r.unit());
          }
        }
        return r.chance(0.5) ? std::exp2(static_cast<double>(r.range(-54, 3))) : base * (0.25 + r.unit());
      }
    }
    return 1.0;
  }
};

// ---------------------------------------------------------------- model of one sketch fed by a stream
struct SkModel {
  uint32_t k = 0;
  uint64_t n = 0;                 // accepted (positive weight) updates
  long double total = 0;          // sum of accepted input weights
  std::vector<uint64_t> ids;      // accepted input ids
  bool exact_arith = false;       // weights are small dyadic rationals: every partial sum is exact
  std::string what;               // "sketch" / ...
};

struct ReadOut {
  std::vector<std::pair<uint64_t, double>> items;
  bool has_tau = false;
  double tau = 0;
  double min_heavy = 0;
  long double sum = 0;
};

static bool pred_always(const Item&) { return true; }
static bool pred_never(const Item&) { return false; }
static bool pred_odd(const Item& v) { return (id_of(v) & 1) != 0; }

// subset-sum clauses shared by stream sketches and union results
static void check_subset_sums(const VO& s, const std::string& fam, long double total, bool exact_arith, const ReadOut& ro,
                              const std::function<std::string()>& ctx) {
  try {
    const subset_summary a = s.estimate_subset_sum(pred_always);
    const subset_summary z = s.estimate_subset_sum(pred_never);
    const subset_summary o = s.estimate_subset_sum(pred_odd);
    VF_CHECK(close_rel(a.estimate, total, REL), fam + "|subset_sum|always-estimate-not-total-weight", ctx() + " est=" + str(a.estimate) + " total=" + str(static_cast<double>(total)));
    VF_CHECK(close_rel(a.total_sketch_weight, total, REL), fam + "|subset_sum|total_sketch_weight-not-total-weight", ctx() + " tsw=" + str(a.total_sketch_weight) + " total=" + str(static_cast<double>(total)));
    if (exact_arith) {
      VF_CHECK(static_cast<long double>(a.estimate) == total, fam + "|subset_sum|always-estimate-not-exact-with-dyadic-weights", ctx() + " est=" + str(a.estimate) + " total=" + str(static_cast<double>(total)));
      count("exact_total_checks");
    }
    VF_CHECK(z.estimate == 0.0, fam + "|subset_sum|never-estimate-not-zero", ctx() + " est=" + str(z.estimate));
    const subset_summary* all[3] = {&a, &z, &o};
    static const char* nm[3] = {"always", "never", "odd-id"};
    for (int i = 0; i < 3; ++i) {
      const subset_summary& q = *all[i];
      VF_CHECK(q.lower_bound <= q.estimate && q.estimate <= q.upper_bound, fam + "|subset_sum|bounds-order",
               ctx() + " pred=" + nm[i] + " lb=" + str(q.lower_bound) + " est=" + str(q.estimate) + " ub=" + str(q.upper_bound));
    }
    // the estimate is the sum of the adjusted weights of the matching samples
    long double odd = 0;
    for (auto& p : ro.items) if (p.first & 1) odd += p.second;
    const long double d = odd > o.estimate ? odd - o.estimate : o.estimate - odd;
    VF_CHECK(d <= REL * std::max<long double>(total, 0), fam + "|subset_sum|estimate-not-sum-of-matching-adjusted-weights",
             ctx() + " est=" + str(o.estimate) + " sum=" + str(static_cast<double>(odd)));
  } catch (const std::exception& e) {
    checked();
    fail(fam + "|subset_sum|throws", ctx() + " what=" + e.what());
  }
}

static ReadOut read_out(const VO& s) {
  ReadOut ro;
  for (auto it = s.begin(); it != s.end(); ++it) {
    const auto p = *it;
    ro.items.emplace_back(id_of(p.first), p.second);
    ro.sum += p.second;
  }
  return ro;
}

// Full oracle for a sketch that was fed a stream (and possibly round-tripped / copied).
static ReadOut observe_sketch(const VO& s, SkModel& m, const char* after) {
  auto ctx = [&]() {
    return std::string("after ") + after + " k=" + std::to_string(m.k) + " n=" + std::to_string(m.n) + " total=" + str(static_cast<double>(m.total));
  };
  const std::string fam = "sketch";
  VF_CHECK(s.get_n() == m.n, fam + "|get_n", ctx() + " got=" + std::to_string(s.get_n()));
  VF_CHECK(s.get_k() == m.k, fam + "|get_k", ctx() + " got=" + std::to_string(s.get_k()));
  VF_CHECK(s.is_empty() == (m.n == 0), fam + "|is_empty", ctx());
  const uint64_t want_count = std::min<uint64_t>(m.n, m.k);
  VF_CHECK(s.get_num_samples() == want_count, fam + "|num_samples-not-min-n-k", ctx() + " got=" + std::to_string(s.get_num_samples()));
  ReadOut ro = read_out(s);
  VF_CHECK(ro.items.size() == want_count, fam + "|iteration-count-not-min-n-k", ctx() + " got=" + std::to_string(ro.items.size()));
  // provenance and distinctness
  bool ok = true;
  std::vector<uint64_t> touched;
  for (auto& p : ro.items) {
    const uint64_t id = p.first;
    if (id >= W.size()) { checked(); fail(fam + "|sample-not-from-input", ctx() + " id=" + std::to_string(id)); ok = false; continue; }
    if (adj_scratch[id] >= 0) { checked(); fail(fam + "|duplicate-sample", ctx() + " id=" + std::to_string(id)); ok = false; continue; }
    adj_scratch[id] = p.second; touched.push_back(id);
    VF_CHECK(p.second > 0 && std::isfinite(p.second), fam + "|adjusted-weight-not-positive-finite", ctx() + " id=" + std::to_string(id) + " adj=" + str(p.second));
  }
  // every sample must be one of the accepted inputs of THIS sketch
  {
    size_t found = 0;
    for (uint64_t id : m.ids) if (adj_scratch[id] >= 0) ++found;
    VF_CHECK(found == touched.size(), fam + "|sample-not-from-input", ctx() + " samples=" + std::to_string(touched.size()) + " of-which-inputs=" + std::to_string(found));
  }
  if (ok) {
    // adjusted weights: own exact input weight, or one common value tau
    std::vector<double> others;
    for (uint64_t id : touched) {
      const double a = adj_scratch[id];
      if (a != W[id]) { if (others.empty() || others.back() != a) others.push_back(a); }
      else if (ro.min_heavy == 0 || a < ro.min_heavy) ro.min_heavy = a;
    }
    std::sort(others.begin(), others.end());
    others.erase(std::unique(others.begin(), others.end()), others.end());
    if (m.n <= m.k) {
      VF_CHECK(others.empty(), fam + "|exact-mode-weight-altered", ctx() + " altered=" + str(others.empty() ? 0.0 : others[0]));
      if (m.n == m.k && m.n > 0) count("exactly_full");
    } else {
      VF_CHECK(others.size() <= 1, fam + "|more-than-one-threshold-value", ctx() + " values=" + std::to_string(others.size()) + " first=" + str(others.empty() ? 0.0 : others[0]) + " second=" + str(others.size() > 1 ? others[1] : 0.0));
      if (others.size() == 1) {
        ro.has_tau = true; ro.tau = others[0];
        // every input heavier than tau is present with its exact weight
        const double thr = ro.tau * (1 + REL);
        size_t nheavy = 0, nlight = 0;
        for (uint64_t id : m.ids) {
          if (W[id] > thr) {
            ++nheavy;
            if (adj_scratch[id] < 0) { checked(); fail(fam + "|heavy-item-missing", ctx() + " id=" + std::to_string(id) + " w=" + str(W[id]) + " tau=" + str(ro.tau)); }
            else VF_CHECK(adj_scratch[id] == W[id], fam + "|heavy-item-weight-altered", ctx() + " id=" + std::to_string(id) + " w=" + str(W[id]) + " adj=" + str(adj_scratch[id]) + " tau=" + str(ro.tau));
          }
        }
        for (uint64_t id : touched) {
          if (adj_scratch[id] == W[id] && W[id] >= ro.tau) heavy_flag[id] = 1;
          else if (adj_scratch[id] != W[id]) { ++nlight; if (heavy_flag[id]) { heavy_flag[id] = 0; count("heavy_to_light"); } }
        }
        if (nheavy > 0) count("obs_with_heavy_items");
        if (nheavy > 0 && nlight > 0) count("obs_with_heavy_and_light");
        if (nheavy == 0) count("obs_pure_reservoir");
      } else count("obs_sampling_without_visible_tau");
    }
    // conservation of total weight
    VF_CHECK(close_rel(ro.sum, m.total, REL), fam + "|sum-of-adjusted-weights-not-total-input-weight",
             ctx() + " sum=" + str(static_cast<double>(ro.sum)) + " total=" + str(static_cast<double>(m.total)));
  }
  for (uint64_t id : touched) adj_scratch[id] = -1.0;
  check_subset_sums(s, fam, m.total, m.exact_arith, ro, ctx);
  if (m.n > m.k) count("obs_sampling_mode"); else count("obs_exact_mode");
  sig(mix64(mix64(m.k, m.n), mix64(ro.items.size(), dbits(std::floor(ro.tau * 1024)))));
  return ro;
}

// ---------------------------------------------------------------- round trips
static VO round_trip(const VO& s, Rng& r, const char* fam) {
  if (r.coin()) {
    auto b = s.serialize();
    VF_CHECK(b.size() == s.get_serialized_size_bytes(), std::string(fam) + "|serialize|size-mismatch", "bytes=" + std::to_string(b.size()));
    count("roundtrip_bytes");
    return VO::deserialize(b.data(), b.size());
  }
  std::stringstream ss(std::ios::in | std::ios::out | std::ios::binary);
  s.serialize(ss);
  count("roundtrip_stream");
  return VO::deserialize(ss);
}

// ---------------------------------------------------------------- assignment (copy / move / self / chains)
static uint32_t pick_k(Rng& r, uint32_t kmax);

static bool same_readout(const VO& a, const VO& b) {
  if (a.get_n() != b.get_n() || a.get_k() != b.get_k() || a.get_num_samples() != b.get_num_samples()) return false;
  const ReadOut x = read_out(a), y = read_out(b);
  return x.items == y.items;
}

// a sketch in an unrelated state (other k, resize factor, fill) to be assigned over
static std::unique_ptr<VO> make_other_sketch(Rng& r) {
  const uint32_t k = pick_k(r, 300);
  std::unique_ptr<VO> t(new VO(k, static_cast<resize_factor>(r.below(4))));
  uint64_t n2 = 0;
  switch (r.below(3)) { case 0: n2 = 0; break; case 1: n2 = r.below(k + 1); break; default: n2 = std::min<uint64_t>(600, k + 1 + r.below(3ull * k + 1)); break; }
  for (uint64_t i = 0; i < n2; ++i) { const double w = 0.01 + 10 * r.unit(); t->update(mk(new_id(w)), w); }
  count(n2 == 0 ? "assign_target_empty" : (n2 <= k ? "assign_target_exact" : "assign_target_sampling"));
  return t;
}

// Assign the monitored sketch over other sketches (copy, chain, self through a reference, move), observe the
// targets against the SOURCE's model, then apply identical updates with the same pinned seed to source and
// target: the read-outs must stay equal.  Returns false if the library threw.
static bool sketch_assignment_probe(Rng& r, std::unique_ptr<VO>& sk, SkModel& m) {
  const std::string ctx0 = "k=" + std::to_string(m.k) + " n=" + std::to_string(m.n);
  try {
    std::unique_ptr<VO> t = make_other_sketch(r);
    const uint64_t kind = r.below(4);
    if (kind == 0) { *t = *sk; count("assign_copy"); observe_sketch(*t, m, "copy assignment (target)"); }
    else if (kind == 1) {
      std::unique_ptr<VO> t2 = make_other_sketch(r);
      *t = *t2 = *sk; count("assign_chain");
      observe_sketch(*t2, m, "chained copy assignment (middle)"); observe_sketch(*t, m, "chained copy assignment (left)");
    } else if (kind == 2) {
      VO& ref = *sk; *sk = ref; count("assign_self");
      observe_sketch(*sk, m, "self copy assignment");
      *t = *sk; observe_sketch(*t, m, "copy assignment after self assignment");
    } else { VO tmp(*sk); *t = std::move(tmp); count("assign_move"); observe_sketch(*t, m, "move assignment (target)"); }
    if (m.n > m.k) count("assign_source_sampling"); else count("assign_source_exact");
    observe_sketch(*sk, m, "assignment (source must be unchanged)");
    VF_CHECK(same_readout(*sk, *t), "sketch|assignment|target-readout-differs-from-source", ctx0);
    // identical continued updates under the same pinned seed
    const uint64_t cnt = 1 + r.below(std::min<uint64_t>(200, 2ull * m.k + 5));
    const double scale = m.n ? static_cast<double>(m.total / m.n) : 1.0;
    std::vector<std::pair<uint64_t, double>> seq;
    for (uint64_t i = 0; i < cnt; ++i) { const double w = scale * (r.chance(0.1) ? 5 + 20 * r.unit() : 0.05 + 2 * r.unit()); if (w > 0 && std::isfinite(w)) seq.emplace_back(new_id(w), w); }
    const uint64_t X = r.next();
    random_utils::rand.seed(X); for (auto& q : seq) sk->update(mk(q.first), q.second);
    random_utils::rand.seed(X); for (auto& q : seq) t->update(mk(q.first), q.second);
    for (auto& q : seq) { m.n++; m.total += q.second; m.ids.push_back(q.first); }
    if (m.exact_arith) m.exact_arith = false;   // the continuation weights are not dyadic
    VF_CHECK(same_readout(*sk, *t), "sketch|assignment|diverges-from-source-under-identical-updates", ctx0 + " updates=" + std::to_string(seq.size()));
    observe_sketch(*t, m, "identical updates after assignment (target)");
    count("assign_continued_equal");
    if (r.coin()) sk = std::move(t);     // carry on with either object
  } catch (const std::exception& e) { checked(); fail("sketch|assignment|throws", ctx0 + " what=" + e.what()); return false; }
  return true;
}

// ---------------------------------------------------------------- feeding a stream
struct Feed {
  uint32_t k; int rf; uint64_t n; int kind;
  bool hostile_ops;      // zero / invalid weights, round trips, copies, resets in the stream
  uint64_t obs_every;    // 0 = only at the end
};

// returns false if the library threw on a valid update (state then unknown: stop the case)
static bool feed_stream(Rng& r, std::unique_ptr<VO>& sk, SkModel& m, const Feed& f, ReadOut* last) {
  WGen g; g.init(r, f.kind, f.n);
  m.exact_arith = (f.kind == K_DYADIC);
  double tau = 0, min_heavy = 0;
  bool final_observed = false;
  const double inf = std::numeric_limits<double>::infinity();
  for (uint64_t i = 0; i < f.n; ++i) {
    bool observe_now = f.obs_every && ((i % f.obs_every) == 0);
    const char* what = "update";
    if (f.hostile_ops && r.chance(0.02)) {
      const uint64_t op = r.below(12);
      if (op >= 10) {
        if (!sketch_assignment_probe(r, sk, m)) return false;
        what = "assignment probe"; observe_now = true;
      } else if (op < 3) {            // zero weight: documented as ignored
        const uint64_t id = new_id(0.0);
        try { sk->update(mk(id), r.coin() ? 0.0 : -0.0); } catch (const std::exception& e) { checked(); fail("sketch|update|zero-weight-throws", e.what()); }
        count("zero_weight_updates"); what = "zero-weight update"; observe_now = true;
      } else if (op < 6) {     // invalid weights must throw and leave the sketch unchanged
        const double bad = r.pick({-1.0, -1e-300, std::numeric_limits<double>::quiet_NaN(), inf, -inf});
        const uint64_t id = new_id(0.0);
        VF_CHECK(throws([&] { sk->update(mk(id), bad); }), "sketch|update|invalid-weight-accepted", "weight=" + str(bad));
        count("invalid_weight_probes"); what = "rejected update"; observe_now = true;
      } else if (op < 8) {
        try { std::unique_ptr<VO> t(new VO(round_trip(*sk, r, "sketch"))); sk = std::move(t); }
        catch (const std::exception& e) { checked(); fail("sketch|round-trip|throws", std::string("n=") + std::to_string(m.n) + " k=" + std::to_string(m.k) + " what=" + e.what()); return false; }
        if (m.n > m.k) count("roundtrip_midstream_sampling"); else count("roundtrip_midstream_exact");
        what = "round trip"; observe_now = true;
      } else if (op < 9) {
        if (r.coin()) { std::unique_ptr<VO> t(new VO(*sk)); sk = std::move(t); what = "copy"; }
        else { VO t(1); t = std::move(*sk); sk.reset(new VO(std::move(t))); what = "move"; }
        count("copy_or_move"); observe_now = true;
      } else if (r.chance(0.15)) {
        sk->reset(); m.n = 0; m.total = 0; m.ids.clear(); count("reset"); what = "reset"; observe_now = true;
        for (auto& h : heavy_flag) h = 0;
        tau = 0; min_heavy = 0;
      }
      if (observe_now) { ReadOut ro = observe_sketch(*sk, m, what); tau = ro.has_tau ? ro.tau : 0; min_heavy = ro.min_heavy; }
      observe_now = false;
    }
    if (f.kind == K_TAUADJ && m.n > m.k && (tau == 0 || r.chance(0.5))) {
      // learn the current threshold from the public read-out
      ReadOut ro = read_out(*sk);
      tau = 0; min_heavy = 0;
      for (auto& p : ro.items) { if (p.first < W.size() && p.second != W[p.first]) tau = p.second; else if (min_heavy == 0 || p.second < min_heavy) min_heavy = p.second; }
    }
    const double w = g.next(r, i, tau, min_heavy);
    if (!(w > 0) || !std::isfinite(w)) continue;
    const uint64_t id = new_id(w);
    try {
      if (r.coin()) { const Item it = mk(id); sk->update(it, w); } else { Item tmp = mk(id); sk->update(std::move(tmp), w); }
    } catch (const std::exception& e) {
      checked();
      fail("sketch|update|throws-on-valid-weight", "k=" + std::to_string(m.k) + " n-before=" + std::to_string(m.n) + " kind=" + kind_name(f.kind) + " w=" + str(w) + " tau=" + str(tau) + " what=" + e.what());
      return false;
    }
    m.n++; m.total += w; m.ids.push_back(id);
    if (f.kind == K_TAUADJ) { count("tau_adjacent_updates"); observe_now = true; }
    final_observed = false;
    if (observe_now || i + 1 == f.n) {
      ReadOut ro = observe_sketch(*sk, m, "update");
      if (f.kind == K_TAUADJ) { tau = ro.has_tau ? ro.tau : 0; min_heavy = ro.min_heavy; }
      if (i + 1 == f.n) { final_observed = true; if (last) *last = std::move(ro); }
    }
  }
  if (!final_observed) { ReadOut ro = observe_sketch(*sk, m, f.n == 0 ? "construction" : "end of stream"); if (last) *last = std::move(ro); }
  return true;
}

static uint32_t pick_k(Rng& r, uint32_t kmax) {
  const uint64_t c = r.below(100);
  if (c < 12) return 1;
  if (c < 22) return 2;
  if (c < 30) return 3;
  if (c < 70) return static_cast<uint32_t>(r.range(4, std::min<uint32_t>(64, kmax)));
  if (c < 90) return static_cast<uint32_t>(r.range(16, std::min<uint32_t>(300, kmax)));
  return static_cast<uint32_t>(r.range(100, kmax));
}

static uint64_t pick_n(Rng& r, uint32_t k, uint64_t cap) {
  uint64_t n;
  switch (r.below(10)) {
    case 0: n = r.below(k + 1); break;               // under-full (possibly empty)
    case 1: n = k; break;                            // exactly full
    case 2: n = static_cast<uint64_t>(k) + 1; break;     // first transition
    case 3: n = static_cast<uint64_t>(k) + 2 + r.below(4); break;
    case 4: case 5: n = 2ull * k + r.below(3ull * k + 1); break;
    case 6: case 7: n = 5ull * k + r.below(20ull * k + 1); break;
    default: n = r.below(cap + 1); break;
  }
  return std::min(n, cap);
}

// ---------------------------------------------------------------- stream case
static void stream_case(Rng& r) {
  const bool T = G().thorough();
  Feed f;
  f.k = pick_k(r, 2000);
  f.rf = static_cast<int>(r.below(4));
  f.kind = static_cast<int>(r.below(K_NKINDS));
  uint64_t cap = T ? 40000 : 6000;
  if (f.kind == K_TAUADJ) { f.k = std::min<uint32_t>(f.k, 48); cap = 1500; }
  f.n = pick_n(r, f.k, cap);
  f.hostile_ops = r.chance(0.6);
  f.obs_every = f.n <= 150 ? 1 : (f.n <= 3000 ? 1 + r.below(60) : 1 + r.below(f.n / 12 + 1));
  describe(std::string("stream k=") + std::to_string(f.k) + " rf=" + std::to_string(f.rf) + " n=" + std::to_string(f.n) + " kind=" + kind_name(f.kind) + " hostile=" + std::to_string(f.hostile_ops));
  count(std::string("stream_kind_") + kind_name(f.kind));
  if (f.k == 1) count("stream_k1"); if (f.k == 2) count("stream_k2");
  count("stream_rf" + std::to_string(f.rf));
  std::unique_ptr<VO> sk(new VO(f.k, static_cast<resize_factor>(f.rf)));
  SkModel m; m.k = f.k;
  ReadOut last;
  bool okf = feed_stream(r, sk, m, f, &last);
  if (okf && r.chance(0.3)) { okf = sketch_assignment_probe(r, sk, m); if (okf) last = observe_sketch(*sk, m, "after assignment probe"); }
  if (okf) {
    if (f.k == 1 && m.n > 1) count("k1_sampling");
    // final round trip: the deserialized sketch must satisfy the same clauses
    if (r.chance(0.35)) {
      try { VO d = round_trip(*sk, r, "sketch"); observe_sketch(d, m, "final round trip"); }
      catch (const std::exception& e) { checked(); fail("sketch|round-trip|throws", std::string("n=") + std::to_string(m.n) + " k=" + std::to_string(m.k) + " what=" + e.what()); }
    }
  }
  if (want_sample()) {
    std::string its;
    for (size_t i = 0; i < last.items.size() && i < 6; ++i) its += "[" + std::to_string(last.items[i].first) + "," + str(last.items[i].second) + "," + str(W[last.items[i].first]) + "]";
    sample("{\"config\":" + jstr(G().cur_desc) + ",\"n\":" + std::to_string(m.n) + ",\"total\":" + str(static_cast<double>(m.total)) + ",\"tau\":" + str(last.tau) +
           ",\"first_samples_id_adj_input\":" + jstr(its) + "}");
  }
}

// ---------------------------------------------------------------- union case
struct UIn {
  std::unique_ptr<VO> sk;
  uint64_t n = 0;
  long double total = 0;
  std::vector<uint64_t> sample_ids;
  std::vector<uint64_t> exact_ids;   // samples the input holds with their exact input weight
  bool sampling = false;
  void take(const ReadOut& ro) { for (auto& p : ro.items) { sample_ids.push_back(p.first); if (p.first < W.size() && p.second == W[p.first]) exact_ids.push_back(p.first); } }
};

struct UModel {
  uint32_t max_k = 0;
  uint64_t n = 0;
  long double total = 0;
  uint64_t sum_samples = 0;
  std::vector<uint64_t> allowed;   // ids flagged in allowed_flag
  std::vector<uint64_t> exact;     // ids some input holds with the exact input weight
  void clear() { n = 0; total = 0; sum_samples = 0; for (uint64_t id : allowed) allowed_flag[id] = 0; allowed.clear(); exact.clear(); }
  void add(const UIn& in) {
    n += in.n; total += in.total; sum_samples += in.sample_ids.size();
    exact.insert(exact.end(), in.exact_ids.begin(), in.exact_ids.end());
    for (uint64_t id : in.sample_ids) { if (!allowed_flag[id]) { allowed_flag[id] = 1; allowed.push_back(id); } }
  }
};

// Oracle for a union result.  Returns the read-out (empty if get_result threw).
static bool check_union_result(const VU& u, const UModel& um, const char* after, VO* out_result, ReadOut* out_ro) {
  auto ctx = [&]() {
    return std::string("after ") + after + " max_k=" + std::to_string(um.max_k) + " sum_n=" + std::to_string(um.n) + " total=" + str(static_cast<double>(um.total)) + " input_samples=" + std::to_string(um.sum_samples);
  };
  // coverage only (private state): which resolution path get_result() will take
  const bool marks = u.gadget_.num_marks_in_h_ > 0;
  const bool pseudo = marks && u.gadget_.r_ == 0 && u.gadget_.num_marks_in_h_ == u.outer_tau_denom_;
  const bool gadget_sampling = u.gadget_.r_ > 0;
  const std::string fam = "union";
  std::unique_ptr<VO> res;
  try { res.reset(new VO(u.get_result())); }
  catch (const std::exception& e) {
    checked();
    fail(fam + "|get_result|throws", ctx() + " path=" + (marks ? (pseudo ? "pseudo-exact" : "migrate-marked") : "simple") + " what=" + e.what());
    return false;
  }
  count(marks ? (pseudo ? "union_result_pseudo_exact" : "union_result_migrate_marked") : (gadget_sampling ? "union_result_simple_sampling" : "union_result_simple_exact"));
  if (marks && gadget_sampling) count("union_result_marked_in_sampling_gadget");
  const VO& s = *res;
  VF_CHECK(s.get_n() == um.n, fam + "|result|n-not-sum-of-input-n", ctx() + " got=" + std::to_string(s.get_n()));
  ReadOut ro = read_out(s);
  VF_CHECK(ro.items.size() == s.get_num_samples(), fam + "|result|num_samples-vs-iteration", ctx() + " iter=" + std::to_string(ro.items.size()) + " num_samples=" + std::to_string(s.get_num_samples()));
  VF_CHECK(s.get_k() <= um.max_k, fam + "|result|k-above-max_k", ctx() + " k=" + std::to_string(s.get_k()));
  VF_CHECK(ro.items.size() <= s.get_k(), fam + "|result|more-samples-than-k", ctx() + " size=" + std::to_string(ro.items.size()) + " k=" + std::to_string(s.get_k()));
  VF_CHECK(ro.items.size() <= um.max_k, fam + "|result|more-samples-than-max_k", ctx() + " size=" + std::to_string(ro.items.size()));
  VF_CHECK(ro.items.size() <= um.sum_samples, fam + "|result|more-samples-than-inputs-hold", ctx() + " size=" + std::to_string(ro.items.size()));
  VF_CHECK(s.is_empty() == (um.n == 0), fam + "|result|is_empty", ctx());
  if (um.n > 0) VF_CHECK(!ro.items.empty(), fam + "|result|no-samples-for-nonempty-input", ctx());
  std::vector<uint64_t> touched;
  bool ok = true;
  for (auto& p : ro.items) {
    const uint64_t id = p.first;
    if (id >= W.size() || !allowed_flag[id]) { checked(); fail(fam + "|result|sample-not-in-any-input-sample", ctx() + " id=" + std::to_string(id)); ok = false; continue; }
    if (adj_scratch[id] >= 0) { checked(); fail(fam + "|result|duplicate-sample", ctx() + " id=" + std::to_string(id)); ok = false; continue; }
    adj_scratch[id] = p.second; touched.push_back(id);
    VF_CHECK(p.second > 0 && std::isfinite(p.second), fam + "|result|adjusted-weight-not-positive-finite", ctx() + " id=" + std::to_string(id) + " adj=" + str(p.second));
  }
  if (ok) {
    // the result is a VarOpt sample: every adjusted weight is the item's exact input weight or the one common threshold
    std::vector<double> others;
    for (uint64_t id : touched) if (adj_scratch[id] != W[id]) others.push_back(adj_scratch[id]);
    std::sort(others.begin(), others.end());
    others.erase(std::unique(others.begin(), others.end()), others.end());
    VF_CHECK(others.size() <= 1, fam + "|result|adjusted-weight-neither-input-weight-nor-common-threshold",
             ctx() + " distinct-non-input-values=" + std::to_string(others.size()) + " first=" + str(others.empty() ? 0.0 : others[0]) + " second=" + str(others.size() > 1 ? others[1] : 0.0));
    if (others.size() == 1) {
      // every item an input still holds with its exact weight and that is heavier than the result's threshold
      // must be in the result with that exact weight
      const double tau = others[0], thr = tau * (1 + REL);
      size_t nheavy = 0;
      for (uint64_t id : um.exact) {
        if (W[id] > thr) {
          ++nheavy;
          if (adj_scratch[id] < 0) { checked(); fail(fam + "|result|heavy-item-missing", ctx() + " id=" + std::to_string(id) + " w=" + str(W[id]) + " tau=" + str(tau)); }
          else VF_CHECK(adj_scratch[id] == W[id], fam + "|result|heavy-item-weight-altered", ctx() + " id=" + std::to_string(id) + " w=" + str(W[id]) + " adj=" + str(adj_scratch[id]) + " tau=" + str(tau));
        }
      }
      if (nheavy) count("union_result_with_heavy_items");
    }
  }
  for (uint64_t id : touched) adj_scratch[id] = -1.0;
  if (ok) VF_CHECK(close_rel(ro.sum, um.total, REL), fam + "|result|total-weight-not-preserved", ctx() + " sum=" + str(static_cast<double>(ro.sum)) + " total=" + str(static_cast<double>(um.total)) + " size=" + std::to_string(ro.items.size()));
  if (um.n > 0) check_subset_sums(s, "union|result", um.total, false, ro, ctx);
  sig(mix64(mix64(um.max_k, um.n), mix64(ro.items.size(), (marks ? 2 : 0) + (pseudo ? 1 : 0))));
  if (out_ro) *out_ro = ro;
  if (out_result) *out_result = std::move(*res);
  return true;
}

static VU union_round_trip(const VU& u, Rng& r) {
  // coverage only (private state): layout of the H-region marks that get packed 8 per byte
  const uint32_t h = u.gadget_.h_;
  bool mixed = false;        // an unmarked H item in a later mark byte at a bit position that is marked in an earlier byte
  bool mixed_rev = false;    // a marked one after an unmarked one at the same bit position
  if (u.n_ > 0 && u.gadget_.marks_ != nullptr && h >= 9) {
    for (uint32_t j = 8; j < h && !(mixed && mixed_rev); ++j)
      for (uint32_t i = j & 7; i < j; i += 8) {
        if (u.gadget_.marks_[i] && !u.gadget_.marks_[j]) mixed = true;
        if (!u.gadget_.marks_[i] && u.gadget_.marks_[j]) mixed_rev = true;
      }
  }
  const uint64_t mode = r.below(3);
  const char* mname = mode == 0 ? "bytes" : (mode == 1 ? "bytes_header" : "stream");
  if (h >= 9) count(std::string("union_ser_") + mname + "_gadget_h_ge9");
  if (mixed) count(std::string("union_ser_") + mname + "_h_ge9_unmarked_after_marked_across_mark_bytes");
  if (mixed_rev) count(std::string("union_ser_") + mname + "_h_ge9_marked_after_unmarked_across_mark_bytes");
  if (mode < 2) {
    const unsigned hdr = mode == 0 ? 0 : static_cast<unsigned>(r.range(1, 64));
    auto b = u.serialize(hdr);
    VF_CHECK(b.size() == hdr + u.get_serialized_size_bytes(), "union|serialize|size-mismatch", "bytes=" + std::to_string(b.size()) + " header=" + std::to_string(hdr));
    count(mode == 0 ? "union_roundtrip_bytes" : "union_roundtrip_bytes_header");
    return VU::deserialize(b.data() + hdr, b.size() - hdr);
  }
  std::stringstream ss(std::ios::in | std::ios::out | std::ios::binary);
  u.serialize(ss);
  count("union_roundtrip_stream");
  return VU::deserialize(ss);
}

static void union_case(Rng& r) {
  const bool T = G().thorough();
  const int profile = static_cast<int>(r.below(7));
  const size_t m = static_cast<size_t>(r.range(2, 6));
  // profile: 0 random mix; 1 identical weights/k/n (equal tau); 2 one exact + sampling ones; 3 all exact; 4 with empties; 5 tiny k;
  //          6 a small-k sampling sketch first, then exact ones, roomy max_k, union serialized in between (marked and unmarked H items share mark bytes)
  std::vector<UIn> ins(m);
  const int common_kind = static_cast<int>(r.below(K_TAUADJ));   // tau-adjacent generator is for single streams
  const uint32_t common_k = profile == 5 ? static_cast<uint32_t>(r.range(1, 3)) : pick_k(r, T ? 600 : 300);
  const uint64_t cap = T ? 6000 : 1500;
  const uint64_t common_n = pick_n(r, common_k, cap);
  const uint64_t eq_seed = r.next();
  std::string d = "union profile=" + std::to_string(profile) + " inputs=";
  bool alive = true;
  for (size_t i = 0; i < m && alive; ++i) {
    Feed f; f.hostile_ops = false; f.obs_every = 0; f.rf = static_cast<int>(r.below(4));
    switch (profile) {
      case 1: f.k = common_k; f.n = std::max<uint64_t>(common_n, static_cast<uint64_t>(common_k) + 1 + r.below(3)) ; f.kind = K_EQUAL; break;
      case 2: f.k = pick_k(r, 300); f.n = i == 0 ? r.below(f.k + 1) : std::min<uint64_t>(cap, f.k + 1 + r.below(6ull * f.k + 1)); f.kind = r.chance(0.5) ? common_kind : static_cast<int>(r.below(K_TAUADJ)); break;
      case 3: f.k = pick_k(r, 300); f.n = r.below(f.k + 1); f.kind = static_cast<int>(r.below(K_TAUADJ)); break;
      case 4: f.k = pick_k(r, 300); f.n = r.chance(0.4) ? 0 : pick_n(r, f.k, cap); f.kind = static_cast<int>(r.below(K_TAUADJ)); break;
      case 5: f.k = static_cast<uint32_t>(r.range(1, 3)); f.n = pick_n(r, f.k, 200); f.kind = static_cast<int>(r.below(K_TAUADJ)); break;
      case 6: f.k = static_cast<uint32_t>(r.range(9, 60)); f.n = i == 0 ? f.k + 1 + r.below(4ull * f.k) : 1 + r.below(f.k); f.kind = static_cast<int>(r.below(K_TAUADJ)); break;
      default: f.k = pick_k(r, T ? 600 : 300); f.n = pick_n(r, f.k, cap); f.kind = r.chance(0.5) ? common_kind : static_cast<int>(r.below(K_TAUADJ)); break;
    }
    UIn& in = ins[i];
    in.sk.reset(new VO(f.k, static_cast<resize_factor>(f.rf)));
    SkModel sm; sm.k = f.k;
    ReadOut ro;
    Rng er(profile == 1 ? eq_seed : r.next());   // profile 1: same weight sequence for every input
    describe(d + "... building input " + std::to_string(i) + " k=" + std::to_string(f.k) + " n=" + std::to_string(f.n) + " kind=" + kind_name(f.kind));
    alive = feed_stream(er, in.sk, sm, f, &ro);
    in.n = sm.n; in.total = sm.total; in.sampling = sm.n > sm.k;
    in.take(ro);
    d += "(k=" + std::to_string(f.k) + ",n=" + std::to_string(sm.n) + "," + kind_name(f.kind) + ")";
  }
  if (!alive) return;
  // union configuration
  UModel um;
  uint64_t tot_samples = 0; uint32_t min_k = UINT32_MAX, max_k_in = 0;
  for (auto& in : ins) { tot_samples += in.sample_ids.size(); min_k = std::min(min_k, in.sk->get_k()); max_k_in = std::max(max_k_in, in.sk->get_k()); }
  switch (r.below(7)) {
    case 0: um.max_k = static_cast<uint32_t>(r.range(1, 2)); break;
    case 1: um.max_k = min_k; break;
    case 2: um.max_k = max_k_in; break;
    case 3: um.max_k = static_cast<uint32_t>(std::max<uint64_t>(1, tot_samples)); break;
    case 4: um.max_k = static_cast<uint32_t>(tot_samples + 1 + r.below(50)); break;
    case 5: um.max_k = static_cast<uint32_t>(std::max<uint64_t>(1, tot_samples / 2)); break;
    default: um.max_k = static_cast<uint32_t>(r.range(1, 700)); break;
  }
  if (profile == 6 && r.chance(0.7)) um.max_k = static_cast<uint32_t>(tot_samples + 1 + r.below(50));
  d += " max_k=" + std::to_string(um.max_k);
  describe(d);
  count("union_profile_" + std::to_string(profile));
  std::unique_ptr<VU> u(new VU(um.max_k));
  check_union_result(*u, um, "construction", nullptr, nullptr);
  std::vector<size_t> order(m);
  for (size_t i = 0; i < m; ++i) order[i] = i;
  if (profile != 6) r.shuffle(order);
  bool fed_exact = false, fed_sampling = false;
  // once the union has been serialized and restored, the original (never serialized) object is kept as a twin:
  // it receives the same inputs under the same pinned seeds and must keep giving the same result
  std::unique_ptr<VU> twin;
  auto twin_agrees = [&](const char* when) {
    if (!twin) return;
    const uint64_t X = r.next();
    random_utils::rand.seed(X); VO ra = u->get_result();
    random_utils::rand.seed(X); VO rb = twin->get_result();
    VF_CHECK(same_readout(ra, rb), "union|round-trip|restored-result-differs-from-unserialized-twin", d + " " + when + " restored(n=" + std::to_string(ra.get_n()) + ",samples=" + std::to_string(ra.get_num_samples()) +
             ") twin(n=" + std::to_string(rb.get_n()) + ",samples=" + std::to_string(rb.get_num_samples()) + ")");
    count("union_twin_comparisons");
  };
  VO last_result(1); bool have_result = false;
  for (size_t step = 0; step < m; ++step) {
    UIn& in = ins[order[step]];
    const VO* src = in.sk.get();
    std::unique_ptr<VO> rt;
    if (r.chance(0.2)) {
      try { rt.reset(new VO(round_trip(*in.sk, r, "sketch"))); src = rt.get(); count("union_input_round_tripped"); }
      catch (const std::exception& e) { checked(); fail("sketch|round-trip|throws", d + " what=" + e.what()); }
    }
    try {
      const uint64_t UX = r.next();
      random_utils::rand.seed(UX);
      if (r.coin()) { u->update(*src); count("union_update_lvalue"); }
      else { VO tmp(*src); u->update(std::move(tmp)); count("union_update_rvalue"); }
      if (twin) { random_utils::rand.seed(UX); twin->update(*src); count("union_twin_updates_after_round_trip"); }
    } catch (const std::exception& e) {
      checked(); fail("union|update|throws", d + " step=" + std::to_string(step) + " what=" + e.what());
      return;
    }
    um.add(in);
    if (in.n > 0) { if (in.sampling) fed_sampling = true; else fed_exact = true; }
    if (in.n == 0) count("union_fed_empty"); else if (in.sampling) count("union_fed_sampling"); else count("union_fed_exact");
    if (r.chance(profile == 6 ? 0.8 : 0.25)) {
      try {
        std::unique_ptr<VU> t(new VU(union_round_trip(*u, r)));
        if (!twin) twin = std::move(u);
        u = std::move(t);
        count(um.n ? "union_round_trip_midway" : "union_round_trip_empty");
        twin_agrees("right after the round trip");
      }
      catch (const std::exception& e) { checked(); fail("union|round-trip|throws", d + " step=" + std::to_string(step) + " what=" + e.what()); return; }
    }
    if (r.chance(0.08)) { if (r.coin()) { std::unique_ptr<VU> t(new VU(*u)); u = std::move(t); } else { VU t(1); t = std::move(*u); u.reset(new VU(std::move(t))); } count("union_copy_or_move"); }
    if (r.chance(0.15)) {
      // assignment between union objects in different states: copy / chain / self through a reference / move
      try {
        auto other_union = [&]() { std::unique_ptr<VU> t(new VU(static_cast<uint32_t>(r.range(1, 300)))); if (r.coin()) t->update(*ins[order[r.below(step + 1)]].sk); return t; };
        std::unique_ptr<VU> t = other_union();
        const uint64_t kind = r.below(4);
        if (kind == 0) { *t = *u; count("union_assign_copy"); }
        else if (kind == 1) { std::unique_ptr<VU> t2 = other_union(); *t = *t2 = *u; count("union_assign_chain"); check_union_result(*t2, um, "chained union copy assignment (middle)", nullptr, nullptr); }
        else if (kind == 2) { VU& ref = *u; *u = ref; count("union_assign_self"); check_union_result(*u, um, "union self copy assignment", nullptr, nullptr); *t = *u; }
        else { VU tmp(*u); *t = std::move(tmp); count("union_assign_move"); }
        if (!check_union_result(*t, um, "union assignment (target)", nullptr, nullptr)) return;
        auto same_results = [&](const char* when) {
          const uint64_t X = r.next();
          random_utils::rand.seed(X); VO ra = u->get_result();
          random_utils::rand.seed(X); VO rb = t->get_result();
          VF_CHECK(same_readout(ra, rb), "union|assignment|target-result-differs-from-source", d + " " + when);
        };
        same_results("right after assignment");
        if (step + 1 < m) {
          // the next input goes into both, under the same pinned seed
          ++step;
          UIn& nx = ins[order[step]];
          const uint64_t X = r.next();
          random_utils::rand.seed(X); u->update(*nx.sk);
          random_utils::rand.seed(X); t->update(*nx.sk);
          if (twin) { random_utils::rand.seed(X); twin->update(*nx.sk); }
          um.add(nx);
          if (nx.n > 0) { if (nx.sampling) fed_sampling = true; else fed_exact = true; }
          if (nx.n == 0) count("union_fed_empty"); else if (nx.sampling) count("union_fed_sampling"); else count("union_fed_exact");
          same_results("after one more identical update");
          count("union_assign_continued_equal");
        }
        if (r.coin()) u = std::move(t);
      } catch (const std::exception& e) { checked(); fail("union|assignment|throws", d + " what=" + e.what()); return; }
    }
    if (step + 1 == m || r.chance(0.6)) {
      have_result = check_union_result(*u, um, step + 1 == m ? "last update" : "update", &last_result, nullptr);
      if (!have_result) return;
      twin_agrees("at a later get_result");
      // get_result is const: asking twice must be answerable again with the same n and total
      if (r.chance(0.2)) check_union_result(*u, um, "repeated get_result", nullptr, nullptr);
    }
    if (r.chance(0.03) && step + 1 < m) { u->reset(); twin.reset(); um.clear(); fed_exact = fed_sampling = false; count("union_reset"); check_union_result(*u, um, "reset", nullptr, nullptr); }
  }
  if (fed_exact && fed_sampling) count("union_exact_and_sampling_inputs");
  // stage 2: the result is itself a sketch: round trip it, feed it to another union, keep updating it
  if (have_result && um.n > 0) {
    const uint64_t c = r.below(10);
    if (c < 3) {
      try {
        VO dres = round_trip(last_result, r, "union|result");
        ReadOut ro = read_out(dres);
        VF_CHECK(dres.get_n() == um.n, "union|result|round-trip|n", d);
        VF_CHECK(close_rel(ro.sum, um.total, REL), "union|result|round-trip|total-weight", d + " sum=" + str(static_cast<double>(ro.sum)));
        count("union_result_round_trip");
      } catch (const std::exception& e) { checked(); fail("union|result|round-trip|throws", d + " what=" + e.what()); }
    } else if (c < 6) {
      // chained union: result + fresh sketches
      UIn rin; rin.n = um.n; rin.total = um.total;
      { ReadOut ro = read_out(last_result); rin.take(ro); }
      UModel um2; um2.max_k = static_cast<uint32_t>(r.range(1, 400));
      for (uint64_t id : um.allowed) allowed_flag[id] = 0;   // provenance now relative to the second union's inputs
      VU u2(um2.max_k);
      Feed f; f.hostile_ops = false; f.obs_every = 0; f.rf = static_cast<int>(r.below(4)); f.k = pick_k(r, 200); f.n = pick_n(r, f.k, 800); f.kind = static_cast<int>(r.below(K_TAUADJ));
      UIn fresh; fresh.sk.reset(new VO(f.k, static_cast<resize_factor>(f.rf)));
      SkModel sm; sm.k = f.k; ReadOut ro;
      if (!feed_stream(r, fresh.sk, sm, f, &ro)) return;
      fresh.n = sm.n; fresh.total = sm.total; fresh.take(ro);
      describe(d + " chained max_k2=" + std::to_string(um2.max_k) + " fresh(k=" + std::to_string(f.k) + ",n=" + std::to_string(sm.n) + ")");
      try {
        if (r.coin()) { u2.update(last_result); um2.add(rin); check_union_result(u2, um2, "chained: result fed", nullptr, nullptr); u2.update(*fresh.sk); um2.add(fresh); }
        else { u2.update(*fresh.sk); um2.add(fresh); u2.update(last_result); um2.add(rin); }
      } catch (const std::exception& e) { checked(); fail("union|update|throws", G().cur_desc + " what=" + std::string(e.what())); return; }
      check_union_result(u2, um2, "chained union", nullptr, nullptr);
      count("union_chained");
      um2.clear();
    } else if (c < 8) {
      // keep streaming into the result: n and total weight must keep adding up
      uint64_t n2 = um.n; long double tot2 = um.total;
      const uint64_t extra = 1 + r.below(3ull * last_result.get_k() + 5);
      WGen g; g.init(r, static_cast<int>(r.below(K_TAUADJ)), extra);
      for (uint64_t i = 0; i < extra; ++i) {
        const double w = g.next(r, i, 0, 0);
        if (!(w > 0) || !std::isfinite(w)) continue;
        const uint64_t id = new_id(w);
        try { last_result.update(mk(id), w); } catch (const std::exception& e) { checked(); fail("union|result|continued-update-throws", d + " w=" + str(w) + " what=" + e.what()); return; }
        ++n2; tot2 += w;
      }
      ReadOut ro = read_out(last_result);
      VF_CHECK(last_result.get_n() == n2, "union|result|continued|n", d + " got=" + std::to_string(last_result.get_n()) + " want=" + std::to_string(n2));
      VF_CHECK(close_rel(ro.sum, tot2, REL), "union|result|continued|total-weight", d + " sum=" + str(static_cast<double>(ro.sum)) + " want=" + str(static_cast<double>(tot2)));
      std::vector<uint64_t> seen;
      for (auto& p : ro.items) seen.push_back(p.first);
      std::sort(seen.begin(), seen.end());
      VF_CHECK(std::adjacent_find(seen.begin(), seen.end()) == seen.end(), "union|result|continued|duplicate-sample", d);
      count("union_result_continued");
    }
  }
  if (want_sample()) sample("{\"config\":" + jstr(d) + ",\"sum_n\":" + std::to_string(um.n) + ",\"total\":" + str(static_cast<double>(um.total)) + "}");
  um.clear();
}

// ---------------------------------------------------------------- unions whose combined n crosses 2^32 / 2^33
// Input sketches with a huge stream length are obtained cheaply: a valid sampling-mode image is taken and its
// 8-byte n field (offset 8) is overwritten — a legitimate image of a sketch that has seen that many items (the
// reader only requires n > k and h + r == k in that mode).  n must then add up exactly in 64 bits.
static void huge_n_union_case(Rng& r) {
  static const uint64_t P32 = 1ULL << 32, P33 = 1ULL << 33;
  const uint64_t targets[] = {P32 - 1, P32, P32 + 1, 4296000000ULL, P32 + (r.next() % P32), P33 - 1, P33, P33 + 5, 3000000000ULL, 3 * P32 + 17};
  const uint64_t target = targets[r.below(sizeof targets / sizeof targets[0])];
  const int variant = static_cast<int>(r.below(3));   // aims at: 0 simple path, 1 pseudo-exact path, 2 migrate (decrease k) path
  const size_t m = variant == 1 ? static_cast<size_t>(r.range(1, 3)) : static_cast<size_t>(r.range(2, 3));
  const uint32_t common_k = static_cast<uint32_t>(r.range(10, 80));
  const uint64_t eq_seed = r.next();
  std::vector<UIn> ins(m);
  std::string d = "huge-n union variant=" + std::to_string(variant) + " target_n=" + std::to_string(target) + " inputs=";
  uint64_t remaining = target;
  for (size_t i = 0; i < m; ++i) {
    Feed f; f.hostile_ops = false; f.obs_every = 0; f.rf = static_cast<int>(r.below(4));
    if (variant == 2) { f.k = static_cast<uint32_t>(r.range(8, 90)); f.kind = static_cast<int>(r.pick({K_UNIFORM, K_HEAVYTAIL, K_EXPSPREAD, K_GIANT})); f.n = f.k + 1 + r.below(5ull * f.k); }
    else { f.k = common_k; f.kind = K_EQUAL; f.n = 3ull * common_k + (variant == 0 ? r.below(common_k) : 0); }
    std::unique_ptr<VO> sk(new VO(f.k, static_cast<resize_factor>(f.rf)));
    SkModel sm; sm.k = f.k; ReadOut ro;
    Rng er(variant == 2 ? r.next() : eq_seed);
    describe(d + "... building input " + std::to_string(i));
    if (!feed_stream(er, sk, sm, f, &ro)) return;
    // stamp the huge n into the image
    const uint64_t share = i + 1 == m ? remaining : std::max<uint64_t>(sm.n, (target / m) - r.below(1000000) + (i ? r.below(1000) : 0));
    remaining -= share;
    UIn& in = ins[i];
    try {
      auto b = sk->serialize();
      std::memcpy(b.data() + 8, &share, sizeof share);
      if (r.coin()) in.sk.reset(new VO(VO::deserialize(b.data(), b.size())));
      else { std::stringstream ss(std::ios::in | std::ios::out | std::ios::binary); ss.write(reinterpret_cast<const char*>(b.data()), static_cast<std::streamsize>(b.size())); in.sk.reset(new VO(VO::deserialize(ss))); }
    } catch (const std::exception& e) { checked(); fail("sketch|deserialize|valid-image-with-huge-n-rejected", d + " n=" + std::to_string(share) + " what=" + e.what()); return; }
    VF_CHECK(in.sk->get_n() == share, "sketch|deserialize|huge-n-not-restored", d + " want=" + std::to_string(share) + " got=" + std::to_string(in.sk->get_n()));
    in.n = share; in.total = sm.total; in.sampling = true; in.take(ro);
    d += "(k=" + std::to_string(f.k) + ",n=" + std::to_string(share) + ")";
  }
  UModel um;
  uint64_t tot_samples = 0; for (auto& in : ins) tot_samples += in.sample_ids.size();
  um.max_k = variant == 0 ? std::max<uint32_t>(2, common_k / 2) : static_cast<uint32_t>(tot_samples + 1 + r.below(20));
  d += " max_k=" + std::to_string(um.max_k);
  describe(d);
  VU u(um.max_k);
  VO last(1); bool have = false;
  auto path_count = [&](const VU& un, uint64_t n) {
    if (n < P32) return;
    const bool marks = un.gadget_.num_marks_in_h_ > 0;
    const bool pseudo = marks && un.gadget_.r_ == 0 && un.gadget_.num_marks_in_h_ == un.outer_tau_denom_;
    count(marks ? (pseudo ? "huge_n_result_pseudo_exact_n_ge_2p32" : "huge_n_result_migrate_n_ge_2p32") : "huge_n_result_simple_n_ge_2p32");
    if (n >= P33) count("huge_n_result_n_ge_2p33");
  };
  for (size_t i = 0; i < m; ++i) {
    try { if (r.coin()) u.update(*ins[i].sk); else { VO tmp(*ins[i].sk); u.update(std::move(tmp)); } }
    catch (const std::exception& e) { checked(); fail("union|update|throws", d + " what=" + e.what()); return; }
    um.add(ins[i]);
    path_count(u, um.n);
    have = check_union_result(u, um, "huge-n update", &last, nullptr);
    if (!have) return;
    if (r.chance(0.3)) {   // the union itself through an image
      try { VU t = union_round_trip(u, r); path_count(t, um.n); if (!check_union_result(t, um, "huge-n union round trip", nullptr, nullptr)) return; }
      catch (const std::exception& e) { checked(); fail("union|round-trip|throws", d + " what=" + e.what()); return; }
    }
  }
  count("huge_n_union_cases");
  if (um.n == P32 - 1 || um.n == P33 - 1) count("huge_n_just_below_power"); else if (um.n == P32 || um.n == P33) count("huge_n_at_power"); else count("huge_n_above_power");
  // the result through an image
  try {
    VO dres = round_trip(last, r, "union|result");
    ReadOut ro = read_out(dres);
    VF_CHECK(dres.get_n() == um.n, "union|result|round-trip|n", d + " want=" + std::to_string(um.n) + " got=" + std::to_string(dres.get_n()));
    VF_CHECK(close_rel(ro.sum, um.total, REL), "union|result|round-trip|total-weight", d + " sum=" + str(static_cast<double>(ro.sum)));
    count("huge_n_result_round_trip");
  } catch (const std::exception& e) { checked(); fail("union|result|round-trip|throws", d + " what=" + e.what()); }
  // roll-up: the result (huge n) and one more huge input into a second union: n keeps adding up
  {
    UIn rin; rin.n = um.n; rin.total = um.total; { ReadOut ro = read_out(last); rin.take(ro); }
    UModel um2; um2.max_k = static_cast<uint32_t>(r.range(2, 200));
    for (uint64_t id : um.allowed) allowed_flag[id] = 0;
    VU u2(um2.max_k);
    try {
      u2.update(last); um2.add(rin); path_count(u2, um2.n);
      if (!check_union_result(u2, um2, "huge-n roll-up: result fed", nullptr, nullptr)) return;
      u2.update(*ins[0].sk); um2.add(ins[0]);   // same items again is fine for n and weight, but not for the distinctness clause:
    } catch (const std::exception& e) { checked(); fail("union|update|throws", d + " roll-up what=" + e.what()); return; }
    try {
      VO r2 = u2.get_result();
      ReadOut ro = read_out(r2);
      VF_CHECK(r2.get_n() == um2.n, "union|result|n-not-sum-of-input-n", d + " roll-up want=" + std::to_string(um2.n) + " got=" + std::to_string(r2.get_n()));
      VF_CHECK(close_rel(ro.sum, um2.total, REL), "union|result|total-weight-not-preserved", d + " roll-up sum=" + str(static_cast<double>(ro.sum)) + " total=" + str(static_cast<double>(um2.total)));
      count("huge_n_roll_up");
    } catch (const std::exception& e) { checked(); fail("union|get_result|throws", d + " roll-up what=" + e.what()); }
    um2.clear();
  }
  um.clear();
}

// ---------------------------------------------------------------- unbiasedness cells
struct Cell { int n; int k; int kind; int split; uint32_t max_k; };   // split 0 = single sketch; else number of sketches unioned
static const Cell CELLS[] = {
  {60, 5, K_UNIFORM, 0, 0}, {200, 20, K_HEAVYTAIL, 0, 0}, {300, 40, K_EXPSPREAD, 0, 0}, {100, 10, K_GIANT, 0, 0},
  {120, 8, K_UNIFORM, 2, 8}, {240, 16, K_HEAVYTAIL, 3, 24}, {150, 12, K_INCREASING, 0, 0}, {90, 1, K_UNIFORM, 0, 0},
  {50, 2, K_DYADIC, 0, 0}, {180, 10, K_EXPSPREAD, 2, 40},
  {300, 30, K_DECREASING, 0, 0}, {80, 7, K_EQUAL, 0, 0}, {256, 25, K_DYADIC, 2, 25}, {100, 6, K_HEAVYTAIL, 2, 3},
  {200, 15, K_UNIFORM, 3, 100}, {64, 3, K_EXPSPREAD, 0, 0}, {160, 33, K_GIANT, 2, 33}, {120, 12, K_HEAVYTAIL, 0, 0},
  {75, 5, K_INCREASING, 2, 5}, {300, 9, K_UNIFORM, 0, 0},
};

static void stat_cell(uint64_t idx, Rng& r) {
  const bool T = G().thorough();
#ifdef C16_STRING_ITEMS
  const Cell& c = CELLS[(idx + 4) % (sizeof CELLS / sizeof CELLS[0])];   // the string unit starts with the union cells
#else
  const Cell& c = CELLS[idx % (sizeof CELLS / sizeof CELLS[0])];
#endif
  const uint64_t trials = T ? 20000 : 1500;
  describe("unbiasedness cell " + std::to_string(idx) + " n=" + std::to_string(c.n) + " k=" + std::to_string(c.k) + " kind=" + kind_name(c.kind) + " split=" + std::to_string(c.split) + " max_k=" + std::to_string(c.max_k) + " trials=" + std::to_string(trials));
  // the stream is a fixed function of the cell index (not of VERIF_SEED); the trial seeds come from r
  Rng sr(0xC16C0000ULL + idx);
  WGen g; g.init(sr, c.kind, c.n);
  // moderate spreads only: with weights spread over many orders of magnitude the estimator's variance is
  // carried by events rarer than 1/T and a T-trial mean cannot be judged by its empirical standard error
  g.geometric = false;
  if (c.kind == K_EXPSPREAD) g.p1 = 3.0;
  if (c.kind == K_HEAVYTAIL) g.p1 = 1.5;
  std::vector<double> w(c.n);
  long double total = 0, truth = 0, truth_late = 0;
  const uint64_t half = static_cast<uint64_t>(c.n / 2);
  for (int i = 0; i < c.n; ++i) { w[i] = g.next(sr, i, 0, 0); total += w[i]; if (i & 1) truth += w[i]; if (static_cast<uint64_t>(i) >= half) truth_late += w[i]; }
  // second predicate, asymmetric in stream position (a bias in how late arrivals are kept cancels under id parity)
  auto pred_late = [half](const Item& it) { return id_of(it) >= half; };
  // for unions: item i goes to sketch i % split, sketch j has k = c.k + 3*j (different k)
  double mean = 0, m2 = 0, mean_l = 0, m2_l = 0;
  for (uint64_t t = 0; t < trials; ++t) {
    random_utils::rand.seed(r.next());
    double est, est_all, est_late;
    if (c.split == 0) {
      VO s(c.k);
      for (int i = 0; i < c.n; ++i) s.update(mk(static_cast<uint64_t>(i)), w[i]);
      est = s.estimate_subset_sum(pred_odd).estimate;
      est_all = s.estimate_subset_sum(pred_always).estimate;
      est_late = s.estimate_subset_sum(pred_late).estimate;
    } else {
      std::vector<VO> sks;
      for (int j = 0; j < c.split; ++j) sks.emplace_back(c.k + 3 * j);
      for (int i = 0; i < c.n; ++i) sks[(i / 3) % c.split].update(mk(static_cast<uint64_t>(i)), w[i]);
      VU u(c.max_k);
      for (int j = 0; j < c.split; ++j) u.update(sks[(j + t) % c.split]);
      VO s = u.get_result();
      est = s.estimate_subset_sum(pred_odd).estimate;
      est_all = s.estimate_subset_sum(pred_always).estimate;
      est_late = s.estimate_subset_sum(pred_late).estimate;
    }
    VF_CHECK(close_rel(est_all, total, REL), c.split ? "union|result|subset_sum|always-estimate-not-total-weight" : "sketch|subset_sum|always-estimate-not-total-weight",
             "trial=" + std::to_string(t) + " est=" + str(est_all) + " total=" + str(static_cast<double>(total)));
    const double dlt = est - mean;
    mean += dlt / static_cast<double>(t + 1);
    m2 += dlt * (est - mean);
    const double dl = est_late - mean_l;
    mean_l += dl / static_cast<double>(t + 1);
    m2_l += dl * (est_late - mean_l);
  }
  const double var = m2 / static_cast<double>(trials - 1);
  const double se = std::sqrt(var / static_cast<double>(trials));
  const double dev = std::fabs(mean - static_cast<double>(truth));
  VF_CHECK(dev <= 4.5 * se + 1e-9 * static_cast<double>(total), c.split ? "union|result|subset-sum-estimate-biased" : "sketch|subset-sum-estimate-biased",
           "predicate=odd-id mean=" + str(mean) + " truth=" + str(static_cast<double>(truth)) + " se=" + str(se) + " dev/se=" + str(se > 0 ? dev / se : 0.0) + " trials=" + std::to_string(trials));
  {
    const double var_l = m2_l / static_cast<double>(trials - 1);
    const double se_l = std::sqrt(var_l / static_cast<double>(trials));
    const double dev_l = std::fabs(mean_l - static_cast<double>(truth_late));
    VF_CHECK(dev_l <= 4.5 * se_l + 1e-9 * static_cast<double>(total), c.split ? "union|result|subset-sum-estimate-biased" : "sketch|subset-sum-estimate-biased",
             "predicate=second-half-of-stream mean=" + str(mean_l) + " truth=" + str(static_cast<double>(truth_late)) + " se=" + str(se_l) + " dev/se=" + str(se_l > 0 ? dev_l / se_l : 0.0) + " trials=" + std::to_string(trials));
  }
  VF_CHECK(var > 0, "harness|unbiasedness-cell-degenerate", "variance 0: the cell does not sample");
  count(c.split ? "unbiasedness_cells_union" : "unbiasedness_cells_sketch");
  count("unbiasedness_trials", trials);
  sig(mix64(0x57a7, idx));
  if (want_sample()) sample("{\"cell\":" + jstr(G().cur_desc) + ",\"mean\":" + str(mean) + ",\"truth\":" + str(static_cast<double>(truth)) + ",\"se\":" + str(se) + "}");
}

void run_case(uint64_t idx, Rng& r) {
  reset_registry();
  const uint64_t nstat = G().thorough() ? NSTAT_THOROUGH : NSTAT_QUICK;
  if (idx < nstat) { stat_cell(idx, r); return; }
  const uint64_t s = r.next();
  random_utils::rand.seed(s);
  random_utils::random_bit.seed(static_cast<uint32_t>(s));
  if (r.chance(0.04)) huge_n_union_case(r);
  else if (r.chance(0.55)) stream_case(r); else union_case(r);
}

} // namespace vf
