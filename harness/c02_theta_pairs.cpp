// C02 — Theta set operations return the exact set expression over the hash samples.
// Unit B: theta_a_not_b, theta_jaccard_similarity and bounds_on_ratios_in_theta_sketched_sets over all ordered
// pairs of a family with random physical forms, plus the seed-mismatch probes.
#include "vf/c02_family.hpp"

namespace vf {

const char* property_id() { return "C02"; }
unsigned case_timeout_s() { return 300; }
uint64_t num_cases(bool thorough) { return thorough ? 16000 : 1200; }
void final_report() {}

void run_case(uint64_t idx, Rng& r) {
  (void)idx;
  Family fam;
  make_family(fam, r);
  const uint64_t seed = fam.seed, base = fam.base; const bool big = fam.big; const int nin = fam.nin;
  std::vector<std::unique_ptr<Input>>& ins = fam.ins;
  std::string& desc = fam.desc;
  theta_a_not_b anb(seed);
  auto build_union = [&]() { return theta_union::builder().set_lg_k(static_cast<uint8_t>(5 + r.below(6))).set_seed(seed).build(); };
  // ---------------------------------------------------------------- A-not-B, Jaccard, bounds on ratios: all ordered pairs
  {
    typedef theta_jaccard_similarity J;
    typedef bounds_on_ratios_in_theta_sketched_sets<trivial_extract_key> BR;
    for (int a = 0; a < nin; ++a) for (int b = 0; b < nin; ++b) {
      const Input& A = *ins[a]; const Input& B = *ins[b];
      const int reps = big ? 1 : 2;
      std::array<double, 3> jref{{0, 0, 0}}; bool have_jref = false; bool eq_ref = false;
      for (int rep = 0; rep < reps; ++rep) {
        const int fa = static_cast<int>(r.below(F_N)), fb = static_cast<int>(r.below(F_N));
        const bool oreq = r.coin();
        const std::string ctx = desc + " a=" + std::to_string(a) + ":" + form_name[fa] + " b=" + std::to_string(b) + ":" + form_name[fb];
        const bool a_ord = A.ordered[eff_form(A, fa)], b_ord = B.ordered[eff_form(B, fb)];
        with_form2(A, fa, [&](const auto& sa) {
          with_form2(B, fb, [&](const auto& sb) {
            // ---- A-not-B
            {
              State m = model_anotb(A.st, B.st);
              compact_theta_sketch res = anb.compute(sa, sb, oreq);
              check_result(res, m, oreq, "a_not_b", ctx, seed);
              tally("d", true, A, fa); tally("d", false, B, fb);
              if (A.st.empty) count("anotb_a_empty");
              else if (B.st.empty) count(A.st.ent.empty() ? "anotb_b_empty_a_zero" : "anotb_b_empty");
              else if (B.st.ent.empty()) count("anotb_b_zero_retained");
              else if (a_ord && b_ord) count("anotb_sort_path");
              else count("anotb_hash_path");
              if (!A.st.empty && !B.st.empty && m.empty) count("anotb_exact_empty_result");
              if (!m.empty && m.ent.empty()) count("anotb_nonempty_zero_entries");
              if (!A.st.empty && !B.st.empty && !B.st.ent.empty() && a_ord && A.st.ent.size() >= 2 && A.last >= std::min(A.st.theta, B.st.theta)) count("anotb_ordered_early_stop");
              sig(mix64(mix64(m.theta, m.ent.size()), mix64(99, a * 8 + b)));
            }
            // ---- Jaccard
            {
              std::array<double, 3> j = J::jaccard(sa, sb, seed);
              const bool eq = J::exactly_equal(sa, sb, seed);
              const std::string jd = ctx + " jaccard={" + str(j[0]) + "," + str(j[1]) + "," + str(j[2]) + "} exactly_equal=" + (eq ? "1" : "0") + " A=" + sstr(A.st) + " B=" + sstr(B.st);
              const bool a_exact = A.st.empty || A.st.theta == MAXT, b_exact = B.st.empty || B.st.theta == MAXT;
              if (a_exact && b_exact) {
                double want;
                bool same;
                if (A.st.empty && B.st.empty) { want = 1; same = true; count("jaccard_both_empty"); }
                else if (A.st.empty || B.st.empty) { want = 0; same = false; count("jaccard_one_empty"); }
                else {
                  Vec un, in2;
                  std::set_union(A.st.ent.begin(), A.st.ent.end(), B.st.ent.begin(), B.st.ent.end(), std::back_inserter(un));
                  std::set_intersection(A.st.ent.begin(), A.st.ent.end(), B.st.ent.begin(), B.st.ent.end(), std::back_inserter(in2));
                  want = un.empty() ? 0.5 : static_cast<double>(in2.size()) / static_cast<double>(un.size());   // un.empty(): not reachable with well-formed inputs
                  same = A.st.ent == B.st.ent;
                  count("jaccard_exact");
                  if (in2.size() > 0 && in2.size() < un.size()) count("jaccard_exact_fractional");
                }
                VF_CHECK(j[0] == want && j[1] == want && j[2] == want, "jaccard|exact-mode-not-true-ratio", jd + " want=" + str(want));
                VF_CHECK(eq == same, "jaccard|exactly_equal-vs-set-equality", jd);
              } else {
                VF_CHECK(0 <= j[0] && j[0] <= j[1] && j[1] <= j[2] && j[2] <= 1, "jaccard|estimation-bounds-order", jd);
                if (A.st == B.st) {
                  VF_CHECK(eq, "jaccard|exactly_equal-false-for-identical-state", jd);
                  VF_CHECK(j[0] == 1 && j[1] == 1 && j[2] == 1, "jaccard|not-one-for-identical-state", jd);
                  count("jaccard_est_identical");
                }
                count("jaccard_estimation");
              }
              if (!big) {
                VF_CHECK(J::similarity_test(sa, sb, 0.5, seed) == (j[0] >= 0.5), "jaccard|similarity_test-inconsistent", jd);
                VF_CHECK(J::dissimilarity_test(sa, sb, 0.5, seed) == (j[2] <= 0.5), "jaccard|dissimilarity_test-inconsistent", jd);
              }
              // form / order independence
              if (!have_jref) { have_jref = true; jref = j; eq_ref = eq; }
              else {
                VF_CHECK(j == jref && eq == eq_ref, "jaccard|depends-on-form", jd + " other-forms={" + str(jref[0]) + "," + str(jref[1]) + "," + str(jref[2]) + "}");
              }
              if (rep == 0 && (!big || a < b)) {
                std::array<double, 3> jr = J::jaccard(sb, sa, seed);
                VF_CHECK(jr == j && J::exactly_equal(sb, sa, seed) == eq, "jaccard|depends-on-argument-order", jd + " swapped={" + str(jr[0]) + "," + str(jr[1]) + "," + str(jr[2]) + "}");
                std::array<double, 3> js = J::jaccard(sa, sa, seed);
                VF_CHECK(js[0] == 1 && js[1] == 1 && js[2] == 1 && J::exactly_equal(sa, sa, seed), "jaccard|self-not-one", jd);
              }
            }
            // ---- bounds on ratios: sub = A n B as sketch "B" of the header, A as sketch "A"
            if (rep == 0 && !A.st.empty) {
              theta_intersection ti(seed); ti.update(sa); ti.update(sb);
              compact_theta_sketch sub = ti.get_result(r.coin());
              std::vector<const State*> two; two.push_back(&A.st); two.push_back(&B.st);
              State ms = model_inter(two);
              const std::string bd = ctx + " A=" + sstr(A.st) + " AnB=" + sstr(ms);
              if (ms.theta > A.st.theta) {   // only when B is empty: empty result carries theta MAX
                VF_CHECK(throws([&] { BR::estimate_of_b_over_a(sa, sub); }), "bounds_on_ratios|theta_b-above-theta_a-accepted", bd);
                count("ratio_theta_precondition_throw");
              } else {
                const double lb = BR::lower_bound_for_b_over_a(sa, sub), est = BR::estimate_of_b_over_a(sa, sub), ub = BR::upper_bound_for_b_over_a(sa, sub);
                const std::string bd2 = bd + " lb=" + str(lb) + " est=" + str(est) + " ub=" + str(ub);
                uint64_t ca = 0; for (uint64_t h : A.st.ent) { if (h >= ms.theta) break; ++ca; }
                const double want = ca == 0 ? 0.5 : static_cast<double>(ms.ent.size()) / static_cast<double>(ca);
                VF_CHECK(est == want, "bounds_on_ratios|estimate-not-count-ratio", bd2 + " want=" + str(want));
                VF_CHECK(0 <= lb && lb <= est && est <= ub && ub <= 1, "bounds_on_ratios|bounds-order", bd2);
                if (ms.theta == MAXT && ca > 0) VF_CHECK(lb == want && ub == want, "bounds_on_ratios|exact-mode-bounds-not-ratio", bd2);
                count("ratio_bounds_checked");
              }
            }
          });
        });
      }
    }
  }

  // ---------------------------------------------------------------- seed mismatch must throw
  {
    uint64_t other = seed + 1 + r.below(1000);
    while (ref_seed_hash(other) == ref_seed_hash(seed)) ++other;
    update_theta_sketch xu = update_theta_sketch::builder().set_lg_k(5).set_seed(other).build();
    const uint64_t xn = 1 + r.below(100);
    for (uint64_t j = 0; j < xn; ++j) xu.update(static_cast<uint64_t>(base + j));
    compact_theta_sketch xc = xu.compact(r.coin());
    auto xb = xc.serialize();
    wrapped_compact_theta_sketch xw = wrapped_compact_theta_sketch::wrap(xb.data(), xb.size(), other);
    const int which = static_cast<int>(r.below(3));
    auto with_x = [&](auto&& fn) { if (which == 0) fn(static_cast<const theta_sketch&>(xu)); else if (which == 1) fn(static_cast<const theta_sketch&>(xc)); else fn(xw); };
    // a non-empty input of this family, if any
    int ne = -1; for (int i = 0; i < nin; ++i) if (!ins[i]->st.empty) { ne = i; break; }
    const std::string ctx = desc + " other_seed=" + std::to_string(other) + " xform=" + std::to_string(which);
    with_x([&](const auto& x) {
      theta_union u = build_union();
      if (ne >= 0 && r.coin()) with_form2(*ins[ne], static_cast<int>(r.below(F_N)), [&](const auto& s) { u.update(s); });
      State before = read_raw(u.get_result(false)).st;
      VF_CHECK(throws([&] { u.update(x); }), "union|seed-mismatch-accepted", ctx);
      count("seed_mismatch_union");
      theta_intersection ti(seed);
      if (ne >= 0 && r.coin()) {
        with_form2(*ins[ne], static_cast<int>(r.below(F_N)), [&](const auto& s) { ti.update(s); });
      }
      VF_CHECK(throws([&] { ti.update(x); }), "intersection|seed-mismatch-accepted", ctx);
      count("seed_mismatch_inter");
      if (ne >= 0) {
        with_form2(*ins[ne], static_cast<int>(r.below(F_N)), [&](const auto& s) {
          VF_CHECK(throws([&] { anb.compute(x, s); }), "a_not_b|seed-mismatch-in-a-accepted", ctx);
          VF_CHECK(throws([&] { anb.compute(s, x); }), "a_not_b|seed-mismatch-in-b-accepted", ctx);
          VF_CHECK(throws([&] { theta_jaccard_similarity::jaccard(s, x, seed); }), "jaccard|seed-mismatch-accepted", ctx);
          count("seed_mismatch_anotb");
        });
      }
      (void)before;
    });
  }

  if (want_sample()) sample("{\"family\":" + jstr(desc) + ",\"pairs\":" + std::to_string(nin * nin) + "}");
}

} // namespace vf
