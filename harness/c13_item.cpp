// C13 — Tuple sketches keep theta-sketch keys and exact per-key summaries.
// Unit: Summary = vf::Item, an instrumented move-aware user-defined type.  Every object knows its own address and
// life-cycle state, so construction over a live object, destruction of a non-live object (double destroy, destroy of
// raw memory), bitwise relocation, reads of moved-from / destroyed objects and construct/destroy imbalance are all
// reported.  Its value is an order-sensitive chain hash plus a count, so the fold order is observable as well.
#include "vf/c13_common.hpp"

using namespace datasketches;
namespace vf {
using namespace c13;

static int64_t g_item_live = 0;
static uint64_t g_item_ctor = 0, g_item_moves = 0, g_item_copies = 0;
static const uint64_t ITEM_C0 = 0x1234567089abcdefULL;

struct Item {
  enum : uint32_t { ALIVE = 0xA11CE001u, MOVED = 0x30CED002u, DEAD = 0xDEADD003u };
  uint64_t chain; uint32_t n; uint32_t state; const Item* self;

  static void bad(const char* what) { fail(std::string("item|lifetime|") + g_op + "|" + what, std::string("during ") + g_op); }
  bool constructed() const { return self == this && (state == ALIVE || state == MOVED); }
  // may the value be read?
  bool check_readable(const char* how) const {
    checked();
    if (self != this || (state != ALIVE && state != MOVED && state != DEAD)) { bad((std::string(how) + "-of-never-constructed-or-relocated-object").c_str()); return false; }
    if (state == MOVED) { bad((std::string(how) + "-of-moved-from-object").c_str()); return false; }
    if (state == DEAD) { bad((std::string(how) + "-of-destroyed-object").c_str()); return false; }
    return true;
  }
  // may it be moved from / assigned to / destroyed?  (moved-from objects may)
  bool check_constructed(const char* how) const {
    checked();
    if (!constructed()) { bad((std::string(how) + (self == this && state == DEAD ? "-of-destroyed-object" : "-of-never-constructed-or-relocated-object")).c_str()); return false; }
    return true;
  }
  void born() { self = this; ++g_item_live; ++g_item_ctor; }

  Item(): chain(ITEM_C0), n(0), state(ALIVE) { born(); }
  explicit Item(uint64_t v): chain(v), n(1), state(ALIVE) { born(); }
  Item(uint64_t c, uint32_t cnt): chain(c), n(cnt), state(ALIVE) { born(); }
  Item(const Item& o): chain(0), n(0), state(ALIVE) {
    if (o.check_readable("copy")) { chain = o.chain; n = o.n; } else state = MOVED;
    born(); ++g_item_copies;
  }
  Item(Item&& o) noexcept: chain(0), n(0), state(ALIVE) {
    if (o.check_constructed("move")) { chain = o.chain; n = o.n; state = o.state; o.state = MOVED; } else state = MOVED;
    born(); ++g_item_moves;
  }
  Item& operator=(const Item& o) {
    check_constructed("copy-assignment-to");
    if (&o == this) return *this;
    if (o.check_readable("copy")) { chain = o.chain; n = o.n; state = ALIVE; } else state = MOVED;
    ++g_item_copies;
    return *this;
  }
  Item& operator=(Item&& o) noexcept {
    check_constructed("move-assignment-to");
    if (&o == this) return *this;
    if (o.check_constructed("move")) { chain = o.chain; n = o.n; state = o.state; o.state = MOVED; } else state = MOVED;
    ++g_item_moves;
    return *this;
  }
  ~Item() {
    if (check_constructed("destruction")) { state = DEAD; --g_item_live; }
  }
  // fold another summary / update value into this one (order sensitive)
  void absorb(const Item& o) {
    check_readable("policy-target-read");
    if (o.check_readable("policy-source-read")) { chain = mix64(chain, o.chain); n += o.n; }
  }
};

struct ItemM { uint64_t chain = ITEM_C0; uint32_t n = 0; };

struct ItemUpdatePolicy {   // STATEFUL: every summary it creates starts from a chain value salted by the policy
  uint64_t salt = 0;
  ItemUpdatePolicy() {}
  explicit ItemUpdatePolicy(uint64_t s): salt(s) {}
  Item create() const { return Item(ITEM_C0 ^ salt, 0); }
  void update(Item& s, const Item& u) const { s.absorb(u); }
  void update(Item& s, Item&& u) const { s.absorb(u); Item sink(std::move(u)); }   // really consumes the rvalue
};
struct ItemMergePolicy {
  void operator()(Item& a, const Item& b) const { a.absorb(b); }
  void operator()(Item& a, Item&& b) const { a.absorb(b); Item sink(std::move(b)); }
};
struct ItemSerde {
  void serialize(std::ostream& os, const Item* items, unsigned num) const {
    for (unsigned i = 0; i < num; ++i) { items[i].check_readable("serialize"); os.write(reinterpret_cast<const char*>(&items[i].chain), 8); os.write(reinterpret_cast<const char*>(&items[i].n), 4); }
  }
  void deserialize(std::istream& is, Item* items, unsigned num) const {
    for (unsigned i = 0; i < num; ++i) {
      uint64_t c = 0; uint32_t n = 0; is.read(reinterpret_cast<char*>(&c), 8); is.read(reinterpret_cast<char*>(&n), 4);
      if (!is.good()) throw std::runtime_error("ItemSerde: bad stream");
      new (&items[i]) Item(c, n);
    }
  }
  size_t size_of_item(const Item&) const { return 12; }
  size_t serialize(void* ptr, size_t capacity, const Item* items, unsigned num) const {
    if (12 * static_cast<size_t>(num) > capacity) throw std::runtime_error("ItemSerde: buffer too small");
    char* p = static_cast<char*>(ptr);
    for (unsigned i = 0; i < num; ++i) { items[i].check_readable("serialize"); memcpy(p, &items[i].chain, 8); memcpy(p + 8, &items[i].n, 4); p += 12; }
    return 12 * static_cast<size_t>(num);
  }
  size_t deserialize(const void* ptr, size_t capacity, Item* items, unsigned num) const {
    if (12 * static_cast<size_t>(num) > capacity) throw std::runtime_error("ItemSerde: truncated");
    const char* p = static_cast<const char*>(ptr);
    for (unsigned i = 0; i < num; ++i) { uint64_t c; uint32_t n; memcpy(&c, p, 8); memcpy(&n, p + 8, 4); p += 12; new (&items[i]) Item(c, n); }
    return 12 * static_cast<size_t>(num);
  }
};

struct ItemT {
  static const char* name() { return "item"; }
  static int id() { return 3; }
  using Summary = Item; using UV = uint64_t; using M = ItemM;
  struct Cfg { uint64_t salt = 0; };
  using UpdateSketch = update_tuple_sketch<Item, Item, ItemUpdatePolicy>;
  using CompactSketch = compact_tuple_sketch<Item>;
  using BaseCompact = CompactSketch;
  using Union = tuple_union<Item, ItemMergePolicy>;
  using Intersection = tuple_intersection<Item, ItemMergePolicy>;
  using ANotB = tuple_a_not_b<Item>;
  static const bool anotb_accepts_base_a = true;

  static Cfg gen_cfg(Rng& r) { Cfg c; c.salt = r.next(); return c; }
  static std::string cfg_str(const Cfg& c) { return "policy-salt=" + std::to_string(c.salt); }
  static UV gen_uv(Rng& r, const Cfg&) { return r.next() | 1; }
  static std::string uv_str(const UV& v) { return std::to_string(v); }
  static M m_create(const Cfg& c) { M m; m.chain = ITEM_C0 ^ c.salt; return m; }
  static void m_update(M& m, const UV& v) { m.chain = mix64(m.chain, v); m.n += 1; }
  static void m_merge(M& m, const M& o) { m.chain = mix64(m.chain, o.chain); m.n += o.n; }
  static M read(const Summary& s) {
    M m; m.chain = 0; m.n = 0xffffffffu;        // an unreadable summary never compares equal to a model value
    if (s.check_readable("read")) { m.chain = s.chain; m.n = s.n; }
    return m;
  }
  static bool m_eq(const M& a, const M& b) { return a.chain == b.chain && a.n == b.n; }
  static std::string m_str(const M& m) { return "{chain=" + std::to_string(m.chain) + ",n=" + std::to_string(m.n) + "}"; }
  static bool pred(const M& m, int param) {
    switch (param) { case 0: return m.n % 2 == 1; case 1: return (m.chain & 8) != 0; case 2: return m.n >= 2; default: return false; }
  }
  static Summary make_summary(const M& m, const Cfg&) { return Item(m.chain, m.n); }
  static UpdateSketch make_update(const Cfg& c, uint8_t lg_k, int rf, float p, uint64_t seed) {
    return UpdateSketch::builder(ItemUpdatePolicy(c.salt)).set_lg_k(lg_k).set_resize_factor(static_cast<theta_constants::resize_factor>(rf)).set_p(p).set_seed(seed).build();
  }
  static void do_update(UpdateSketch& sk, const Val& key, const UV& uv, Rng& r, const Cfg&) {
    Item u(uv);
    if (r.coin()) {
      apply_update2(sk, key, static_cast<const Item&>(u));
      // an lvalue update value is the caller's: it must be left intact
      VF_CHECK(u.self == &u && u.state == Item::ALIVE && u.chain == uv && u.n == 1, "item|update|lvalue-update-value-modified", "value=" + std::to_string(uv));
      count("item_update_lvalue");
    } else {
      apply_update2(sk, key, std::move(u));
      count("item_update_rvalue");
    }
  }
  static Union make_union(const Cfg&, uint8_t lg_k, int rf, float p, uint64_t seed) {
    return Union::builder().set_lg_k(lg_k).set_resize_factor(static_cast<theta_constants::resize_factor>(rf)).set_p(p).set_seed(seed).build();
  }
  static Intersection make_inter(const Cfg&, uint64_t seed) { return Intersection(seed); }
  static ANotB make_anotb(uint64_t seed) { return ANotB(seed); }
  template<typename A, typename B> static void anotb_compute(const ANotB& anb, A&& a, const B& b, bool ro, std::unique_ptr<CompactSketch>& res) {
    res.reset(new CompactSketch(anb.compute(std::forward<A>(a), b, ro)));
  }
  template<typename R> static void check_result_cfg(const R&, const Cfg&, const std::string&, const std::string&) {}
  static CompactSketch compact_ctor(const UpdateSketch& s, bool ord) { return CompactSketch(s, ord); }
  static std::string ser_bytes(const CompactSketch& c) { return ser_bytes_g(c, ItemSerde()); }
  static std::string ser_stream(const CompactSketch& c) { return ser_stream_g(c, ItemSerde()); }
  static CompactSketch deser_bytes(const std::string& b, uint64_t seed, const Cfg&) { return CompactSketch::deserialize(b.data(), b.size(), seed, ItemSerde()); }
  static CompactSketch deser_stream(const std::string& b, uint64_t seed, const Cfg&) { return deser_stream_g<CompactSketch>(b, seed, ItemSerde()); }
};

const char* property_id() { return "C13"; }
unsigned case_timeout_s() { return 180; }
uint64_t num_cases(bool thorough) { return thorough ? 15000 : 700; }
void final_report() {}
void run_case(uint64_t idx, Rng& r) {
  g_item_live = 0;
  const uint64_t ctor0 = g_item_ctor, moves0 = g_item_moves;
  run_typed<ItemT>(idx, r);
  // every sketch, operand, result and temporary of the case is gone: constructions and destructions must balance
  VF_CHECK(g_item_live == 0, "item|lifetime|constructions-and-destructions-do-not-balance", "live objects left after the case: " + std::to_string(g_item_live));
  count("item_constructions", g_item_ctor - ctor0);
  count("item_moves", g_item_moves - moves0);
}

} // namespace vf
