// C18 — EBPPS sample size and bookkeeping are exact; inclusion proportional to weight.
//
// Reference-bookkeeping monitor: every item carries a unique id, the harness keeps n, the sum of
// weights, the maximum weight and the configured k of every live sketch (through updates, merges in
// both directions, lvalue/rvalue, round trips, copies) and compares get_n / get_cumulative_weight /
// get_c / get_k and several random get_result() / begin()..end() draws after the operations.
// The first case indices are statistical cells: fixed small streams, T pinned seeds, per-item
// inclusion frequency compared with w_i * c / sum(w).
#include "vf/core.hpp"
#include <ebpps_sketch.hpp>
#include <sstream>
#include <limits>
#include <memory>
#include <sys/wait.h>
#include <unistd.h>
#include <fcntl.h>

using namespace datasketches;
namespace vf {

typedef ebpps_sketch<uint64_t> EB;

const char* property_id() { return "C18"; }
unsigned case_timeout_s() { return 300; }
static const uint64_t NSTAT_QUICK = 18, NSTAT_THOROUGH = 28;
uint64_t num_cases(bool thorough) { return thorough ? NSTAT_THOROUGH + 150000 : NSTAT_QUICK + 14000; }
void final_report() {}

// ---------------------------------------------------------------- per-case id registry
static std::vector<double> W;            // weight of every id issued in this case
static std::vector<uint32_t> owner_gen;  // per id: generation stamp of the model it currently belongs to (see Model::stamp)
static std::vector<uint8_t> seen_flag;   // scratch for duplicate detection (count of occurrences in the draw at hand)
static std::vector<uint8_t> mult_allowed; // per id: how often it occurs in the current model's input (2 after a self-merge)

static uint64_t new_id(double w) { W.push_back(w); owner_gen.push_back(0); seen_flag.push_back(0); mult_allowed.push_back(0); return W.size() - 1; }

static bool close_rel(long double a, long double b, double rel) {
  const long double d = a > b ? a - b : b - a;
  const long double m = std::max<long double>(a < 0 ? -a : a, b < 0 ? -b : b);
  return d <= rel * m;
}

struct Model {
  uint32_t k = 0;
  uint64_t n = 0;
  long double cum = 0;
  double wmax = 0;
  bool all_equal = true;     // every accepted weight so far is the same value
  double first_w = 0;
  std::vector<uint64_t> ids; // accepted inputs (of this sketch and of everything merged into it)
  bool merged = false;
  void add(uint64_t id, double w) {
    if (n == 0) first_w = w; else if (w != first_w) all_equal = false;
    ++n; cum += w; wmax = std::max(wmax, w); ids.push_back(id);
  }
  void absorb(const Model& o) {     // property text: n and cumulative weight add, k becomes the smaller one
    if (o.n > 0) { if (n == 0) first_w = o.first_w; if (!o.all_equal || o.first_w != first_w) all_equal = false; }
    n += o.n; cum += o.cum; wmax = std::max(wmax, o.wmax); k = std::min(k, o.k);
    ids.insert(ids.end(), o.ids.begin(), o.ids.end());
    merged = true;
  }
};

static uint32_t g_stamp = 0;
// key family of the sketch clauses: "sketch", or "sketch-deep-subnormal" for streams whose weights are so small
// that 1/weight overflows (kept apart so that a library that does not support them is one identifiable finding)
static const char* g_fam = "sketch";
static const char* g_mfam = "merge";

static void check_draw(const std::vector<uint64_t>& got, const Model& m, double c, const char* how, const std::function<std::string()>& ctx) {
  const std::string fam = g_fam;
  const double fl = std::floor(c), ce = std::ceil(c);
  const double sz = static_cast<double>(got.size());
  VF_CHECK(sz == fl || sz == ce, fam + "|" + how + "|size-not-floor-or-ceil-of-c", ctx() + " size=" + std::to_string(got.size()) + " c=" + str(c));
  for (uint64_t id : got) {
    if (id >= W.size() || owner_gen[id] != g_stamp) { checked(); fail(fam + "|" + how + "|item-not-from-input", ctx() + " id=" + std::to_string(id)); continue; }
    if (seen_flag[id] >= mult_allowed[id]) { checked(); fail(fam + "|" + how + "|duplicate-item", ctx() + " id=" + std::to_string(id) + " multiplicity-in-input=" + std::to_string(mult_allowed[id])); continue; }
    ++seen_flag[id];
  }
  for (uint64_t id : got) if (id < W.size()) seen_flag[id] = 0;
  if (m.all_equal && m.n <= m.k && m.n > 0) {
    VF_CHECK(got.size() == m.n, fam + "|" + how + "|equal-weights-n-le-k-item-dropped", ctx() + " size=" + std::to_string(got.size()) + " c=" + str(c));
    count("equal_weights_all_kept_checks");
    if (m.first_w < std::numeric_limits<double>::min()) count("subnormal_equal_all_kept_checks");
  }
}

static void observe(const EB& s, const Model& m, const char* after, int draws) {
  auto ctx = [&]() {
    return std::string("after ") + after + " k=" + std::to_string(m.k) + " n=" + std::to_string(m.n) + " cum=" + str(static_cast<double>(m.cum)) + " wmax=" + str(m.wmax) + (m.merged ? " (merged)" : "");
  };
  const std::string fam = g_fam;
  VF_CHECK(s.get_n() == m.n, fam + "|get_n", ctx() + " got=" + std::to_string(s.get_n()));
  VF_CHECK(s.get_k() == m.k, fam + "|get_k", ctx() + " got=" + std::to_string(s.get_k()));
  VF_CHECK(s.is_empty() == (m.n == 0), fam + "|is_empty", ctx());
  VF_CHECK(close_rel(s.get_cumulative_weight(), m.cum, 1e-12), fam + "|cumulative_weight", ctx() + " got=" + str(s.get_cumulative_weight()));
  const double c = s.get_c();
  const double want = m.n == 0 ? 0.0 : std::min<double>(m.k, static_cast<double>(m.cum / m.wmax));
  VF_CHECK(std::fabs(c - want) <= 1e-9 * want /* false for NaN */, fam + "|c-not-min-k-cumwt-over-wmax", ctx() + " c=" + str(c) + " want=" + str(want));
  // stamp the inputs of this model so that provenance is a flag test
  ++g_stamp;
  for (uint64_t id : m.ids) { if (owner_gen[id] != g_stamp) { owner_gen[id] = g_stamp; mult_allowed[id] = 1; } else if (mult_allowed[id] < 255) ++mult_allowed[id]; }
  for (int d = 0; d < draws; ++d) {
    try {
      auto res = s.get_result();
      std::vector<uint64_t> got(res.begin(), res.end());
      check_draw(got, m, c, "get_result", ctx);
    } catch (const std::exception& e) { checked(); fail(fam + "|get_result|throws", ctx() + " what=" + e.what()); }
    try {
      std::vector<uint64_t> got;
      for (auto it = s.begin(); it != s.end(); ++it) { got.push_back(*it); if (got.size() > static_cast<size_t>(m.k) + 8) break; }
      check_draw(got, m, c, "iteration", ctx);
    } catch (const std::exception& e) { checked(); fail(fam + "|iteration|throws", ctx() + " what=" + e.what()); }
  }
  double ip;
  const bool frac = std::modf(c, &ip) != 0.0;
  if (m.n > 0) {
    if (frac) count("obs_fractional_c"); else count("obs_integral_c");
    if (want == static_cast<double>(m.k)) count("obs_c_equals_k"); else count("obs_c_below_k");
  }
  sig(mix64(mix64(m.k, m.n), mix64(dbits(std::floor(c * 4096)), m.merged)));
}

// ---------------------------------------------------------------- weights
enum Kind { K_UNIFORM, K_EXPSPREAD, K_HEAVYTAIL, K_EQUAL, K_GIANT, K_INCREASING, K_DECREASING, K_DYADIC, K_TWOLEVEL, K_PATTERN, K_SUBNORMAL, K_SUBNORMAL_MIX, K_HUGE, K_NKINDS, K_DEEP_SUBNORMAL = K_NKINDS };
static const char* kind_name(int k) {
  static const char* n[] = {"uniform", "expspread", "heavytail", "equal", "giant", "increasing", "decreasing", "dyadic", "twolevel", "pattern_1_1_half", "subnormal", "subnormal_mix", "huge", "deep_subnormal"};
  return n[k];
}
struct WGen {
  int kind = 0; uint64_t n = 1; double base = 1, p1 = 0; uint64_t giant_pos = 0; bool geometric = false;
  void init(Rng& r, int k, uint64_t n_) {
    kind = k; n = std::max<uint64_t>(1, n_);
    base = r.pick({1.0, 1.0, 100.0, 1e-6, 1e9, 0.37});
    switch (kind) {
      case K_EXPSPREAD: p1 = r.pick({3.0, 10.0, 30.0}); break;
      case K_HEAVYTAIL: p1 = r.pick({0.5, 1.0, 1.5, 3.0}); break;
      case K_EQUAL: base = r.pick({1.0, 0.1, 49.0, 1234567.891, 1e-9, 3e9, 1.0 / 3.0, 2.5}); break;
      case K_GIANT: giant_pos = r.below(n); p1 = r.pick({1e3, 1e9, 1e15}); break;
      case K_INCREASING: case K_DECREASING: geometric = r.coin(); p1 = std::exp(std::log(r.pick({10.0, 1e6, 1e12})) / static_cast<double>(n)); break;
      case K_TWOLEVEL: p1 = r.pick({2.0, 10.0, 1000.0}); break;
      case K_SUBNORMAL: case K_SUBNORMAL_MIX: case K_HUGE: p1 = static_cast<double>(r.below(3)); break;
      case K_DEEP_SUBNORMAL: p1 = static_cast<double>(r.below(4)); break;
      default: break;
    }
  }
  static double subnormal(Rng& r, int variant) {
    switch (variant) {
      case 0: return std::ldexp(1.0, -1023);                                        // all equal
      case 1: return std::ldexp(1.001 + 0.99 * r.unit(), -1024);                    // (2^-1024, 2^-1023)
      default: return std::ldexp(static_cast<double>(65 + r.below(191)), -1030);    // j * 2^-1030, j in 65..255
    }
  }
  double next(Rng& r, uint64_t i) {
    switch (kind) {
      case K_UNIFORM: return base * (0.001 + r.unit());
      case K_EXPSPREAD: return std::exp2((2 * r.unit() - 1) * p1) * (1 + r.unit());
      case K_HEAVYTAIL: return std::min(1e30, base / std::pow(1.0 - r.unit(), 1.0 / p1));
      case K_EQUAL: return base;
      case K_GIANT: return i == giant_pos ? base * p1 * (1 + r.unit()) : base * (0.5 + r.unit());
      case K_INCREASING: return geometric ? base * std::pow(p1, static_cast<double>(i % n)) : base * static_cast<double>(i + 1);
      case K_DECREASING: return geometric ? base * std::pow(p1, static_cast<double>(n - 1 - (i % n))) : base * static_cast<double>(2 * n - (i % n));
      case K_DYADIC: return static_cast<double>(1 + r.below(64)) / 16.0;
      case K_TWOLEVEL: return r.chance(0.2) ? base * p1 : base;
      // positive subnormal doubles whose reciprocal is still finite: (2^-1024, 2^-1022)
      case K_SUBNORMAL: return subnormal(r, static_cast<int>(p1));
      // subnormal and tiny normal weights mixed
      case K_SUBNORMAL_MIX: return r.coin() ? subnormal(r, 1 + static_cast<int>(r.below(2))) : std::ldexp(1.0 + r.unit(), -1022 + static_cast<int>(r.below(6)));
      // around 1e300: sums of a few thousand stay finite
      case K_HUGE: return p1 == 0 ? 1e300 : (p1 == 1 ? 1e300 * (0.5 + r.unit()) : (r.chance(0.2) ? 1e300 : 1e290 * (1 + r.unit())));
      // so small that 1/w overflows: denorm_min()*j, 1e-310, denorm_min(), 2^-1030*(1+u)
      case K_DEEP_SUBNORMAL: {
        const double dm = std::numeric_limits<double>::denorm_min();
        switch (static_cast<int>(p1)) { case 0: return dm * static_cast<double>(1 + r.below(1000)); case 1: return 1e-310; case 2: return dm; default: return std::ldexp(1.0 + r.unit(), -1030); }
      }
      case K_PATTERN: return (i % 3 == 2) ? 0.5 : 1.0;   // 1, 1, 0.5, ... : fractional c with full items while c < k
    }
    return 1.0;
  }
};

struct Live { std::unique_ptr<EB> sk; Model m; };

static EB round_trip(const EB& s, Rng& r) {
  if (r.coin()) {
    auto b = s.serialize();
    VF_CHECK(b.size() == s.get_serialized_size_bytes(), "sketch|serialize|size-mismatch", "bytes=" + std::to_string(b.size()) + " reported=" + std::to_string(s.get_serialized_size_bytes()));
    count("roundtrip_bytes");
    return EB::deserialize(b.data(), b.size());
  }
  std::stringstream ss(std::ios::in | std::ios::out | std::ios::binary);
  s.serialize(ss);
  count("roundtrip_stream");
  return EB::deserialize(ss);
}

static uint32_t pick_k(Rng& r) {
  const uint64_t c = r.below(100);
  if (c < 12) return 1;
  if (c < 22) return 2;
  if (c < 30) return 3;
  if (c < 75) return static_cast<uint32_t>(r.range(4, 40));
  return static_cast<uint32_t>(r.range(20, 500));
}

// Assign the monitored sketch over sketches in other states (copy, a = b = c chain, self through a reference,
// move), observe the targets against the SOURCE's model, then apply identical updates under the same pinned
// seed to source and target: bookkeeping and samples must stay equal.  Returns false if the library threw.
static std::unique_ptr<EB> make_other(Rng& r) {
  const uint32_t k = pick_k(r);
  std::unique_ptr<EB> t(new EB(k));
  uint64_t n2 = 0;
  switch (r.below(3)) { case 0: n2 = 0; break; case 1: n2 = r.below(k + 1); break; default: n2 = std::min<uint64_t>(400, k + 1 + r.below(3ull * k + 1)); break; }
  for (uint64_t i = 0; i < n2; ++i) { const double w = 0.01 + 10 * r.unit(); t->update(new_id(w), w); }
  count(n2 == 0 ? "assign_target_empty" : (n2 <= k ? "assign_target_n_le_k" : "assign_target_n_gt_k"));
  return t;
}
static bool same_state(const EB& a, const EB& b, uint64_t seed) {
  if (a.get_n() != b.get_n() || a.get_k() != b.get_k() || a.get_cumulative_weight() != b.get_cumulative_weight() || a.get_c() != b.get_c()) return false;
  random_utils::rand.seed(seed); const auto x = a.get_result();
  random_utils::rand.seed(seed); const auto y = b.get_result();
  if (x != y) return false;
  random_utils::rand.seed(seed); std::vector<uint64_t> p; for (auto it = a.begin(); it != a.end(); ++it) p.push_back(*it);
  random_utils::rand.seed(seed); std::vector<uint64_t> q; for (auto it = b.begin(); it != b.end(); ++it) q.push_back(*it);
  return p == q;
}
static bool assignment_probe(Rng& r, Live& L) {
  const std::string ctx0 = "k=" + std::to_string(L.m.k) + " n=" + std::to_string(L.m.n) + (L.m.merged ? " (merged)" : "");
  try {
    std::unique_ptr<EB> t = make_other(r);
    const uint64_t kind = r.below(4);
    if (kind == 0) { *t = *L.sk; count("assign_copy"); observe(*t, L.m, "copy assignment (target)", 2); }
    else if (kind == 1) {
      std::unique_ptr<EB> t2 = make_other(r);
      *t = *t2 = *L.sk; count("assign_chain");
      observe(*t2, L.m, "chained copy assignment (middle)", 1); observe(*t, L.m, "chained copy assignment (left)", 1);
    } else if (kind == 2) {
      EB& ref = *L.sk; *L.sk = ref; count("assign_self");
      observe(*L.sk, L.m, "self copy assignment", 2);
      *t = *L.sk; observe(*t, L.m, "copy assignment after self assignment", 1);
    } else { EB tmp(*L.sk); *t = std::move(tmp); count("assign_move"); observe(*t, L.m, "move assignment (target)", 2); }
    observe(*L.sk, L.m, "assignment (source must be unchanged)", 1);
    VF_CHECK(same_state(*L.sk, *t, r.next()), "sketch|assignment|target-differs-from-source", ctx0);
    const uint64_t cnt = 1 + r.below(std::min<uint64_t>(150, 2ull * L.m.k + 5));
    const double scale = L.m.n ? static_cast<double>(L.m.cum / L.m.n) : 1.0;
    std::vector<std::pair<uint64_t, double>> seq;
    for (uint64_t i = 0; i < cnt; ++i) {
      double w = scale * (r.chance(0.1) ? 5 + 20 * r.unit() : 0.05 + 2 * r.unit());
      if (w < 5.6e-309) w = scale * (1 + r.unit());   // stay out of the range where 1/w overflows (that is the deep-subnormal family's business)
      if (w > 0 && std::isfinite(w)) seq.emplace_back(new_id(w), w);
    }
    const uint64_t X = r.next();
    random_utils::rand.seed(X); for (auto& q : seq) L.sk->update(q.first, q.second);
    random_utils::rand.seed(X); for (auto& q : seq) t->update(q.first, q.second);
    for (auto& q : seq) L.m.add(q.first, q.second);
    VF_CHECK(same_state(*L.sk, *t, r.next()), "sketch|assignment|diverges-from-source-under-identical-updates", ctx0 + " updates=" + std::to_string(seq.size()));
    observe(*t, L.m, "identical updates after assignment (target)", 2);
    count("assign_continued_equal");
    if (r.coin()) L.sk = std::move(t);
  } catch (const std::exception& e) { checked(); fail("sketch|assignment|throws", ctx0 + " what=" + e.what()); return false; }
  return true;
}

// s.merge(s) through a reference: the model is the stream seen twice (n and cumulative weight double, maximum
// weight and k unchanged, every input id now has one more occurrence).  Returns false if the library threw.
static bool self_merge(Live& L, const char* when) {
  const bool saturated = L.m.n > 0 && static_cast<double>(L.m.cum / L.m.wmax) >= static_cast<double>(L.m.k);
  const bool eq_fits = L.m.n > 0 && L.m.all_equal && 2 * L.m.n <= L.m.k;
  const std::string ctx0 = std::string(when) + " k=" + std::to_string(L.m.k) + " n=" + std::to_string(L.m.n) + " c=" + str(L.sk->get_c());
  try { const EB& ref = *L.sk; L.sk->merge(ref); }
  catch (const std::exception& e) { checked(); fail(std::string(g_mfam) + "|self-merge|throws", ctx0 + " what=" + e.what()); return false; }
  const Model twin = L.m;
  L.m.absorb(twin);
  VF_CHECK(L.sk->get_n() == L.m.n, std::string(g_mfam) + "|self-merge|n-not-doubled", ctx0 + " got=" + std::to_string(L.sk->get_n()));
  VF_CHECK(close_rel(L.sk->get_cumulative_weight(), L.m.cum, 1e-12), std::string(g_mfam) + "|self-merge|cumulative-weight-not-doubled", ctx0 + " got=" + str(L.sk->get_cumulative_weight()));
  VF_CHECK(L.sk->get_k() == L.m.k, std::string(g_mfam) + "|self-merge|k-changed", ctx0 + " got=" + std::to_string(L.sk->get_k()));
  observe(*L.sk, L.m, "self-merge", 3);
  if (twin.n == 0) count("self_merge_empty"); else if (saturated) count("self_merge_saturated"); else count("self_merge_c_below_k");
  if (eq_fits) count("self_merge_equal_weights_every_item_kept_twice");
  return true;
}

// feed `cnt` updates; returns false when the library threw on a valid weight
static bool feed(Rng& r, Live& L, WGen& g, uint64_t cnt, uint64_t& pos, bool hostile, uint64_t obs_every) {
  const double inf = std::numeric_limits<double>::infinity();
  for (uint64_t j = 0; j < cnt; ++j, ++pos) {
    if (hostile && r.chance(0.02)) {
      const uint64_t op = r.below(14);
      if (op >= 12) {
        // (bounded: every self-merge doubles n and the id list)
        if (L.m.n <= 20000) { if (!self_merge(L, "mid-stream")) return false; count("updates_after_self_merge"); }
      } else if (op >= 10) {
        if (!assignment_probe(r, L)) return false;
      } else if (op < 3) {
        const uint64_t id = new_id(0.0);
        try { L.sk->update(id, r.coin() ? 0.0 : -0.0); } catch (const std::exception& e) { checked(); fail("sketch|update|zero-weight-throws", e.what()); }
        count("zero_weight_updates"); observe(*L.sk, L.m, "zero-weight update", 1);
      } else if (op < 6) {
        const double bad = r.pick({-1.0, -1e-300, std::numeric_limits<double>::quiet_NaN(), inf, -inf});
        const uint64_t id = new_id(0.0);
        VF_CHECK(throws([&] { L.sk->update(id, bad); }), "sketch|update|invalid-weight-accepted", "weight=" + str(bad));
        count("invalid_weight_probes"); observe(*L.sk, L.m, "rejected update", 1);
      } else if (op < 8) {
        try { std::unique_ptr<EB> t(new EB(round_trip(*L.sk, r))); L.sk = std::move(t); }
        catch (const std::exception& e) { checked(); fail("sketch|round-trip|throws", "k=" + std::to_string(L.m.k) + " n=" + std::to_string(L.m.n) + " c=" + str(L.sk->get_c()) + " what=" + e.what()); return false; }
        count(L.m.merged ? "roundtrip_after_merge" : "roundtrip_midstream"); observe(*L.sk, L.m, "round trip", 2);
      } else if (op < 9) {
        if (r.coin()) { std::unique_ptr<EB> t(new EB(*L.sk)); L.sk = std::move(t); } else { EB t(std::move(*L.sk)); L.sk.reset(new EB(std::move(t))); }
        count("copy_or_move"); observe(*L.sk, L.m, "copy/move", 1);
      } else if (r.chance(0.2)) {
        L.sk->reset(); const uint32_t k = L.m.k; L.m = Model(); L.m.k = k; count("reset"); observe(*L.sk, L.m, "reset", 1);
      }
    }
    const double w = g.next(r, pos);
    if (!(w > 0) || !std::isfinite(w)) continue;
    const uint64_t id = new_id(w);
    try { if (r.coin()) L.sk->update(id, w); else { uint64_t tmp = id; L.sk->update(std::move(tmp), w); } }
    catch (const std::exception& e) { checked(); fail("sketch|update|throws-on-valid-weight", "k=" + std::to_string(L.m.k) + " n=" + std::to_string(L.m.n) + " w=" + str(w) + " what=" + e.what()); return false; }
    L.m.add(id, w);
    if (obs_every && (j % obs_every) == 0) observe(*L.sk, L.m, "update", 1);
  }
  observe(*L.sk, L.m, "updates", 2);
  return true;
}

static uint64_t pick_n(Rng& r, uint32_t k, uint64_t cap) {
  uint64_t n;
  switch (r.below(8)) {
    case 0: n = r.below(k + 1); break;
    case 1: n = k; break;
    case 2: n = static_cast<uint64_t>(k) + 1 + r.below(3); break;
    case 3: case 4: n = 2ull * k + r.below(4ull * k + 1); break;
    case 5: n = 10ull * k + r.below(20ull * k + 1); break;
    default: n = r.below(cap + 1); break;
  }
  return std::min(n, cap);
}

static void explore_body(Rng& r, bool deep);

static void explore_case(Rng& r) {
  // deep-subnormal cases: weights whose reciprocal overflows; kept in the c < k regime (n <= k), where the closed form
  // for c needs no quotient of two such numbers; no hostile ops / continuations (they could push n above k)
  const bool deep = r.chance(0.03);
  if (deep) {
    // This regime is a recorded finding (NaN c, undefined NaN->integer conversion, SEGV): probe it in a forked child first so
    // that an abort does not cost a shard restart; only a case that survives the probe is run (and checked) in this process.
    Rng probe = r;
    fflush(nullptr);
    const pid_t pid = fork();
    if (pid == 0) {
      const int nul = ::open("/dev/null", O_WRONLY);
      if (nul >= 0) { G().out_fd = nul; dup2(nul, 2); }
      explore_body(probe, true);
      _exit(0);
    }
    int st = 0;
    if (pid < 0 || waitpid(pid, &st, 0) != pid) { count("deep_subnormal_probe_fork_failed"); return; }
    count("deep_subnormal_probes");
    if (!(WIFEXITED(st) && WEXITSTATUS(st) == 0)) {
      describe("{crashtag:deep-subnormal} probe in forked child");
      checked();
      fail("sketch-deep-subnormal|aborts", std::string("forked probe of a deep-subnormal case ") +
           (WIFSIGNALED(st) ? "killed by signal " + std::to_string(WTERMSIG(st)) : "exited with " + std::to_string(WEXITSTATUS(st))));
      count("deep_subnormal_probe_aborted");
      return;
    }
  }
  explore_body(r, deep);
}

static void explore_body(Rng& r, bool deep) {
  const bool T = G().thorough();
  g_fam = deep ? "sketch-deep-subnormal" : "sketch";
  g_mfam = deep ? "merge-deep-subnormal" : "merge";
  const size_t nsk = deep ? static_cast<size_t>(r.range(1, 2)) : (r.chance(0.35) ? 1 : static_cast<size_t>(r.range(2, 4)));
  const uint64_t cap = T ? 4000 : 1200;
  const bool hostile = !deep && r.chance(0.5);
  const int common_kind = static_cast<int>(r.below(K_NKINDS));
  const bool same_equal = r.chance(0.2);            // all sketches get the same constant weight
  const uint64_t eq_seed = r.next();
  std::vector<Live> live(nsk);
  std::string d = deep ? "{crashtag:deep-subnormal} sketches=" : "sketches=";
  uint64_t pos = 0;
  for (size_t i = 0; i < nsk; ++i) {
    Live& L = live[i];
    L.m.k = deep ? static_cast<uint32_t>(r.range(130, 500)) : pick_k(r);
    L.sk.reset(new EB(L.m.k));
    const uint64_t n = deep ? r.below(61) : (r.chance(0.08) ? 0 : pick_n(r, L.m.k, cap));
    const int kind = deep ? static_cast<int>(K_DEEP_SUBNORMAL) : (same_equal ? K_EQUAL : (r.coin() ? common_kind : static_cast<int>(r.below(K_NKINDS))));
    d += "(k=" + std::to_string(L.m.k) + ",n=" + std::to_string(n) + "," + kind_name(kind) + ")";
    describe("building " + d);
    WGen g; Rng gr(same_equal ? eq_seed : r.next()); g.init(gr, kind, n);
    observe(*L.sk, L.m, "construction", 1);
    const uint64_t obs_every = n <= 100 ? 1 : 1 + r.below(n / 10 + 1);
    uint64_t p = 0;
    if (!feed(r, L, g, n, p, hostile, obs_every)) return;
    count(std::string("stream_kind_") + kind_name(kind));
    if (deep && r.coin()) {
      try { std::unique_ptr<EB> t(new EB(round_trip(*L.sk, r))); L.sk = std::move(t); observe(*L.sk, L.m, "round trip", 2); count("deep_subnormal_round_trip"); }
      catch (const std::exception& e) { checked(); fail(std::string(g_fam) + "|round-trip|throws", d + " what=" + e.what()); return; }
    }
    if (L.m.k == 1) count("k1_sketches");
    pos += n;
  }
  describe(d);
  // self-merge of a freshly built sketch (both regimes), usually followed by more updates
  if (!deep) for (Live& L : live) {
    if (!r.chance(0.15)) continue;
    describe(d + " self-merge of (k=" + std::to_string(L.m.k) + ",n=" + std::to_string(L.m.n) + ")");
    if (!self_merge(L, "after build")) return;
    if (r.chance(0.3) && L.m.n <= 5000) { if (!self_merge(L, "second self-merge")) return; count("self_merge_twice"); }
    if (r.chance(0.7)) {
      const uint64_t extra = 1 + r.below(2ull * L.m.k + 10);
      WGen g; g.init(r, static_cast<int>(r.below(K_NKINDS)), extra);
      if (!feed(r, L, g, extra, pos, hostile, extra <= 60 ? 1 : 7)) return;
      count("updates_after_self_merge");
    }
  }
  describe(d);
  // merges: random pairs, both directions, lvalue / rvalue, chains; then keep updating the target
  if (nsk >= 2) {
    const size_t nmerge = static_cast<size_t>(r.range(1, static_cast<int64_t>(nsk) + 1));
    for (size_t step = 0; step < nmerge && live.size() >= 2; ++step) {
      const size_t a = r.below(live.size());
      size_t b = r.below(live.size() - 1); if (b >= a) ++b;
      Live& A = live[a]; Live& B = live[b];
      const bool rvalue = r.coin();
      const char* dir = B.m.k < A.m.k ? "smaller_k_into_larger_k" : (B.m.k > A.m.k ? "larger_k_into_smaller_k" : "equal_k");
      const bool arg_heavier = B.m.cum > A.m.cum;
      const std::string md = d + " merge#" + std::to_string(step) + " target(k=" + std::to_string(A.m.k) + ",n=" + std::to_string(A.m.n) + ",cum=" + str(static_cast<double>(A.m.cum)) +
        ") arg(k=" + std::to_string(B.m.k) + ",n=" + std::to_string(B.m.n) + ",cum=" + str(static_cast<double>(B.m.cum)) + ") " + (rvalue ? "rvalue" : "lvalue");
      describe(md);
      const Model before_arg = B.m;
      const bool arg_empty = B.m.n == 0, target_empty = A.m.n == 0;
      try {
        if (rvalue) { EB tmp(*B.sk); A.sk->merge(std::move(tmp)); } else A.sk->merge(*B.sk);
      } catch (const std::exception& e) { checked(); fail(std::string(g_mfam) + "|throws", md + " what=" + e.what()); return; }
      A.m.absorb(B.m);
      count(std::string("merge_") + dir); count(rvalue ? "merge_rvalue" : "merge_lvalue");
      count(arg_heavier ? "merge_arg_heavier_swapped" : "merge_arg_lighter");
      if (arg_empty) count("merge_arg_empty"); if (target_empty) count("merge_target_empty");
      // merge-specific keys first (so that a k/n/weight mistake is attributed to the merge)
      VF_CHECK(A.sk->get_n() == A.m.n, std::string(g_mfam) + "|n-not-sum", md + " got=" + std::to_string(A.sk->get_n()));
      VF_CHECK(close_rel(A.sk->get_cumulative_weight(), A.m.cum, 1e-12), std::string(g_mfam) + "|cumulative-weight-not-sum", md + " got=" + str(A.sk->get_cumulative_weight()));
      if (arg_empty || target_empty) VF_CHECK(A.sk->get_k() == A.m.k, std::string(g_mfam) + "|k-not-min-when-one-side-empty", md + " got=" + std::to_string(A.sk->get_k()) + " want=" + std::to_string(A.m.k));
      else VF_CHECK(A.sk->get_k() == A.m.k, std::string(g_mfam) + "|k-not-min", md + " got=" + std::to_string(A.sk->get_k()) + " want=" + std::to_string(A.m.k));
      A.m.k = A.sk->get_k();   // a k mismatch has been reported once; do not let it cascade into every later clause
      observe(*A.sk, A.m, "merge", 3);
      if (!rvalue) observe(*B.sk, before_arg, "being merged from (lvalue argument must be unchanged)", 1);
      if (!deep && r.chance(0.25)) { describe(md + " then assignment probe"); if (!assignment_probe(r, A)) return; count("assign_after_merge"); }
      // keep streaming into the merged sketch
      if (!deep && r.chance(0.6)) {
        const uint64_t extra = 1 + r.below(3ull * A.m.k + 10);
        WGen g; g.init(r, static_cast<int>(r.below(K_NKINDS)), extra);
        describe(md + " then " + std::to_string(extra) + " more updates");
        if (!feed(r, A, g, extra, pos, hostile, extra <= 60 ? 1 : 7)) return;
        count("updates_after_merge");
      }
      live.erase(live.begin() + static_cast<long>(b));   // the argument is dropped (merging it twice would legitimately duplicate ids)
    }
  }
  // many read-outs of one clearly fractional-c sketch: both floor(c) and ceil(c) must occur on each path
  for (Live& L : live) {
    const double c = L.sk->get_c();
    double ci; const double fr = std::modf(c, &ci);
    if (L.m.n == 0 || L.m.k > 120 || fr < 0.15 || fr > 0.85 || !r.chance(0.5)) continue;
    uint64_t nf[2] = {0, 0}, nc[2] = {0, 0};
    for (int d2 = 0; d2 < 300; ++d2) {
      const size_t s0 = L.sk->get_result().size();
      size_t s1 = 0;
      for (auto it = L.sk->begin(); it != L.sk->end(); ++it) { if (++s1 > static_cast<size_t>(L.m.k) + 8) break; }
      if (static_cast<double>(s0) == ci) ++nf[0]; else if (static_cast<double>(s0) == ci + 1) ++nc[0];
      if (static_cast<double>(s1) == ci) ++nf[1]; else if (static_cast<double>(s1) == ci + 1) ++nc[1];
    }
    VF_CHECK(nf[0] > 0 && nc[0] > 0, "sketch|get_result|only-one-sample-size-for-fractional-c", d + " c=" + str(c) + " floor-sized=" + std::to_string(nf[0]) + " ceil-sized=" + std::to_string(nc[0]) + " of 300");
    VF_CHECK(nf[1] > 0 && nc[1] > 0, "sketch|iteration|only-one-sample-size-for-fractional-c", d + " c=" + str(c) + " floor-sized=" + std::to_string(nf[1]) + " ceil-sized=" + std::to_string(nc[1]) + " of 300");
    count("many_readouts_fractional_c");
  }
  if (want_sample()) sample("{\"config\":" + jstr(G().cur_desc) + ",\"final_n\":" + std::to_string(live[0].m.n) + ",\"final_c\":" + str(live[0].sk->get_c()) + "}");
}

// ---------------------------------------------------------------- doubling merges: n crosses 2^32
// A small sketch is merged with copies of itself (lvalue copy, rvalue copy, self-merge through a reference)
// 33..36 times: n and the cumulative weight must double exactly each time (n in 64 bits).
static void doubling_case(Rng& r) {
  g_fam = "sketch"; g_mfam = "merge";
  const uint32_t k = pick_k(r);
  const uint64_t n0 = 3 + r.below(48);
  const bool dyadic = r.coin();
  const int rounds = 33 + static_cast<int>(r.below(4));
  describe("doubling k=" + std::to_string(k) + " n0=" + std::to_string(n0) + " dyadic=" + std::to_string(dyadic) + " rounds=" + std::to_string(rounds));
  std::unique_ptr<EB> s(new EB(k));
  long double cum = 0; double wmax = 0;
  ++g_stamp;
  for (uint64_t i = 0; i < n0; ++i) {
    const double w = dyadic ? static_cast<double>(1 + r.below(64)) / 16.0 : 0.1 + 10 * r.unit();
    const uint64_t id = new_id(w); owner_gen[id] = g_stamp;
    s->update(id, w); cum += w; wmax = std::max(wmax, w);
  }
  uint64_t n = n0;
  auto check = [&](const EB& e, const std::string& when) {
    auto ctx = [&]() { return when + " k=" + std::to_string(k) + " n0=" + std::to_string(n0) + " want_n=" + std::to_string(n) + " want_cum=" + str(static_cast<double>(cum)); };
    VF_CHECK(e.get_n() == n, "merge|doubling|n-not-doubled", ctx() + " got=" + std::to_string(e.get_n()));
    if (dyadic) VF_CHECK(static_cast<long double>(e.get_cumulative_weight()) == cum, "merge|doubling|cumulative-weight-not-doubled-exactly", ctx() + " got=" + str(e.get_cumulative_weight()));
    else VF_CHECK(close_rel(e.get_cumulative_weight(), cum, 1e-12), "merge|doubling|cumulative-weight-not-doubled", ctx() + " got=" + str(e.get_cumulative_weight()));
    VF_CHECK(e.get_k() == k, "merge|doubling|k-changed", ctx() + " got=" + std::to_string(e.get_k()));
    const double c = e.get_c();
    const double want = std::min<double>(k, static_cast<double>(cum / wmax));
    VF_CHECK(std::fabs(c - want) <= 1e-9 * want, "merge|doubling|c-not-min-k-cumwt-over-wmax", ctx() + " c=" + str(c) + " want=" + str(want));
    for (int pth = 0; pth < 2; ++pth) {
      std::vector<uint64_t> got;
      if (pth == 0) { auto res = e.get_result(); got.assign(res.begin(), res.end()); }
      else for (auto it = e.begin(); it != e.end(); ++it) { got.push_back(*it); if (got.size() > static_cast<size_t>(k) + 8) break; }
      const double sz = static_cast<double>(got.size());
      VF_CHECK(sz == std::floor(c) || sz == std::ceil(c), std::string("merge|doubling|") + (pth ? "iteration" : "get_result") + "|size-not-floor-or-ceil-of-c", ctx() + " size=" + std::to_string(got.size()) + " c=" + str(c));
      for (uint64_t id : got) if (id >= W.size() || owner_gen[id] != g_stamp) { checked(); fail(std::string("merge|doubling|") + (pth ? "iteration" : "get_result") + "|item-not-from-input", ctx() + " id=" + std::to_string(id)); break; }
    }
  };
  check(*s, "after build");
  try {
    for (int j = 1; j <= rounds; ++j) {
      const uint64_t mode = r.below(3);
      if (mode == 0) { EB copy(*s); s->merge(copy); count("doubling_merge_lvalue_copy"); }
      else if (mode == 1) { EB copy(*s); s->merge(std::move(copy)); count("doubling_merge_rvalue_copy"); }
      else { const EB& ref = *s; s->merge(ref); count("doubling_merge_self"); }
      n *= 2; cum *= 2;
      check(*s, "after doubling #" + std::to_string(j));
      if (n >= (1ULL << 32)) count("doubling_merges_n_ge_2p32");
    }
    // the huge-n sketch through an image, then a few more updates (64-bit counting goes on)
    { std::unique_ptr<EB> t(new EB(round_trip(*s, r))); s = std::move(t); check(*s, "after round trip"); count("doubling_round_trip_n_ge_2p32"); }
    const uint64_t extra = 1 + r.below(20);
    for (uint64_t i = 0; i < extra; ++i) { const double w = dyadic ? static_cast<double>(1 + r.below(64)) / 16.0 : 0.1 + 10 * r.unit(); const uint64_t id = new_id(w); owner_gen[id] = g_stamp; s->update(id, w); ++n; cum += w; wmax = std::max(wmax, w); }
    if (dyadic) { VF_CHECK(s->get_n() == n, "merge|doubling|n-after-further-updates", "want=" + std::to_string(n) + " got=" + std::to_string(s->get_n())); }
    else check(*s, "after further updates");
    if (dyadic) VF_CHECK(close_rel(s->get_cumulative_weight(), cum, 1e-12), "merge|doubling|cumulative-weight-after-further-updates", "got=" + str(s->get_cumulative_weight()));
  } catch (const std::exception& e) { checked(); fail("merge|doubling|throws", G().cur_desc + " what=" + e.what()); return; }
  count("doubling_cases");
  sig(mix64(0xd0b1, mix64(k, n0)));
}

// ---------------------------------------------------------------- weights near DBL_MAX
// 1-5 items of weight 1e307..8e307: k * max weight overflows a double, the cumulative weight itself stays
// finite (<= 1.6e308).  All the usual clauses apply (the model divides in long double).
static void near_max_case(Rng& r) {
  g_fam = "sketch"; g_mfam = "merge";
  Live L;
  L.m.k = r.chance(0.3) ? static_cast<uint32_t>(r.range(1, 7)) : static_cast<uint32_t>(r.range(8, 500));
  L.sk.reset(new EB(L.m.k));
  const uint64_t n = 1 + r.below(5);
  describe("near-DBL_MAX weights k=" + std::to_string(L.m.k) + " n=" + std::to_string(n));
  long double budget = 1.6e308L;
  bool overflow_kw = false;
  try {
    observe(*L.sk, L.m, "construction", 1);
    for (uint64_t i = 0; i < n; ++i) {
      double w = (r.chance(0.3) ? 1.0 : 1 + 7 * r.unit()) * 1e307;
      if (w > budget) w = static_cast<double>(budget / 2);
      if (!(w > 1e300)) break;
      budget -= w;
      const uint64_t id = new_id(w);
      if (r.coin()) L.sk->update(id, w); else { uint64_t tmp = id; L.sk->update(std::move(tmp), w); }
      L.m.add(id, w);
      if (static_cast<long double>(L.m.k) * L.m.wmax > 1.7976931348623157e308L) overflow_kw = true;
      observe(*L.sk, L.m, "update with a weight near DBL_MAX", 2);
    }
    if (overflow_kw) count("near_max_k_times_wmax_overflows");
    if (r.coin()) { std::unique_ptr<EB> t(new EB(round_trip(*L.sk, r))); L.sk = std::move(t); observe(*L.sk, L.m, "round trip", 2); count("near_max_round_trip"); }
    // a few ordinary weights on top (they barely move the sums) and a merge with an ordinary small sketch, either direction
    for (int i = 0; i < 3 && r.coin(); ++i) { const double w = 0.5 + r.unit(); const uint64_t id = new_id(w); L.sk->update(id, w); L.m.add(id, w); observe(*L.sk, L.m, "ordinary update after near-DBL_MAX weights", 1); }
    if (r.coin()) {
      Live B; B.m.k = pick_k(r); B.sk.reset(new EB(B.m.k));
      const uint64_t nb = r.below(30);
      for (uint64_t i = 0; i < nb; ++i) { const double w = 0.1 + 10 * r.unit(); const uint64_t id = new_id(w); B.sk->update(id, w); B.m.add(id, w); }
      if (r.coin()) { L.sk->merge(*B.sk); L.m.absorb(B.m); observe(*L.sk, L.m, "merge of an ordinary sketch into the near-DBL_MAX one", 2); }
      else { B.sk->merge(*L.sk); B.m.absorb(L.m); observe(*B.sk, B.m, "merge of the near-DBL_MAX sketch into an ordinary one", 2); }
      count("near_max_merge");
    }
  } catch (const std::exception& e) { checked(); fail("sketch|near-dbl-max|throws", G().cur_desc + " what=" + e.what()); return; }
  count("near_max_cases");
  sig(mix64(0x9e47, mix64(L.m.k, L.m.n)));
}

// ---------------------------------------------------------------- inclusion-probability cells
struct Cell { int n; int k; int kind; int merge; int k2; int table; };   // table: 0 = weights from the generator, else explicit list below
static const double TABLES[4][8] = {
  {0},
  {1, 1, 0.5, 10},                         // c = 2.5, then everything is scaled to 0.25 of an item
  {1, 1, 0.5, 10, 3, 2, 0.5, 200},         // collapse, rebuild a fractional c with a full item, collapse again
  {0.3, 0.7, 1, 1, 0.4, 50, 1, 2},         // five small items with a partial one, a giant, then growth
};   // merge: 0 none, 1 second half merged into first (lvalue), 2 first merged into second (rvalue)
static const Cell CELLS[] = {
  // (cells 3, 8, 9 are in the c < k regime: c = sum(w)/max(w) is fractional and shrinks whenever a new maximum arrives)
  {40, 5, K_UNIFORM, 0, 0}, {60, 10, K_TWOLEVEL, 0, 0}, {30, 3, K_DYADIC, 0, 0}, {30, 60, K_UNIFORM, 0, 0},
  {48, 6, K_UNIFORM, 1, 9}, {60, 12, K_TWOLEVEL, 2, 7}, {24, 1, K_UNIFORM, 0, 0}, {80, 20, K_DECREASING, 0, 0},
  {36, 50, K_INCREASING, 0, 0}, {40, 50, K_UNIFORM, 1, 45},
  {3, 10, K_PATTERN, 0, 0} /* weights 1, 1, 0.5 -> c = 2.5 */, {8, 10, K_PATTERN, 0, 0} /* c = 7 */, {11, 20, K_PATTERN, 1, 25} /* c = 9.5 after merge */,
  // collapse cells (explicit weight tables, >= 1e5 trials): a sample with full items plus a partial item is scaled
  // below one item by an update that outweighs the whole stream so far ("no full items retained" branch)
  {4, 10, K_PATTERN, 0, 0, 1}, {4, 3, K_PATTERN, 0, 0, 1}, {8, 10, K_PATTERN, 0, 0, 2}, {8, 20, K_PATTERN, 0, 0, 3}, {4, 2, K_PATTERN, 0, 0, 1},
  {64, 16, K_HEAVYTAIL, 0, 0}, {50, 5, K_EQUAL, 0, 0}, {45, 9, K_UNIFORM, 2, 4}, {30, 2, K_TWOLEVEL, 0, 0},
  {70, 10, K_UNIFORM, 1, 30}, {20, 30, K_GIANT, 0, 0}, {50, 8, K_GIANT, 0, 0}, {36, 4, K_INCREASING, 0, 0}, {40, 7, K_DYADIC, 1, 7},
  {50, 80, K_DYADIC, 2, 70},
};

static void stat_cell(uint64_t idx, Rng& r) {
  const bool T = G().thorough();
  const Cell& c = CELLS[idx % (sizeof CELLS / sizeof CELLS[0])];
  const uint64_t trials = c.table ? (T ? 300000 : 100000) : (T ? 50000 : 3000);
  describe("inclusion cell " + std::to_string(idx) + " n=" + std::to_string(c.n) + " k=" + std::to_string(c.k) + " kind=" + kind_name(c.kind) + " merge=" + std::to_string(c.merge) + " k2=" + std::to_string(c.k2) + " table=" + std::to_string(c.table) + " trials=" + std::to_string(trials));
  Rng sr(0xC18C0000ULL + idx);
  WGen g; g.init(sr, c.kind, c.n);
  if (c.kind == K_HEAVYTAIL) g.p1 = 1.5;
  std::vector<double> w(c.n);
  long double total = 0; double wmax = 0;
  for (int i = 0; i < c.n; ++i) { w[i] = c.table ? TABLES[c.table][i] : g.next(sr, i); if (c.kind == K_INCREASING || c.kind == K_DECREASING) w[i] = 1.0 + (c.kind == K_INCREASING ? i : c.n - i); total += w[i]; wmax = std::max(wmax, w[i]); }
  const uint32_t keff = c.merge ? std::min(c.k, c.k2) : c.k;
  const double cexp = std::min<double>(keff, static_cast<double>(total / wmax));
  // two read-out paths of the same sketch, each its own random draw: [0] get_result(), [1] begin()..end()
  std::vector<uint64_t> hits[2] = {std::vector<uint64_t>(c.n, 0), std::vector<uint64_t>(c.n, 0)};
  double size_sum[2] = {0, 0};
  uint64_t n_floor[2] = {0, 0}, n_ceil[2] = {0, 0};
  auto read_both = [&](const EB& s) {
    std::vector<uint64_t> res[2];
    res[0] = s.get_result();
    for (auto it = s.begin(); it != s.end(); ++it) { res[1].push_back(*it); if (res[1].size() > static_cast<size_t>(c.n) + 8) break; }
    for (int pth = 0; pth < 2; ++pth) {
      for (uint64_t id : res[pth]) if (id < static_cast<uint64_t>(c.n)) ++hits[pth][id];
      size_sum[pth] += static_cast<double>(res[pth].size());
      if (static_cast<double>(res[pth].size()) == std::floor(cexp)) ++n_floor[pth];
      if (static_cast<double>(res[pth].size()) == std::ceil(cexp)) ++n_ceil[pth];
    }
  };
  for (uint64_t t = 0; t < trials; ++t) {
    random_utils::rand.seed(r.next());
    if (c.merge == 0) {
      EB s(c.k);
      for (int i = 0; i < c.n; ++i) s.update(static_cast<uint64_t>(i), w[i]);
      read_both(s);
    } else {
      EB a(c.k), b(c.k2);
      const int cut = c.n * 2 / 3;
      for (int i = 0; i < cut; ++i) a.update(static_cast<uint64_t>(i), w[i]);
      for (int i = cut; i < c.n; ++i) b.update(static_cast<uint64_t>(i), w[i]);
      if (c.merge == 1) { a.merge(b); read_both(a); }
      else { b.merge(std::move(a)); read_both(b); }
    }
  }
  const std::string fam = c.merge ? "merge" : "sketch";
  static const char* path_key[2] = {"", "|iteration"};          // get_result keeps the original keys
  static const char* path_name[2] = {"get_result", "begin/end"};
  double worst = 0;
  double ip; const double fr = std::modf(cexp, &ip);
  double ms = 0;
  for (int pth = 0; pth < 2; ++pth) {
    for (int i = 0; i < c.n; ++i) {
      const double p = std::min(1.0, w[i] * cexp / static_cast<double>(total));
      const double f = static_cast<double>(hits[pth][i]) / static_cast<double>(trials);
      const double se = std::sqrt(p * (1 - p) / static_cast<double>(trials));
      const double tol = 5 * se + 2.0 / static_cast<double>(trials) + 1e-9;
      if (se > 0) worst = std::max(worst, std::fabs(f - p) / se);
      VF_CHECK(std::fabs(f - p) <= tol, fam + path_key[pth] + "|inclusion-frequency-not-proportional-to-weight",
               std::string("path=") + path_name[pth] + " item=" + std::to_string(i) + " w=" + str(w[i]) + " expected=" + str(p) + " observed=" + str(f) + " se=" + str(se) + " trials=" + std::to_string(trials));
    }
    // mean sample size is c
    ms = size_sum[pth] / static_cast<double>(trials);
    const double se_s = std::sqrt(fr * (1 - fr) / static_cast<double>(trials));
    VF_CHECK(std::fabs(ms - cexp) <= 5 * se_s + 2.0 / static_cast<double>(trials) + 1e-9, fam + path_key[pth] + "|mean-sample-size-not-c",
             std::string("path=") + path_name[pth] + " mean=" + str(ms) + " c=" + str(cexp));
    // a clearly fractional c: both sizes must turn up (probability of a miss < 0.98^T)
    if (fr >= 0.02 && fr <= 0.98) {
      VF_CHECK(n_floor[pth] > 0 && n_ceil[pth] > 0, fam + path_key[pth] + "|only-one-sample-size-for-fractional-c",
               std::string("path=") + path_name[pth] + " c=" + str(cexp) + " floor-sized=" + std::to_string(n_floor[pth]) + " ceil-sized=" + std::to_string(n_ceil[pth]) + " read-outs=" + std::to_string(trials));
      count("both_sizes_checks");
    }
  }
  count(c.merge ? "inclusion_cells_merge" : "inclusion_cells_sketch");
  if (c.table) { count("inclusion_cells_collapse_below_one_item"); count("inclusion_collapse_trials", trials); }
  count("inclusion_trials", trials);
  sig(mix64(0x18ce, idx));
  if (want_sample()) sample("{\"cell\":" + jstr(G().cur_desc) + ",\"c\":" + str(cexp) + ",\"mean_size\":" + str(ms) + ",\"worst_dev_in_se\":" + str(worst) + "}");
}

void run_case(uint64_t idx, Rng& r) {
  W.clear(); owner_gen.clear(); seen_flag.clear(); mult_allowed.clear(); g_stamp = 0;
  const uint64_t nstat = G().thorough() ? NSTAT_THOROUGH : NSTAT_QUICK;
  g_fam = "sketch"; g_mfam = "merge";
  if (idx < nstat) { stat_cell(idx, r); return; }
  const uint64_t s = r.next();
  random_utils::rand.seed(s);
  random_utils::random_bit.seed(static_cast<uint32_t>(s));
  if (r.chance(0.006)) doubling_case(r); else if (r.chance(0.03)) near_max_case(r); else explore_case(r);
}

} // namespace vf
