// C02 — Theta set operations return the exact set expression over the hash samples.
// Unit A: theta_union and theta_intersection over every permutation of presentation (all n! for n <= 4), a
// random physical form per operand, interleaved get_result() calls, reset-reuse, re-presentation.
#include "vf/c02_family.hpp"

namespace vf {

const char* property_id() { return "C02"; }
unsigned case_timeout_s() { return 300; }
uint64_t num_cases(bool thorough) { return thorough ? 16000 : 1200; }
void final_report() {}

void run_case(uint64_t idx, Rng& r) {
  (void)idx;
  const bool T = G().thorough();
  Family fam;
  make_family(fam, r);
  const uint64_t seed = fam.seed; const bool big = fam.big; const int nin = fam.nin;
  std::vector<std::unique_ptr<Input>>& ins = fam.ins;
  std::string& desc = fam.desc;
  // union configuration
  uint64_t total = 0; for (auto& in : ins) total += in->st.ent.size();
  uint8_t lg_total = 5; while ((1ULL << lg_total) < total && lg_total < 20) ++lg_total;
  const uint8_t lg_ku = static_cast<uint8_t>(r.chance(0.5) ? r.range(std::max(5, std::min(lg_total - 3, big ? 13 : 9)), std::min<int>(std::max<int>(lg_total + 1, 5), big ? 16 : 12)) : r.range(5, big ? 14 : (T ? 12 : 10)));
  static const float pus[] = {1.0f, 1.0f, 1.0f, 1.0f, 1.0f, 1.0f, 0.5f, 0.1f, 0.9f, 1e-6f};
  const float pu = pus[r.below(10)];
  const int rfu = static_cast<int>(r.below(4));
  const uint64_t ku = 1ULL << lg_ku, theta0u = theta0_of(pu);
  desc += " union(lg_k=" + std::to_string(lg_ku) + " p=" + str(pu) + " rf=" + std::to_string(rfu) + ")";
  describe(desc);

  // permutations of presentation
  std::vector<std::vector<int>> perms;
  {
    std::vector<int> p(nin); for (int i = 0; i < nin; ++i) p[i] = i;
    if (big) { perms.push_back(p); for (int t = 0; t < 2; ++t) { r.shuffle(p); perms.push_back(p); } }
    else if (nin <= 4) { do perms.push_back(p); while (std::next_permutation(p.begin(), p.end())); }
    else { perms.push_back(p); for (int t = 0; t < (T ? 23 : 11); ++t) { r.shuffle(p); perms.push_back(p); } }
  }
  auto rand_forms = [&]() { std::vector<int> f(nin); for (auto& x : f) x = static_cast<int>(r.below(F_N)); return f; };
  auto build_union = [&]() { return theta_union::builder().set_lg_k(lg_ku).set_p(pu).set_resize_factor(static_cast<theta_union::resize_factor>(rfu)).set_seed(seed).build(); };

  // ---------------------------------------------------------------- union
  {
    theta_union reused = build_union();
    bool have_ref = false; State ref; std::string ref_order;
    State first_got; std::string first_order;
    for (size_t pi = 0; pi < perms.size(); ++pi) {
      const std::vector<int>& ord = perms[pi];
      const std::vector<int> forms = rand_forms();
      std::unique_ptr<theta_union> fresh;
      theta_union* u = &reused;
      if (pi > 0 && r.coin()) { reused.reset(); count("union_reset_reuse"); }
      else if (pi > 0) { fresh.reset(new theta_union(build_union())); u = fresh.get(); }
      if (r.chance(0.2)) {   // nothing presented yet: empty
        State e; e.theta = theta0u; e.empty = true;
        check_result(u->get_result(r.coin()), e, false, "union|initial", desc + " " + order_str(ord, forms, 0), seed, true, MAXT);
      }
      std::vector<const State*> seen;
      uint64_t run_theta = theta0u;
      State m;
      for (int s = 0; s < nin; ++s) {
        const Input& in = *ins[ord[s]];
        with_form(in, forms[s], [&](const auto& sk) { u->update(sk); });
        tally("u", s == 0, in, forms[s]);
        if (!in.st.empty && in.ordered[eff_form(in, forms[s])] && in.st.ent.size() >= 2 && in.last >= run_theta) count("union_ordered_early_stop");
        if (!in.st.empty) run_theta = std::min(run_theta, in.st.theta);
        seen.push_back(&in.st);
        if (s + 1 == nin || r.chance(0.4)) {
          uint64_t presize = 0;
          m = model_union(seen, theta0u, ku, &presize);
          const bool oreq = r.coin();
          check_result(u->get_result(oreq), m, oreq, "union", desc + " " + order_str(ord, forms, s + 1), seed, m.empty, MAXT);
          if (s + 1 < nin) count("union_interleaved_get_result");
          if (presize > ku) { count("union_trimmed"); if (presize > ku * 15 / 8) count("union_trim_in_table"); else count("union_trim_in_get_result"); }
          if (!m.empty && m.ent.empty()) count("union_nonempty_zero_entries");
          if (m.empty) count("union_result_empty");
          sig(mix64(mix64(m.theta, m.ent.size()), mix64(ku, s)));
        }
      }
      if (!have_ref) { have_ref = true; ref = m; ref_order = order_str(ord, forms, nin); }
      else { /* all permutations are compared against the same model m; compare the models to make the claim explicit */
        VF_CHECK(m == ref, "harness|union-model-order-dependent", desc);
      }
      // direct permutation-vs-permutation comparison of the library results
      {
        State got = read_raw(u->get_result(false)).st;
        if (pi == 0) { first_got = got; first_order = order_str(ord, forms, nin); }
        else if (!(got.empty && first_got.empty)) VF_CHECK(got == first_got, "union|result-depends-on-order-or-form", desc + " A: " + first_order + " -> " + sstr(first_got) + " B: " + order_str(ord, forms, nin) + " -> " + sstr(got));
      }
      // stateful reuse: presenting already-seen inputs again (other forms) must not change anything
      if (r.chance(0.35)) {
        const int extra = 1 + static_cast<int>(r.below(3));
        std::string es;
        for (int e = 0; e < extra; ++e) {
          const int j = static_cast<int>(r.below(nin)), fm = static_cast<int>(r.below(F_N));
          with_form(*ins[j], fm, [&](const auto& sk) { u->update(sk); });
          tally("u", false, *ins[j], fm);
          es += std::to_string(j) + ":" + form_name[fm] + " ";
        }
        const bool oreq = r.coin();
        check_result(u->get_result(oreq), m, oreq, "union|re-presented", desc + " " + order_str(ord, forms, nin) + " again=[" + es + "]", seed, m.empty, MAXT);
        count("union_represented");
      }
    }
  }

  // ---------------------------------------------------------------- intersection
  {
    State first_got; std::string first_order; bool first_sticky = false;
    State exact_empty; exact_empty.theta = MAXT; exact_empty.empty = true;
    // Known shape of one specific defect gets one specific key: once a prefix of the presented inputs has an
    // *exactly* empty intersection (no empty input, all thetas MAX, no common hash) the object reports
    // "empty, theta MAX" for good, although a later estimation-mode input makes every other order of the same
    // inputs report "not empty, theta = min theta, no entries".
    static const char* const STICKY_KEY = "intersection|exactly-empty-prefix-sticks|result-depends-on-order";
    auto check_inter = [&](const compact_theta_sketch& res, const State& m, bool oreq, bool sticky, const std::string& kp, const std::string& ctx) {
      if (sticky) {
        State got = read_raw(res).st;
        if (got == exact_empty) { checked(); fail(STICKY_KEY, ctx + " expected=" + sstr(m) + " got=" + sstr(got)); return; }
      }
      check_result(res, m, oreq, kp, ctx, seed);
    };
    for (size_t pi = 0; pi < perms.size(); ++pi) {
      const std::vector<int>& ord = perms[pi];
      const std::vector<int> forms = rand_forms();
      theta_intersection ti(seed);
      if (pi == 0 || r.chance(0.3)) {
        VF_CHECK(!ti.has_result(), "intersection|has_result-before-update", desc);
        VF_CHECK(throws([&] { ti.get_result(r.coin()); }), "intersection|get_result-before-update-does-not-throw", desc);
        VF_CHECK(!ti.has_result(), "intersection|has_result-before-update", desc);
        count("inter_get_result_before_update");
      }
      std::vector<const State*> seen;
      State m; bool exact_empty_prefix = false;
      uint64_t run_theta = MAXT;
      for (int s = 0; s < nin; ++s) {
        const Input& in = *ins[ord[s]];
        with_form(in, forms[s], [&](const auto& sk) { ti.update(sk); });
        tally("i", s == 0, in, forms[s]);
        if (s > 0 && !in.st.empty && in.ordered[eff_form(in, forms[s])] && in.st.ent.size() >= 2 && in.last >= run_theta) count("inter_ordered_early_stop");
        if (!in.st.empty) run_theta = std::min(run_theta, in.st.theta);
        seen.push_back(&in.st);
        VF_CHECK(ti.has_result(), "intersection|has_result-false-after-update", desc + " " + order_str(ord, forms, s + 1));
        if (s + 1 == nin || r.chance(0.5)) {
          m = model_inter(seen);
          // a proper prefix that was *exactly* empty (no empty input, theta==MAX, no common entry)
          const bool sticky_case = exact_empty_prefix && !(m.empty);
          const bool oreq = r.coin();
          check_inter(ti.get_result(oreq), m, oreq, sticky_case, "intersection", desc + " " + order_str(ord, forms, s + 1));
          if (sticky_case) count("inter_estimation_input_after_exactly_empty_prefix");
          if (s + 1 < nin) count("inter_interleaved_get_result");
          if (!m.empty && m.ent.empty()) count("inter_nonempty_zero_entries");
          if (m.empty) count("inter_result_empty");
          if (!m.ent.empty()) count("inter_result_with_entries");
          sig(mix64(mix64(m.theta, m.ent.size()), mix64(77, s)));
        }
        {
          State pm = model_inter(seen);
          bool any_empty_in = false; for (auto* st : seen) any_empty_in |= st->empty;
          if (pm.empty && !any_empty_in) exact_empty_prefix = true;
        }
      }
      {
        State got = read_raw(ti.get_result(false)).st;
        const bool perm_sticky = exact_empty_prefix && !m.empty;
        if (pi == 0) { first_got = got; first_order = order_str(ord, forms, nin); first_sticky = perm_sticky; }
        else VF_CHECK(got == first_got, ((perm_sticky && got == exact_empty) || (first_sticky && first_got == exact_empty)) ? STICKY_KEY : "intersection|result-depends-on-order-or-form", desc + " A: " + first_order + " -> " + sstr(first_got) + " B: " + order_str(ord, forms, nin) + " -> " + sstr(got));
      }
      if (r.chance(0.35)) {
        const int extra = 1 + static_cast<int>(r.below(3));
        std::string es;
        for (int e = 0; e < extra; ++e) {
          const int j = static_cast<int>(r.below(nin)), fm = static_cast<int>(r.below(F_N));
          with_form(*ins[j], fm, [&](const auto& sk) { ti.update(sk); });
          tally("i", false, *ins[j], fm);
          es += std::to_string(j) + ":" + form_name[fm] + " ";
        }
        const bool oreq = r.coin();
        check_inter(ti.get_result(oreq), m, oreq, exact_empty_prefix && !m.empty, "intersection|re-presented", desc + " " + order_str(ord, forms, nin) + " again=[" + es + "]");
        count("inter_represented");
      }
    }
  }

  if (want_sample()) sample("{\"family\":" + jstr(desc) + ",\"permutations\":" + std::to_string(perms.size()) + "}");
}

} // namespace vf
