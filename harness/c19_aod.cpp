// C19 — value semantics / every byte returned: array-of-doubles flavour of the Tuple family
// (datasketches::array<double, A> summaries, update/compact array tuple sketch, array tuple union / intersection / a-not-b)
#ifndef C19_PART
#define C19_PART 0
#endif
#include "vf/c19_thetalike.hpp"
#include <array_tuple_sketch.hpp>
#include <array_tuple_union.hpp>
#include <array_tuple_intersection.hpp>
#include <array_tuple_a_not_b.hpp>

using namespace datasketches;
namespace vf {
const char* property_id() { return "C19"; }
unsigned case_timeout_s() { return 120; }
uint64_t num_cases(bool thorough) { return (C19_PART == 0 ? 2 : 3) * (thorough ? 3000 : 160); }
void final_report() {}

struct AodTT {
  typedef track_alloc<double> A;
  typedef datasketches::array<double, A> Arr;
  typedef default_array_tuple_update_policy<Arr, A> UPol;
  struct IPol {
    uint8_t nv;
    explicit IPol(uint8_t n = 1): nv(n) {}
    void operator()(Arr& a, const Arr& b) const { for (uint8_t i = 0; i < nv; ++i) a[i] = a[i] * 3 + b[i]; }
    uint8_t get_num_values() const { return nv; }
  };
  typedef update_array_tuple_sketch<Arr, UPol, A> UpdateSk;
  typedef compact_array_tuple_sketch<Arr, A> CompactSk;
  typedef array_tuple_union<Arr, default_array_tuple_union_policy<Arr>, A> Union;
  typedef array_tuple_intersection<Arr, IPol, A> Intersection;
  typedef array_tuple_a_not_b<Arr, A> ANotB;
  static const bool ITEM_PAYLOAD_DOUBLE = true;   // summaries are datasketches::array<double, A> carrying their own allocator
  static const char* fam() { return "aod"; }
  static uint8_t nv(const TCfg& c) { return static_cast<uint8_t>(1 + c.lg_k1 % 3); }
  static void make_update(void* mem, const TCfg& c, uint8_t lg_k, Arena* a) {
    new (mem) UpdateSk(UpdateSk::builder(UPol(nv(c), A(a)), A(a)).set_lg_k(lg_k).set_resize_factor(static_cast<theta_constants::resize_factor>(c.rf)).set_p(c.p).set_seed(c.seed).build());
  }
  static void feed(UpdateSk& u, uint64_t key, Rng& r) {
    double vals[4] = {static_cast<double>(1 + r.below(9)), 0.5, static_cast<double>(key % 7), 2.0};
    switch (r.below(3)) {
      case 0: u.update(key, vals); break;
      case 1: u.update(std::string("k") + std::to_string(key), vals); break;
      default: { std::vector<double> v(vals, vals + 4); u.update(&key, sizeof key, v); break; }
    }
  }
  template<typename E> static std::string entry_str(const E& e) {
    std::string s = std::to_string(e.first) + ":";
    for (uint8_t i = 0; i < e.second.size(); ++i) { s += dstr(e.second[i]); s += '/'; }
    return s;
  }
  static std::string image(const CompactSk& s) { return "nv" + std::to_string(s.get_num_values()) + ":" + bytes_hex(s.serialize()); }
  static void deserialize(void* mem, const CompactSk& src, const TCfg& c, Arena* a, Rng& r) {
    if (r.coin()) {
      auto b = src.serialize(8);
      new (mem) CompactSk(CompactSk::deserialize(b.data() + 8, b.size() - 8, c.seed, A(a)));
    } else {
      std::stringstream ss(std::ios::in | std::ios::out | std::ios::binary);
      src.serialize(ss);
      new (mem) CompactSk(CompactSk::deserialize(ss, c.seed, A(a)));
    }
  }
  static void make_union(void* mem, const TCfg& c, uint8_t lg_k, Arena* a) {
    new (mem) Union(Union::builder(default_array_tuple_union_policy<Arr>(nv(c)), A(a)).set_lg_k(lg_k).set_resize_factor(static_cast<theta_constants::resize_factor>(c.rf)).set_p(c.p).set_seed(c.seed).build());
  }
  static void make_intersection(void* mem, const TCfg& c, Arena* a) { new (mem) Intersection(c.seed, IPol(nv(c)), A(a)); }
  static void make_anotb(void* mem, const TCfg& c, Arena* a) { new (mem) ANotB(c.seed, A(a)); }
};

// the unit is compiled twice (registry flag -DC19_PART=0 / 1) to keep each compile short
void run_case(uint64_t idx, Rng& r) {
#if C19_PART == 0
  if (idx % 2 == 0) run_program<TLUpdateFam<AodTT>>(r); else run_program<TLCompactFam<AodTT>>(r);
#else
  switch (idx % 3) {
    case 0: run_program<TLUnionFam<AodTT>>(r); break;
    case 1: run_program<TLIntersectionFam<AodTT>>(r); break;
    default: run_program<TLANotBFam<AodTT>>(r); break;
  }
#endif
}
} // namespace vf
