// C10 golden-corpus generator.  Deterministic: every recipe is a pure function of its (family, variant) index; library
// randomness is pinned (random_utils::rand.seed / random_bit.seed) per recipe.  Writes <out>/<name>.bin (the serialized image),
// <out>/<name>.json (public read-out of the sketch that was serialized) and <out>/MANIFEST.txt; with --shipped also the read-outs
// of the 15 reference images shipped under <repo>/{theta,kll,quantiles,tdigest}/test/*.sk.
//
// Generation v0 (read compatibility; written by the PINNED, UNMODIFIED tree 70f9031) + shipped read-outs — done once:
//   git -C /repo worktree add --detach /tmp/c10_v0 70f9031
//   cd /verif && harness/c10_gen_corpus.sh /tmp/c10_v0 corpus/v0 pinned        # also records corpus/shipped/*.json
//   git -C /repo worktree remove --force /tmp/c10_v0
// Generation v1 (read compatibility AND writer stability; written by the tree after the fix: commits) — REGENERATE after every
// further fix: commit that changes written bytes or the state a recipe reaches:
//   cd /verif && harness/c10_gen_corpus.sh /repo corpus/v1
// (c10_gen_corpus.sh = g++ with the monitor's flags: -std=gnu++17 -O1 -g -fsanitize=address,undefined -fno-sanitize-recover=all
//  -DDATASKETCHES_VERIF -fno-access-control [-DC10_PINNED_TREE] -I<tree>/<family>/include... -Iharness
//  harness/c10_gen_corpus.cpp, then  build/c10_gen <outdir> [--shipped corpus/shipped <tree>].)
// -DC10_PINNED_TREE replaces the few recipe states the pinned tree cannot produce safely (merged EBPPS) by plain ones.
// Every recipe runs in a forked child under ASan+UBSan; a recipe that crashes or throws on the writing tree is left out of
// MANIFEST.txt (the monitor then skips it for that generation and counts it).
#define VF_NO_MAIN
#include "vf/c10_fam_a.hpp"
#include "vf/c10_fam_b.hpp"
#include "vf/c10_fam_c.hpp"
#include <sys/wait.h>
#include <sys/stat.h>

namespace vf {
uint64_t num_cases(bool) { return 0; }
void run_case(uint64_t, Rng&) {}
const char* property_id() { return "C10"; }
unsigned case_timeout_s() { return 60; }
void final_report() {}
}

using namespace vf;
using namespace vf::c10;

static bool write_file(const std::string& path, const std::string& data) {
  std::ofstream f(path, std::ios::binary | std::ios::trunc);
  if (!f) return false;
  f.write(data.data(), static_cast<std::streamsize>(data.size()));
  return f.good();
}

int main(int argc, char** argv) {
  if (argc < 2) { fprintf(stderr, "usage: %s <outdir> [--shipped <shipped_outdir> <repo_root>]\n", argv[0]); return 2; }
  const std::string out = argv[1];
  mkdir(out.c_str(), 0755);
  register_group_a(); register_group_b(); register_group_c();
  const std::vector<Recipe> rcs = recipes();
  std::string manifest = "# name size_bytes   (recipes that completed on the writing tree)\n";
  size_t total = 0, ok = 0;
  for (const Recipe& rc : rcs) {
    fflush(nullptr);
    const pid_t pid = fork();
    if (pid == 0) {
      int rcode = 0;
      try {
        Built b = run_recipe(rc);
        // the image must be readable by the tree that wrote it, on both paths, with the recorded read-out
        for (int stream = 0; stream < 2; ++stream) {
          pin_lib_rng(12345);
          const std::string got = rc.fam->read(b.image, stream != 0, rc.variant);
          const std::string diff = readout_diff(b.readout, got);
          if (!diff.empty()) { fprintf(stderr, "%s: read-back (%s) differs on the writing tree: %s\n", rc.name.c_str(), stream ? "stream" : "bytes", diff.c_str()); rcode = 3; }
        }
        if (rcode == 0 && (!write_file(out + "/" + rc.name + ".bin", b.image) || !write_file(out + "/" + rc.name + ".json", b.readout))) rcode = 4;
      } catch (const std::exception& e) {
        fprintf(stderr, "%s: threw on the writing tree: %s\n", rc.name.c_str(), e.what());
        rcode = 5;
      }
      fflush(nullptr);
      _exit(rcode);
    }
    int st = 0;
    waitpid(pid, &st, 0);
    if (WIFEXITED(st) && WEXITSTATUS(st) == 0) {
      std::string img;
      read_file(out + "/" + rc.name + ".bin", img);
      manifest += rc.name + " " + std::to_string(img.size()) + "\n";
      total += img.size(); ++ok;
    } else {
      fprintf(stderr, "SKIPPED %s (status %d)\n", rc.name.c_str(), st);
      remove((out + "/" + rc.name + ".bin").c_str()); remove((out + "/" + rc.name + ".json").c_str());
    }
  }
  write_file(out + "/MANIFEST.txt", manifest);
  fprintf(stderr, "%zu of %zu recipes written to %s, %zu image bytes\n", ok, rcs.size(), out.c_str(), total);

  if (argc >= 5 && std::string(argv[2]) == "--shipped") {
    const std::string sout = argv[3], repo = argv[4];
    mkdir(sout.c_str(), 0755);
    for (const Shipped& sh : shipped()) {
      std::string img;
      if (!read_file(repo + "/" + sh.relpath, img)) { fprintf(stderr, "cannot read %s\n", sh.relpath.c_str()); return 1; }
      const std::string a = sh.read(img, false), b = sh.read(img, true);
      if (!readout_diff(a, b).empty()) { fprintf(stderr, "%s: bytes and stream read-outs differ on the writing tree\n", sh.name.c_str()); return 1; }
      write_file(sout + "/" + sh.name + ".json", a);
    }
    fprintf(stderr, "%zu shipped read-outs written to %s\n", shipped().size(), sout.c_str());
  }
  return 0;
}
