// C11 unit: Tuple sketch images (double and std::string summaries) and array-of-doubles images,
// kinds empty / single / exact (ordered, unordered) / estimation, bytes and stream paths.
#include "vf/c11_fault.hpp"
#include <tuple_sketch.hpp>
#include <tuple_union.hpp>
#include <tuple_intersection.hpp>
#include <array_of_doubles_sketch.hpp>

using namespace datasketches;
namespace vf { namespace c11 {

unsigned variants(bool thorough) { return thorough ? 20 : 3; }

// ------------------------------------------------------------------ tuple
struct str_policy {
  std::string create() const { return std::string(); }
  void update(std::string& s, const std::string& u) const { if (s.size() < 40) s += u; }
};
typedef update_tuple_sketch<std::string, std::string, str_policy> upd_str_tuple;
typedef compact_tuple_sketch<std::string> cmp_str_tuple;
typedef update_tuple_sketch<double> upd_dbl_tuple;
typedef compact_tuple_sketch<double> cmp_dbl_tuple;

static std::string summ(double d) { return num(d); }
static std::string summ(const std::string& s) { return "'" + hex(s.data(), s.size()) + "'"; }
static std::string summ(const array<double>& a) { std::string o = "["; for (uint8_t i = 0; i < a.size(); ++i) o += num(a[i]) + " "; return o + "]"; }

template<typename S> static std::string tuple_common(const S& s) {
  std::string o;
  o += "empty=" + std::to_string(s.is_empty()) + " ordered=" + std::to_string(s.is_ordered()) + " theta=" + std::to_string(s.get_theta64()) +
       " n=" + std::to_string(s.get_num_retained()) + " sh=" + std::to_string(s.get_seed_hash()) + " est=" + num(s.get_estimate()) +
       " em=" + std::to_string(s.is_estimation_mode());
  for (uint8_t sd = 1; sd <= 3; ++sd) o += " b" + std::to_string(sd) + "=" + num(s.get_lower_bound(sd)) + "/" + num(s.get_upper_bound(sd));
  o += " E:";
  uint64_t cnt = 0;
  for (auto it = s.begin(); it != s.end(); ++it) { o += std::to_string((*it).first) + "=" + summ((*it).second) + ","; ++cnt; }
  o += " iter=" + std::to_string(cnt);
  return o;
}
template<typename S> static std::string tuple_readout(const S& s) {
  std::string o = tuple_common(s);
  o += " ser=" + hexv(s.serialize());
  std::ostringstream os; s.serialize(os); o += " sers=" + std::to_string(os.str().size());
  return o;
}

template<typename Summary, typename Upd, typename C> static void tuple_use(const C& s, Upd fresh, const Summary& val) {
  for (int i = 0; i < 50; ++i) fresh.update(static_cast<uint64_t>(i) * 7919 + 3, val);
  typename tuple_union<Summary>::builder ub; auto u = ub.set_lg_k(6).build();
  u.update(s); u.update(fresh);
  auto r = u.get_result(); (void)tuple_readout(r);
  tuple_intersection<Summary, default_tuple_union_policy<Summary>> in;
  in.update(s); in.update(fresh);
  auto r2 = in.get_result(); (void)tuple_readout(r2);
}

static void tdbl_use(const cmp_dbl_tuple& s) { tuple_use<double>(s, upd_dbl_tuple::builder().set_lg_k(5).build(), 1.5); }
static void tstr_use(const cmp_str_tuple& s) { tuple_use<std::string>(s, upd_str_tuple::builder().set_lg_k(5).build(), std::string("xy")); }
static std::string tdbl_bytes(const void* p, size_t n, bool use) {
  return accept([&] { return cmp_dbl_tuple::deserialize(p, n); }, tuple_readout<cmp_dbl_tuple>, tdbl_use, use);
}
static std::string tdbl_stream(std::istream& is, bool use) {
  return accept([&] { return cmp_dbl_tuple::deserialize(is); }, tuple_readout<cmp_dbl_tuple>, tdbl_use, use);
}
static std::string tstr_bytes(const void* p, size_t n, bool use) {
  return accept([&] { return cmp_str_tuple::deserialize(p, n); }, tuple_readout<cmp_str_tuple>, tstr_use, use);
}
static std::string tstr_stream(std::istream& is, bool use) {
  return accept([&] { return cmp_str_tuple::deserialize(is); }, tuple_readout<cmp_str_tuple>, tstr_use, use);
}

enum UK { U_EMPTY, U_SINGLE, U_EXACT, U_EXACT_UNORD, U_EST, U_BIG };   // BIG: lg_k 20..24, a few entries
static uint64_t tuple_n(Rng& r, int kind, uint64_t k) {
  switch (kind) {
    case U_EMPTY: return 0;
    case U_SINGLE: return 1;
    case U_BIG: return 3 + r.below(18);
    case U_EXACT: case U_EXACT_UNORD: return 2 + r.below(k - 2);
    default: return 2 * k + r.below(3 * k);
  }
}
static Bytes tdbl_image(Rng& r, bool T, int kind) {
  const uint8_t lg_k = static_cast<uint8_t>(kind == U_BIG ? r.range(20, 24) : r.range(5, T ? 7 : 6));
  auto s = upd_dbl_tuple::builder().set_lg_k(lg_k).build();
  const uint64_t n = tuple_n(r, kind, 1ULL << lg_k), base = r.next();
  for (uint64_t i = 0; i < n; ++i) s.update(static_cast<uint64_t>(base + i * UINT64_C(0x9e3779b97f4a7c15)), static_cast<double>(i % 7) + 0.5);
  auto v = s.compact(kind != U_EXACT_UNORD).serialize();
  return Bytes(v.begin(), v.end());
}
static Bytes tstr_image(Rng& r, bool T, int kind) {
  const uint8_t lg_k = static_cast<uint8_t>(kind == U_BIG ? r.range(20, 24) : r.range(5, T ? 6 : 5));
  auto s = upd_str_tuple::builder().set_lg_k(lg_k).build();
  const uint64_t n = tuple_n(r, kind, 1ULL << lg_k), base = r.next();
  for (uint64_t i = 0; i < n; ++i) s.update(static_cast<uint64_t>(base + i * UINT64_C(0x9e3779b97f4a7c15)), std::string(static_cast<size_t>(i % 5), static_cast<char>('a' + i % 26)) + long_pad(i));
  auto v = s.compact(kind != U_EXACT_UNORD).serialize();
  return Bytes(v.begin(), v.end());
}

// ------------------------------------------------------------------ array of doubles
static void aod_use(const compact_array_of_doubles_sketch& s) {
  const uint8_t nv = s.get_num_values();
  auto fresh = update_array_of_doubles_sketch::builder(default_array_of_doubles_update_policy(nv)).set_lg_k(5).build();
  std::vector<double> val(nv ? nv : 1, 1.25);
  for (int i = 0; i < 50; ++i) fresh.update(static_cast<uint64_t>(i) * 7919 + 3, val);
  auto u = array_of_doubles_union::builder(default_array_of_doubles_union_policy(nv)).set_lg_k(6).build();
  u.update(s); u.update(fresh);
  auto r = u.get_result(); (void)tuple_common(r); (void)r.serialize();
}
static std::string aod_readout(const compact_array_of_doubles_sketch& s) {
  std::string o = "nv=" + std::to_string(s.get_num_values()) + " " + tuple_common(s);
  o += " ser=" + hexv(s.serialize());
  std::ostringstream os; s.serialize(os); o += " sers=" + std::to_string(os.str().size());
  return o;
}
static std::string aod_bytes(const void* p, size_t n, bool use) {
  return accept([&] { return compact_array_of_doubles_sketch::deserialize(p, n); }, aod_readout, aod_use, use);
}
static std::string aod_stream(std::istream& is, bool use) {
  return accept([&] { return compact_array_of_doubles_sketch::deserialize(is); }, aod_readout, aod_use, use);
}
static Bytes aod_image(Rng& r, bool T, int kind) {
  const uint8_t lg_k = static_cast<uint8_t>(kind == U_BIG ? r.range(20, 24) : r.range(5, T ? 6 : 5));
  const uint8_t nv = static_cast<uint8_t>(r.range(1, 3));
  auto s = update_array_of_doubles_sketch::builder(default_array_of_doubles_update_policy(nv)).set_lg_k(lg_k).build();
  const uint64_t n = tuple_n(r, kind, 1ULL << lg_k), base = r.next();
  std::vector<double> val(nv);
  for (uint64_t i = 0; i < n; ++i) { for (uint8_t j = 0; j < nv; ++j) val[j] = static_cast<double>(i % 5 + j) + 0.25; s.update(static_cast<uint64_t>(base + i * UINT64_C(0x9e3779b97f4a7c15)), val); }
  auto v = s.compact(kind != U_EXACT_UNORD).serialize();
  return Bytes(v.begin(), v.end());
}

// ------------------------------------------------------------------ legacy Tuple image: serial version 1, sketch type 5 (same field layout)
static Bytes tdbl_legacy_image(Rng& r, bool, bool est) {
  const uint16_t sh = upd_dbl_tuple::builder().build().compact().get_seed_hash();
  const uint64_t MAXT = theta_constants::MAX_THETA, theta = est ? MAXT / 3 : MAXT;
  std::set<uint64_t> keys;
  const size_t n = 3 + r.below(20);
  while (keys.size() < n) { uint64_t h = (r.next() >> 1) % theta; if (h) keys.insert(h); }
  Wr w; w.u8(est ? 3 : 2).u8(1).u8(9).u8(5).u8(0).u8(0x1a).u16(sh).u32(uint32_t(keys.size())).u32(0);
  if (est) w.u64(theta);
  for (auto kx : keys) w.u64(kx).f64(double(kx % 1000) * 0.5);
  return w.b;
}

// ------------------------------------------------------------------ registration
std::vector<Target> targets() {
  std::vector<Target> t;
  struct { const char* name; int k; } uks[] = {{"empty", U_EMPTY}, {"single", U_SINGLE}, {"exact", U_EXACT}, {"exact_unordered", U_EXACT_UNORD}, {"estimation", U_EST}, {"bigcfg_few", U_BIG}};
  for (auto& k : uks) {
    const int kk = k.k;
    BuildFn b1 = [kk](Rng& r, bool T) { return tdbl_image(r, T, kk); };
    BuildFn b2 = [kk](Rng& r, bool T) { return tstr_image(r, T, kk); };
    BuildFn b3 = [kk](Rng& r, bool T) { return aod_image(r, T, kk); };
    // families interleaved: consecutive cases hit different readers
    t.push_back({"tuple_double", k.name, "bytes", b1, bytes_path(tdbl_bytes)});
    t.push_back({"tuple_string", k.name, "bytes", b2, bytes_path(tstr_bytes)});
    t.push_back({"array_of_doubles", k.name, "bytes", b3, bytes_path(aod_bytes)});
    t.push_back({"tuple_double", k.name, "stream", b1, stream_path(tdbl_stream)});
    t.push_back({"tuple_string", k.name, "stream", b2, stream_path(tstr_stream)});
    t.push_back({"array_of_doubles", k.name, "stream", b3, stream_path(aod_stream)});
  }
  for (int est = 0; est < 2; ++est) {
    BuildFn b = [est](Rng& r, bool T) { return tdbl_legacy_image(r, T, est != 0); };
    const char* name = est ? "legacy_v1_type5_estimation" : "legacy_v1_type5_exact";
    t.push_back({"tuple_double", name, "bytes", b, bytes_path(tdbl_bytes)});
    t.push_back({"tuple_double", name, "stream", b, stream_path(tdbl_stream)});
  }
  return t;
}

}} // namespace
