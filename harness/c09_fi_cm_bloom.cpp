// C09 — serialization round trip: frequent_items_sketch (int64 / std::string / custom serde items),
// count_min_sketch (int64 and double weights) and Bloom filters (owned, created in caller memory, and restored
// through deserialize / wrap / writable_wrap).
#include "vf/core.hpp"
#include "vf/gen.hpp"
#include "vf/c09_rt.hpp"
#include "vf/c09_rec.hpp"
#include <frequent_items_sketch.hpp>
#include <count_min.hpp>
#include <bloom_filter.hpp>

using namespace datasketches;
namespace vf {
using namespace c09;

const char* property_id() { return "C09"; }
unsigned case_timeout_s() { return 120; }
uint64_t num_cases(bool thorough) { return thorough ? 60000 : 3000; }
void final_report() {}

static uint32_t rd32(const uint8_t* p) { uint32_t v; memcpy(&v, p, 4); return v; }

// ------------------------------------------------------------------ FREQUENT ITEMS
template<typename T> struct FiItem;
template<> struct FiItem<int64_t> {
  typedef frequent_items_sketch<int64_t> S; typedef serde<int64_t> SerDe; static const char* name() { return "fi<int64>"; }
  static int64_t gen(Rng& r, uint64_t dom) { const int64_t x = static_cast<int64_t>(r.below(dom)); return r.chance(0.1) ? -x : x * 7919; }
  static size_t item_len(const uint8_t*, size_t avail) { return avail >= 8 ? 8 : SIZE_MAX; }
};
template<> struct FiItem<std::string> {
  typedef frequent_items_sketch<std::string> S; typedef serde<std::string> SerDe; static const char* name() { return "fi<string>"; }
  static std::string gen(Rng& r, uint64_t dom) { uint64_t x = r.below(dom); std::string s; if (x == 0) return s; const size_t l = 1 + x % 5; for (size_t i = 0; i < l; ++i) { s += static_cast<char>('a' + x % 26); x = x / 26 + 3 * i + 1; } return s; }
  static size_t item_len(const uint8_t* p, size_t avail) { if (avail < 4) return SIZE_MAX; return 4 + static_cast<size_t>(rd32(p)); }
};
template<> struct FiItem<Rec> {
  typedef frequent_items_sketch<Rec, uint64_t, RecHash> S; typedef RecSerde SerDe; static const char* name() { return "fi<custom>"; }
  static Rec gen(Rng& r, uint64_t dom) { const uint64_t x = r.below(dom); return Rec(static_cast<int32_t>(x % 97), std::string(x % 4, static_cast<char>('a' + x % 26))); }
  static size_t item_len(const uint8_t* p, size_t avail) { if (avail < 1) return SIZE_MAX; return 5 + static_cast<size_t>(p[0]); }
};

template<typename T, typename S>
static std::string observe_fi(const S& s) {
  Obs o;
  o.add("empty", s.is_empty()).add("active", s.get_num_active_items()).add("total_weight", s.get_total_weight())
   .add("max_error", s.get_maximum_error()).add("epsilon", s.get_epsilon());
  for (int et = 0; et < 2; ++et) {
    const auto rows = s.get_frequent_items(et == 0 ? NO_FALSE_POSITIVES : NO_FALSE_NEGATIVES);
    std::vector<std::string> rs;
    for (const auto& row : rows) rs.push_back(item_str(row.get_item()) + ":" + std::to_string(row.get_estimate()) + "/" + std::to_string(row.get_lower_bound()) + "/" + std::to_string(row.get_upper_bound()));
    std::sort(rs.begin(), rs.end());    // ties between equal estimates come out in hash-map order
    std::string all; for (auto& x : rs) all += x + ",";
    o.raw(et == 0 ? "nfp" : "nfn", all);
  }
  // everything that has a counter, through the threshold-0 query, and point queries for each
  const auto rows = s.get_frequent_items(NO_FALSE_NEGATIVES, 0);
  std::vector<std::string> rs;
  for (const auto& row : rows) {
    const T& it = row.get_item();
    rs.push_back(item_str(it) + ":" + std::to_string(s.get_estimate(it)) + "/" + std::to_string(s.get_lower_bound(it)) + "/" + std::to_string(s.get_upper_bound(it)));
  }
  std::sort(rs.begin(), rs.end());
  std::string all; for (auto& x : rs) all += x + ",";
  o.raw("counters", all);
  Rng pr(12345);
  std::string un;
  for (int i = 0; i < 6; ++i) { const T it = FiItem<T>::gen(pr, 1000000); un += std::to_string(s.get_estimate(it)) + "/" + std::to_string(s.get_lower_bound(it)) + "/" + std::to_string(s.get_upper_bound(it)) + ","; }
  o.raw("probes", un);
  o.add("serialized_size", static_cast<uint64_t>(s.get_serialized_size_bytes(typename FiItem<T>::SerDe())));
  return o.s;
}

// image: 8 bytes header [pre][ver][fam][lgmax][lgcur][flags][..]; non-empty: num_items u32 @8, total @16, offset @24, weights[n] @32, items
template<typename T> static Bytes canon_fi(const Bytes& b) {
  if (b.size() < 32 || b[0] < 4) return b;
  const size_t n = rd32(&b[8]);
  if (32 + 8 * n > b.size()) return b;
  std::vector<std::pair<Bytes, Bytes>> recs;   // (item bytes, weight bytes)
  size_t p = 32 + 8 * n;
  for (size_t i = 0; i < n; ++i) {
    if (p > b.size()) return b;
    const size_t l = FiItem<T>::item_len(&b[p], b.size() - p);
    if (l == SIZE_MAX || p + l > b.size()) return b;
    recs.push_back(std::make_pair(Bytes(b.begin() + p, b.begin() + p + l), Bytes(b.begin() + 32 + 8 * i, b.begin() + 32 + 8 * i + 8)));
    p += l;
  }
  if (p != b.size()) return b;
  std::sort(recs.begin(), recs.end());
  Bytes o(b.begin(), b.begin() + 32);
  for (auto& x : recs) o.insert(o.end(), x.second.begin(), x.second.end());
  for (auto& x : recs) o.insert(o.end(), x.first.begin(), x.first.end());
  return o;
}

template<typename T>
static void case_fi(Rng& r) {
  describe(std::string(FiItem<T>::name()) + " (generating state)");
  typedef typename FiItem<T>::S S;
  typedef typename FiItem<T>::SerDe SD;
  const std::string fam = FiItem<T>::name();
  const uint8_t lg_max = static_cast<uint8_t>(r.range(3, G().thorough() ? 8 : 6));
  const uint8_t lg_start = static_cast<uint8_t>(r.range(3, lg_max));
  const uint64_t cap = (3ULL << lg_max) / 4;
  const unsigned cls = static_cast<unsigned>(r.below(9));
  uint64_t n = 0, dom = 1; const char* desc = "";
  switch (cls) {
    case 0: n = 0; desc = "empty"; break;
    case 1: n = 1; dom = 100; desc = "single"; break;
    case 2: n = 1 + r.below(cap); dom = 1 + r.below(cap); desc = "exact"; break;                  // no purge
    case 3: n = cap + r.below(3); dom = 1000000; desc = "purge-boundary"; break;
    case 4: n = 2 * cap + r.below(20 * cap); dom = 2 * cap + r.below(4 * cap); desc = "purged"; break;
    case 5: n = 5 * cap + r.below(50 * cap); dom = 1000000; desc = "purged-distinct"; break;     // many purges, offset grows
    case 6: n = 1 + r.below(4 * cap); dom = 1 + r.below(3 * cap); desc = "huge-weight"; break;    // total weight / offset around and beyond 2^32
    default: desc = "post-merge"; break;
  }
  std::unique_ptr<S> sk(new S(lg_max, lg_start));
  auto fill = [&](S& s, uint64_t m, uint64_t d, Rng& rr) {
    for (uint64_t i = 0; i < m; ++i) { const uint64_t w = rr.chance(0.7) ? 1 : (rr.chance(0.9) ? 1 + rr.below(20) : (rr.chance(0.5) ? 0 : 1 + rr.below(1000000))); s.update(FiItem<T>::gen(rr, d), w); }
  };
  if (cls <= 5) fill(*sk, n, dom, r);
  else if (cls == 6) {
    for (uint64_t i = 0; i < n; ++i) sk->update(FiItem<T>::gen(r, dom), r.chance(0.5) ? (1ULL << 30) + r.below(1ULL << 31) : 1 + r.below(1000));
    if (r.chance(0.5)) sk->update(FiItem<T>::gen(r, dom), (1ULL << 32) - sk->get_total_weight() % (1ULL << 32) - r.below(2));   // total lands on a multiple of 2^32 or one below
    count(fam + (sk->get_total_weight() >> 32 ? "_weight_at_or_above_2^32" : "_weight_below_2^32"));
    if (sk->get_maximum_error() >> 32) count(fam + "_offset_at_or_above_2^32");
  } else {
    const uint64_t n1 = r.below(10 * cap), n2 = r.below(10 * cap);
    fill(*sk, n1, 1 + r.below(4 * cap), r);
    S other(static_cast<uint8_t>(r.range(3, 8)), 3); fill(other, n2, 1 + r.below(4 * cap), r);
    if (r.coin()) sk->merge(other); else { other.merge(*sk); *sk = other; }
    n = n1 + n2;
  }
  bool has_long = false;
  { T li; if (cls >= 1 && r.chance(0.08) && LongItem<T>::make(r, li)) { sk->update(li, 1ULL << 40); has_long = true; } }   // > 64 KiB item, heavy enough to survive purges
  describe(fam + " lg_max=" + std::to_string(lg_max) + " lg_start=" + std::to_string(lg_start) + " " + desc + " n=" + std::to_string(n) + " dom=" + std::to_string(dom));
  count(fam + "_" + desc);
  if (sk->get_maximum_error() > 0) count(fam + "_offset_positive");
  if (sk->is_empty() && sk->get_total_weight() > 0) count(fam + "_all_purged_nonzero_weight");
  sig(mix64(mix64(lg_max, sk->get_num_active_items()), mix64(sk->get_total_weight(), sk->get_maximum_error() + std::hash<std::string>()(fam))));

  Ops<S> o;
  // a sketch whose counters were all purged (non-zero stream weight, no counter) is its own state class
  o.fam = fam + (sk->is_empty() && sk->get_total_weight() > 0 ? "|all-purged" : "");
  o.to_bytes = [](const S& s, unsigned h) { return to_std_bytes(s.serialize(h, SD())); };
  o.to_stream = [](const S& s, std::ostream& os) { s.serialize(os, SD()); };
  o.from_bytes = [](const void* p, size_t m) { return S::deserialize(p, m, SD()); };
  o.from_stream = [](std::istream& is) { return S::deserialize(is, SD()); };
  o.advertised = [](const S& s) { return static_cast<long long>(s.get_serialized_size_bytes(SD())); };
  o.observe = [](const S& s) { return observe_fi<T>(s); };
  o.canon = canon_fi<T>;
  o.cont = [cap, fill](S& s, Rng& cr) {
    fill(s, cr.chance(0.3) ? cr.below(5) : cr.below(6 * cap), 1 + cr.below(4 * cap), cr);
    // merging a fresh sketch INTO s is a function of s's logical content (every purge takes the median over all
    // counters while there are <= 1024 of them).  The opposite direction (other.merge(s)) feeds s's counters in
    // hash-table order, which the image does not preserve, so its purge points are not determined by the content.
    if (cr.chance(0.5)) { S other(static_cast<uint8_t>(cr.range(3, 7)), 3); fill(other, cr.below(6 * cap), 1 + cr.below(4 * cap), cr); s.merge(other); }
  };
  const Result res = roundtrip(o, *sk, r, G().cur_desc);
  if (has_long && res.ok && res.image.size() > 65536) count("fi_long_string_in_image");
}

// ------------------------------------------------------------------ COUNT-MIN
template<typename W> struct CmName;
template<> struct CmName<int64_t> { static const char* name() { return "count_min<int64>"; } static int64_t w(Rng& r) { return r.chance(0.7) ? 1 : (r.chance(0.2) ? -static_cast<int64_t>(r.below(50)) : static_cast<int64_t>(r.below(1000000))); } };
template<> struct CmName<double> { static const char* name() { return "count_min<double>"; } static double w(Rng& r) { return r.chance(0.5) ? 1.0 : static_cast<double>(r.range(-40, 4000)) * 0.25; } };

template<typename W> static std::string wstr(W v) { return item_str(v); }

template<typename W>
static std::string observe_cm(const count_min_sketch<W>& s, uint64_t dom) {
  Obs o;
  o.add("hashes", static_cast<uint32_t>(s.get_num_hashes())).add("buckets", s.get_num_buckets()).add("seed", s.get_seed())
   .add("empty", s.is_empty()).raw("total_weight", wstr(s.get_total_weight())).add("rel_err", s.get_relative_error())
   .add("serialized_size", static_cast<uint64_t>(s.get_serialized_size_bytes()));
  std::string t; for (auto it = s.begin(); it != s.end(); ++it) t += wstr(*it) + ",";
  o.raw("table", t);
  std::string q;
  for (uint64_t x = 0; x < std::min<uint64_t>(dom, 12); ++x) q += wstr(s.get_estimate(x)) + "/" + wstr(s.get_lower_bound(x)) + "/" + wstr(s.get_upper_bound(x)) + ",";
  q += wstr(s.get_estimate(std::string("abc"))) + "," + wstr(s.get_estimate(static_cast<int64_t>(-5)));
  o.raw("queries", q);
  return o.s;
}

template<typename W>
static void case_cm(Rng& r) {
  describe(std::string(CmName<W>::name()) + " (generating state)");
  typedef count_min_sketch<W> S;
  const std::string fam = CmName<W>::name();
  const uint8_t nh = static_cast<uint8_t>(r.range(1, 6));
  const uint32_t nb = static_cast<uint32_t>(r.chance(0.2) ? r.range(3, 4) : r.range(3, 64));
  const uint64_t seed = r.chance(0.5) ? DEFAULT_SEED : r.next();
  const unsigned cls = static_cast<unsigned>(r.below(7));
  const uint64_t dom = 1 + r.below(200);
  uint64_t n = 0; const char* desc = "";
  std::unique_ptr<S> sk(new S(nh, nb, seed));
  auto fill = [](S& s, uint64_t m, uint64_t d, Rng& rr) {
    for (uint64_t i = 0; i < m; ++i) {
      const uint64_t x = rr.below(d);
      switch (rr.below(4)) { case 0: s.update(x, CmName<W>::w(rr)); break; case 1: s.update(static_cast<int64_t>(x) - 5, CmName<W>::w(rr)); break;
        case 2: s.update(std::string("k") + std::to_string(x), CmName<W>::w(rr)); break; default: s.update(&x, 5, CmName<W>::w(rr)); }
    }
  };
  switch (cls) {
    case 0: desc = "empty"; break;
    case 1: n = 1; desc = "single"; break;
    case 2: sk->update(static_cast<uint64_t>(3), static_cast<W>(0)); desc = "zero-weight-only"; break;
    case 3: n = 2 + r.below(30); desc = "few"; break;
    case 4: n = 30 + r.below(2000); desc = "many"; break;
    case 5: { const unsigned m = 1 + static_cast<unsigned>(r.below(6));
              for (unsigned i = 0; i < m; ++i) sk->update(r.below(dom), static_cast<W>((1ULL << 30) + r.below(1ULL << 31)));
              if (r.coin()) sk->update(r.below(dom), static_cast<W>((1ULL << 32) - static_cast<uint64_t>(sk->get_total_weight()) % (1ULL << 32) - r.below(2)));
              desc = "huge-weight"; count(fam + (static_cast<uint64_t>(sk->get_total_weight()) >> 32 ? "_weight_at_or_above_2^32" : "_weight_below_2^32")); break; }
    default: {
      fill(*sk, r.below(300), dom, r);
      S other(nh, nb, seed); fill(other, r.below(300), dom, r);
      sk->merge(other); desc = "post-merge";
    }
  }
  fill(*sk, n, dom, r);
  describe(fam + " hashes=" + std::to_string(nh) + " buckets=" + std::to_string(nb) + " seed=" + std::to_string(seed) + " " + desc + " n=" + std::to_string(n));
  count(fam + "_" + desc);
  sig(mix64(mix64(nh, nb), mix64(static_cast<uint64_t>(sk->get_total_weight()), std::hash<std::string>()(fam) + n)));

  Ops<S> o;
  o.fam = fam;
  o.to_bytes = [](const S& s, unsigned h) { return to_std_bytes(s.serialize(h)); };
  o.to_stream = [](const S& s, std::ostream& os) { s.serialize(os); };
  o.from_bytes = [seed](const void* p, size_t m) { return S::deserialize(p, m, seed); };
  o.from_stream = [seed](std::istream& is) { return S::deserialize(is, seed); };
  o.advertised = [](const S& s) { return static_cast<long long>(s.get_serialized_size_bytes()); };
  o.observe = [dom](const S& s) { return observe_cm<W>(s, dom); };
  o.cont = [fill, dom, nh, nb, seed](S& s, Rng& cr) {
    fill(s, cr.below(200), dom, cr);
    if (cr.chance(0.4)) { S other(nh, nb, seed); fill(other, cr.below(200), dom, cr); s.merge(other); }
  };
  roundtrip(o, *sk, r, G().cur_desc);
}

// ------------------------------------------------------------------ BLOOM
static std::string observe_bloom(const bloom_filter& cf, uint64_t dom) {
  bloom_filter& f = const_cast<bloom_filter&>(cf);   // get_bits_used() refreshes a cached count (not const)
  Obs o;
  o.add("capacity", f.get_capacity()).add("hashes", static_cast<uint32_t>(f.get_num_hashes())).add("seed", f.get_seed())
   .add("empty", f.is_empty());
  o.add("bits_used", f.get_bits_used());
  o.add("empty_after_count", f.is_empty()).add("serialized_size", static_cast<uint64_t>(f.get_serialized_size_bytes()));
  std::string q;
  for (uint64_t x = 0; x < dom + 40; ++x) q += f.query(x) ? '1' : '0';
  q += f.query(std::string("abc")) ? '1' : '0'; q += f.query(2.5) ? '1' : '0'; q += f.query(static_cast<int64_t>(-3)) ? '1' : '0';
  o.raw("queries", q);
  return o.s;
}

static void bloom_ops(bloom_filter& f, uint64_t m, uint64_t dom, Rng& rr) {
  for (uint64_t i = 0; i < m; ++i) {
    const uint64_t x = rr.below(dom);
    switch (rr.below(6)) { case 0: f.update(x); break; case 1: (void)f.query_and_update(x); break; case 2: f.update(std::string("abc")); break;
      case 3: f.update(2.5); break; case 4: f.update(static_cast<int64_t>(-3)); break; default: f.update(&x, 3); }
  }
}

static void bloom_cont(bloom_filter& f, uint64_t dom, Rng& cr) {
  bloom_ops(f, cr.below(60), dom, cr);
  const unsigned op = static_cast<unsigned>(cr.below(6));
  if (op <= 1) {
    bloom_filter other = bloom_filter::builder::create_by_size(f.get_capacity(), f.get_num_hashes(), f.get_seed());
    bloom_ops(other, cr.below(60), dom, cr);
    if (op == 0) f.union_with(other); else f.intersect(other);
  } else if (op == 2) f.invert();
  else if (op == 3) (void)f.get_bits_used();
}

// A filter living in caller memory (created there, or writable_wrap of an image) goes through every mutating operation
// from states whose stored bit count is valid and from states where it is stale; after EACH operation the caller memory
// must be an image of the live filter: equal to serialize() (non-empty filters), and a fresh read-only wrap of it must read
// out like an owned twin that received the same operations.
// the stored bit count may be the all-ones "recount me" marker: an image carrying the marker and one carrying the
// true count describe the same filter, so the marker is replaced by the population count before images are compared
static Bytes canon_bloom_count(const Bytes& b) {
  if (b.size() < 32 || b[0] != 4) return b;
  bool marker = true; for (int i = 0; i < 8; ++i) marker = marker && b[24 + i] == 0xFF;
  if (!marker) return b;
  uint64_t n = 0; for (size_t i = 32; i < b.size(); ++i) n += static_cast<uint64_t>(__builtin_popcount(b[i]));
  Bytes o(b); memcpy(&o[24], &n, 8); return o;
}

static void bloom_memory_ops(Rng& r) {
  const uint64_t num_bits = static_cast<uint64_t>(r.chance(0.3) ? r.range(1, 130) : r.range(1, 1500));
  const uint16_t nh = static_cast<uint16_t>(r.range(1, 7));
  const uint64_t seed = r.next();
  const uint64_t dom = 1 + r.below(200);
  const bool via_wrap = r.chance(0.4);
  describe(std::string("bloom memory-ops bits=") + std::to_string(num_bits) + " hashes=" + std::to_string(nh) + " via_writable_wrap=" + std::to_string(via_wrap));
  const std::string ctx0 = G().cur_desc;
  const std::string fam = via_wrap ? "bloom|writable-wrap|memory-ops" : "bloom|in-caller-memory|memory-ops";
  const size_t len = bloom_filter::get_serialized_size_bytes(num_bits);
  std::unique_ptr<uint8_t[]> mem(new uint8_t[len]);
  memset(mem.get(), 0xCD, len);
  bloom_filter twin = bloom_filter::builder::create_by_size(num_bits, nh, seed);       // owned reference receiving the same operations
  std::unique_ptr<bloom_filter> live;
  if (via_wrap) {
    bloom_ops(twin, 1 + r.below(30), dom, r);
    if (r.coin()) (void)twin.get_bits_used();                                           // image with a valid count / with the stale marker
    const Bytes img = to_std_bytes(twin.serialize());
    if (img.size() != len) { checked(); fail(fam + "|image-size-differs-from-advertised", ctx0); return; }
    memcpy(mem.get(), img.data(), len);
    live.reset(new bloom_filter(bloom_filter::writable_wrap(mem.get(), len)));
  } else {
    live.reset(new bloom_filter(bloom_filter::builder::initialize_by_size(mem.get(), len, num_bits, nh, seed)));
  }
  const unsigned steps = 6 + static_cast<unsigned>(r.below(14));
  sig(mix64(mix64(num_bits, nh), mix64(steps, via_wrap + 2 * dom)));
  for (unsigned st = 0; st <= steps; ++st) {
    const char* op = "initial";
    // is the count stored in the caller memory valid (not the all-ones stale marker) before the operation?
    bool stale = true; for (int i = 0; i < 8; ++i) stale = stale && mem[24 + i] == 0xFF;
    if (st > 0) {
      const Rng sub(r.next());
      Rng a(sub), b(sub);
      switch (r.below(8)) {
        case 0: case 1: op = "update"; bloom_ops(*live, 1 + a.below(4), dom, a); bloom_ops(twin, 1 + b.below(4), dom, b); break;
        case 2: { op = "query_and_update"; const uint64_t x = a.below(dom); const bool q1 = live->query_and_update(x), q2 = twin.query_and_update(x);
                  VF_CHECK(q1 == q2, fam + "|query_and_update|result-differs-from-owned-twin", ctx0); break; }
        case 3: case 4: { const bool un = r.below(8) < 5; op = un ? "union_with" : "intersect";
                  bloom_filter other = bloom_filter::builder::create_by_size(num_bits, nh, seed); bloom_ops(other, a.below(40), dom, a);
                  if (un) { live->union_with(other); twin.union_with(other); } else { live->intersect(other); twin.intersect(other); } break; }
        case 5: op = "invert"; live->invert(); twin.invert(); break;
        case 6: if (r.chance(0.4)) { op = "reset"; live->reset(); twin.reset(); } else { op = "get_bits_used"; (void)live->get_bits_used(); (void)twin.get_bits_used(); } break;
        default: op = "update"; bloom_ops(*live, 1, dom, a); bloom_ops(twin, 1, dom, b); break;
      }
      count(std::string("bloom_mem_") + op + (stale ? "_from_stale_count" : "_from_valid_count"));
    }
    const std::string ctx = ctx0 + " step=" + std::to_string(st) + " after " + op + (stale ? " (stored count was stale)" : " (stored count was valid)");
    const std::string K = fam + "|" + op;
    try {
      const Bytes li = to_std_bytes(live->serialize()), ti = to_std_bytes(twin.serialize());
      VF_CHECK(li == ti, K + "|serialize-differs-from-owned-twin", ctx + " " + bytes_diff(ti, li));
      if (!live->is_empty()) {
        const Bytes m(mem.get(), mem.get() + std::min(len, li.size()));
        VF_CHECK(li.size() == len && canon_bloom_count(m) == canon_bloom_count(li), K + "|caller-memory-differs-from-serialize", ctx + " " + bytes_diff(li, m));
        count(m == li ? "bloom_mem_image_identical_to_serialize" : "bloom_mem_image_equal_up_to_stale_marker");
      }
      VF_CHECK(live->is_empty() == twin.is_empty(), K + "|is_empty-differs-from-owned-twin", ctx);
      bloom_filter tc(twin);                                   // deep copy (owned), read out without touching the twin
      const std::string want = observe_bloom(tc, dom);
      const bloom_filter fresh = bloom_filter::wrap(mem.get(), len);
      const std::string got = observe_bloom(fresh, dom);
      if (got != want) { checked(); fail(K + "|fresh-wrap-of-caller-memory-differs", ctx + " " + first_diff(want, got)); } else checked();
      const bloom_filter des = bloom_filter::deserialize(mem.get(), len);
      bloom_filter& desm = const_cast<bloom_filter&>(des);
      const std::string gd = observe_bloom(desm, dom);
      if (gd != want) { checked(); fail(K + "|deserialize-of-caller-memory-differs", ctx + " " + first_diff(want, gd)); } else checked();
      count("bloom_mem_steps_checked");
    } catch (const std::exception& e) { checked(); fail(K + "|throws", ctx + " exception: " + e.what()); return; }
  }
}

static void case_bloom(Rng& r) {
  describe("bloom (generating state)");
  if (r.chance(0.3)) { bloom_memory_ops(r); return; }
  const uint64_t num_bits = r.chance(0.3) ? static_cast<uint64_t>(r.range(1, 130)) : static_cast<uint64_t>(r.range(1, G().thorough() ? 6000 : 1500));
  const uint16_t nh = static_cast<uint16_t>(r.range(1, 9));
  const uint64_t seed = r.next();
  const bool in_memory = r.chance(0.5);
  const unsigned cls = static_cast<unsigned>(r.below(7));
  const uint64_t dom = 1 + r.below(300);
  const size_t mem_len = bloom_filter::get_serialized_size_bytes(num_bits) + (r.coin() ? 0 : r.below(24));
  std::unique_ptr<uint8_t[]> mem(in_memory ? new uint8_t[mem_len] : nullptr);
  if (mem) memset(mem.get(), 0xCD, mem_len);
  std::unique_ptr<bloom_filter> sk(new bloom_filter(in_memory ? bloom_filter::builder::initialize_by_size(mem.get(), mem_len, num_bits, nh, seed)
                                                              : bloom_filter::builder::create_by_size(num_bits, nh, seed)));
  const char* desc = "";
  switch (cls) {
    case 0: desc = "empty"; break;
    case 1: bloom_ops(*sk, 1, dom, r); desc = "single-dirty"; break;
    case 2: bloom_ops(*sk, 1 + r.below(100), dom, r); desc = "dirty"; break;
    case 3: bloom_ops(*sk, 1 + r.below(100), dom, r); (void)sk->get_bits_used(); desc = "counted"; break;
    case 4: bloom_ops(*sk, r.below(50), dom, r); sk->invert(); desc = "inverted"; break;
    case 5: { bloom_ops(*sk, r.below(80), dom, r); bloom_filter other = bloom_filter::builder::create_by_size(num_bits, nh, seed); bloom_ops(other, r.below(80), dom, r);
              if (r.coin()) sk->union_with(other); else sk->intersect(other); desc = "post-merge"; break; }
    default: bloom_ops(*sk, 200 + r.below(3000), 100000, r); desc = "saturating"; break;
  }
  describe(std::string("bloom bits=") + std::to_string(num_bits) + " hashes=" + std::to_string(nh) + " in_memory=" + std::to_string(in_memory) + " " + desc);
  const std::string ctx = G().cur_desc;
  const std::string fam = in_memory ? "bloom|in-caller-memory" : "bloom|owned";
  count(std::string(in_memory ? "bloom_in_memory_" : "bloom_owned_") + desc);
  sig(mix64(mix64(num_bits, nh), mix64(in_memory, std::hash<std::string>()(std::string(desc)) + sk->is_empty())));

  // ---- additional restore routes over caller memory: wrap (read-only) and writable_wrap
  try {
    const Bytes img = to_std_bytes(sk->serialize());
    // independent owned copy of the original for the continuation (copying a filter that lives in caller memory
    // aliases that memory, so the copy is rebuilt by OR-ing the bits into a fresh filter)
    bloom_filter ref = bloom_filter::builder::create_by_size(sk->get_capacity(), nh, seed);
    if (!sk->is_empty()) ref.union_with(*sk);
    const std::string obs0 = observe_bloom(ref, dom);
    {
      std::unique_ptr<uint8_t[]> blk(new uint8_t[img.size()]); memcpy(blk.get(), img.data(), img.size());
      const bloom_filter w = bloom_filter::wrap(blk.get(), img.size());
      const Bytes b1 = to_std_bytes(w.serialize());
      VF_CHECK(b1 == img, fam + "|reserialize-wrap|image-differs", ctx + " " + bytes_diff(img, b1));
      std::ostringstream os; w.serialize(os); const std::string st = os.str();
      VF_CHECK(Bytes(st.begin(), st.end()) == img, fam + "|reserialize-wrap|stream-image-differs", ctx);
      if (!ref.is_empty()) {
        VF_CHECK(w.is_wrapped() && w.is_read_only(), fam + "|wrap|not-wrapped-read-only", ctx);
        VF_CHECK(throws([&] { const_cast<bloom_filter&>(w).update(static_cast<uint64_t>(1)); }), fam + "|wrap|update-of-read-only-view-accepted", ctx);
      }
      const std::string ow = observe_bloom(w, dom);
      if (ow != obs0) { checked(); fail(fam + "|restore-wrap|observe-differs", ctx + " " + first_diff(obs0, ow)); } else checked();
      VF_CHECK(memcmp(blk.get(), img.data(), img.size()) == 0, fam + "|wrap|read-only-view-modified-caller-memory", ctx);
      VF_CHECK(ref.is_compatible(w), fam + "|wrap|not-compatible-with-original", ctx);
      count("bloom_wrap_read_only");
    }
    if (!ref.is_empty()) {
      std::unique_ptr<uint8_t[]> blk(new uint8_t[img.size()]); memcpy(blk.get(), img.data(), img.size());
      bloom_filter w = bloom_filter::writable_wrap(blk.get(), img.size());
      VF_CHECK(w.is_wrapped() && !w.is_read_only(), fam + "|writable-wrap|not-wrapped-writable", ctx);
      const Bytes b1 = to_std_bytes(w.serialize());
      VF_CHECK(b1 == img, fam + "|reserialize-writable-wrap|image-differs", ctx + " " + bytes_diff(img, b1));
      const std::string ow = observe_bloom(w, dom);
      if (ow != obs0) { checked(); fail(fam + "|restore-writable-wrap|observe-differs", ctx + " " + first_diff(obs0, ow)); } else checked();
      // continue on both; then a fresh wrap of the caller memory and the writable view itself must agree with the original
      const uint64_t cs = r.next();
      { Rng cr(cs); bloom_cont(ref, dom, cr); } { Rng cr(cs); bloom_cont(w, dom, cr); }
      const std::string a0 = observe_bloom(ref, dom);
      const bloom_filter fresh = bloom_filter::wrap(blk.get(), img.size());
      const std::string af = observe_bloom(fresh, dom);
      const std::string a1 = observe_bloom(w, dom);
      if (a1 != a0) { checked(); fail(fam + "|continue-writable-wrap|observe-differs", ctx + " " + first_diff(a0, a1)); } else checked();
      if (af != a0) { checked(); fail(fam + "|continue-writable-wrap|fresh-wrap-of-memory-differs", ctx + " " + first_diff(a0, af)); } else checked();
      count("bloom_wrap_writable");
    } else {
      std::unique_ptr<uint8_t[]> blk(new uint8_t[img.size()]); memcpy(blk.get(), img.data(), img.size());
      VF_CHECK(throws([&] { (void)bloom_filter::writable_wrap(blk.get(), img.size()); }), fam + "|writable-wrap|empty-image-accepted", ctx);   // documented: cannot wrap an empty filter for writing
      count("bloom_wrap_writable_empty_rejected");
    }
    if (in_memory && !sk->is_empty()) {
      // the caller memory of a filter created in place is itself an image of the filter
      const bloom_filter fresh = bloom_filter::wrap(mem.get(), mem_len);
      const std::string of = observe_bloom(fresh, dom);
      bloom_filter ref2(*sk);
      const std::string o2 = observe_bloom(ref2, dom);
      if (of != o2) { checked(); fail(fam + "|wrap-of-creation-memory|observe-differs", ctx + " " + first_diff(o2, of)); } else checked();
      count("bloom_wrap_of_creation_memory");
    }
  } catch (const std::exception& e) { checked(); fail(fam + "|wrap-routes|throws", ctx + " exception: " + e.what()); }

  Ops<bloom_filter> o;
  o.fam = fam;
  o.to_bytes = [](const bloom_filter& s, unsigned h) { return to_std_bytes(s.serialize(h)); };
  o.to_stream = [](const bloom_filter& s, std::ostream& os) { s.serialize(os); };
  o.from_bytes = [](const void* p, size_t m) { return bloom_filter::deserialize(p, m); };
  o.from_stream = [](std::istream& is) { return bloom_filter::deserialize(is); };
  o.advertised = [](const bloom_filter& s) { return static_cast<long long>(s.get_serialized_size_bytes()); };
  o.max_size = [num_bits](const bloom_filter&) { return static_cast<long long>(bloom_filter::get_serialized_size_bytes(num_bits)); };
  o.observe = [dom](const bloom_filter& s) { return observe_bloom(s, dom); };
  o.cont = [dom](bloom_filter& s, Rng& cr) { bloom_cont(s, dom, cr); };
  roundtrip(o, *sk, r, ctx);
}

void run_case(uint64_t idx, Rng& r) {
  switch ((idx / 16 + idx) % 7) {
    case 0: case_fi<int64_t>(r); break;
    case 1: case_fi<std::string>(r); break;
    case 2: case_fi<Rec>(r); break;
    case 3: case_cm<int64_t>(r); break;
    case 4: case_cm<double>(r); break;
    default: case_bloom(r); break;
  }
}

} // namespace vf
