// C08 (KLL unit) — ranks unbiased over the coin flips (exhaustive over the coin tree for small
// scenarios) and within the published normalized rank error (sampled, fixed seeds).
#include "vf/c08_common.hpp"
#include <kll_sketch.hpp>

using namespace datasketches;
namespace vf {

struct KllFam {
  typedef kll_sketch<c08::Item, c08::Cmp> SK;
  static const char* name() { static const std::string n = std::string("kll") + c08::item_tag(); return n.c_str(); }
  static SK make(int cfg) {
    SK fresh = SK(static_cast<uint16_t>(cfg), c08::cmp_instance());
#if defined(C08_CMP_DESC)
    // history 'serialize an empty sketch -> deserialize with the comparator instance -> keep using it' for 2 of 3 sketches
    const unsigned mode = static_cast<unsigned>((c08::make_salt() + c08::make_seq()++) % 3);
    if (mode == 1) { auto b = fresh.serialize(); return SK::deserialize(b.data(), b.size(), serde<c08::Item>(), c08::cmp_instance()); }
    if (mode == 2) { std::stringstream ss(std::ios::in | std::ios::out | std::ios::binary); fresh.serialize(ss); return SK::deserialize(ss, serde<c08::Item>(), c08::cmp_instance()); }
#endif
    return fresh;
  }
  static std::string cfg_text(int cfg) { return "k=" + std::to_string(cfg); }
  static bool allow_rt() { return false; }
  static int len_quantum(int cfg) { (void)cfg; return 0; }
  static int chunk_quantum(int cfg) { (void)cfg; return 0; }
  static bool has_exact_region() { return false; }
  static bool exact_claim(const SK&, double) { return false; }
  static SK roundtrip(const SK& s) { return s; }
  // serialize + deserialize through a stream image or a byte image
#if defined(C08_ITEM_SELFMOVE)
  static SK roundtrip_image(const SK& s, bool) { return s; }
#else
  static SK roundtrip_image(const SK& s, bool bytes) {
    if (bytes) { auto b = s.serialize(); return SK::deserialize(b.data(), b.size(), serde<c08::Item>(), c08::cmp_instance()); }
    std::stringstream ss(std::ios::in | std::ios::out | std::ios::binary);
    s.serialize(ss);
    return SK::deserialize(ss, serde<c08::Item>(), c08::cmp_instance());
  }
#endif
  static std::string published_error_text(const SK& s) { return "eps=" + str(s.get_normalized_rank_error(false)) + " eps_pmf=" + str(s.get_normalized_rank_error(true)); }
  static bool within_published(const SK& s, double est, double tr) { return std::fabs(est - tr) <= s.get_normalized_rank_error(false); }
  static void gen_cfgs(Rng& r, int nsk, std::vector<int>& cfg) {
    cfg.assign(static_cast<size_t>(nsk), 8);
    const int mode = static_cast<int>(r.below(10));
    if (mode == 0) { const int k = static_cast<int>(r.pick({9, 10, 12})); cfg.assign(static_cast<size_t>(nsk), k); }
    else if (mode == 1) { for (auto& c : cfg) c = static_cast<int>(r.pick({8, 8, 9, 10, 12, 16})); }   // mixed k (min_k path)
  }
  // mixed-k merge ((4k + 2k) + (3k + k)): the root has the largest k and the smallest k arrives through an intermediate
  // sketch, holding 85% of the stream; the published error must be the one of the smallest k (min_k)
  static int mixed_cfg(int cfg, int i) { static const int mul2[4] = {8, 4, 6, 2}; return cfg * mul2[i] / 2; }
  static const double* mixed_cuts() { static const double c[5] = {0.0, 0.05, 0.10, 0.15, 1.0}; return c; }
};

const char* property_id() { return "C08"; }
unsigned case_timeout_s() { return 3000; }
void final_report() {}

// ---- case layout -------------------------------------------------------------------------------
// the non-arithmetic item variants (-DC08_ITEM_STRING / -DC08_ITEM_SELFMOVE) run a reduced case list: no f >= 15 scenarios,
// sampled cells with n = 1e4 only
#ifdef C08_ITEM_NONARITH
static const bool VARIANT = true;
#else
static const bool VARIANT = false;
#endif
static const int NEXH_Q = VARIANT ? 28 : 48, NEXH_T = VARIANT ? 160 : 480;
static std::vector<c08::Cell> cells(bool T) {
  std::vector<c08::Cell> v;
  const int tr = T ? 2000 : 160;
  if (T) for (int k : {20, 200}) for (int order : {1, 0}) for (int merge : {0, 1}) v.push_back(c08::Cell{k, 1000000, order, merge, 400});
  for (uint64_t n : {100000ULL, 10000ULL}) for (int k : {20, 200}) for (int order : {0, 1, 2}) for (int merge : {0, 1}) v.push_back(c08::Cell{k, n, order, merge, tr});
  for (int k : {20, 200}) v.push_back(c08::Cell{k, 100000, 1, 2, tr});       // mixed k: error published for the smallest k
#if !defined(C08_ITEM_SELFMOVE)
  v.push_back(c08::Cell{20, 100000, 1, 4, tr});      // ... also after a serialization round trip of the merged sketch
  v.push_back(c08::Cell{200, 10000, 1, 4, tr});
#endif
  v.push_back(c08::Cell{20, 10000, 3, 0, tr});
  v.push_back(c08::Cell{200, 10000, 3, 1, tr});
  // very large k (upper half of the legal range up to MAX_K = 65535): 4 sketches merged; the published error is the one of the nominal k
  for (int k : {32768, 33000}) v.push_back(c08::Cell{k, 400000, 1, 1, T ? 40 : 6});
  for (int k : {40000, 65535}) v.push_back(c08::Cell{k, 800000, 1, 1, T ? 30 : 5});
  if (T) { v.push_back(c08::Cell{33000, 1000000, 1, 0, 20}); v.push_back(c08::Cell{50000, 1000000, 2, 1, 20}); }
  if (VARIANT) { std::vector<c08::Cell> w; for (auto c : v) if (c.n == 10000 && c.cfg < 32768) { c.trials = T ? 400 : 60; w.push_back(c); } return w; }
  if (T) { v.push_back(c08::Cell{8, 100000, 1, 0, tr}); v.push_back(c08::Cell{64, 100000, 2, 1, tr}); v.push_back(c08::Cell{1000, 100000, 1, 1, 1000}); }
  return v;
}
static const uint64_t NDBL = VARIANT ? 0 : 2;
uint64_t num_cases(bool thorough) { return static_cast<uint64_t>(thorough ? NEXH_T : NEXH_Q) + cells(thorough).size() + NDBL; }

void run_case(uint64_t idx, Rng& r) {
  c08::make_salt() = idx; c08::make_seq() = 0;
  const bool T = G().thorough();
  const uint64_t nexh = static_cast<uint64_t>(T ? NEXH_T : NEXH_Q);
  if (idx < nexh) {
    if (VARIANT) idx += T ? 32 : 8;   // skip the heaviest windows
    const bool want_merge = (idx % 2) == 1;
    int fmin, fmax;
    if (T) {
      if (idx < 32) { fmax = 18; fmin = 17; } else if (idx < 160) { fmax = static_cast<int>(r.range(14, 16)); fmin = fmax - 1; }
      else { fmax = static_cast<int>(r.range(1, 13)); fmin = std::max(0, fmax - 1); }
    } else {
      if (idx < 6) { fmax = 16; fmin = 15; } else if (idx < 20) { fmax = static_cast<int>(r.range(12, 14)); fmin = fmax - 1; }
      else { fmax = static_cast<int>(r.range(1, 11)); fmin = std::max(0, fmax - 1); }
    }
    c08::exhaustive_case<KllFam>(r, want_merge, fmin, fmax);
  } else {
    const auto cs = cells(T);
    try {
      if (idx - nexh < cs.size()) c08::sampled_cell_eps<KllFam>(cs[idx - nexh], r);
      else if (idx - nexh - cs.size() == 0) c08::doubling_case<KllFam>(200, 5000, 34, T ? 6 : 2, r);
      else c08::doubling_case<KllFam>(20, 2000, 35, T ? 6 : 2, r);
    }
    catch (const std::exception& e) { checked(); fail(std::string(KllFam::name()) + "|sampled|exception-in-valid-usage", G().cur_desc + " what=" + e.what()); }
  }
}

} // namespace vf
