// C06 (sketch level, HLL/CPC) — while distinct keys are streamed into hll_sketch (HLL_4/6/8) / cpc_sketch and
// into 2-3 partial sketches that are unioned (hll_union / cpc_union, partial sketches optionally with a larger
// lg_k), at many checkpoints:  lb(3) <= lb(2) <= lb(1) <= est <= ub(1) <= ub(2) <= ub(3), all finite, >= 0;
// small range (HLL in LIST/SET mode; CPC with n <= 3k/32, i.e. sparse): the estimate lies in the
// collision-limited accuracy window around the true count (vf/c06_common.hpp); CPC: HIP and ICON confidence
// functions of cpc_confidence.hpp are each ordered around their estimate; documented argument checks.
// HLL union programs: raw items of every update overload fed directly to hll_union::update, mixed with sketch
// operands of finer / equal / coarser lg_k in the orders sketch->raw, raw->sketch, sketch->raw->sketch, with and
// without an estimate call between the steps; the true count is the number of distinct canonical byte strings
// (vf/gen.hpp).  In HLL mode with lg_k >= 9 the true count must also lie within 8 published (non-HIP) standard
// errors of the estimate (gross-error guard, false-alarm probability ~1e-15 per read-out).
// Compiled with -fno-access-control (hll get_current_mode(), cpc get_hip_estimate()/get_icon_estimate()).
#include "vf/core.hpp"
#include "vf/c06_common.hpp"
#include "vf/gen.hpp"
#include <unordered_set>
#include <hll.hpp>
#include <cpc_sketch.hpp>
#include <cpc_union.hpp>

using namespace datasketches;
namespace vf {
using namespace c06;

const char* property_id() { return "C06"; }
unsigned case_timeout_s() { return 300; }
uint64_t num_cases(bool thorough) { return thorough ? 100000 : 8000; }
void final_report() {}

typedef std::allocator<uint8_t> AL;
static const double K26 = 67108864.0;
static const target_hll_type TYPES[] = {HLL_4, HLL_6, HLL_8};
static const char* TNAME[] = {"hll4", "hll6", "hll8"};

struct Cfg { bool cpc; uint8_t lg_k; int type; uint64_t nmax; int parts; double overlap; uint64_t base; double step; uint8_t part_lg_k[3]; bool reuse = false; };

static std::string cfg_str(const Cfg& c, uint64_t n) { return "lg_k=" + std::to_string(c.lg_k) + " n=" + std::to_string(n); }

// ---------------------------------------------------------------- HLL
template<typename S> static Chain observe_hll(const S& s, uint64_t n, const char* fam, const Cfg& c, const char* what, uint8_t eff_lg_k) {
  const Chain ch = read_chain_c(s);    // estimate, composite estimate and the six bounds in a random order, then again in a fixed order
  const hll_mode mode = s.get_current_mode();
  auto ctx = [&] { return std::string(what) + " " + cfg_str(c, n) + " mode=" + std::to_string(static_cast<int>(mode)); };
  check_chain_lazy(ch, fam, ctx);
  if (mode != HLL) {
    const Window w = small_range_window(n, K26);
    VF_CHECK(w.lo <= ch.est && ch.est <= w.hi, std::string(fam) + "|coupon-mode|estimate-outside-small-range-accuracy", ctx() + " window=[" + str(w.lo) + "," + str(w.hi) + "] " + ch.to_string());
    VF_CHECK(ch.comp == ch.est, std::string(fam) + "|coupon-mode|composite-differs-from-estimate", ctx());
    count(std::string("sk_") + fam + (mode == LIST ? "_list" : "_set"));
  } else {
    const uint64_t k = 1ULL << eff_lg_k;
    count(std::string("sk_") + fam + (n <= k ? "_hll_small" : (n <= 4 * k ? "_hll_transition" : "_hll_asymptotic")));
    const double comp = ch.comp;
    VF_CHECK(std::isfinite(comp) && comp >= 0, std::string(fam) + "|composite-estimate|not-finite-or-negative", ctx() + " composite=" + str(comp));
    const uint8_t lg = s.get_lg_config_k();
    if (lg >= 9 && n > 0) {
      const double lo = ch.est / (1.0 + 8.0 * hll_sketch::get_rel_err(false, true, lg, 1)), hi = ch.est / (1.0 + 8.0 * hll_sketch::get_rel_err(true, true, lg, 1));
      VF_CHECK(lo <= static_cast<double>(n) && static_cast<double>(n) <= hi, std::string(fam) + "|hll-mode|true-count-beyond-8-published-std-errors-of-estimate",
               ctx() + " result_lg_k=" + std::to_string(lg) + " allowed=[" + str(lo) + "," + str(hi) + "] " + ch.to_string());
      count("sk_hll_gross_error_checks");
    }
  }
  sig(mix64(mix64(static_cast<uint64_t>(mode) + 16 * (reinterpret_cast<uintptr_t>(fam) & 0xff), eff_lg_k), dbits(std::floor(ch.est * 64))));
  return ch;
}

static void run_hll(const Cfg& c, Rng& r) {
  const char* fam = TNAME[c.type];
  hll_sketch main_sk(c.lg_k, TYPES[c.type]);
  std::vector<hll_sketch> parts;
  for (int i = 0; i < c.parts; ++i) parts.emplace_back(c.part_lg_k[i], TYPES[(c.type + i) % 3]);
  const uint64_t k = 1ULL << c.lg_k;
  hll_union ureuse(c.lg_k);
  if (c.reuse) {   // sketches and a persistent union object are first filled with unrelated keys (HLL mode), reset(), then used
    const uint64_t junk = std::min<uint64_t>(k / 2 + r.below(4 * k), 40000);
    for (uint64_t j = 0; j < junk; ++j) { const uint64_t key = bij(~c.base + j); main_sk.update(key); for (auto& p : parts) p.update(key); }
    ureuse.update(main_sk); ureuse.update(parts[0]);
    if (main_sk.get_current_mode() == HLL) count("sk_hll_reuse_after_hll_mode");
    main_sk.reset(); for (auto& p : parts) p.reset(); ureuse.reset();
    observe_hll(ureuse, 0, "hll_union", c, "union object after reset", c.lg_k);
  }
  std::set<uint64_t> marks = {7, 8, 9, k / 8 - 1, k / 8, k / 8 + 1, 3 * k / 32, 3 * k / 32 + 1, k, 2 * k, 3 * k, c.nmax};
  double next = 48, next_union = 1 + static_cast<double>(r.below(8));
  observe_hll(main_sk, 0, fam, c, "empty sketch", c.lg_k);
  { hll_union u(c.lg_k); observe_hll(u, 0, "hll_union", c, "empty union", c.lg_k); }
  for (uint8_t bad : {uint8_t(0), uint8_t(4)}) {
    VF_CHECK(throws([&] { main_sk.get_lower_bound(bad); }) && throws([&] { main_sk.get_upper_bound(bad); }), "hll|bounds|invalid-num-std-dev-does-not-throw", "empty sketch, num_std_dev=" + std::to_string(bad));
  }
  for (uint64_t i = 0; i < c.nmax; ++i) {
    const uint64_t key = bij(c.base + i);
    main_sk.update(key);
    parts[i % c.parts].update(key);
    if (r.unit() < c.overlap) parts[r.below(c.parts)].update(key);
    const uint64_t n = i + 1;
    bool obs = n <= 40 || marks.count(n);
    if (static_cast<double>(n) >= next) { obs = true; next = std::max(next * c.step, next + 1); }
    if (obs) { observe_hll(main_sk, n, fam, c, "sketch", c.lg_k); count("sk_checkpoints"); }
    if (static_cast<double>(n) >= next_union || n == c.nmax) {
      next_union = std::max(next_union * 1.7, next_union + 1);
      hll_union fresh(c.lg_k);
      hll_union& u = c.reuse ? ureuse : fresh;    // the persistent union object was reset() after its previous use
      for (int j = 0; j < c.parts; ++j) u.update(parts[j]);
      if (c.reuse) count("sk_hll_reuse_union_checkpoints");
      // the union object is read before or after get_result() (random); the first accessor after the merge is random
      const bool result_first = order_next() & 1;
      Chain uc;
      if (!result_first) { uc = observe_hll(u, n, "hll_union", c, "union object", c.lg_k); if (u.get_current_mode() == HLL) count_first_after_merge(uc); }
      const hll_sketch res = u.get_result(TYPES[(c.type + n) % 3]);
      const Chain rc = observe_hll(res, n, "hll_union", c, "union result", c.lg_k);
      if (result_first) uc = observe_hll(u, n, "hll_union", c, "union object after get_result", c.lg_k);
      VF_CHECK(same_chain(uc, rc), "hll_union|union-object-vs-result|estimate-or-bounds-differ", cfg_str(c, n) + " union: " + uc.to_string() + " result: " + rc.to_string());
      count("sk_union_checkpoints");
      if (c.reuse) ureuse.reset();
    }
  }
  for (uint8_t bad : {uint8_t(0), uint8_t(4)}) {
    VF_CHECK(throws([&] { main_sk.get_lower_bound(bad); }) && throws([&] { main_sk.get_upper_bound(bad); }), "hll|bounds|invalid-num-std-dev-does-not-throw", "num_std_dev=" + std::to_string(bad) + " n=" + std::to_string(c.nmax));
  }
}

// ---------------------------------------------------------------- HLL union programs with raw items
static void run_hll_program(Rng& r, bool T) {
  const bool big = r.chance(0.03);
  const uint8_t L = static_cast<uint8_t>(big ? r.range(15, 18) : r.range(4, 14));
  const int order = static_cast<int>(r.below(3));           // 0 sketch->raw, 1 raw->sketch, 2 sketch->raw->sketch
  const bool est_between = r.coin();
  const int fixed_kind = r.chance(0.5) ? -1 : static_cast<int>(r.below(V_NKINDS));
  const uint64_t cap = T ? 300000 : 50000;
  const double hi = static_cast<double>(std::min<uint64_t>(64ULL << L, cap));
  const uint64_t base = r.next();
  Cfg c; c.cpc = false; c.lg_k = L; c.type = 0; c.nmax = 0; c.parts = 0; c.overlap = 0; c.base = base; c.step = 0;
  struct Step { bool sketch; uint8_t lg_k; int type; uint64_t cnt; bool rollup; };
  std::vector<Step> steps;
  const int nsteps = order == 2 ? 3 : 2;
  std::string d;
  for (int i = 0; i < nsteps; ++i) {
    Step st;
    st.rollup = r.chance(0.35);        // the operand is itself the result of a union of two sketches (out of order when in HLL mode)
    st.sketch = (order == 0) ? (i == 0) : (order == 1 ? (i == 1) : (i != 1));
    const int rel = static_cast<int>(r.below(3));             // finer / equal / coarser than the union's lg_max_k
    st.lg_k = static_cast<uint8_t>(std::max<int>(4, std::min<int>(21, L + (rel == 0 ? static_cast<int>(r.range(1, 2)) : (rel == 1 ? 0 : -static_cast<int>(r.range(1, 2)))))));
    st.type = static_cast<int>(r.below(3));
    st.cnt = 1 + static_cast<uint64_t>(std::exp(r.unit() * std::log(hi / nsteps)));
    steps.push_back(st);
  }
  if (!big && r.chance(0.1)) {
    // directed: a lg_k 19..21 source that is still in SET mode (below its own promotion point) into a union of lg_max_k 12..14 (big: up
    // to 18) whose gadget is promoted to HLL mode during the feed; raw items / other steps stay around it
    for (auto& st : steps) if (st.sketch) {
      st.lg_k = static_cast<uint8_t>(r.range(19, 21)); st.rollup = false;
      const uint64_t promo = 3 * (1ULL << L) / 32, setcap = 3 * (1ULL << st.lg_k) / 32;
      st.cnt = std::min<uint64_t>({promo * 2 + r.below(promo * 8 + 1) + 16, setcap * 9 / 10, cap});
      count("sk_hll_program_directed_set_source");
      break;
    }
  }
  for (auto& st : steps) d += std::string(st.sketch ? std::string(st.rollup ? " union-result(" : " sketch(") + "lg_k=" + std::to_string(st.lg_k) + "," + TNAME[st.type] + ",n=" : " raw(n=") + std::to_string(st.cnt) + ")";
  describe("hll union program lg_max_k=" + std::to_string(L) + " steps:" + d + " estimate_between=" + std::to_string(est_between) + " raw_kind=" + std::to_string(fixed_kind) + " keybase=" + std::to_string(base));
  hll_union u(L);
  std::unordered_set<std::string> seen;     // canonical byte strings of every item offered so far (sketch operands and raw)
  auto le8 = [](uint64_t v) { std::string b(8, '\0'); for (int i = 0; i < 8; ++i) b[i] = static_cast<char>(v >> (8 * i)); return b; };
  uint64_t cursor = 0;                      // next fresh 64-bit key index
  uint8_t min_lg = L;
  for (size_t si = 0; si < steps.size(); ++si) {
    const Step& st = steps[si];
    if (st.sketch) {
      hll_sketch sk(st.lg_k, TYPES[st.type]);
      const uint64_t start = cursor - std::min<uint64_t>(cursor, r.coin() ? st.cnt / 5 : r.below(st.cnt + 1));     // re-offers 20% .. all of its size from the latest keys
      hll_sketch sk2(st.lg_k, TYPES[(st.type + 1) % 3]);
      for (uint64_t i = 0; i < st.cnt; ++i) {
        const uint64_t key = bij(base + start + i);
        if (st.rollup && (i % 5) >= 2) sk2.update(key); else sk.update(key);
        if (st.rollup && (i % 5) == 2) sk.update(key);        // 20% of the keys are in both halves
        seen.insert(le8(key));
      }
      cursor = std::max(cursor, start + st.cnt);
      if (st.rollup) {
        hll_union fine(st.lg_k);
        fine.update(sk); fine.update(sk2);
        hll_sketch mid = fine.get_result(TYPES[r.below(3)]);
        const hll_mode gm = u.get_current_mode();
        if (mid.get_current_mode() == HLL) {
          min_lg = std::min(min_lg, st.lg_k);
          if (mid.is_out_of_order_flag() && st.lg_k > L) count(std::string("sk_hll_program_rollup_finer_ooo_operand_into_") + (u.is_empty() ? "empty" : (gm == LIST ? "list" : (gm == SET ? "set" : "hll"))) + "_gadget");
        }
        if (r.coin()) u.update(mid); else u.update(std::move(mid));
        count("sk_hll_program_rollup_steps");
      } else {
        if (sk.get_current_mode() == HLL) min_lg = std::min(min_lg, st.lg_k);
        if (sk.get_current_mode() == SET && st.lg_k >= 19) count("sk_hll_program_big_set_mode_operands");
        if (r.coin()) u.update(sk); else u.update(std::move(sk));
      }
      count("sk_hll_program_sketch_steps");
    } else {
      for (uint64_t i = 0; i < st.cnt; ++i) {
        if (cursor > 0 && r.chance(0.2)) {     // an item already offered (as a 64-bit key), through one of its equivalent overloads
          const uint64_t key = bij(base + r.below(cursor));
          if (r.coin()) u.update(key); else u.update(static_cast<int64_t>(key));
          seen.insert(le8(key));
        } else if (r.chance(0.5)) {             // fresh 64-bit key
          const uint64_t key = bij(base + cursor++);
          u.update(key); seen.insert(le8(key)); count("update_u64");
        } else {                                 // any overload kind, incl. -0.0 / NaN / empty string / small integer domains
          const Val v = gen_val(r, 1ULL << 40, fixed_kind);
          apply_update(u, v);
          if (!v.ignored()) seen.insert(v.canon_bytes());
          count(std::string("update_") + kind_name(v.kind));
        }
      }
      count("sk_hll_program_raw_steps");
    }
    if (est_between && si + 1 < steps.size()) {
      const Chain bc = observe_hll(u, seen.size(), "hll_union_program", c, "union object between steps", L); count("sk_hll_program_intermediate_estimates");
      if (st.sketch && u.get_current_mode() == HLL) count_first_after_merge(bc);
    }
  }
  const uint64_t n = seen.size();
  const bool result_first = order_next() & 1;
  Chain uc;
  if (!result_first) { uc = observe_hll(u, n, "hll_union_program", c, "union object at end", L); if (steps.back().sketch && u.get_current_mode() == HLL) count_first_after_merge(uc); }
  const hll_sketch res = u.get_result(TYPES[r.below(3)]);
  const Chain rc = observe_hll(res, n, "hll_union_program", c, "union result at end", L);
  if (result_first) uc = observe_hll(u, n, "hll_union_program", c, "union object at end, after get_result", L);
  VF_CHECK(same_chain(uc, rc), "hll_union_program|union-object-vs-result|estimate-or-bounds-differ", "union: " + uc.to_string() + " result: " + rc.to_string());
  VF_CHECK(res.get_lg_config_k() <= L, "hll_union_program|result-lg_k-above-lg_max_k", "result lg_k=" + std::to_string(res.get_lg_config_k()));
  count(std::string("sk_hll_program_order") + std::to_string(order) + (est_between ? "_with_estimate" : "_without_estimate"));
  if (steps[0].sketch && steps[0].lg_k > L && min_lg <= L && u.get_current_mode() == HLL) count("sk_hll_program_first_operand_downsampled");
  (void)min_lg;
}

// ---------------------------------------------------------------- CPC
static void observe_cpc(const cpc_sketch& s, uint64_t n, const char* fam, const Cfg& c, const char* what, uint8_t eff_lg_k) {
  const Chain ch = read_chain(s);
  auto ctx = [&] { return std::string(what) + " " + cfg_str(c, n) + " result_lg_k=" + std::to_string(s.get_lg_k()) + " coupons=" + std::to_string(s.get_num_coupons()); };
  check_chain_lazy(ch, fam, ctx);
  // the two estimators with their confidence functions (cpc_confidence.hpp), whichever the sketch reports
  Chain hip, icon;
  hip.est = s.get_hip_estimate(); icon.est = s.get_icon_estimate();
  for (int kappa = 1; kappa <= 3; ++kappa) {
    icon.lb[kappa] = get_icon_confidence_lb<AL>(s, kappa); icon.ub[kappa] = get_icon_confidence_ub<AL>(s, kappa);
    if (!s.was_merged) { hip.lb[kappa] = get_hip_confidence_lb<AL>(s, kappa); hip.ub[kappa] = get_hip_confidence_ub<AL>(s, kappa); }
  }
  check_chain_lazy(icon, "cpc_icon", ctx);
  if (!s.was_merged) check_chain_lazy(hip, "cpc_hip", ctx);
  const uint64_t k = 1ULL << eff_lg_k;
  if (s.get_lg_k() >= 8) {   // gross-error guard: true count within 8 published standard deviations (+10) of the estimate
    const double sigma = std::max(ch.est - ch.lb[1], ch.ub[1] - ch.est);
    VF_CHECK(std::fabs(ch.est - static_cast<double>(n)) <= 8.0 * sigma + 10.0, std::string(fam) + "|true-count-beyond-8-published-std-devs-of-estimate", ctx() + " sigma=" + str(sigma) + " " + ch.to_string());
    count("sk_cpc_gross_error_checks");
  }
  if (n * 32 <= 3 * k) {
    const Window w = small_range_window(n, static_cast<double>(k));
    VF_CHECK(w.lo <= ch.est && ch.est <= w.hi, std::string(fam) + "|small-range|estimate-outside-accuracy-window", ctx() + " window=[" + str(w.lo) + "," + str(w.hi) + "] " + ch.to_string());
    VF_CHECK(w.lo <= icon.est && icon.est <= w.hi, std::string(fam) + "|small-range|icon-estimate-outside-accuracy-window", ctx() + " window=[" + str(w.lo) + "," + str(w.hi) + "] icon=" + str(icon.est));
    count(std::string("sk_") + fam + "_sparse");
  } else count(std::string("sk_") + fam + (n <= k ? "_small" : (n <= 4 * k ? "_transition" : "_asymptotic")));
  sig(mix64(mix64(0xc9c + (reinterpret_cast<uintptr_t>(fam) & 0xff), eff_lg_k), mix64(s.get_num_coupons(), dbits(std::floor(ch.est * 64)))));
}

static void run_cpc(const Cfg& c, Rng& r) {
  cpc_sketch main_sk(c.lg_k);
  std::vector<cpc_sketch> parts;
  uint8_t min_lg = c.lg_k;
  for (int i = 0; i < c.parts; ++i) { parts.emplace_back(c.part_lg_k[i]); min_lg = std::min(min_lg, c.part_lg_k[i]); }
  const uint64_t k = 1ULL << c.lg_k;
  std::set<uint64_t> marks = {3 * k / 32 - 1, 3 * k / 32, 3 * k / 32 + 1, k / 2, k, 27 * k / 8, 27 * k / 8 + 1, c.nmax};
  double next = 48, next_union = 1 + static_cast<double>(r.below(8));
  observe_cpc(main_sk, 0, "cpc", c, "empty sketch", c.lg_k);
  { cpc_union u(c.lg_k); observe_cpc(u.get_result(), 0, "cpc_union", c, "empty union", c.lg_k); }
  for (unsigned bad : {0u, 4u}) {
    VF_CHECK(throws([&] { main_sk.get_lower_bound(bad); }) && throws([&] { main_sk.get_upper_bound(bad); }), "cpc|bounds|invalid-kappa-does-not-throw", "empty sketch, kappa=" + std::to_string(bad));
  }
  for (uint64_t i = 0; i < c.nmax; ++i) {
    const uint64_t key = bij(c.base + i);
    main_sk.update(key);
    parts[i % c.parts].update(key);
    if (r.unit() < c.overlap) parts[r.below(c.parts)].update(key);
    const uint64_t n = i + 1;
    bool obs = n <= 40 || marks.count(n);
    if (static_cast<double>(n) >= next) { obs = true; next = std::max(next * c.step, next + 1); }
    if (obs) { observe_cpc(main_sk, n, "cpc", c, "sketch", c.lg_k); count("sk_checkpoints"); }
    if (static_cast<double>(n) >= next_union || n == c.nmax) {
      next_union = std::max(next_union * 1.7, next_union + 1);
      cpc_union u(c.lg_k);
      for (int j = 0; j < c.parts; ++j) u.update(parts[j]);
      const cpc_sketch res = u.get_result();
      // a union of sketches with a larger lg_k keeps its own lg_k; the result can only be as fine as the union
      observe_cpc(res, n, "cpc_union", c, "union result", res.get_lg_k());
      { const cpc_sketch res2 = u.get_result(); VF_CHECK(same_chain(read_chain(res2), read_chain(res)), "cpc_union|get_result|second-result-differs-from-first", cfg_str(c, n)); }
      VF_CHECK(res.get_lg_k() <= c.lg_k, "cpc_union|result-lg_k-above-union-lg_k", cfg_str(c, n));
      count("sk_union_checkpoints");
    }
  }
  for (unsigned bad : {0u, 4u}) {
    VF_CHECK(throws([&] { main_sk.get_lower_bound(bad); }) && throws([&] { main_sk.get_upper_bound(bad); }), "cpc|bounds|invalid-kappa-does-not-throw", "kappa=" + std::to_string(bad) + " n=" + std::to_string(c.nmax));
  }
}

// ---------------------------------------------------------------- assignment programs (hll_sketch, cpc_sketch)
// target and source of different lg_k / type / fill (empty, LIST/SET or sparse, HLL or windowed); copy-, move- (from a copy) or
// self-assignment; the target must read out exactly like the source, the source stays unchanged, and further distinct updates
// of the target are counted on top of the source's true count.
static void run_assign_program(Rng& r, bool T) {
  const bool cpc = r.coin();
  const uint64_t cap = T ? 200000 : 40000;
  struct Side { uint8_t lg_k; int type; uint64_t n; };
  auto gen = [&] {
    Side s; s.lg_k = static_cast<uint8_t>(r.range(4, 13)); s.type = static_cast<int>(r.below(3));
    const uint64_t k = 1ULL << s.lg_k;
    switch (r.below(4)) {
      case 0: s.n = 0; break;
      case 1: s.n = 1 + r.below(std::max<uint64_t>(1, k / 16)); break;        // coupon modes / sparse
      case 2: s.n = k / 4 + r.below(2 * k); break;
      default: s.n = std::min<uint64_t>(cap, 4 * k + r.below(40 * k)); break;
    }
    return s;
  };
  Side ta = gen(), so = gen();
  const int kind = static_cast<int>(r.below(8));      // 0-3 copy, 4-6 move, 7 self
  const uint64_t base = r.next();
  describe(std::string(cpc ? "cpc" : "hll") + " assignment kind=" + (kind < 4 ? "copy" : (kind < 7 ? "move" : "self")) + " target[lg_k=" + std::to_string(ta.lg_k) + " type=" + std::to_string(ta.type) + " n=" + std::to_string(ta.n) +
           "] source[lg_k=" + std::to_string(so.lg_k) + " type=" + std::to_string(so.type) + " n=" + std::to_string(so.n) + "] keybase=" + std::to_string(base));
  if (kind == 7) so = ta;
  Cfg c; c.cpc = cpc; c.lg_k = so.lg_k; c.type = so.type; c.nmax = 0; c.parts = 0; c.overlap = 0; c.base = base; c.step = 0;
  const uint64_t more = 1 + r.below(3ULL << so.lg_k);
  double next = 1;
  if (!cpc) {
    hll_sketch a(ta.lg_k, TYPES[ta.type]), b(so.lg_k, TYPES[so.type]);
    for (uint64_t i = 0; i < ta.n; ++i) a.update(bij(base + i));
    if (kind != 7) for (uint64_t i = 0; i < so.n; ++i) b.update(bij(base + (1ULL << 40) + i));
    const hll_sketch& src = kind == 7 ? a : b;
    const Chain before = read_chain_c(src);
    const hll_mode src_mode = src.get_current_mode();
    if (kind < 4) a = b; else if (kind < 7) { hll_sketch tmp(b); a = std::move(tmp); } else { hll_sketch& self = a; a = self; }
    const Chain after = read_chain_c(a);
    auto ctx = [&] { return "true count=" + std::to_string(so.n) + " target: " + after.to_string() + " composite=" + str(after.comp) + " source: " + before.to_string() + " composite=" + str(before.comp); };
    VF_CHECK(after.unstable.empty() && same_chain(after, before) && (after.comp == before.comp), "hll|assignment|target-estimate-or-bounds-differ-from-source", ctx());
    VF_CHECK(a.get_current_mode() == src_mode && a.get_lg_config_k() == so.lg_k && a.get_target_type() == TYPES[so.type], "hll|assignment|target-mode-lg_k-or-type-differ-from-source", ctx());
    if (kind != 7) { const Chain bb = read_chain_c(b); VF_CHECK(same_chain(bb, before) && bb.comp == before.comp && b.get_current_mode() == src_mode, "hll|assignment|source-changed", ctx()); }
    observe_hll(a, so.n, TNAME[so.type], c, "assigned sketch", so.lg_k);
    for (uint64_t j = 0; j < more; ++j) {
      a.update(bij(base + (2ULL << 40) + j));
      if (static_cast<double>(j + 1) >= next || j + 1 == more) { next = std::max(next * 1.3, next + 1); observe_hll(a, so.n + j + 1, TNAME[so.type], c, "assigned sketch after further updates", so.lg_k); count("sk_assign_continued_update_checkpoints"); }
    }
    if (kind != 7) { const Chain bb = read_chain_c(b); VF_CHECK(same_chain(bb, before) && bb.comp == before.comp, "hll|assignment|source-changed-by-updates-of-the-target", ctx()); }
    count(std::string("sk_assign_hll_") + (src_mode == HLL ? "from_hll_mode" : "from_coupon_mode"));
  } else {
    cpc_sketch a(ta.lg_k), b(so.lg_k);
    for (uint64_t i = 0; i < ta.n; ++i) a.update(bij(base + i));
    if (kind != 7) for (uint64_t i = 0; i < so.n; ++i) b.update(bij(base + (1ULL << 40) + i));
    const cpc_sketch& src = kind == 7 ? a : b;
    const Chain before = read_chain(src);
    const double hip0 = src.get_hip_estimate(), icon0 = src.get_icon_estimate(); const uint32_t coupons0 = src.get_num_coupons();
    if (kind < 4) a = b; else if (kind < 7) { cpc_sketch tmp(b); a = std::move(tmp); } else { cpc_sketch& self = a; a = self; }
    const Chain after = read_chain(a);
    auto ctx = [&] { return "true count=" + std::to_string(so.n) + " target: " + after.to_string() + " source: " + before.to_string(); };
    VF_CHECK(after.unstable.empty() && same_chain(after, before) && a.get_hip_estimate() == hip0 && a.get_icon_estimate() == icon0, "cpc|assignment|target-estimate-or-bounds-differ-from-source", ctx());
    VF_CHECK(a.get_lg_k() == so.lg_k && a.get_num_coupons() == coupons0, "cpc|assignment|target-lg_k-or-coupon-count-differ-from-source", ctx());
    if (kind != 7) { const Chain bb = read_chain(b); VF_CHECK(same_chain(bb, before) && b.get_num_coupons() == coupons0, "cpc|assignment|source-changed", ctx()); }
    observe_cpc(a, so.n, "cpc", c, "assigned sketch", so.lg_k);
    for (uint64_t j = 0; j < more; ++j) {
      a.update(bij(base + (2ULL << 40) + j));
      if (static_cast<double>(j + 1) >= next || j + 1 == more) { next = std::max(next * 1.3, next + 1); observe_cpc(a, so.n + j + 1, "cpc", c, "assigned sketch after further updates", so.lg_k); count("sk_assign_continued_update_checkpoints"); }
    }
    if (kind != 7) { const Chain bb = read_chain(b); VF_CHECK(same_chain(bb, before) && b.get_num_coupons() == coupons0, "cpc|assignment|source-changed-by-updates-of-the-target", ctx()); }
    count("sk_assign_cpc");
  }
  count(kind < 4 ? "sk_assign_copy" : (kind < 7 ? "sk_assign_move" : "sk_assign_self"));
}

// ---------------------------------------------------------------- CPC union programs with mixed inputs
static uint64_t covered(std::vector<std::pair<uint64_t, uint64_t>> iv) {   // size of the union of half-open key-index intervals
  std::sort(iv.begin(), iv.end());
  uint64_t tot = 0, end = 0;
  for (auto& x : iv) { if (x.second <= end) continue; tot += x.second - std::max(x.first, end); end = x.second; }
  return tot;
}

static void run_cpc_program(Rng& r, bool T) {
  const uint8_t U = static_cast<uint8_t>(r.range(4, T ? 13 : 12));
  const uint64_t base = r.next();
  const uint64_t cap = T ? 300000 : 50000;
  struct In { uint8_t lg_k; uint64_t start, cnt; int flavor; bool move; };
  std::vector<In> in;
  auto size_for = [&](uint8_t lg, int flavor) {
    const uint64_t k = 1ULL << lg;
    uint64_t n;
    switch (flavor) {
      case 0: n = 1 + r.below(std::max<uint64_t>(1, 3 * k / 32)); break;            // sparse
      case 1: n = 3 * k / 32 + 1 + r.below(k / 2 - 3 * k / 32); break;              // hybrid
      case 2: n = k / 2 + 1 + r.below(27 * k / 8 - k / 2); break;                   // pinned
      default: n = 27 * k / 8 + 1 + r.below(16 * k); break;                         // sliding
    }
    return std::min(n, cap);
  };
  const bool directed = r.chance(0.25);
  if (directed) {
    // the same keys in a sketch of the union's lg_k (or coarser) and in a finer hybrid/pinned sketch; finer one first or last
    In fine; fine.lg_k = static_cast<uint8_t>(U + r.range(1, 3)); fine.flavor = static_cast<int>(r.range(1, 2)); fine.cnt = size_for(fine.lg_k, fine.flavor); fine.start = 0; fine.move = r.coin();
    In same; same.lg_k = static_cast<uint8_t>(std::max<int>(4, U - static_cast<int>(r.below(2)))); same.flavor = 4; same.cnt = fine.cnt; same.start = r.chance(0.5) ? 0 : r.below(fine.cnt / 2 + 1); same.move = r.coin();
    if (r.coin()) { in.push_back(same); in.push_back(fine); } else { in.push_back(fine); in.push_back(same); }
    count("sk_cpc_program_directed_same_keys_finer_windowed_input");
  } else {
    const int nin = static_cast<int>(r.range(2, 4));
    uint64_t span = 0;
    for (int i = 0; i < nin; ++i) {
      In x; x.lg_k = static_cast<uint8_t>(std::max<int>(4, std::min<int>(16, U + static_cast<int>(r.range(-2, 3)))));
      x.flavor = static_cast<int>(r.below(4)); x.cnt = size_for(x.lg_k, x.flavor); x.start = r.below(span + 1); x.move = r.coin();
      span = std::max(span, x.start + x.cnt);
      in.push_back(x);
    }
    const int order = static_cast<int>(r.below(3));
    if (order == 1) std::stable_sort(in.begin(), in.end(), [](const In& a, const In& b) { return a.lg_k > b.lg_k; });
    if (order == 2) std::stable_sort(in.begin(), in.end(), [](const In& a, const In& b) { return a.lg_k < b.lg_k; });
    count(order == 0 ? "sk_cpc_program_order_generated" : (order == 1 ? "sk_cpc_program_order_larger_lg_k_first" : "sk_cpc_program_order_larger_lg_k_last"));
  }
  std::string d;
  for (auto& x : in) d += " [lg_k=" + std::to_string(x.lg_k) + " keys=" + std::to_string(x.start) + "+" + std::to_string(x.cnt) + " flavor=" + std::to_string(x.flavor) + "]";
  describe("cpc union program union_lg_k=" + std::to_string(U) + " directed=" + std::to_string(directed) + " inputs:" + d + " keybase=" + std::to_string(base));
  Cfg c; c.cpc = true; c.lg_k = U; c.type = 0; c.nmax = 0; c.parts = 0; c.overlap = 0; c.base = base; c.step = 0;
  cpc_union u(U);
  std::vector<std::pair<uint64_t, uint64_t>> iv;
  for (size_t i = 0; i < in.size(); ++i) {
    const In& x = in[i];
    cpc_sketch sk(x.lg_k);
    for (uint64_t j = 0; j < x.cnt; ++j) sk.update(bij(base + x.start + j));
    if (x.flavor < 4) count(std::string("sk_cpc_program_input_flavor") + std::to_string(x.flavor) + (x.lg_k > U ? "_finer" : (x.lg_k == U ? "_equal" : "_coarser")));
    if (x.move) u.update(std::move(sk)); else u.update(sk);
    iv.push_back({x.start, x.start + x.cnt});
    if (i + 1 < in.size() && r.coin()) continue;
    const uint64_t n = covered(iv);
    const cpc_sketch res = u.get_result();
    observe_cpc(res, n, "cpc_union_program", c, "union result", res.get_lg_k());
    VF_CHECK(res.get_lg_k() <= U, "cpc_union_program|result-lg_k-above-union-lg_k", "result lg_k=" + std::to_string(res.get_lg_k()));
    count("sk_cpc_program_readouts");
  }
  count("sk_cpc_programs");
}

void run_case(uint64_t idx, Rng& r) {
  (void)idx;
  seed_order(r);
  const bool T = G().thorough();
  if (r.chance(0.1)) { run_assign_program(r, T); if (want_sample()) sample("{\"config\":" + jstr(G().cur_desc) + "}"); return; }
  if (r.chance(0.15)) { run_cpc_program(r, T); if (want_sample()) sample("{\"config\":" + jstr(G().cur_desc) + "}"); return; }
  if (r.chance(0.2)) { run_hll_program(r, T); if (want_sample()) sample("{\"config\":" + jstr(G().cur_desc) + "}"); return; }
  Cfg c;
  c.cpc = r.coin();
  const bool big = r.chance(T ? 0.04 : 0.02);     // big lg_k: long LIST/SET resp. sparse phase, error constants of the lg_k > 12 / > 14 branches
  c.lg_k = static_cast<uint8_t>(big ? r.range(15, c.cpc ? 18 : 21) : r.range(4, 14));
  c.type = static_cast<int>(r.below(3));
  const uint64_t k = 1ULL << c.lg_k;
  const uint64_t cap = T ? 400000 : 60000;
  const double hi = static_cast<double>(std::min<uint64_t>(64 * k, cap));
  if (big) c.nmax = static_cast<uint64_t>(std::exp(r.unit() * std::log(static_cast<double>(T ? 300000 : 100000))));
  else c.nmax = r.chance(0.33) ? 1 + r.below(k / 2 + 1) : static_cast<uint64_t>(std::exp(r.unit() * std::log(hi)));
  if (c.nmax < 1) c.nmax = 1;
  c.parts = static_cast<int>(r.range(2, 3));
  c.overlap = r.chance(0.5) ? 0.0 : 0.3;
  c.base = r.next();
  c.step = 1.02 + 0.2 * r.unit();
  // partial sketches: same lg_k; for CPC sometimes a larger lg_k (the union then folds them down)
  for (int i = 0; i < 3; ++i) c.part_lg_k[i] = c.lg_k;
  if (c.cpc && r.chance(0.3)) for (int i = 0; i < 3; ++i) c.part_lg_k[i] = static_cast<uint8_t>(c.lg_k + r.below(3));
  c.reuse = !c.cpc && r.chance(0.3);
  describe(std::string(c.cpc ? "cpc" : TNAME[c.type]) + (c.reuse ? " (reused after reset)" : "") + " lg_k=" + std::to_string(c.lg_k) + " n=" + std::to_string(c.nmax) + " parts=" + std::to_string(c.parts) +
           " part_lg_k=" + std::to_string(c.part_lg_k[0]) + "," + std::to_string(c.part_lg_k[1]) + "," + std::to_string(c.part_lg_k[2]) +
           " overlap=" + str(c.overlap) + " keybase=" + std::to_string(c.base));
  if (c.cpc) run_cpc(c, r); else run_hll(c, r);
  if (want_sample()) sample("{\"config\":" + jstr(G().cur_desc) + "}");
}

} // namespace vf
