#!/bin/sh
# Build and run the C10 corpus generator against a given source tree.
#   harness/c10_gen_corpus.sh <tree> <outdir> [pinned]
# <tree>   root of a datasketches-cpp checkout (e.g. /repo, or a worktree of the pinned commit 70f9031)
# <outdir> e.g. corpus/v1 (corpus/v0 for the pinned tree)
# pinned   build with -DC10_PINNED_TREE and also record corpus/shipped/*.json from <tree>
# Run from /verif.  See the header comment of harness/c10_gen_corpus.cpp.
set -e
TREE="$1"; OUT="$2"; MODE="$3"
[ -n "$TREE" ] && [ -n "$OUT" ] || { echo "usage: $0 <tree> <outdir> [pinned]" >&2; exit 2; }
ROOT="$(cd "$(dirname "$0")/.." && pwd)"
INC=""
for f in common hll cpc kll fi theta sampling tuple req quantiles count density tdigest filters; do INC="$INC -I$TREE/$f/include"; done
DEF=""
[ "$MODE" = "pinned" ] && DEF="-DC10_PINNED_TREE"
mkdir -p "$ROOT/build"
BIN="$ROOT/build/c10_gen_$$"
${VERIF_CXX:-g++} -std=gnu++17 -O1 -g -fno-omit-frame-pointer -fsanitize=address,undefined -fno-sanitize-recover=all \
  -DDATASKETCHES_VERIF -fno-access-control -Wno-deprecated-declarations $DEF $INC -I"$ROOT/harness" \
  "$ROOT/harness/c10_gen_corpus.cpp" -o "$BIN"
rm -rf "$OUT"; mkdir -p "$OUT"
export ASAN_OPTIONS=detect_leaks=0:exitcode=99 UBSAN_OPTIONS=print_stacktrace=1:halt_on_error=1
if [ "$MODE" = "pinned" ] && [ -z "$C10_NO_SHIPPED" ]; then   # C10_NO_SHIPPED=1: trial run, leave corpus/shipped alone
  rm -rf "$ROOT/corpus/shipped"; mkdir -p "$ROOT/corpus/shipped"
  "$BIN" "$OUT" --shipped "$ROOT/corpus/shipped" "$TREE"
else
  "$BIN" "$OUT"
fi
rm -f "$BIN"
