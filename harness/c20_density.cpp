// C20 — Density sketch keeps exact counts and is exact before its first compaction.
#include "vf/core.hpp"
#include <density_sketch.hpp>
#include <sstream>
#include <memory>

using namespace datasketches;
namespace vf {

const char* property_id() { return "C20"; }
unsigned case_timeout_s() { return 40; }
uint64_t num_cases(bool thorough) { return thorough ? 30000 : 1500; }
void final_report() {}

// user kernels (non-negative)
template<typename T> struct laplace_kernel {   // exp(-L1 distance)
  T operator()(const std::vector<T>& a, const std::vector<T>& b) const { T d = 0; for (size_t i = 0; i < a.size(); ++i) d += std::fabs(a[i] - b[i]); return std::exp(-d); }
};
template<typename T> struct compact_kernel {   // Epanechnikov-like: max(0, 1 - d^2 / 4), zero beyond distance 2
  T operator()(const std::vector<T>& a, const std::vector<T>& b) const { T d = 0; for (size_t i = 0; i < a.size(); ++i) d += (a[i] - b[i]) * (a[i] - b[i]); return std::max<T>(0, 1 - d / 4); }
};
template<typename T> struct indicator_kernel {   // returns an INTEGER (1 inside the ball of radius 2, else 0): the library must not drop into integer arithmetic
  int operator()(const std::vector<T>& a, const std::vector<T>& b) const { T d = 0; for (size_t i = 0; i < a.size(); ++i) d += (a[i] - b[i]) * (a[i] - b[i]); return d <= 4 ? 1 : 0; }
};
template<typename T> struct bandwidth_kernel {   // stateful: exp(-d^2 / (2 h^2)); default h = 1, monitors use h != 1
  T h;
  explicit bandwidth_kernel(T bw = 1): h(bw) {}
  T operator()(const std::vector<T>& a, const std::vector<T>& b) const { T d = 0; for (size_t i = 0; i < a.size(); ++i) d += (a[i] - b[i]) * (a[i] - b[i]); return std::exp(-d / (2 * h * h)); }
};
template<typename T> struct amplitude_kernel {   // non-negative, finite, but so large that only the MEAN (not the sum) fits into T
  T amp;
  explicit amplitude_kernel(T a = 1): amp(a) {}
  T operator()(const std::vector<T>& a, const std::vector<T>& b) const { T d = 0; for (size_t i = 0; i < a.size(); ++i) d += (a[i] - b[i]) * (a[i] - b[i]); return amp / (1 + d); }
};
// amplitudes below: amp * 2^level stays finite up to level 9 (float: 10), more than either tier reaches with these kernels
// (2e306 overflowed at level 7 in a thorough-tier merge: a false alarm of the harness); amp * n still overflows for n > 900
template<typename K> K make_kernel(Rng&) { return K(); }
template<> amplitude_kernel<float> make_kernel<amplitude_kernel<float>>(Rng& r) { static const float as[] = {1e35f, 2e35f, 1.0f, 1e30f}; return amplitude_kernel<float>(as[r.below(4)]); }
template<> amplitude_kernel<double> make_kernel<amplitude_kernel<double>>(Rng& r) { static const double as[] = {1e305, 2e305, 1.0, 1e300}; return amplitude_kernel<double>(as[r.below(4)]); }
template<> bandwidth_kernel<double> make_kernel<bandwidth_kernel<double>>(Rng& r) { static const double hs[] = {0.25, 0.5, 2.0, 4.0}; return bandwidth_kernel<double>(hs[r.below(4)]); }
template<typename K> const char* kname();
template<> const char* kname<bandwidth_kernel<double>>() { return "bandwidth-f64"; }
template<> const char* kname<amplitude_kernel<float>>() { return "amplitude-f32"; }
template<> const char* kname<amplitude_kernel<double>>() { return "amplitude-f64"; }
template<> const char* kname<gaussian_kernel<float>>() { return "gauss-f32"; }
template<> const char* kname<gaussian_kernel<double>>() { return "gauss-f64"; }
template<> const char* kname<laplace_kernel<float>>() { return "laplace-f32"; }
template<> const char* kname<laplace_kernel<double>>() { return "laplace-f64"; }
template<> const char* kname<compact_kernel<double>>() { return "compact-f64"; }
template<> const char* kname<indicator_kernel<double>>() { return "indicator-int-f64"; }

template<typename T> struct Model {
  std::vector<std::vector<T>> pts;     // every accepted point
  uint64_t n = 0;
  bool compacted = false;              // monitor-side knowledge only used for coverage counters
  double center = 0;                   // where the data lives: generated query points are placed around it
};

// decode level sizes from the documented image layout
static bool decode_levels(const std::vector<uint8_t>& img, size_t tsize, uint32_t& dim, uint32_t& retained, uint64_t& n, std::vector<uint32_t>& lv) {
  lv.clear();
  if (img.size() < 12) return false;
  if (img[3] & 4) { memcpy(&dim, img.data() + 8, 4); retained = 0; n = 0; return img[0] == 3 && img.size() == 12; }   // empty: 3 ints
  if (img.size() < 24 || img[0] != 6) return false;
  memcpy(&dim, img.data() + 8, 4); memcpy(&retained, img.data() + 12, 4); memcpy(&n, img.data() + 16, 8);
  size_t off = 24;
  while (off < img.size()) {
    if (off + 4 > img.size()) return false;
    uint32_t s; memcpy(&s, img.data() + off, 4); off += 4;
    off += size_t(s) * dim * tsize;
    lv.push_back(s);
  }
  return off == img.size();
}

// reference kernel value: the monitor's own kernels are their own definition; the library's gaussian kernel is
// re-computed independently (exp(-|a-b|^2) from coordinate differences in long double)
template<typename T, typename K> static long double ref_kernel(const K& kern, const std::vector<T>& a, const std::vector<T>& b) { return static_cast<long double>(kern(a, b)); }
template<typename T> static long double ref_kernel(const gaussian_kernel<T>&, const std::vector<T>& a, const std::vector<T>& b) {
  long double d2 = 0;
  for (size_t i = 0; i < a.size(); ++i) { const long double d = static_cast<long double>(a[i]) - static_cast<long double>(b[i]); d2 += d * d; }
  return expl(-d2);
}

template<typename T, typename K>
static void observe(const density_sketch<T, K>& s, const Model<T>& m, Rng& r, const std::string& after, uint16_t k, uint32_t dim, const K& kern) {
  const std::string P = std::string("density|") + kname<K>() + "|";
  const std::string ctx = std::string(kname<K>()) + " after " + after + " k=" + std::to_string(k) + " dim=" + std::to_string(dim) + " n=" + std::to_string(m.n) +
    " retained=" + std::to_string(s.get_num_retained());
  VF_CHECK(s.get_n() == m.n, P + "n", ctx + " got=" + std::to_string(s.get_n()));
  VF_CHECK(s.get_k() == k && s.get_dim() == dim, P + "config", ctx);
  // iteration
  uint64_t iter = 0; std::map<uint64_t, uint32_t> by_weight; bool subset = true; bool pow2 = true;
  std::set<std::vector<T>> inputs(m.pts.begin(), m.pts.end());
  for (auto it = s.begin(); it != s.end(); ++it) {
    auto pr = *it;
    ++iter;
    const uint64_t w = pr.second;
    if (w == 0 || (w & (w - 1))) pow2 = false;
    by_weight[w]++;
    if (pr.first.size() != dim || !inputs.count(pr.first)) subset = false;
    if (iter > 10000000) break;
  }
  VF_CHECK(iter == s.get_num_retained(), P + "iteration-count-vs-num_retained", ctx + " iterated=" + std::to_string(iter));
  VF_CHECK(pow2, P + "weight-not-power-of-two", ctx);
  VF_CHECK(subset, P + "retained-point-not-an-input", ctx);
  // levels from the image
  auto img = s.serialize();
  std::vector<uint8_t> iv(img.begin(), img.end());
  uint32_t idim = 0, iret = 0; uint64_t in = 0; std::vector<uint32_t> lv;
  const bool ok = decode_levels(iv, sizeof(T), idim, iret, in, lv);
  VF_CHECK(ok, P + "image-does-not-follow-documented-layout", ctx + " size=" + std::to_string(iv.size()));
  if (ok && s.get_num_retained() > 0) {
    VF_CHECK(idim == dim && iret == s.get_num_retained() && in == m.n, P + "image-fields", ctx);
    uint64_t total = 0;
    for (size_t h = 0; h < lv.size(); ++h) {
      total += lv[h];
      const uint32_t seen = by_weight.count(1ull << h) ? by_weight[1ull << h] : 0;
      VF_CHECK(seen == lv[h], P + "weight-not-2^level", ctx + " level=" + std::to_string(h) + " level_size=" + std::to_string(lv[h]) + " items_with_that_weight=" + std::to_string(seen));
    }
    VF_CHECK(total == s.get_num_retained(), P + "levels-sum-vs-num_retained", ctx);
    const uint64_t levels = std::max<size_t>(lv.size(), 1);
    VF_CHECK(s.get_num_retained() <= uint64_t(k) * levels, P + "retained-exceeds-k-times-levels", ctx + " levels=" + std::to_string(levels));
    VF_CHECK(s.is_estimation_mode() == (lv.size() > 1), P + "is_estimation_mode-vs-levels", ctx);
    if (lv.size() > 2) count("three_or_more_levels");
  }
  VF_CHECK(s.is_empty() == (m.n == 0) || m.n > 0, P + "is_empty", ctx);
  if (m.n == 0) {
    VF_CHECK(s.is_empty(), P + "not-empty-without-input", ctx);
    VF_CHECK(throws([&] { s.get_estimate(std::vector<T>(dim, 0)); }), P + "estimate-on-empty-answered", ctx);
    // an empty receiver must refuse wrong-dimension input as well (update and merge, lvalue and rvalue)
    density_sketch<T, K>& es = const_cast<density_sketch<T, K>&>(s);
    VF_CHECK(throws([&] { es.update(std::vector<T>(dim + 1, 1)); }), P + "wrong-dimension-update-accepted|empty-receiver", ctx);
    density_sketch<T, K> od(k, dim + 1, kern); od.update(std::vector<T>(dim + 1, 2)); od.update(std::vector<T>(dim + 1, 3));
    VF_CHECK(throws([&] { es.merge(od); }), P + "wrong-dimension-merge-accepted|empty-receiver", ctx);
    { density_sketch<T, K> od2(od); VF_CHECK(throws([&] { es.merge(std::move(od2)); }), P + "wrong-dimension-merge-accepted|empty-receiver", ctx); }
    VF_CHECK(s.get_n() == 0 && s.is_empty() && s.begin() == s.end(), P + "state-changed-by-refused-operation|empty-receiver", ctx);
    count("refusals_empty_receiver");
    return;
  }
  // a sketch that received points must keep answering (non-negative kernel => finite, >= 0)
  for (int q = 0; q < 12; ++q) {
    std::vector<T> pt(dim);
    if (q < 4 && !m.pts.empty()) pt = m.pts[r.below(m.pts.size())];
    else for (auto& x : pt) x = static_cast<T>(m.center + (r.unit() - 0.5) * (q % 2 ? 4 : 40));
    T est = 0; bool threw = false;
    try { est = s.get_estimate(pt); } catch (const std::exception&) { threw = true; }
    checked();
    if (threw) { fail(P + "estimate-throws-on-non-empty-stream", ctx + " (is_empty()=" + std::to_string(s.is_empty()) + ")"); break; }
    VF_CHECK(std::isfinite(est) && est >= 0, P + "estimate-not-finite-or-negative", ctx + " est=" + str(est));
    if (!s.is_estimation_mode()) {
      long double exact = 0;
      for (auto& p : m.pts) exact += ref_kernel(kern, p, pt);
      exact /= static_cast<long double>(m.n);
      const double tol = (sizeof(T) == 4 ? 5e-4 : 1e-10) * std::max<double>(double(exact), 0) + (sizeof(T) == 4 ? 1e-36 : 1e-300);   // relative: tiny kernel means far from the data count too
      VF_CHECK(std::fabs(double(est) - double(exact)) <= tol, P + "exact-mode-estimate-differs-from-kernel-mean", ctx + " est=" + str(est) + " exact=" + str(double(exact)));
      count("exact_mode_estimates");
    } else count("estimation_mode_estimates");
  }
  // wrong dimension refused, state unchanged
  {
    density_sketch<T, K>& ms = const_cast<density_sketch<T, K>&>(s);
    VF_CHECK(throws([&] { ms.update(std::vector<T>(dim + 1, 1)); }), P + "wrong-dimension-update-accepted", ctx);
    if (dim > 1) VF_CHECK(throws([&] { ms.update(std::vector<T>(dim - 1, 1)); }), P + "wrong-dimension-update-accepted", ctx);
    VF_CHECK(throws([&] { s.get_estimate(std::vector<T>(dim + 1, 1)); }) || true, P + "wrong-dimension-query", ctx);
    density_sketch<T, K> other(k, dim + 1, kern); other.update(std::vector<T>(dim + 1, 2));
    VF_CHECK(throws([&] { ms.merge(other); }), P + "wrong-dimension-merge-accepted", ctx);
    VF_CHECK(s.get_n() == m.n && s.get_num_retained() == iter, P + "state-changed-by-refused-operation", ctx);
    count("refusals");
  }
  sig(mix64(mix64(k, dim), mix64(m.n, s.get_num_retained())));
}

template<typename T, typename K>
static void program(Rng& r) {
  const bool TH = G().thorough();
  const K kern = make_kernel<K>(r);
  const uint16_t k = uint16_t(r.chance(0.6) ? r.range(2, 16) : r.range(17, TH ? 200 : 60));
  const uint32_t dim = uint32_t(r.chance(0.7) ? r.range(1, 4) : r.range(5, 12));
  const int nleaves = 1 + int(r.below(4));
  const uint64_t libseed = r.next();
  random_utils::rand.seed(libseed); random_utils::random_bit.seed(uint32_t(libseed));
  describe(std::string(kname<K>()) + " k=" + std::to_string(k) + " dim=" + std::to_string(dim) + " leaves=" + std::to_string(nleaves));
  typedef density_sketch<T, K> SK;
  std::vector<std::unique_ptr<SK>> sk; std::vector<Model<T>> md; std::vector<uint16_t> ks;
  for (int l = 0; l < nleaves; ++l) {
    const uint16_t kl = (l == 0 || r.chance(0.7)) ? k : uint16_t(r.range(2, 40));
    sk.emplace_back(new SK(kl, dim, kern)); md.emplace_back(); ks.push_back(kl);
    const int shape = int(r.below(6));
    // shape 5: a small cloud far from the origin (coordinates large relative to the spacing of the points)
    const double far = (sizeof(T) == 4 ? 2e4 : 1e8) * double(1 + r.below(30));
    if (shape == 5) { md[l].center = far; count("far_from_origin_leaves"); }
    const uint64_t n = r.chance(0.1) ? r.below(2) : (r.chance(0.5) ? r.below(uint64_t(kl) + 2) : r.below(uint64_t(kl) * (TH ? 40 : 12) + 1));
    observe(*sk[l], md[l], r, "construction", kl, dim, kern);
    for (uint64_t i = 0; i < n; ++i) {
      std::vector<T> p(dim);
      for (uint32_t d = 0; d < dim; ++d) {
        double x;
        switch (shape) {
          case 0: x = r.unit(); break;
          case 1: x = double(r.below(3)) * 5 + r.unit() * 0.1; break;     // clusters
          case 2: x = double(i) * 10; break;                               // far apart (compact kernel sees zeros)
          case 3: x = 1.0; break;                                          // all identical
          case 5: x = far + double(r.below(4)) + (r.coin() ? 0.5 : 0.0); break;
          default: x = (r.unit() - 0.5) * 6; break;
        }
        p[d] = static_cast<T>(x);
      }
      const bool before_est = sk[l]->is_estimation_mode();
      if (r.coin()) sk[l]->update(p); else { std::vector<T> tmp = p; sk[l]->update(std::move(tmp)); }
      md[l].pts.push_back(p); md[l].n++;
      if (!before_est && sk[l]->is_estimation_mode()) { count("first_compactions"); md[l].compacted = true; }
      if (n < 40 || i % (n / 4 + 1) == 0) observe(*sk[l], md[l], r, "update", kl, dim, kern);
    }
    observe(*sk[l], md[l], r, "updates", kl, dim, kern);
    if (r.chance(0.25)) {
      std::stringstream ss; sk[l]->serialize(ss);
      sk[l].reset(new SK(SK::deserialize(ss, kern)));
      observe(*sk[l], md[l], r, "roundtrip", kl, dim, kern);
      count("roundtrip");
    }
  }
  std::vector<size_t> alive(sk.size());
  for (size_t i = 0; i < alive.size(); ++i) alive[i] = i;
  while (alive.size() > 1) {
    size_t a = r.below(alive.size()), b = r.below(alive.size());
    if (a == b) continue;
    size_t ia = alive[a], ib = alive[b];
    if (r.chance(0.15) && md[ia].pts.size() < 4000) {   // a sketch merged with itself stands for its stream twice
      auto& self = *sk[ia];
      self.merge(self);
      const auto twice = md[ia].pts; md[ia].pts.insert(md[ia].pts.end(), twice.begin(), twice.end()); md[ia].n *= 2;
      observe(*sk[ia], md[ia], r, "self-merge", ks[ia], dim, kern);
      count(md[ia].n ? "self_merge_nonempty" : "self_merge_empty");
    }
    const bool both_exact = !sk[ia]->is_estimation_mode() && !sk[ib]->is_estimation_mode();
    if (r.coin()) { sk[ia]->merge(*sk[ib]); count("merge_lvalue"); observe(*sk[ib], md[ib], r, "merge-source-unchanged", ks[ib], dim, kern); }
    else { sk[ia]->merge(std::move(*sk[ib])); count("merge_rvalue"); }
    md[ia].pts.insert(md[ia].pts.end(), md[ib].pts.begin(), md[ib].pts.end()); md[ia].n += md[ib].n;
    if (both_exact && !sk[ia]->is_estimation_mode()) count("merge_stays_exact");
    alive.erase(alive.begin() + b);
    observe(*sk[ia], md[ia], r, "merge", ks[ia], dim, kern);
  }
  {  // assignment onto an existing sketch of another dimension / k: the target takes over everything, including the dimension
    const size_t fi = alive[0];
    for (int variant = 0; variant < 2; ++variant) {
      SK slot(uint16_t(ks[fi] + 3), dim + 1 + uint32_t(variant), kern);
      slot.update(std::vector<T>(dim + 1 + uint32_t(variant), T(1)));
      if (variant == 0) { slot = *sk[fi]; count("assign_copy_other_dim"); }
      else { SK tmp(*sk[fi]); slot = std::move(tmp); count("assign_move_other_dim"); }
      observe(slot, md[fi], r, variant == 0 ? "copy assignment" : "move assignment", ks[fi], dim, kern);
      if (md[fi].n > 0) {
        Model<T> mt = md[fi];
        std::vector<T> p(dim, T(0.5)); slot.update(p); mt.pts.push_back(p); mt.n++;
        observe(slot, mt, r, "update after assignment", ks[fi], dim, kern);
      }
      observe(*sk[fi], md[fi], r, "assignment source unchanged", ks[fi], dim, kern);
    }
  }
  VF_CHECK(throws([&] { SK bad(1, dim, kern); }), std::string("density|") + kname<K>() + "|k-below-2-accepted", "");
  if (want_sample()) sample("{\"config\":" + jstr(G().cur_desc) + ",\"n\":" + std::to_string(md[alive[0]].n) + ",\"retained\":" + std::to_string(sk[alive[0]]->get_num_retained()) + "}");
}

// dimensions beyond 16 bits (dim is a 32-bit parameter)
static void huge_dimension_case(Rng& r) {
  const uint32_t dim = r.pick({65536u, 65539u, 70000u, 131075u, 4097u, 5000u, 8193u, 9001u});   // also just above the stream reader's 4096-coordinate piece
  const uint16_t k = uint16_t(r.range(2, 5));
  describe("huge dimension dim=" + std::to_string(dim) + " k=" + std::to_string(k));
  typedef gaussian_kernel<float> KK;
  const KK kern{};
  density_sketch<float, KK> s(k, dim, kern);
  Model<float> m;
  observe(s, m, r, "construction", k, dim, kern);
  const int n = int(r.range(1, 2 * k + 2));
  for (int i = 0; i < n; ++i) {
    std::vector<float> p(dim, 0.0f);
    const float sc = 1.0f / std::sqrt(float(dim));
    for (uint32_t j = 0; j < dim; ++j) p[j] = float(r.unit()) * sc;   // dense: every coordinate carries information
    for (int j = 0; j < 8; ++j) p[r.below(dim)] = float(r.unit());
    s.update(p); m.pts.push_back(p); m.n++;
  }
  observe(s, m, r, "updates", k, dim, kern);
  {  // the image read back through both paths holds the same points; then the stream continues
    std::stringstream ss; s.serialize(ss);
    auto viastream = density_sketch<float, KK>::deserialize(ss, kern);
    observe(viastream, m, r, "stream-roundtrip", k, dim, kern);
    auto bytes = s.serialize();
    auto viabytes = density_sketch<float, KK>::deserialize(bytes.data(), bytes.size(), kern);
    observe(viabytes, m, r, "bytes-roundtrip", k, dim, kern);
    std::vector<float> p(dim, 0.25f / std::sqrt(float(dim)));
    viastream.update(p); m.pts.push_back(p); m.n++;
    observe(viastream, m, r, "update-after-stream-roundtrip", k, dim, kern);
    count("huge_dimension_roundtrips");
  }
  if (dim >= 65536) VF_CHECK(throws([&] { s.update(std::vector<float>(dim & 0xffff ? (dim & 0xffff) : 3, 1.0f)); }), "density|gauss-f32|wrong-dimension-update-accepted|dim-mod-65536", G().cur_desc);
  count("huge_dimension_cases");
}


// many levels: a tiny sketch merged with a copy of itself ~40 times (n doubles each time, one level more every step or two);
// iteration weights must stay 2^level beyond level 31
static void deep_levels_case(Rng& r) {
  typedef gaussian_kernel<double> KK;
  const KK kern{};
  const uint16_t k = uint16_t(r.range(2, 6));
  const uint32_t dim = uint32_t(r.range(1, 3));
  describe("deep levels k=" + std::to_string(k) + " dim=" + std::to_string(dim));
  random_utils::rand.seed(r.next()); random_utils::random_bit.seed(uint32_t(r.next()));
  density_sketch<double, KK> s(k, dim, kern);
  Model<double> m;
  const int n0 = int(r.range(k + 1, 4 * k));
  for (int i = 0; i < n0; ++i) { std::vector<double> p(dim); for (auto& x : p) x = (r.unit() - 0.5) * 4; s.update(p); m.pts.push_back(p); m.n++; }
  unsigned max_levels = 0;
  for (int step = 0; step < 42; ++step) {
    density_sketch<double, KK> copy(s);
    if (r.coin()) s.merge(copy); else s.merge(std::move(copy));
    m.n *= 2;
    if (step >= 28 || r.chance(0.2)) observe(s, m, r, "merge with a copy of itself, step " + std::to_string(step + 1), k, dim, kern);
    auto img = s.serialize(); std::vector<uint8_t> iv(img.begin(), img.end());
    uint32_t idim = 0, iret = 0; uint64_t in = 0; std::vector<uint32_t> lv;
    if (decode_levels(iv, sizeof(double), idim, iret, in, lv)) max_levels = std::max<unsigned>(max_levels, unsigned(lv.size()));
  }
  if (max_levels >= 33) count("deep_levels_cases_beyond_level_32");
  count("deep_levels_cases");
}

void run_case(uint64_t idx, Rng& r) {
  if (idx % 97 == 23) { deep_levels_case(r); return; }
  if (idx % 97 == 11) { huge_dimension_case(r); return; }
  switch (r.below(9)) {
    case 8: program<double, indicator_kernel<double>>(r); count("integer_valued_kernel_programs"); break;
    case 7: program<double, amplitude_kernel<double>>(r); count("huge_amplitude_kernel_programs"); break;
    case 6: program<float, amplitude_kernel<float>>(r); count("huge_amplitude_kernel_programs"); break;
    case 5: program<double, bandwidth_kernel<double>>(r); count("stateful_kernel_programs"); break;
    case 0: program<float, gaussian_kernel<float>>(r); break;
    case 1: program<double, gaussian_kernel<double>>(r); break;
    case 2: program<float, laplace_kernel<float>>(r); break;
    case 3: program<double, laplace_kernel<double>>(r); break;
    default: program<double, compact_kernel<double>>(r); break;
  }
}

} // namespace vf
