// C08 (REQ unit) — ranks unbiased over the coin flips (exhaustive over the coin tree for small
// scenarios, HRA and LRA, including compactions that reuse the negated coin and the coin drawn by the
// deserializing constructor) and within the sketch's own rank bounds (sampled, fixed seeds).
#include "vf/c08_common.hpp"
#include <req_sketch.hpp>

using namespace datasketches;
namespace vf {

struct ReqFam {
  typedef req_sketch<c08::Item, c08::Cmp> SK;
  static const char* name() { static const std::string n = std::string("req") + c08::item_tag(); return n.c_str(); }
  // cfg = k + 1000 * hra
  static SK make(int cfg) {
    SK fresh = SK(static_cast<uint16_t>(cfg % 1000), cfg >= 1000, c08::cmp_instance());
#if defined(C08_CMP_DESC)
    // history 'serialize an empty sketch -> deserialize with the comparator instance -> keep using it' for 2 of 3 sketches
    const unsigned mode = static_cast<unsigned>((c08::make_salt() + c08::make_seq()++) % 3);
    if (mode == 1) { auto b = fresh.serialize(); return SK::deserialize(b.data(), b.size(), serde<c08::Item>(), c08::cmp_instance()); }
    if (mode == 2) { std::stringstream ss(std::ios::in | std::ios::out | std::ios::binary); fresh.serialize(ss); return SK::deserialize(ss, serde<c08::Item>(), c08::cmp_instance()); }
#endif
    return fresh;
  }
  static std::string cfg_text(int cfg) { return "k=" + std::to_string(cfg % 1000) + (cfg >= 1000 ? " HRA" : " LRA"); }
#if defined(C08_ITEM_SELFMOVE)
  static bool allow_rt() { return false; }
#else
  static bool allow_rt() { return true; }
#endif
  static int len_quantum(int cfg) { (void)cfg; return 0; }
  static int chunk_quantum(int cfg) { (void)cfg; return 0; }
  static bool has_exact_region() { return true; }
  // serialize + deserialize through a stream image or a byte image
#if defined(C08_ITEM_SELFMOVE)
  static SK roundtrip_image(const SK& s, bool) { return s; }
#else
  static SK roundtrip_image(const SK& s, bool bytes) {
    if (bytes) { auto b = s.serialize(); return SK::deserialize(b.data(), b.size(), serde<c08::Item>(), c08::cmp_instance()); }
    std::stringstream ss(std::ios::in | std::ios::out | std::ios::binary);
    s.serialize(ss);
    return SK::deserialize(ss, serde<c08::Item>(), c08::cmp_instance());
  }
#endif
  static std::string published_error_text(const SK& s) { return "lb(0.5,1)=" + str(s.get_rank_lower_bound(0.5, 1)) + " ub(0.5,1)=" + str(s.get_rank_upper_bound(0.5, 1)); }
  static bool within_published(const SK& s, double est, double tr) { return s.get_rank_lower_bound(est, 3) - 1e-12 <= tr && tr <= s.get_rank_upper_bound(est, 3) + 1e-12; }
  // the sketch publishes zero error at this rank (within 3k/n of the accurate end, or not in estimation mode)
  static bool exact_claim(const SK& s, double true_rank) { return s.get_rank_lower_bound(true_rank, 3) == s.get_rank_upper_bound(true_rank, 3); }
#if defined(C08_ITEM_SELFMOVE)
  static SK roundtrip(const SK& s) { return s; }
#else
  static SK roundtrip(const SK& s) {
    std::stringstream ss(std::ios::in | std::ios::out | std::ios::binary);
    s.serialize(ss);
    return SK::deserialize(ss, serde<c08::Item>(), c08::cmp_instance());
  }
#endif
  static int forced_hra;   // -1 random
  static void gen_cfgs(Rng& r, int nsk, std::vector<int>& cfg) {
    const int hra = forced_hra >= 0 ? forced_hra : static_cast<int>(r.below(2));
    const int mode = static_cast<int>(r.below(10));
    int k = 4;
    if (mode == 0) k = 6;
    cfg.assign(static_cast<size_t>(nsk), k + 1000 * hra);
    if (mode == 1) for (auto& c : cfg) c = static_cast<int>(r.pick({4, 4, 6, 8})) + 1000 * hra;    // mixed k (merge does not require equal k)
  }
  static int mixed_cfg(int cfg, int) { return cfg; }
  static const double* mixed_cuts() { return nullptr; }
};
int ReqFam::forced_hra = -1;
static std::string FN() { return ReqFam::name(); }   // "req" / "req-string" / "req-selfmove": prefix of keys and counters

const char* property_id() { return "C08"; }
unsigned case_timeout_s() { return 3000; }
void final_report() {}

// REQ sampled cell: true rank inside [get_rank_lower_bound(est, 3), get_rank_upper_bound(est, 3)]
static void sampled_cell_req(const c08::Cell& c, Rng& r) {
  typedef ReqFam::SK SK;
  const bool hra = c.cfg >= 1000;
  const std::string ctx = c08::cell_text(ReqFam::name(), ReqFam::cfg_text(c.cfg), c);
  describe(ctx);
  // k=4 (the minimum) has its own key class: there the number of sections can never grow (section size cannot shrink
  // below MIN_K), so the error outgrows the n-independent published bounds -- a different defect than a bound failure at k >= 6
  const std::string kp = (c.cfg % 1000) == 4 ? std::string(FN() + "|sampled|min-k-4|")
                                             : std::string(FN() + "|sampled|") + (hra ? "hra|" : "lra|") + (c.merge == 0 ? "single-stream" : (c.merge == 3 ? "merge-into-fresh-then-stream" : "merge-4way")) + "|";
  c08::Truth t = c08::make_truth(c, r);
  // query points: 60 log-spaced towards the accurate end, 40 uniform
  std::vector<size_t> qs;
  const double dmin = 2.0 / static_cast<double>(c.n);
  for (int i = 0; i < 60; ++i) {
    const double d = 0.5 * std::pow(dmin / 0.5, i / 59.0);     // distance from the accurate end: 0.5 .. 2/n
    qs.push_back(c08::value_at_rank(t, hra ? 1.0 - d : d));
  }
  for (int i = 0; i < 40; ++i) qs.push_back(c08::value_at_rank(t, (i + 0.5) / 40.0));
  std::sort(qs.begin(), qs.end()); qs.erase(std::unique(qs.begin(), qs.end()), qs.end());
  std::vector<size_t> zq; for (size_t i = 0; i < qs.size(); i += std::max<size_t>(1, qs.size() / 24)) zq.push_back(qs[i]);
  std::vector<c08::Welford> zacc(zq.size());
  std::vector<double> floor_hw(zq.size(), 0.0);
  c08::Welford frac, frac_near;     // per-trial fraction of (query, criterion) pairs inside the 3-sigma bounds; near = within 1% of the accurate end
  uint64_t near_literal_out = 0, exact_true_claims = 0;
  const double unit = 1.0 / static_cast<double>(c.n);
  uint64_t pairs = 0, pairs_ok = 0, near_pairs = 0, near_ok = 0, exact_claims = 0;
  std::string worst; double worst_excess = 0;
  std::vector<float> stream = t.stream;
  for (int trial = 0; trial < c.trials; ++trial) {
    const uint64_t s = r.next();
    random_utils::random_bit.script = nullptr;
    random_utils::random_bit.seed(static_cast<uint32_t>(s));
    random_utils::rand.seed(s ^ 0x9e3779b97f4a7c15ULL);
    if (c.order == 1 || c.order == 2) r.shuffle(stream);
    std::unique_ptr<SK> sk = c08::feed<ReqFam>(c, stream);
    VF_CHECK(sk->get_n() == c.n, kp + "n-not-true-n", ctx + " get_n=" + std::to_string(sk->get_n()));
    { std::string why; const bool vok = c08::sorted_view_consistent(*sk, c.n, why, &t.dv);
      VF_CHECK(vok, kp + (why.find("never an input") != std::string::npos ? "retained-item-not-an-input" : "sorted-view-not-sorted"), ctx + " trial=" + std::to_string(trial) + " " + why); }
    { std::string why; const bool qok = c08::queries_match_fresh_view(*sk, why); VF_CHECK(qok, kp + "query-answer-differs-from-current-sorted-view", ctx + " trial=" + std::to_string(trial) + " " + why); }
    uint64_t ok = 0, tot = 0, nok = 0, ntot = 0;
    for (size_t q : qs) {
      for (int incl = 0; incl < 2; ++incl) {
        const double est = sk->get_rank(c08::enc(t.dv[q]), incl == 1);
        const double tr = t.rank(q, incl == 1);
        const double lb = sk->get_rank_lower_bound(est, 3), ub = sk->get_rank_upper_bound(est, 3);
        const bool in = (lb - 1e-12 <= tr) && (tr <= ub + 1e-12);
        const bool near = hra ? tr >= 0.99 : tr <= 0.01;
        if (ReqFam::exact_claim(*sk, tr)) {   // deterministic: zero error published at the TRUE rank -> estimate must be that rank in every run
          exact_true_claims++;
          VF_CHECK(std::fabs(est - tr) <= 1e-12, kp + "rank-not-exact-where-zero-error-is-published",
                   ctx + " trial=" + std::to_string(trial) + " v=" + str(t.dv[q]) + (incl ? " inclusive" : " exclusive") + " true_rank=" + str(tr) + " get_rank=" + str(est));
        }
        if (lb == ub) exact_claims++;
        tot++; ok += in;
        // near the accurate end the claimed sigma drops below the rank resolution 1/n (e.g. k=12, n=1e4, rank 0.005: 3 sigma
        // = 1.6 items while every retained item above level 0 weighs >= 2), so for this subset one unit of rank resolution
        // is allowed; the all-pairs criterion above stays literal
        if (near) { ntot++; nok += ((lb - unit - 1e-12 <= tr) && (tr <= ub + unit + 1e-12)); near_literal_out += !in; }
        if (!in) {
          const double ex = tr < lb ? lb - tr : tr - ub;
          if (ex > worst_excess) { worst_excess = ex; worst = " worst: v=" + str(t.dv[q]) + " true=" + str(tr) + " est=" + str(est) + " lb=" + str(lb) + " ub=" + str(ub); }
        }
      }
    }
    frac.add(static_cast<double>(ok) / static_cast<double>(tot));
    if (ntot) frac_near.add(static_cast<double>(nok) / static_cast<double>(ntot));
    pairs += tot; pairs_ok += ok; near_pairs += ntot; near_ok += nok;
    for (size_t i = 0; i < zq.size(); ++i) zacc[i].add(sk->get_rank(c08::enc(t.dv[zq[i]]), true));
    if (trial + 1 == c.trials) {
      // claimed one-sigma half width at the true rank (depends on k, hra, n and the number of levels only): scale of the sigma floor
      for (size_t i = 0; i < zq.size(); ++i) {
        const double tr = t.rank(zq[i], true);
        floor_hw[i] = (sk->get_rank_upper_bound(tr, 1) - sk->get_rank_lower_bound(tr, 1)) / 2;
      }
    }
    if (sk->is_estimation_mode()) count(FN() + "_smp_trials_estimation_mode");
    count(FN() + "_smp_trials");
  }
  const double T = c.trials;
  auto thr_of = [&](const c08::Welford& w, double per_trial_pairs) {
    const double se = std::max(std::sqrt(w.var() / T), std::sqrt(0.997 * 0.003 / (T * std::max(1.0, per_trial_pairs))));
    return 0.997 - 0.02 - 4 * se;
  };
  const double thr = thr_of(frac, static_cast<double>(pairs) / T);
  const double thr_near = thr_of(frac_near, static_cast<double>(near_pairs) / T);
  const std::string res = ctx + " pairs=" + std::to_string(pairs) + " frac_inside_3sd=" + str(frac.mean) + " threshold=" + str(thr) +
    " near_accurate_end_pairs=" + std::to_string(near_pairs) + " frac_inside_near=" + str(frac_near.mean) + " threshold_near=" + str(thr_near) +
    " (one rank unit 1/n allowed; literally outside: " + std::to_string(near_literal_out) + ") exact_claims=" + std::to_string(exact_claims) + worst;
  VF_CHECK(frac.mean >= thr, kp + "true-rank-outside-3sd-bounds-too-often", res);
  if (near_pairs) VF_CHECK(frac_near.mean >= thr_near, kp + "true-rank-outside-3sd-bounds-too-often-near-accurate-end", res);
  std::vector<double> floors(zq.size());
  for (size_t i = 0; i < zq.size(); ++i) floors[i] = floor_hw[i] / 2;
  c08::mean_rank_test(kp, ctx, t, zq, zacc, floors, c.trials < 50 ? 12.0 : 6.5);   // few trials: Student tails
  count(FN() + "_smp_cells");
  count(hra ? FN() + "_smp_cells_hra" : FN() + "_smp_cells_lra");
  if ((c.cfg % 1000) == 4) count(FN() + "_smp_cells_min_k");
  if (c.merge) count(FN() + "_smp_cells_merged");
  if (c.merge == 3) count(FN() + "_smp_cells_merge_into_fresh_then_stream");
  count(std::string(FN() + "_smp_cells_") + c08::order_name(c.order));
  count(FN() + "_smp_pairs", pairs);
  count(FN() + "_smp_pairs_near_accurate_end", near_pairs);
  count(FN() + "_smp_pairs_exact_claim", exact_claims);
  count(FN() + "_smp_exact_asserts", exact_true_claims);
  count(FN() + "_smp_pairs_outside_bounds", pairs - pairs_ok);
  count(FN() + "_smp_pairs_near_end_literally_outside_bounds", near_literal_out);
  sig(mix64(mix64(c.n, static_cast<uint64_t>(c.cfg)), mix64(static_cast<uint64_t>(c.order * 4 + c.merge), pairs_ok)));
  if (getenv("C08_VERBOSE")) fprintf(stderr, "%s\n", res.c_str());
  if (want_sample()) sample("{\"part\":\"sampled\",\"cell\":" + jstr(res) + "}");
}

// ---- deterministic exact-region sweeps -----------------------------------------------------------
// For every item whose TRUE rank r (either criterion) lies where the sketch publishes zero error (lb(r,3) == ub(r,3)),
// get_rank must return r exactly, in every seeded run.  `sorted` = all items that reached the sketch, ascending.
struct ExactStats { uint64_t asserts = 0, asserts_est_mode = 0, sketches = 0, sketches_est_mode = 0; };
static bool check_exact_region(const ReqFam::SK& s, const std::vector<float>& sorted, int k, bool hra, const std::string& key, const std::string& ctx, ExactStats& st) {
  const size_t n = sorted.size();
  if (n == 0) return true;
  const bool est_mode = s.is_estimation_mode();
  st.sketches++; if (est_mode) st.sketches_est_mode++;
  const size_t span = std::min<size_t>(n, static_cast<size_t>(3 * k + 2));   // only the 3k items at the accurate end (plus margin) can have a rank in the region
  float prev = 0; bool first = true;
  for (size_t j = 0; j < span; ++j) {
    const float v = sorted[hra ? n - 1 - j : j];
    if (!first && v == prev) continue;
    first = false; prev = v;
    const uint64_t below = static_cast<uint64_t>(std::lower_bound(sorted.begin(), sorted.end(), v) - sorted.begin());
    const uint64_t atmost = static_cast<uint64_t>(std::upper_bound(sorted.begin(), sorted.end(), v) - sorted.begin());
    for (int incl = 0; incl < 2; ++incl) {
      const double tr = static_cast<double>(incl ? atmost : below) / static_cast<double>(n);
      if (!ReqFam::exact_claim(s, tr)) continue;
      const double est = s.get_rank(c08::enc(v), incl == 1);
      st.asserts++; if (est_mode) st.asserts_est_mode++;
      checked();
      if (std::fabs(est - tr) > 1e-12) {
        fail(key, ctx + " n=" + std::to_string(n) + " v=" + str(v) + (incl ? " inclusive" : " exclusive") + " true_rank=" + str(tr) + " (" + std::to_string(incl ? atmost : below) + "/" +
             std::to_string(n) + ") get_rank=" + str(est) + " (" + str(est * static_cast<double>(n)) + "/" + std::to_string(n) + ") published lb=ub=" + str(s.get_rank_lower_bound(tr, 3)));
        return false;
      }
    }
  }
  return true;
}
static void insert_sorted(std::vector<float>& v, float x) { v.insert(std::upper_bound(v.begin(), v.end(), x), x); }
static void flush_exact(const ExactStats& st) {
  count(FN() + "_exact_asserts", st.asserts);
  count(FN() + "_exact_asserts_estimation_mode", st.asserts_est_mode);
  count(FN() + "_exact_sketches_checked", st.sketches);
  count(FN() + "_exact_sketches_checked_estimation_mode", st.sketches_est_mode);
}

// plain streams: every n in 1..nmax along growing streams (4 arrival orders, queried after every update) and a fresh,
// never-queried sketch for every n in 1..nfresh
static void exact_stream_case(int k, bool hra, Rng& r) {
  const bool T = G().thorough();
  const int nmax = T ? 12000 : 3000, nfresh = (T ? 80 : 40) * k;
  const std::string ctx0 = std::string("req exact-region plain stream k=") + std::to_string(k) + (hra ? " HRA" : " LRA");
  describe(ctx0 + " nmax=" + std::to_string(nmax) + " nfresh=" + std::to_string(nfresh));
  const std::string key = FN() + "|exact-region|single-stream|rank-not-exact-where-zero-error-is-published";
  ExactStats st;
  std::vector<float> perm(static_cast<size_t>(nmax));
  for (int i = 0; i < nmax; ++i) perm[static_cast<size_t>(i)] = static_cast<float>(i);
  r.shuffle(perm);
  static const char* onames[] = {"random", "ascending", "descending", "duplicates"};
  for (int order = 0; order < 4; ++order) {
    const uint32_t seed = static_cast<uint32_t>(r.next());
    random_utils::random_bit.script = nullptr; random_utils::random_bit.seed(seed);
    ReqFam::SK s(ReqFam::make(k + (hra ? 1000 : 0)));
    std::vector<float> sorted;
    bool ok = true;
    for (int i = 0; i < nmax && ok; ++i) {
      const float v = order == 0 ? perm[static_cast<size_t>(i)] : order == 1 ? static_cast<float>(i) : order == 2 ? static_cast<float>(nmax - i) : static_cast<float>(r.below(static_cast<uint64_t>(nmax / 8)));
      s.update(c08::enc(v)); insert_sorted(sorted, v);
      ok = check_exact_region(s, sorted, k, hra, key, ctx0 + " order=" + onames[order] + " coin_seed=" + std::to_string(seed) + " (queried after every update)", st);
    }
    count(FN() + "_exact_stream_lengths", static_cast<uint64_t>(nmax));
  }
  {
    std::vector<float> sorted;
    bool ok = true;
    for (int n = 1; n <= nfresh && n <= nmax && ok; ++n) {
      const uint32_t seed = static_cast<uint32_t>(r.next());
      random_utils::random_bit.seed(seed);
      ReqFam::SK s(ReqFam::make(k + (hra ? 1000 : 0)));
      for (int i = 0; i < n; ++i) s.update(c08::enc(perm[static_cast<size_t>(i)]));
      insert_sorted(sorted, perm[static_cast<size_t>(n - 1)]);
      ok = check_exact_region(s, sorted, k, hra, key, ctx0 + " order=random fresh sketch coin_seed=" + std::to_string(seed), st);
      count(FN() + "_exact_stream_lengths");
    }
  }
  flush_exact(st);
  count(FN() + "_exact_stream_cases");
  sig(mix64(mix64(static_cast<uint64_t>(k), hra), st.asserts));
}

// two-sketch merges: for a list of n1, every n2 in 1..25k; merged copy in alternating direction (a<-b, b<-a), every third by move
static void exact_merge_case(int k, bool hra, Rng& r) {
  const bool T = G().thorough();
  const int N = 25 * k;
  std::vector<int> n1s = {36, 78, 85, 1, 3 * k, 3 * k + 1, 6 * k, 6 * k + 1};
  const int extra = T ? 150 : 56;
  for (int i = 0; i < extra; ++i) n1s.push_back(static_cast<int>(r.range(1, N)));
  const std::string ctx0 = std::string("req exact-region two-sketch merge k=") + std::to_string(k) + (hra ? " HRA" : " LRA");
  describe(ctx0 + " n1 values=" + std::to_string(n1s.size()) + " n2=1.." + std::to_string(N));
  const std::string key = FN() + "|exact-region|merge-2way|rank-not-exact-where-zero-error-is-published";
  ExactStats st;
  size_t li = 0;
  for (int n1 : n1s) {
    if (n1 > N) n1 = N;
    const bool overlap = (li++ % 4) == 3;          // a and b draw from one small domain (ties across the two sketches)
    const uint32_t seed = static_cast<uint32_t>(r.next());
    random_utils::random_bit.script = nullptr; random_utils::random_bit.seed(seed);
    ReqFam::SK a(ReqFam::make(k + (hra ? 1000 : 0))), b(ReqFam::make(k + (hra ? 1000 : 0)));
    std::vector<float> all;
    std::vector<float> pa(static_cast<size_t>(n1)), pb(static_cast<size_t>(N));
    for (int i = 0; i < n1; ++i) pa[static_cast<size_t>(i)] = overlap ? static_cast<float>(r.below(static_cast<uint64_t>(N))) : static_cast<float>(2 * i);
    for (int i = 0; i < N; ++i) pb[static_cast<size_t>(i)] = overlap ? static_cast<float>(r.below(static_cast<uint64_t>(N))) : static_cast<float>(2 * i + 1);
    r.shuffle(pa); r.shuffle(pb);
    for (float v : pa) { a.update(c08::enc(v)); insert_sorted(all, v); }
    bool ok = true;
    for (int n2 = 1; n2 <= N && ok; ++n2) {
      b.update(c08::enc(pb[static_cast<size_t>(n2 - 1)])); insert_sorted(all, pb[static_cast<size_t>(n2 - 1)]);
      const int dir = n2 % 3;
      ReqFam::SK c(dir == 1 ? b : a);
      if (dir == 0) c.merge(b);
      else if (dir == 1) c.merge(a);
      else { ReqFam::SK tmp(b); c.merge(std::move(tmp)); }
      ok = check_exact_region(c, all, k, hra, key, ctx0 + " n1=" + std::to_string(n1) + " n2=" + std::to_string(n2) + (dir == 1 ? " b.merge(a)" : dir == 0 ? " a.merge(b)" : " a.merge(move(b))") +
                              (overlap ? " overlapping values" : "") + " coin_seed=" + std::to_string(seed), st);
      count(FN() + "_exact_merge_pairs");
    }
  }
  flush_exact(st);
  count(FN() + "_exact_merge_cases");
  sig(mix64(mix64(static_cast<uint64_t>(k), hra ? 3 : 2), st.asserts));
}
static const int EXACT_KS[5] = {4, 6, 8, 12, 20};
static const uint64_t NEXACT_FULL = 20;   // 5 k x HRA/LRA x {stream, merge}
static const uint64_t VARIANT_EXACT[4] = {2, 8, 13, 17};   // k=8 LRA stream, k=12 HRA stream, k=12 LRA merge, k=8 HRA merge

// ---- case layout -------------------------------------------------------------------------------
// the non-arithmetic item variants (-DC08_ITEM_STRING / -DC08_ITEM_SELFMOVE) run a reduced case list: no f >= 15 scenarios,
// sampled cells with n = 1e4 only
#ifdef C08_ITEM_NONARITH
static const bool VARIANT = true;
#else
static const bool VARIANT = false;
#endif
static const int NEXH_Q = VARIANT ? 36 : 64, NEXH_T = VARIANT ? 200 : 640;
static std::vector<c08::Cell> cells(bool T) {
  std::vector<c08::Cell> v;
  const int tr = T ? 2000 : 120;
  if (T) for (int k : {12, 50}) for (int hra : {1, 0}) for (int merge : {0, 1}) v.push_back(c08::Cell{k + 1000 * hra, 1000000, 1, merge, 300});
  for (uint64_t n : {100000ULL, 10000ULL}) for (int k : {12, 50}) for (int hra : {1, 0}) for (int order : {0, 1, 2}) for (int merge : {0, 1})
    v.push_back(c08::Cell{k + 1000 * hra, n, order, merge, tr});
  v.push_back(c08::Cell{1012, 10000, 3, 0, tr});
  v.push_back(c08::Cell{12, 10000, 3, 1, tr});
  // an older sketch merged into a fresh one, then a long stream (section growth after a merge must keep up); k >= 6
  v.push_back(c08::Cell{1012, T ? uint64_t(1050000) : uint64_t(630000), 1, 3, T ? 60 : 14});
  v.push_back(c08::Cell{20, T ? uint64_t(1050000) : uint64_t(420000), 1, 3, T ? 60 : 14});
  // smallest k
  v.push_back(c08::Cell{1004, 10000, 1, 0, tr});
  v.push_back(c08::Cell{4, 10000, 1, 1, tr});
  if (T) { v.push_back(c08::Cell{1004, 100000, 1, 0, tr}); v.push_back(c08::Cell{4, 100000, 1, 1, tr}); v.push_back(c08::Cell{1200, 100000, 1, 1, 1000}); v.push_back(c08::Cell{1006, 100000, 1, 0, tr}); }
  if (VARIANT) { std::vector<c08::Cell> w; for (auto c : v) if (c.n == 10000 && (c.cfg % 1000) != 4) { c.trials = T ? 400 : 60; w.push_back(c); } return w; }
  return v;
}
uint64_t num_cases(bool thorough) { return static_cast<uint64_t>(thorough ? NEXH_T : NEXH_Q) + cells(thorough).size() + (VARIANT ? 4 : NEXACT_FULL) + (VARIANT ? 0 : 2); }

void run_case(uint64_t idx, Rng& r) {
  c08::make_salt() = idx; c08::make_seq() = 0;
  const bool T = G().thorough();
  const uint64_t nexh = static_cast<uint64_t>(T ? NEXH_T : NEXH_Q);
  if (idx < nexh) {
    if (VARIANT) idx += T ? 32 : 8;   // skip the heaviest windows
    const bool want_merge = (idx % 2) == 1;
    ReqFam::forced_hra = static_cast<int>((idx / 2) % 2);
    int fmin, fmax;
    if (T) {
      if (idx < 32) { fmax = 18; fmin = 17; } else if (idx < 200) { fmax = static_cast<int>(r.range(14, 16)); fmin = fmax - 1; }
      else { fmax = static_cast<int>(r.range(1, 13)); fmin = std::max(0, fmax - 1); }
    } else {
      if (idx < 4) { fmax = 16; fmin = 15; } else if (idx < 24) { fmax = static_cast<int>(r.range(12, 14)); fmin = fmax - 1; }
      else { fmax = static_cast<int>(r.range(1, 11)); fmin = std::max(0, fmax - 1); }
    }
    c08::exhaustive_case<ReqFam>(r, want_merge, fmin, fmax);
  } else {
    const auto cs = cells(T);
    try {
      if (idx - nexh < cs.size()) sampled_cell_req(cs[idx - nexh], r);
      else {
        const uint64_t pos = idx - nexh - cs.size();
        if (!VARIANT && pos >= NEXACT_FULL) { if (pos == NEXACT_FULL) c08::doubling_case<ReqFam>(1012, 3000, 34, T ? 6 : 2, r); else c08::doubling_case<ReqFam>(20, 3000, 34, T ? 6 : 2, r); return; }
        const uint64_t e = VARIANT ? VARIANT_EXACT[pos] : pos;       // 0..19
        const int k = EXACT_KS[e % 5]; const bool hra = ((e / 5) % 2) == 1;
        if (e < 10) exact_stream_case(k, hra, r); else exact_merge_case(k, hra, r);
      }
    } catch (const std::exception& e) { checked(); fail(FN() + "|sampled|exception-in-valid-usage", G().cur_desc + " what=" + e.what()); }
  }
}

} // namespace vf
