// C09 — serialization round trip of the quantile sketches: KLL (-DC09_Q=1), REQ HRA/LRA (-DC09_Q=2),
// classic quantiles (-DC09_Q=3); item types float / double / int64 / std::string / custom serde type.
#if !defined(C09_Q) || !defined(C09_QT)
#error "compile with -DC09_Q=1 (KLL), 2 (REQ) or 3 (classic quantiles) and -DC09_QT=1 (float, double, int64 items) or 2 (std::string, custom serde items)"
#endif
#include "vf/core.hpp"
#include "vf/gen.hpp"
#include "vf/c09_rt.hpp"
#include "vf/c09_rec.hpp"
#if C09_Q == 1
#include <kll_sketch.hpp>
#elif C09_Q == 2
#include <req_sketch.hpp>
#else
#include <quantiles_sketch.hpp>
#endif

using namespace datasketches;
namespace vf {
using namespace c09;

const char* property_id() { return "C09"; }
unsigned case_timeout_s() { return 120; }
uint64_t num_cases(bool thorough) { return C09_QT == 1 ? (thorough ? 30000 : 1500) : (thorough ? 20000 : 1000); }
void final_report() {}

// ------------------------------------------------------------------ item types
template<typename T> struct Item;
template<> struct Item<float> {
  typedef serde<float> SerDe; static const char* name() { return "float"; }
  static float gen(Rng& r) { return r.chance(0.03) ? (r.coin() ? INFINITY : -0.0f) : static_cast<float>(r.range(-2000, 2000)) * 0.125f; }
  static size_t max_size() { return 4; }
  static float zeroish(Rng& r) { return r.chance(0.45) ? -0.0f : (r.chance(0.8) ? 0.0f : gen(r)); }
};
template<> struct Item<double> {
  typedef serde<double> SerDe; static const char* name() { return "double"; }
  static double gen(Rng& r) { return r.chance(0.03) ? (r.coin() ? -INFINITY : 1e300) : std::ldexp(static_cast<double>(r.range(-100000, 100000)), static_cast<int>(r.range(-20, 20))); }
  static size_t max_size() { return 8; }
  static double zeroish(Rng& r) { return r.chance(0.45) ? -0.0 : (r.chance(0.8) ? 0.0 : gen(r)); }
};
template<> struct Item<int64_t> {
  typedef serde<int64_t> SerDe; static const char* name() { return "int64"; }
  static int64_t gen(Rng& r) { return r.chance(0.05) ? (r.coin() ? INT64_MIN : INT64_MAX) : (r.chance(0.5) ? r.range(-50, 50) : static_cast<int64_t>(r.next())); }
  static int64_t zeroish(Rng& r) { return r.range(0, 2); }
  static size_t max_size() { return 8; }
};
template<> struct Item<std::string> {
  typedef serde<std::string> SerDe; static const char* name() { return "string"; }
  static std::string gen(Rng& r) { std::string s; const size_t l = r.chance(0.1) ? 0 : r.below(r.chance(0.1) ? 30 : 6); for (size_t i = 0; i < l; ++i) s += static_cast<char>(r.chance(0.1) ? r.below(256) : 'a' + r.below(26)); return s; }
  static std::string zeroish(Rng& r) { return r.coin() ? std::string() : std::string(1, static_cast<char>('a' + r.below(2))); }
  static size_t max_size() { return 4 + 30; }
};
template<> struct Item<Rec> {
  typedef RecSerde SerDe; static const char* name() { return "custom"; }
  static Rec gen(Rng& r) { Rec x; x.a = static_cast<int32_t>(r.range(-300, 300)); const size_t l = r.below(5); for (size_t i = 0; i < l; ++i) x.s += static_cast<char>('a' + r.below(26)); return x; }
  static Rec zeroish(Rng& r) { return Rec(static_cast<int32_t>(r.below(2)), std::string()); }
  static size_t max_size() { return 5 + 4; }
};

// ------------------------------------------------------------------ sketch kinds
#if C09_Q == 1
template<typename T> struct Kind {
  typedef kll_sketch<T> S;
  static const char* name() { return "kll"; }
  static uint16_t gen_k(Rng& r) { return static_cast<uint16_t>(r.chance(0.7) ? r.range(8, 24) : r.range(25, 200)); }
  static S make(uint16_t k, bool) { return S(k); }
  static void extra(Obs& o, const S& s) { o.add("nre", s.get_normalized_rank_error(false)).add("nre_pmf", s.get_normalized_rank_error(true)); }
  static bool reduced_after(const S&) { return false; }
};
#elif C09_Q == 2
template<typename T> struct Kind {
  typedef req_sketch<T> S;
  static const char* name() { return "req"; }
  static uint16_t gen_k(Rng& r) { return static_cast<uint16_t>(2 * r.range(2, r.chance(0.8) ? 6 : 25)); }
  static S make(uint16_t k, bool hra) { return S(k, hra); }
  static void extra(Obs& o, const S& s) {
    o.add("hra", s.is_HRA());
    for (double rk : {0.0, 0.01, 0.5, 0.99, 1.0}) for (uint8_t sd = 1; sd <= 3; ++sd) {
      o.call("rlb" + std::to_string(sd) + "@" + str(rk), [&] { return s.get_rank_lower_bound(rk, sd); });
      o.call("rub" + std::to_string(sd) + "@" + str(rk), [&] { return s.get_rank_upper_bound(rk, sd); });
    }
  }
  // the compaction coin is not part of the image: once compactions happened only n/min/max/total weight are comparable
  static bool reduced_after(const S& s) { return s.is_estimation_mode(); }
};
#else
template<typename T> struct Kind {
  typedef quantiles_sketch<T> S;
  static const char* name() { return "classic"; }
  static uint16_t gen_k(Rng& r) { return static_cast<uint16_t>(1u << r.range(1, r.chance(0.8) ? 4 : 7)); }
  static S make(uint16_t k, bool) { return S(k); }
  static void extra(Obs& o, const S& s) { o.add("nre", s.get_normalized_rank_error(false)).add("nre_pmf", s.get_normalized_rank_error(true)); }
  static bool reduced_after(const S&) { return false; }
};
#endif

// ------------------------------------------------------------------ read-out
template<typename T> static T zero_canon(const T& v) { return v; }
static inline float zero_canon(float v) { return v == 0 ? 0.0f : v; }
static inline double zero_canon(double v) { return v == 0 ? 0.0 : v; }

// trace of (n : retained items) written by the continuation every few updates; how many items a sketch retains at any
// moment is a function of the sizes alone (no coin is involved), so it is compared even for REQ in estimation mode
static std::string g_cont_trace;

template<typename T, typename S>
static std::string observe_q(const S& s, bool reduced) {
  Obs o;
  o.add("k", static_cast<uint32_t>(s.get_k())).add("n", s.get_n()).add("empty", s.is_empty());
  // min / max are compared up to comparator equivalence (-0.0 and +0.0 are the same minimum; REQ recomputes them
  // from the retained items when the image holds no compaction yet)
  o.call("min", [&] { return std::string(item_str(zero_canon(s.get_min_item()))); });
  o.call("max", [&] { return std::string(item_str(zero_canon(s.get_max_item()))); });
  // retained items with weights (as a multiset: the order inside a level is not part of the contract)
  std::vector<std::pair<T, uint64_t>> items;
  uint64_t total = 0;
  for (auto it = s.begin(); it != s.end(); ++it) { items.push_back(std::pair<T, uint64_t>((*it).first, (*it).second)); total += (*it).second; }
  o.add("total_weight", total);
  if (reduced) { o.add("retained", s.get_num_retained()); return o.s; }
  o.add("retained", s.get_num_retained()).add("iterated", static_cast<uint64_t>(items.size())).add("estimation", s.is_estimation_mode());
  Kind<T>::extra(o, s);
  // equivalent items (e.g. -0.0 and +0.0) are further ordered by weight and printed form, so the read-out does not depend on their order
  std::vector<std::string> printed(items.size());
  std::vector<size_t> ix(items.size());
  for (size_t i = 0; i < items.size(); ++i) { ix[i] = i; printed[i] = item_str(items[i].first); }
  std::sort(ix.begin(), ix.end(), [&](size_t a, size_t b) {
    if (items[a].first < items[b].first) return true;
    if (items[b].first < items[a].first) return false;
    if (items[a].second != items[b].second) return items[a].second < items[b].second;
    return printed[a] < printed[b]; });
  { std::vector<std::pair<T, uint64_t>> sorted; for (size_t i : ix) sorted.push_back(items[i]); items.swap(sorted); }
  std::string all;
  for (auto& p : items) all += item_str(p.first) + "*" + std::to_string(p.second) + ",";
  o.raw("items", all);
  // ranks at a grid of probe items, quantiles at a grid of ranks, CDF/PMF at split points
  std::vector<T> probes;
  if (!items.empty()) {
    const size_t step = std::max<size_t>(1, items.size() / 12);
    for (size_t i = 0; i < items.size(); i += step) if (probes.empty() || probes.back() < items[i].first) probes.push_back(items[i].first);
    if (probes.back() < items.back().first) probes.push_back(items.back().first);
  }
  for (int inc = 0; inc < 2; ++inc) {
    const std::string tag = inc ? "i" : "e";
    std::string rk;
    for (auto& p : probes) { try { rk += Obs::f64(s.get_rank(p, inc == 1)) + ","; } catch (const std::exception&) { rk += "throws,"; } }
    o.raw("ranks_" + tag, rk);
    std::string qs;
    for (double q : {0.0, 0.001, 0.01, 0.1, 0.25, 0.5, 0.75, 0.9, 0.99, 0.999, 1.0}) { try { qs += item_str(static_cast<T>(s.get_quantile(q, inc == 1))) + ","; } catch (const std::exception&) { qs += "throws,"; } }
    o.raw("quantiles_" + tag, qs);
    if (!probes.empty()) {
      try { std::string c; for (double v : s.get_CDF(probes.data(), static_cast<uint32_t>(probes.size()), inc == 1)) c += Obs::f64(v) + ","; o.raw("cdf_" + tag, c); } catch (const std::exception&) { o.raw("cdf_" + tag, "throws"); }
      try { std::string c; for (double v : s.get_PMF(probes.data(), static_cast<uint32_t>(probes.size()), inc == 1)) c += Obs::f64(v) + ","; o.raw("pmf_" + tag, c); } catch (const std::exception&) { o.raw("pmf_" + tag, "throws"); }
    }
  }
  if (items.empty()) { o.call("rank_on_empty", [&] { return s.get_rank(T(), true); }); o.call("quantile_on_empty", [&] { return item_str(static_cast<T>(s.get_quantile(0.5, true))); }); }
  return o.s;
}

// ------------------------------------------------------------------ one case
#if C09_Q == 1
template<typename T> typename std::enable_if<std::is_arithmetic<T>::value, size_t>::type kll_max(uint16_t k, uint64_t n) { return kll_sketch<T>::get_max_serialized_size_bytes(k, n); }
template<typename T> typename std::enable_if<!std::is_arithmetic<T>::value, size_t>::type kll_max(uint16_t k, uint64_t n) { return kll_sketch<T>::get_max_serialized_size_bytes(k, n, Item<T>::max_size()); }
#endif

template<typename T>
static void case_q(Rng& r) {
  describe(std::string(Kind<T>::name()) + "<" + Item<T>::name() + "> (generating state)");
  typedef Kind<T> K;
  typedef typename K::S S;
  typedef typename Item<T>::SerDe SD;
  const unsigned cls = static_cast<unsigned>(r.below(13));
  // (classic: the base buffer of the equivalent-items class must be able to hold more than 16 items)
  // (REQ section-shrink class: k whose section size, divided by sqrt(2), is not near an even integer, so that rounding to
  //  the nearest even number and truncating disagree: 10 -> 7.07, 14 -> 9.9, 22 -> 15.6, 30 -> 21.2, 50 -> 35.4, 58 -> 41.0, 70 -> 49.5, 90 -> 63.6)
  static const uint16_t shrink_k[] = {10, 14, 22, 30, 50, 58, 70, 90};
  const bool shrink_cls = C09_Q == 2 && cls == 10;
  const uint16_t k = shrink_cls ? shrink_k[r.below(8)] : (C09_Q == 3 && cls == 8) ? static_cast<uint16_t>(32u << r.below(2)) : K::gen_k(r);
  const bool hra = r.coin();
  // capacity scale: the first compaction happens around 2k (KLL k.., REQ ~ 2*k*sections, classic 2k)
  const uint64_t unit = C09_Q == 2 ? 6ULL * k : 2ULL * k;
  uint64_t n = 0; const char* desc = "";
  switch (cls) {
    case 0: n = 0; desc = "empty"; break;
    case 1: n = 1; desc = "single"; break;
    case 2: n = 2 + r.below(4); desc = "few"; break;            // REQ stores up to 4 raw items
    case 3: n = 4 + r.below(4); desc = "few-boundary"; break;
    case 4: n = 1 + r.below(unit); desc = "exact"; break;
    case 5: n = unit - 2 + r.below(5); desc = "boundary"; break;
    case 6: n = unit + r.below(4 * unit); desc = "estimation"; break;
    case 7: n = 5 * unit + r.below(G().thorough() ? 200 * unit : 40 * unit); desc = "estimation-deep"; break;
    case 8: n = 17 + r.below(3 * unit); desc = "equivalent-items"; break;
    case 9: n = r.chance(0.2) ? 1024 : static_cast<uint64_t>(r.range(1000, 1023)); desc = "huge-n"; break;   // doubled below to just below / on / above 2^32   // many items that compare equal (floats: -0.0 / +0.0 differ bitwise)
    case 10: if (shrink_cls) { n = 100ULL * k + r.below(900ULL * k); desc = "section-shrink"; } else desc = "post-merge"; break;   // level 0 has halved its section size at least once
    default: desc = "post-merge"; break;
  }
  const std::string fam = std::string(K::name()) + "<" + Item<T>::name() + ">";
  pin_random(r.next());
  std::unique_ptr<S> sk(new S(K::make(k, hra)));
  bool uniform_k = true;
  if (cls <= 7 || shrink_cls) {
    for (uint64_t i = 0; i < n; ++i) sk->update(Item<T>::gen(r));
  } else if (cls == 8) {
    for (uint64_t i = 0; i < n; ++i) sk->update(Item<T>::zeroish(r));
  } else if (cls == 9) {
    // n beyond 32 bits: the sketch is merged with a copy of itself 22 or 23 times (b*2^22 < 2^32 <= b*2^23 for b in 1000..1023)
    for (uint64_t i = 0; i < n; ++i) sk->update(Item<T>::gen(r));
    const unsigned d = r.chance(0.4) ? 22 : 23;
    for (unsigned i = 0; i < d; ++i) { S copy(*sk); sk->merge(copy); }
    n = sk->get_n();
    count(std::string(K::name()) + (n >> 32 ? "_n_at_or_above_2^32" : "_n_just_below_2^32"));
  } else {
    const uint64_t n1 = r.chance(0.2) ? r.below(5) : r.below(6 * unit), n2 = r.chance(0.2) ? r.below(5) : r.below(6 * unit);
    for (uint64_t i = 0; i < n1; ++i) sk->update(Item<T>::gen(r));
    const uint16_t k2 = r.chance(0.6) ? k : K::gen_k(r);
    uniform_k = k2 == k;
    S other(K::make(k2, hra));
    for (uint64_t i = 0; i < n2; ++i) other.update(Item<T>::gen(r));
    if (r.chance(0.3) && !other.is_empty()) (void)other.get_quantile(0.5);   // a query in between sorts level 0 / the base buffer
    if (r.coin()) sk->merge(other); else { other.merge(*sk); *sk = other; }
    n = n1 + n2;
  }
  bool has_long = false;
  { T li; if (cls >= 2 && r.chance(0.08) && LongItem<T>::make(r, li)) { sk->update(li); has_long = true; uniform_k = false; } }   // > 64 KiB item (the maximum, so it stays in the image)
  if (r.chance(0.3) && !sk->is_empty()) (void)sk->get_rank(Item<T>::gen(r));   // queried before serialisation (sorted flag set)
  describe(fam + " k=" + std::to_string(k) + " hra=" + std::to_string(hra) + " " + desc + " n=" + std::to_string(n));
  count(fam + "_" + desc);
  if (sk->is_estimation_mode()) count(fam + "_estimation_mode");
#if C09_Q == 2
  count(std::string("req_") + (sk->is_HRA() ? "HRA" : "LRA"));
  if (sk->get_n() >= 2 && sk->get_n() <= 4) count("req_raw_items_2_to_4");
#endif
  sig(mix64(mix64(k, sk->get_n()), mix64(sk->get_num_retained(), std::hash<std::string>()(fam) + hra)));

  Ops<S> o;
  o.fam = fam;
  {
    // state class of its own: the sketch retains items that compare equal but are not identical (-0.0 / +0.0)
    std::vector<T> its;
    for (auto it = sk->begin(); it != sk->end(); ++it) its.push_back((*it).first);
    std::sort(its.begin(), its.end(), [](const T& a, const T& b) { return a < b; });
    bool mixed = false;
    for (size_t i = 1; i < its.size() && !mixed; ++i) mixed = !(its[i - 1] < its[i]) && item_str(its[i - 1]) != item_str(its[i]);
    // (sorting leaves equivalent items adjacent but in any order: look at whole runs)
    for (size_t i = 0; i < its.size() && !mixed; ) { size_t j = i + 1; while (j < its.size() && !(its[i] < its[j])) { if (item_str(its[i]) != item_str(its[j])) mixed = true; ++j; } i = j; }
    if (mixed) { o.fam += "|equivalent-nonidentical-items"; count(std::string(K::name()) + "_equivalent_nonidentical_items"); }
  }
  o.to_bytes = [](const S& s, unsigned h) { return to_std_bytes(s.serialize(h, SD())); };
  o.to_stream = [](const S& s, std::ostream& os) { s.serialize(os, SD()); };
  o.from_bytes = [](const void* p, size_t n2) { return S::deserialize(p, n2, SD()); };
  o.from_stream = [](std::istream& is) { return S::deserialize(is, SD()); };
  o.advertised = [](const S& s) { return static_cast<long long>(s.get_serialized_size_bytes(SD())); };
#if C09_Q == 1
  if (uniform_k) o.max_size = [k](const S& s) { return static_cast<long long>(kll_max<T>(k, s.get_n())); };
#endif
  o.observe = [](const S& s) { return observe_q<T>(s, false); };
  o.observe_after = [](const S& s) { return observe_q<T>(s, K::reduced_after(s)) + "trace=" + g_cont_trace + ";"; };
  // a long continuation (several nominal capacities) for about a third of the cases that already compact, and always for the shrink class
  const bool long_cont = shrink_cls || (sk->is_estimation_mode() && cls != 9 && r.chance(0.3));
  o.cont = [k, hra, unit, long_cont](S& s, Rng& cr) {
    g_cont_trace.clear();
    const uint64_t m = long_cont ? 4 * unit + cr.below(4 * unit) : (cr.chance(0.3) ? cr.below(6) : cr.below(3 * unit));
    for (uint64_t i = 0; i < m; ++i) {
      s.update(Item<T>::gen(cr));
      if ((i & 7) == 7 || i + 1 == m) g_cont_trace += std::to_string(s.get_n()) + ":" + std::to_string(s.get_num_retained()) + ",";
    }
    if (long_cont) count(std::string(K::name()) + "_long_continuations");
    if (cr.chance(0.5)) {
      S other(K::make(cr.chance(0.7) ? k : K::gen_k(cr), hra));
      const uint64_t m2 = cr.below(4 * unit);
      for (uint64_t i = 0; i < m2; ++i) other.update(Item<T>::gen(cr));
      if (cr.coin()) s.merge(other); else { other.merge(s); s = other; }
      g_cont_trace += "merged " + std::to_string(s.get_n()) + ":" + std::to_string(s.get_num_retained()) + ",";
    }
    if (K::reduced_after(s)) count("req_continuation_reduced_compare"); else count(std::string(K::name()) + "_continuation_full_compare");
  };
  (void)uniform_k;
  const Result res = roundtrip(o, *sk, r, G().cur_desc);
#if C09_Q == 2
  if (res.ok && std::is_arithmetic<T>::value && res.image.size() >= 8 && res.image[0] == 4 && !(res.image[3] & 4)) {
    // level-0 compactor of an estimation-mode image: [state u64][section_size_raw f32][lg_weight u8][num_sections u8]...
    const size_t off = 8 + 8 + 2 * sizeof(T);
    if (res.image.size() >= off + 14) {
      float raw; memcpy(&raw, &res.image[off + 8], 4);
      const unsigned sections = res.image[off + 13];
      if (raw < static_cast<float>(k)) {
        count("req_restored_after_section_shrink");
        const uint64_t nominal = 2ULL * sections * (static_cast<uint64_t>(std::lround(raw / 2)) * 2);
        if (long_cont && 4 * unit >= 2 * nominal) count("req_shrunk_continued_2x_nominal_capacity");
        const uint32_t ne = static_cast<uint32_t>(std::lround(raw / 2)) * 2, tr = static_cast<uint32_t>(raw) & ~1u;
        if (ne != tr) count("req_shrunk_section_not_near_even");
      }
    }
  }
#endif
  if (has_long && res.ok && res.image.size() > 65536) count(std::string(K::name()) + "_long_string_in_image");
}

void run_case(uint64_t idx, Rng& r) {
  const uint64_t slot = idx / 16 + idx;
#if C09_QT == 1
  switch (slot % 3) {
    case 0: case_q<float>(r); break;
    case 1: case_q<double>(r); break;
    default: case_q<int64_t>(r); break;
  }
#else
  if (slot % 2) case_q<std::string>(r); else case_q<Rec>(r);
#endif
}

} // namespace vf
