// C09 — serialization round trip: compact Theta (uncompressed v3 + compressed v4 + wrapped access),
// compact Tuple (arithmetic / std::string / custom-serde summaries) and array-of-doubles sketches.
// One case = one sketch state of one family; all header sizes, both paths, three restore routes.
#ifndef C09_PART
#error "compile with -DC09_PART=1 (theta, array of doubles), 2 (tuple) or 3 (array tuple sketches over float / int32 / int16 / uint8 values)"
#endif
#include "vf/core.hpp"
#include "vf/gen.hpp"
#include "vf/c09_rt.hpp"
#include "vf/c09_rec.hpp"
#include <theta_sketch.hpp>
#include <theta_union.hpp>
#include <theta_intersection.hpp>
#include <theta_a_not_b.hpp>
#include <tuple_sketch.hpp>
#include <tuple_union.hpp>
#include <tuple_intersection.hpp>
#include <tuple_a_not_b.hpp>
#include <array_of_doubles_sketch.hpp>

using namespace datasketches;
namespace vf {
using namespace c09;

const char* property_id() { return "C09"; }
unsigned case_timeout_s() { return 120; }
uint64_t num_cases(bool thorough) { return C09_PART == 1 ? (thorough ? 60000 : 3000) : C09_PART == 2 ? (thorough ? 45000 : 2400) : (thorough ? 30000 : 1600); }
void final_report() {}

static const uint64_t MAXT = 0x7fffffffffffffffULL;

// ------------------------------------------------------------------ custom summary policies (Rec: vf/c09_rec.hpp)
struct RecUpdatePolicy {
  Rec create() const { return Rec(); }
  void update(Rec& r, const Rec& u) const { r += u; }
};
struct RecMergePolicy { void operator()(Rec& a, const Rec& b) const { a += b; } };

template<typename V> static std::string item_str(const array<V>& a) { std::string o = "["; for (uint8_t i = 0; i < a.size(); ++i) o += item_str(static_cast<V>(a[i])) + ","; return o + "]"; }

// ------------------------------------------------------------------ read-out of any theta-like sketch
template<typename SK, typename EF>
static std::string observe_thetalike(const SK& s, EF entry_to_string) {
  Obs o;
  o.add("empty", s.is_empty()).add("ordered", s.is_ordered()).add("theta64", s.get_theta64()).add("theta", s.get_theta())
   .add("retained", s.get_num_retained()).add("seed_hash", static_cast<uint32_t>(s.get_seed_hash()))
   .add("estimation", s.is_estimation_mode()).add("estimate", s.get_estimate());
  for (uint8_t k = 1; k <= 3; ++k) o.add("lb" + std::to_string(k), s.get_lower_bound(k)).add("ub" + std::to_string(k), s.get_upper_bound(k));
  std::vector<std::string> es;
  for (auto it = s.begin(); it != s.end(); ++it) es.push_back(entry_to_string(*it));
  o.add("iterated", static_cast<uint64_t>(es.size()));
  if (!s.is_ordered()) std::sort(es.begin(), es.end());   // order of an unordered sketch is unspecified
  std::string all;
  for (auto& e : es) { all += e; all += ','; }
  o.raw("entries", all);
  return o.s;
}

static std::string observe_theta(const compact_theta_sketch& s) {
  return observe_thetalike(s, [](uint64_t h) { return std::to_string(h); });
}
template<typename S, typename SK> static std::string observe_tuple(const SK& s) {
  return observe_thetalike(s, [](const std::pair<uint64_t, S>& e) { return std::to_string(e.first) + "=" + item_str(e.second); });
}

// ------------------------------------------------------------------ canonical entry order of unordered images
static uint64_t rd64(const uint8_t* p) { uint64_t v; memcpy(&v, p, 8); return v; }

// theta v3: [pre][3][type][..][flags@5][seedhash] ; entries start at 8*pre
static Bytes canon_theta(const Bytes& b) {
  if (b.size() < 8 || b[1] != 3) return b;
  if (b[5] & (1 << 4)) return b;            // ordered
  const size_t off = 8 * static_cast<size_t>(b[0]);
  if (off > b.size() || (b.size() - off) % 8) return b;
  std::vector<uint64_t> e((b.size() - off) / 8);
  for (size_t i = 0; i < e.size(); ++i) e[i] = rd64(&b[off + 8 * i]);
  std::sort(e.begin(), e.end());
  Bytes o(b);
  for (size_t i = 0; i < e.size(); ++i) memcpy(&o[off + 8 * i], &e[i], 8);
  return o;
}
// tuple: records (key, summary) start at 8*pre; summary length from the serde layout
template<typename LenF> static Bytes canon_tuple(const Bytes& b, LenF summary_len) {
  if (b.size() < 8) return b;
  if (b[5] & (1 << 4)) return b;
  const size_t off = 8 * static_cast<size_t>(b[0]);
  if (off > b.size()) return b;
  std::vector<Bytes> recs;
  size_t p = off;
  while (p < b.size()) {
    if (p + 8 > b.size()) return b;
    const size_t l = summary_len(&b[p + 8], b.size() - p - 8);
    if (l == SIZE_MAX || p + 8 + l > b.size()) return b;
    recs.push_back(Bytes(b.begin() + p, b.begin() + p + 8 + l));
    p += 8 + l;
  }
  std::sort(recs.begin(), recs.end(), [](const Bytes& x, const Bytes& y) { return rd64(x.data()) < rd64(y.data()); });
  Bytes o(b.begin(), b.begin() + off);
  for (auto& rr : recs) o.insert(o.end(), rr.begin(), rr.end());
  return o;
}
// array of doubles: 16 bytes preamble+theta, [count u32, unused u32], keys[n], values[n][nv]; flags@4 (ordered = bit 4), nv@5
// array tuple sketch: 16 bytes preamble+theta, [count u32, unused u32], keys[n], values[n][nv] of vw bytes each; flags@4 (ordered = bit 4), nv@5
static Bytes canon_array_tuple(const Bytes& b, size_t vw) {
  if (b.size() < 24) return b;
  if (b[4] & (1 << 4)) return b;
  const size_t nv = b[5];
  uint32_t n; memcpy(&n, &b[16], 4);
  if (24 + static_cast<size_t>(n) * (8 + vw * nv) != b.size()) return b;
  std::vector<size_t> ix(n);
  for (size_t i = 0; i < n; ++i) ix[i] = i;
  std::sort(ix.begin(), ix.end(), [&](size_t x, size_t y) { return rd64(&b[24 + 8 * x]) < rd64(&b[24 + 8 * y]); });
  Bytes o(b);
  for (size_t i = 0; i < n; ++i) {
    memcpy(&o[24 + 8 * i], &b[24 + 8 * ix[i]], 8);
    if (nv) memcpy(&o[24 + 8 * n + vw * nv * i], &b[24 + 8 * n + vw * nv * ix[i]], vw * nv);
  }
  return o;
}

// ------------------------------------------------------------------ state generation helpers
struct Cfg { uint8_t lg_k; float p; uint64_t seed; int rf; };
static Cfg gen_cfg(Rng& r) {
  Cfg c;
  c.lg_k = static_cast<uint8_t>(r.range(5, G().thorough() ? 9 : 7));
  static const float ps[] = {1.0f, 1.0f, 1.0f, 0.5f, 0.05f, 0.001f};
  c.p = ps[r.below(6)];
  c.seed = r.chance(0.6) ? DEFAULT_SEED : r.next();
  c.rf = static_cast<int>(r.below(4));
  return c;
}
// number of updates by state class
static uint64_t gen_n(Rng& r, uint64_t k, const char** cls) {
  switch (r.below(8)) {
    case 0: *cls = "empty"; return 0;
    case 1: *cls = "single"; return 1;
    case 2: *cls = "few"; return 2 + r.below(8);
    case 3: case 4: *cls = "exact"; return 1 + r.below(k);
    case 5: *cls = "boundary"; return k - 2 + r.below(5);
    default: *cls = "estimation"; return k + 1 + r.below(7 * k);
  }
}
static update_theta_sketch build_theta_update(const Cfg& c) {
  return update_theta_sketch::builder().set_lg_k(c.lg_k).set_p(c.p).set_seed(c.seed).set_resize_factor(static_cast<update_theta_sketch::resize_factor>(c.rf)).build();
}

// hand-written v3 image with chosen hashes: the state an exact/estimating sketch of a huge stream would reach;
// used to sweep the entry-bit width of the compressed format
static compact_theta_sketch crafted_theta(Rng& r, uint64_t seed, unsigned bits, std::string& desc) {
  const unsigned n = static_cast<unsigned>(r.chance(0.25) ? r.range(1, 15) : r.range(16, 70));
  std::vector<uint64_t> e;
  uint64_t prev = 0;
  const uint64_t maxdelta = bits == 63 ? MAXT : ((1ULL << bits) - 1);
  // exactly the requested width: one delta has its top bit set (more where they fit), the others stay small
  // enough that n entries always fit below 2^63
  const uint64_t top = 1ULL << (bits - 1);
  const uint64_t smallcap = std::min<uint64_t>(maxdelta, 1ULL << 40);
  const uint64_t slack = 1ULL << 48;                       // > 70 * smallcap
  const unsigned big_at = static_cast<unsigned>(r.below(n));
  for (unsigned i = 0; i < n; ++i) {
    uint64_t d;
    const bool room_for_big = prev < MAXT - 2 - slack && MAXT - 2 - slack - prev >= 2 * top - 1;
    if (i == big_at || (i > big_at && r.chance(0.2) && room_for_big)) {
      const uint64_t span = std::min<uint64_t>(top, MAXT - 2 - slack - prev - top + 1);   // room above the top bit
      d = top + (span > 1 ? r.next() % span : 0);
    } else d = 1 + r.next() % smallcap;
    prev += d; e.push_back(prev);
  }
  if (e.empty()) e.push_back(1);
  const bool estimation = r.chance(0.7);
  uint64_t theta = MAXT;
  if (estimation) { const uint64_t room = MAXT - e.back(); theta = e.back() + 1 + (r.chance(0.5) ? 0 : r.next() % room); }
  const bool single_exact = e.size() == 1 && !estimation;
  const uint8_t pre = estimation ? 3 : (single_exact ? 1 : 2);
  Bytes img(8 * pre + 8 * e.size(), 0);
  img[0] = pre; img[1] = 3; img[2] = 3;
  img[5] = (1 << 3) | (1 << 1) | (1 << 4);   // compact, read-only, ordered
  const uint16_t sh = ref_seed_hash(seed); memcpy(&img[6], &sh, 2);
  if (pre > 1) { const uint32_t cnt = static_cast<uint32_t>(e.size()); memcpy(&img[8], &cnt, 4); }
  if (pre > 2) memcpy(&img[16], &theta, 8);
  memcpy(&img[8 * pre], e.data(), 8 * e.size());
  desc = "crafted bits=" + std::to_string(bits) + " n=" + std::to_string(e.size()) + " estimation=" + std::to_string(estimation);
  return compact_theta_sketch::deserialize(img.data(), img.size(), seed);
}

#if C09_PART == 1
// ------------------------------------------------------------------ THETA
// crafted_bits: 0 = natural state, else entry-bit width of a crafted ordered sketch
static void case_theta(Rng& r, unsigned crafted_bits) {
  describe("theta (generating state)");
  const Cfg c = gen_cfg(r);
  const uint64_t k = 1ULL << c.lg_k;
  const uint64_t seed = c.seed;
  std::string desc;
  const unsigned src = crafted_bits ? 9 : static_cast<unsigned>(r.below(8));
  bool ordered = r.coin();
  int lg_k_for_max = -1;
  std::unique_ptr<compact_theta_sketch> sk;
  auto fill = [&](update_theta_sketch& u, uint64_t n, uint64_t base) { for (uint64_t i = 0; i < n; ++i) u.update(base + i); };
  if (src <= 4) {
    const char* cls; const uint64_t n = gen_n(r, k, &cls);
    auto u = build_theta_update(c); fill(u, n, r.next() >> 8);
    const bool trim = r.chance(0.3); if (trim) u.trim();
    sk.reset(new compact_theta_sketch(u.compact(ordered)));
    lg_k_for_max = c.lg_k;
    desc = std::string("compact-of-update cls=") + cls + " n=" + std::to_string(n) + " trim=" + std::to_string(trim);
    count(std::string("theta_state_") + cls);
  } else if (src <= 7) {
    // post-merge states
    const char* c1; const char* c2;
    const uint64_t n1 = gen_n(r, k, &c1), n2 = gen_n(r, k, &c2);
    const uint64_t base = r.next() >> 8;
    auto a = build_theta_update(c); fill(a, n1, base);
    Cfg cb = c; cb.lg_k = static_cast<uint8_t>(r.range(5, 7)); cb.p = r.chance(0.7) ? 1.0f : 0.5f;
    auto b = build_theta_update(cb); fill(b, n2, base + (r.coin() ? n1 / 2 : n1 + 5));
    if (src == 5) {
      auto un = theta_union::builder().set_lg_k(c.lg_k).set_seed(seed).build();
      un.update(a); un.update(b);
      sk.reset(new compact_theta_sketch(un.get_result(ordered))); desc = "union-result"; count("theta_state_union_result");
    } else if (src == 6) {
      theta_intersection in(seed); in.update(a); in.update(b);
      sk.reset(new compact_theta_sketch(in.get_result(ordered))); desc = "intersection-result"; count("theta_state_intersection_result");
    } else {
      theta_a_not_b anb(seed);
      sk.reset(new compact_theta_sketch(anb.compute(a, b, ordered))); desc = "a-not-b-result"; count("theta_state_anotb_result");
    }
    desc += std::string(" ") + c1 + "/" + c2 + " n1=" + std::to_string(n1) + " n2=" + std::to_string(n2);
  } else {
    sk.reset(new compact_theta_sketch(crafted_theta(r, seed, crafted_bits, desc)));
    ordered = true;
  }
  describe("theta lg_k=" + std::to_string(c.lg_k) + " p=" + str(c.p) + " seed=" + std::to_string(seed) + " ordered=" + std::to_string(ordered) + " " + desc);
  const std::string ctx = G().cur_desc;
  if (sk->is_empty()) count("theta_empty");
  else if (sk->get_num_retained() == 1 && !sk->is_estimation_mode()) count("theta_single_item");
  else if (sk->is_estimation_mode()) count("theta_estimation_mode"); else count("theta_exact_mode");
  if (!sk->is_empty() && sk->get_num_retained() == 0) count("theta_nonempty_zero_retained");
  count(sk->is_ordered() ? "theta_ordered" : "theta_unordered");
  sig(mix64(mix64(sk->get_theta64(), sk->get_num_retained()), mix64(sk->is_ordered(), sk->is_empty())));

  auto cont = [seed](compact_theta_sketch& s, Rng& cr) {
    // merge the same deterministic partner into it (union / intersection / a-not-b)
    auto p = update_theta_sketch::builder().set_lg_k(5).set_seed(seed).build();
    const uint64_t n = cr.below(100), base = cr.chance(0.5) ? 0 : cr.next() >> 8;
    for (uint64_t i = 0; i < n; ++i) p.update(base + i);
    const unsigned op = static_cast<unsigned>(cr.below(3));
    const bool ord = cr.coin();
    if (op == 0) { auto un = theta_union::builder().set_lg_k(6).set_seed(seed).build(); un.update(s); un.update(p); s = un.get_result(ord); }
    else if (op == 1) { auto un = theta_union::builder().set_lg_k(5).set_seed(seed).build(); un.update(s); un.update(p); theta_intersection in(seed); in.update(un.get_result()); in.update(s); s = in.get_result(ord); }
    else { theta_a_not_b anb(seed); s = anb.compute(s, p, ord); }
  };

  for (int fmt = 0; fmt < 2; ++fmt) {
    Ops<compact_theta_sketch> o;
    const bool comp = fmt == 1;
    o.fam = comp ? "theta|compressed" : "theta|uncompressed";
    o.to_bytes = [comp](const compact_theta_sketch& s, unsigned h) { return to_std_bytes(comp ? s.serialize_compressed(h) : s.serialize(h)); };
    o.to_stream = [comp](const compact_theta_sketch& s, std::ostream& os) { if (comp) s.serialize_compressed(os); else s.serialize(os); };
    o.from_bytes = [seed](const void* p, size_t n) { return compact_theta_sketch::deserialize(p, n, seed); };
    o.from_stream = [seed](std::istream& is) { return compact_theta_sketch::deserialize(is, seed); };
    o.advertised = [comp](const compact_theta_sketch& s) { return static_cast<long long>(s.get_serialized_size_bytes(comp)); };
    if (lg_k_for_max >= 0) o.max_size = [lg_k_for_max](const compact_theta_sketch&) { return static_cast<long long>(compact_theta_sketch::get_max_serialized_size_bytes(static_cast<uint8_t>(lg_k_for_max))); };
    o.observe = observe_theta;
    o.canon = canon_theta;
    if (fmt == 1) o.cont = cont;   // continuation once (it replaces the sketch)
    compact_theta_sketch work(*sk);
    Result res = roundtrip(o, fmt == 1 ? *sk : work, r, ctx);
    if (!res.ok) continue;
    if (res.image.size() >= 2 && res.image[1] == 4) {
      count("theta_image_v4_compressed");
      // widths whose image holds at least two full 8-blocks (the block packer and the tail packer both run)
      if (work.get_num_retained() >= 16) { char b[32]; snprintf(b, sizeof b, "theta_v4_multiblock_bits_%02u", res.image[3]); count(b); }
    }
    else count(comp ? "theta_compressed_falls_back_to_v3" : "theta_image_v3");
    // wrapped read-only access over the caller's memory
    const std::string obs0 = observe_theta(work);
    try {
      std::unique_ptr<uint8_t[]> blk(new uint8_t[res.image.size()]);
      memcpy(blk.get(), res.image.data(), res.image.size());
      const auto w = wrapped_compact_theta_sketch::wrap(blk.get(), res.image.size(), seed);
      const std::string ow = observe_thetalike(w, [](uint64_t h) { return std::to_string(h); });
      if (ow != obs0) { checked(); fail(o.fam + "|wrap|observe-differs", ctx + " " + first_diff(obs0, ow)); } else checked();
      // a compact copy of the wrapped sketch is the same sketch
      compact_theta_sketch cw(w, w.is_ordered());
      const std::string oc = observe_theta(cw);
      if (oc != obs0) { checked(); fail(o.fam + "|wrap|compact-copy-observe-differs", ctx + " " + first_diff(obs0, oc)); } else checked();
      count(comp && res.image[1] == 4 ? "theta_wrap_compressed" : "theta_wrap_uncompressed");
    } catch (const std::exception& e) { checked(); fail(o.fam + "|wrap|throws", ctx + " exception: " + e.what()); }
  }
}

#endif
#if C09_PART == 2
// ------------------------------------------------------------------ TUPLE (generic over summary type)
template<typename S> struct TupleTraits;
template<> struct TupleTraits<double> {
  typedef update_tuple_sketch<double> Update; typedef serde<double> SerDe; typedef default_tuple_union_policy<double> Merge;
  static const char* name() { return "tuple<double>"; }
  static Update build(const Cfg& c) { return Update::builder().set_lg_k(c.lg_k).set_p(c.p).set_seed(c.seed).set_resize_factor(static_cast<theta_constants::resize_factor>(c.rf)).build(); }
  static double value(Rng& r) { return r.chance(0.1) ? special_double(r) : static_cast<double>(r.range(-1000, 1000)) * 0.25; }
  static size_t summary_len(const uint8_t*, size_t avail) { return avail >= 8 ? 8 : SIZE_MAX; }
};
template<> struct TupleTraits<std::string> {
  typedef update_tuple_sketch<std::string> Update; typedef serde<std::string> SerDe; typedef default_tuple_union_policy<std::string> Merge;
  static const char* name() { return "tuple<string>"; }
  static Update build(const Cfg& c) { return Update::builder().set_lg_k(c.lg_k).set_p(c.p).set_seed(c.seed).set_resize_factor(static_cast<theta_constants::resize_factor>(c.rf)).build(); }
  static std::string value(Rng& r) { std::string s; const size_t l = r.chance(0.2) ? 0 : r.below(r.chance(0.1) ? 40 : 6); for (size_t i = 0; i < l; ++i) s += static_cast<char>(r.below(256)); return s; }
  static size_t summary_len(const uint8_t* p, size_t avail) { if (avail < 4) return SIZE_MAX; uint32_t l; memcpy(&l, p, 4); return 4 + static_cast<size_t>(l); }
};
template<> struct TupleTraits<Rec> {
  typedef update_tuple_sketch<Rec, Rec, RecUpdatePolicy> Update; typedef RecSerde SerDe; typedef RecMergePolicy Merge;
  static const char* name() { return "tuple<custom>"; }
  static Update build(const Cfg& c) { return Update::builder().set_lg_k(c.lg_k).set_p(c.p).set_seed(c.seed).set_resize_factor(static_cast<theta_constants::resize_factor>(c.rf)).build(); }
  static Rec value(Rng& r) { Rec x; x.a = static_cast<int32_t>(r.range(-5, 1000)); const size_t l = r.below(5); for (size_t i = 0; i < l; ++i) x.s += static_cast<char>('a' + r.below(26)); return x; }
  static size_t summary_len(const uint8_t* p, size_t avail) { if (avail < 1) return SIZE_MAX; return 5 + static_cast<size_t>(p[0]); }
};

template<typename S>
static void case_tuple(Rng& r) {
  describe(std::string(TupleTraits<S>::name()) + " (generating state)");
  typedef TupleTraits<S> T;
  typedef compact_tuple_sketch<S> CS;
  typedef typename T::SerDe SD;
  const Cfg c = gen_cfg(r);
  const uint64_t k = 1ULL << c.lg_k;
  const uint64_t seed = c.seed;
  const std::string fam = T::name();
  const bool ordered = r.coin();
  const unsigned src = static_cast<unsigned>(r.below(10));
  std::string desc;
  bool has_long = false;
  std::unique_ptr<CS> sk;
  auto fill = [&](typename T::Update& u, uint64_t n, uint64_t base) {
    for (uint64_t i = 0; i < n; ++i) { u.update(base + i, T::value(r)); if (r.chance(0.2)) u.update(base + r.below(i + 1), T::value(r)); }
  };
  if (src <= 5) {
    const char* cls; const uint64_t n = gen_n(r, k, &cls);
    auto u = T::build(c); fill(u, n, r.next() >> 8);
    { S li; if (n > 0 && n < k && c.p == 1.0f && r.chance(0.15) && LongItem<S>::make(r, li)) { u.update(static_cast<uint64_t>(12345), li); has_long = true; } }   // > 64 KiB summary
    if (r.chance(0.3)) u.trim();
    sk.reset(new CS(u.compact(ordered)));
    desc = std::string("compact-of-update cls=") + cls + " n=" + std::to_string(n);
    count(fam + "_state_" + cls);
  } else if (src <= 8) {
    const char* c1; const char* c2;
    const uint64_t n1 = gen_n(r, k, &c1), n2 = gen_n(r, k, &c2);
    const uint64_t base = r.next() >> 8;
    auto a = T::build(c); fill(a, n1, base);
    auto b = T::build(c); fill(b, n2, base + (r.coin() ? n1 / 2 : n1 + 5));
    if (src == 6) {
      auto un = typename tuple_union<S, typename T::Merge>::builder().set_lg_k(c.lg_k).set_seed(seed).build();
      un.update(a); un.update(b); sk.reset(new CS(un.get_result(ordered))); desc = "union-result"; count(fam + "_state_union_result");
    } else if (src == 7) {
      tuple_intersection<S, typename T::Merge> in(seed); in.update(a); in.update(b);
      sk.reset(new CS(in.get_result(ordered))); desc = "intersection-result"; count(fam + "_state_intersection_result");
    } else {
      tuple_a_not_b<S> anb(seed); sk.reset(new CS(anb.compute(a, b, ordered))); desc = "a-not-b-result"; count(fam + "_state_anotb_result");
    }
    desc += std::string(" ") + c1 + "/" + c2;
  } else {
    // tuple sketch made from a theta sketch with a constant summary
    const char* cls; const uint64_t n = gen_n(r, k, &cls);
    auto u = build_theta_update(c); for (uint64_t i = 0; i < n; ++i) u.update(i);
    sk.reset(new CS(u.compact(ordered), T::value(r), ordered));
    desc = std::string("from-theta cls=") + cls; count(fam + "_state_from_theta");
  }
  describe(fam + " lg_k=" + std::to_string(c.lg_k) + " p=" + str(c.p) + " seed=" + std::to_string(seed) + " ordered=" + std::to_string(ordered) + " " + desc);
  if (sk->is_empty()) count(fam + "_empty");
  else if (sk->get_num_retained() == 1 && !sk->is_estimation_mode()) count(fam + "_single_item");
  else if (sk->is_estimation_mode()) count(fam + "_estimation_mode"); else count(fam + "_exact_mode");
  count(fam + (sk->is_ordered() ? "_ordered" : "_unordered"));
  sig(mix64(mix64(sk->get_theta64(), sk->get_num_retained()), mix64(sk->is_ordered() + 2 * sk->is_empty(), std::hash<std::string>()(fam))));

  Ops<CS> o;
  o.fam = fam;
  o.to_bytes = [](const CS& s, unsigned h) { return to_std_bytes(s.serialize(h, SD())); };
  o.to_stream = [](const CS& s, std::ostream& os) { s.serialize(os, SD()); };
  o.from_bytes = [seed](const void* p, size_t n) { return CS::deserialize(p, n, seed, SD()); };
  o.from_stream = [seed](std::istream& is) { return CS::deserialize(is, seed, SD()); };
  o.observe = [](const CS& s) { return observe_tuple<S>(s); };
  o.canon = [](const Bytes& b) { return canon_tuple(b, T::summary_len); };
  o.cont = [seed](CS& s, Rng& cr) {
    auto p = T::build(Cfg{5, 1.0f, seed, 0});
    const uint64_t n = cr.below(100);
    for (uint64_t i = 0; i < n; ++i) p.update(i, T::value(cr));
    const unsigned op = static_cast<unsigned>(cr.below(3));
    const bool ord = cr.coin();
    if (op == 0) { auto un = typename tuple_union<S, typename T::Merge>::builder().set_lg_k(6).set_seed(seed).build(); un.update(s); un.update(p); s = un.get_result(ord); }
    else if (op == 1) { auto un = typename tuple_union<S, typename T::Merge>::builder().set_lg_k(5).set_seed(seed).build(); un.update(s); un.update(p); tuple_intersection<S, typename T::Merge> in(seed); in.update(un.get_result()); in.update(s); s = in.get_result(ord); }
    else { tuple_a_not_b<S> anb(seed); s = anb.compute(s, p, ord); }
  };
  const Result res = roundtrip(o, *sk, r, G().cur_desc);
  if (has_long && res.ok && res.image.size() > 65536) count("tuple_long_string_in_image");
}

#endif
#if C09_PART == 1 || C09_PART == 3
// ------------------------------------------------------------------ ARRAY TUPLE SKETCHES (array of doubles and narrower value types)
template<typename V> struct ArrName;
template<> struct ArrName<double> { static const char* name() { return "array_of_doubles"; } };
template<> struct ArrName<float> { static const char* name() { return "array_tuple<float>"; } };
template<> struct ArrName<int32_t> { static const char* name() { return "array_tuple<int32>"; } };
template<> struct ArrName<int16_t> { static const char* name() { return "array_tuple<int16>"; } };
template<> struct ArrName<uint8_t> { static const char* name() { return "array_tuple<uint8>"; } };
template<typename V> static V arr_value(Rng& rr) {
  if (std::is_floating_point<V>::value) return rr.chance(0.05) ? static_cast<V>(special_double(rr)) : static_cast<V>(static_cast<double>(rr.range(-100, 100)) * 0.5);
  return static_cast<V>(std::is_signed<V>::value ? rr.range(-20, 20) : rr.range(0, 40));
}

template<typename V>
static void case_array(Rng& r) {
  const std::string fam = ArrName<V>::name();
  describe(fam + " (generating state)");
  typedef array<V> Arr;
  typedef update_array_tuple_sketch<Arr> US;
  typedef compact_array_tuple_sketch<Arr> CS;
  typedef default_array_tuple_union_policy<Arr> UP;
  const Cfg c = gen_cfg(r);
  const uint64_t k = 1ULL << c.lg_k;
  const uint64_t seed = c.seed;
  const uint8_t nv = static_cast<uint8_t>(r.range(1, 5));
  const bool ordered = r.coin();
  auto build = [&](uint8_t lg_k, float p) {
    return typename US::builder(default_array_tuple_update_policy<Arr>(nv)).set_lg_k(lg_k).set_p(p).set_seed(seed)
      .set_resize_factor(static_cast<theta_constants::resize_factor>(c.rf)).build();
  };
  auto fill = [&](US& u, uint64_t n, uint64_t base, Rng& rr) {
    std::vector<V> v(nv);
    for (uint64_t i = 0; i < n; ++i) { for (auto& x : v) x = arr_value<V>(rr); u.update(base + i, v); }
  };
  const unsigned src = static_cast<unsigned>(r.below(10));
  std::string desc;
  std::unique_ptr<CS> sk;
  if (src <= 5) {
    const char* cls; const uint64_t n = gen_n(r, k, &cls);
    auto u = build(c.lg_k, c.p); fill(u, n, r.next() >> 8, r);
    sk.reset(new CS(u.compact(ordered))); desc = std::string("compact-of-update cls=") + cls + " n=" + std::to_string(n);
    count(fam + "_state_" + cls);
  } else {
    const char* c1; const char* c2;
    const uint64_t n1 = gen_n(r, k, &c1), n2 = gen_n(r, k, &c2);
    const uint64_t base = r.next() >> 8;
    auto a = build(c.lg_k, c.p); fill(a, n1, base, r);
    auto b = build(c.lg_k, 1.0f); fill(b, n2, base + (r.coin() ? n1 / 2 : n1 + 5), r);
    if (src <= 7) {
      auto un = typename array_tuple_union<Arr>::builder(UP(nv)).set_lg_k(c.lg_k).set_seed(seed).build();
      un.update(a); un.update(b); sk.reset(new CS(un.get_result(ordered))); desc = "union-result"; count(fam + "_state_union_result");
    } else if (src == 8) {
      array_tuple_intersection<Arr, UP> in(seed, UP(nv));
      in.update(a); in.update(b); sk.reset(new CS(in.get_result(ordered))); desc = "intersection-result"; count(fam + "_state_intersection_result");
    } else {
      array_tuple_a_not_b<Arr> anb(seed); sk.reset(new CS(anb.compute(a, b, ordered))); desc = "a-not-b-result"; count(fam + "_state_anotb_result");
    }
    desc += std::string(" ") + c1 + "/" + c2;
  }
  describe(fam + " nv=" + std::to_string(nv) + " lg_k=" + std::to_string(c.lg_k) + " p=" + str(c.p) + " seed=" + std::to_string(seed) + " ordered=" + std::to_string(ordered) + " " + desc);
  if (sk->is_empty()) count(fam + "_empty");
  else if (sk->is_estimation_mode()) count(fam + "_estimation_mode"); else count(fam + "_exact_mode");
  if (sk->get_num_retained() > 0) count(fam + "_with_entries");
  count(fam + (sk->is_ordered() ? "_ordered" : "_unordered"));
  sig(mix64(mix64(sk->get_theta64(), sk->get_num_retained()), mix64(sk->is_ordered() + 2 * sk->is_empty(), std::hash<std::string>()(fam) + nv)));

  Ops<CS> o;
  o.fam = fam;
  o.to_bytes = [](const CS& s, unsigned h) { return to_std_bytes(s.serialize(h)); };
  o.to_stream = [](const CS& s, std::ostream& os) { s.serialize(os); };
  o.from_bytes = [seed](const void* p, size_t n) { return CS::deserialize(p, n, seed); };
  o.from_stream = [seed](std::istream& is) { return CS::deserialize(is, seed); };
  o.observe = [](const CS& s) { return "num_values=" + std::to_string(s.get_num_values()) + ";" + observe_tuple<Arr>(s); };
  o.canon = [](const Bytes& b) { return canon_array_tuple(b, sizeof(V)); };
  o.cont = [seed, nv, build, fill](CS& s, Rng& cr) {
    auto p = build(5, 1.0f);
    fill(p, cr.below(100), 0, cr);
    const unsigned op = static_cast<unsigned>(cr.below(3));
    const bool ord = cr.coin();
    if (op == 0) { auto un = typename array_tuple_union<Arr>::builder(UP(nv)).set_lg_k(6).set_seed(seed).build(); un.update(s); un.update(p); s = un.get_result(ord); }
    else if (op == 1) { array_tuple_intersection<Arr, UP> in(seed, UP(nv)); auto un = typename array_tuple_union<Arr>::builder(UP(nv)).set_lg_k(5).set_seed(seed).build(); un.update(s); un.update(p); in.update(un.get_result()); in.update(s); s = in.get_result(ord); }
    else { array_tuple_a_not_b<Arr> anb(seed); s = anb.compute(s, p, ord); }
  };
  roundtrip(o, *sk, r, G().cur_desc);
}

#endif

void run_case(uint64_t idx, Rng& r) {
  // the family slot does not correlate with the shard (idx % 16)
  const uint64_t slot = idx / 16 + idx;
#if C09_PART == 1
  // theta: natural states, and a systematic sweep of the compressed entry-bit width 1..63
  if (slot % 3 == 0) case_theta(r, 0); else if (slot % 3 == 1) case_theta(r, 1 + static_cast<unsigned>((idx / 3) % 63)); else case_array<double>(r);
#elif C09_PART == 3
  switch (slot % 4) {
    case 0: case_array<float>(r); break;
    case 1: case_array<int32_t>(r); break;
    case 2: case_array<int16_t>(r); break;
    default: case_array<uint8_t>(r); break;
  }
#else
  switch (slot % 3) {
    case 0: case_tuple<double>(r); break;
    case 1: case_tuple<std::string>(r); break;
    default: case_tuple<Rec>(r); break;
  }
#endif
}

} // namespace vf
