// C13 — Tuple sketches keep theta-sketch keys and exact per-key summaries.
// Unit: Summary = std::vector<int> with an APPENDING policy (non-commutative: arrival order, presentation order and
// exactly-once application of the policy are observable).
#include "vf/c13_common.hpp"

using namespace datasketches;
namespace vf {
using namespace c13;

// ------------------------------------------------------------------ std::vector<int>, appending policies
struct VecUpdatePolicy {   // STATEFUL: every summary it creates starts with the policy's tag
  int tag = 0;
  VecUpdatePolicy() {}
  explicit VecUpdatePolicy(int t): tag(t) {}
  std::vector<int> create() const { return std::vector<int>(1, tag); }
  void update(std::vector<int>& s, const int& v) const { s.push_back(v); }
};
struct VecMergePolicy {   // union / intersection: append the incoming summary to the internal one
  void operator()(std::vector<int>& a, const std::vector<int>& b) const { a.insert(a.end(), b.begin(), b.end()); }
};
struct VecSerde {
  void serialize(std::ostream& os, const std::vector<int>* items, unsigned num) const {
    for (unsigned i = 0; i < num; ++i) {
      const uint32_t n = static_cast<uint32_t>(items[i].size());
      os.write(reinterpret_cast<const char*>(&n), 4);
      os.write(reinterpret_cast<const char*>(items[i].data()), 4 * static_cast<std::streamsize>(n));
    }
  }
  void deserialize(std::istream& is, std::vector<int>* items, unsigned num) const {
    for (unsigned i = 0; i < num; ++i) {
      uint32_t n = 0; is.read(reinterpret_cast<char*>(&n), 4);
      if (!is.good() || n > (1u << 24)) throw std::runtime_error("VecSerde: bad stream");
      new (&items[i]) std::vector<int>(n);
      is.read(reinterpret_cast<char*>(items[i].data()), 4 * static_cast<std::streamsize>(n));
    }
  }
  size_t size_of_item(const std::vector<int>& v) const { return 4 + 4 * v.size(); }
  size_t serialize(void* ptr, size_t capacity, const std::vector<int>* items, unsigned num) const {
    char* p = static_cast<char*>(ptr); size_t used = 0;
    for (unsigned i = 0; i < num; ++i) {
      const uint32_t n = static_cast<uint32_t>(items[i].size());
      if (used + 4 + 4 * static_cast<size_t>(n) > capacity) throw std::runtime_error("VecSerde: buffer too small");
      memcpy(p + used, &n, 4); used += 4;
      if (n) memcpy(p + used, items[i].data(), 4 * static_cast<size_t>(n));
      used += 4 * static_cast<size_t>(n);
    }
    return used;
  }
  size_t deserialize(const void* ptr, size_t capacity, std::vector<int>* items, unsigned num) const {
    const char* p = static_cast<const char*>(ptr); size_t used = 0;
    for (unsigned i = 0; i < num; ++i) {
      uint32_t n = 0;
      if (used + 4 > capacity) throw std::runtime_error("VecSerde: truncated");
      memcpy(&n, p + used, 4); used += 4;
      if (used + 4 * static_cast<size_t>(n) > capacity) throw std::runtime_error("VecSerde: truncated");
      new (&items[i]) std::vector<int>(n);
      if (n) memcpy(items[i].data(), p + used, 4 * static_cast<size_t>(n));
      used += 4 * static_cast<size_t>(n);
    }
    return used;
  }
};

struct VecT {
  static const char* name() { return "vector"; }
  static int id() { return 2; }
  using Summary = std::vector<int>; using UV = int; using M = std::vector<int>;
  struct Cfg { int tag = 0; };
  using UpdateSketch = update_tuple_sketch<std::vector<int>, int, VecUpdatePolicy>;
  using CompactSketch = compact_tuple_sketch<std::vector<int>>;
  using BaseCompact = CompactSketch;
  using Union = tuple_union<std::vector<int>, VecMergePolicy>;
  using Intersection = tuple_intersection<std::vector<int>, VecMergePolicy>;
  using ANotB = tuple_a_not_b<std::vector<int>>;
  static const bool anotb_accepts_base_a = true;

  static Cfg gen_cfg(Rng& r) { Cfg c; c.tag = static_cast<int>(r.range(-2000000000, 2000000000)); return c; }
  static std::string cfg_str(const Cfg& c) { return "policy-tag=" + std::to_string(c.tag); }
  static UV gen_uv(Rng& r, const Cfg&) { return static_cast<int>(r.range(-1000000, 1000000)); }
  static std::string uv_str(const UV& v) { return std::to_string(v); }
  static M m_create(const Cfg& c) { return M(1, c.tag); }
  static void m_update(M& m, const UV& v) { m.push_back(v); }
  static void m_merge(M& m, const M& o) { m.insert(m.end(), o.begin(), o.end()); }
  static M read(const Summary& s) { return s; }
  static bool m_eq(const M& a, const M& b) { return a == b; }
  static std::string m_str(const M& m) {
    std::string o = "[";
    for (size_t i = 0; i < m.size() && i < 12; ++i) o += (i ? "," : "") + std::to_string(m[i]);
    if (m.size() > 12) o += ",...(" + std::to_string(m.size()) + ")";
    return o + "]";
  }
  static bool pred(const M& m, int param) {
    switch (param) {
      case 0: return m.size() % 2 == 1;
      case 1: return !m.empty() && m.back() % 2 == 0;
      case 2: { long long s = 0; for (int v : m) s += v; return s > 0; }
      default: return false;
    }
  }
  static Summary make_summary(const M& m, const Cfg&) { return m; }
  static UpdateSketch make_update(const Cfg& c, uint8_t lg_k, int rf, float p, uint64_t seed) {
    return UpdateSketch::builder(VecUpdatePolicy(c.tag)).set_lg_k(lg_k).set_resize_factor(static_cast<theta_constants::resize_factor>(rf)).set_p(p).set_seed(seed).build();
  }
  static void do_update(UpdateSketch& sk, const Val& key, const UV& uv, Rng& r, const Cfg&) {
    if (r.coin()) apply_update2(sk, key, uv); else { int tmp = uv; apply_update2(sk, key, std::move(tmp)); }
  }
  static Union make_union(const Cfg&, uint8_t lg_k, int rf, float p, uint64_t seed) {
    return Union::builder().set_lg_k(lg_k).set_resize_factor(static_cast<theta_constants::resize_factor>(rf)).set_p(p).set_seed(seed).build();
  }
  static Intersection make_inter(const Cfg&, uint64_t seed) { return Intersection(seed); }
  static ANotB make_anotb(uint64_t seed) { return ANotB(seed); }
  template<typename A, typename B> static void anotb_compute(const ANotB& anb, A&& a, const B& b, bool ro, std::unique_ptr<CompactSketch>& res) {
    res.reset(new CompactSketch(anb.compute(std::forward<A>(a), b, ro)));
  }
  template<typename R> static void check_result_cfg(const R&, const Cfg&, const std::string&, const std::string&) {}
  static CompactSketch compact_ctor(const UpdateSketch& s, bool ord) { return CompactSketch(s, ord); }
  static std::string ser_bytes(const CompactSketch& c) { return ser_bytes_g(c, VecSerde()); }
  static std::string ser_stream(const CompactSketch& c) { return ser_stream_g(c, VecSerde()); }
  static CompactSketch deser_bytes(const std::string& b, uint64_t seed, const Cfg&) { return CompactSketch::deserialize(b.data(), b.size(), seed, VecSerde()); }
  static CompactSketch deser_stream(const std::string& b, uint64_t seed, const Cfg&) { return deser_stream_g<CompactSketch>(b, seed, VecSerde()); }
};


const char* property_id() { return "C13"; }
unsigned case_timeout_s() { return 180; }
uint64_t num_cases(bool thorough) { return thorough ? 15000 : 700; }
void final_report() {}
void run_case(uint64_t idx, Rng& r) { run_typed<VecT>(idx, r); }

} // namespace vf
