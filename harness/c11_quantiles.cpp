// C11 unit: the quantile sketches — kll_sketch, req_sketch (HRA/LRA), classic quantiles_sketch; item types float and
// std::string; paths deserialize(bytes) and deserialize(std::istream).
#include "vf/c11_fault.hpp"
#include <kll_sketch.hpp>
#include <req_sketch.hpp>
#include <quantiles_sketch.hpp>

using namespace datasketches;
namespace vf { namespace c11 {

unsigned variants(bool thorough) { return thorough ? 20 : 3; }

// ------------------------------------------------------------------ items
static std::string istr(float f) { return num(static_cast<double>(f)); }
static std::string istr(const std::string& s) { return "'" + hex(s.data(), s.size()) + "'"; }

template<typename T> struct Gen;
template<> struct Gen<float> {
  static float make(Rng& r) { return static_cast<float>(r.range(-2000, 2000)) * 0.125f; }
};
template<> struct Gen<std::string> {
  static std::string make(Rng& r) {
    std::string s;
    const size_t l = r.chance(0.08) ? 0 : static_cast<size_t>(r.range(1, 12));
    for (size_t i = 0; i < l; ++i) s += static_cast<char>('a' + r.below(26));
    return s + long_pad(r);
  }
};

// ------------------------------------------------------------------ read-out (common part of the three families)
template<typename T, typename S> static std::string q_common(const S& s) {
  std::string o;
  o += "k=" + std::to_string(s.get_k()) + " n=" + std::to_string(s.get_n()) + " empty=" + std::to_string(s.is_empty()) +
       " est=" + std::to_string(s.is_estimation_mode()) + " ret=" + std::to_string(s.get_num_retained());
  if (s.is_empty()) return o;
  o += " min=" + istr(s.get_min_item()) + " max=" + istr(s.get_max_item());
  std::vector<T> items;
  uint64_t total = 0, cnt = 0;
  o += " I:";
  for (auto it = s.begin(); it != s.end(); ++it) {
    const auto p = *it;
    o += istr(p.first) + "*" + std::to_string(p.second) + ",";
    total += p.second; ++cnt;
    if (items.size() < 4096) items.push_back(p.first);
  }
  o += " iter=" + std::to_string(cnt) + " tw=" + std::to_string(total);
  std::vector<T> probes;
  if (!items.empty()) { probes.push_back(items.front()); probes.push_back(items[items.size() / 2]); probes.push_back(items[items.size() / 3]); probes.push_back(items.back()); }
  probes.push_back(s.get_min_item()); probes.push_back(s.get_max_item());
  std::sort(probes.begin(), probes.end());
  probes.erase(std::unique(probes.begin(), probes.end()), probes.end());
  for (int inc = 0; inc < 2; ++inc) {
    o += inc ? " Ri:" : " Re:";
    for (auto& p : probes) o += num(s.get_rank(p, inc == 1)) + ",";
    o += inc ? " Qi:" : " Qe:";
    for (double q : {0.0, 0.1, 0.5, 0.9, 1.0}) o += istr(static_cast<T>(s.get_quantile(q, inc == 1))) + ",";
    o += inc ? " Ci:" : " Ce:";
    for (double v : s.get_CDF(probes.data(), static_cast<uint32_t>(probes.size()), inc == 1)) o += num(v) + ",";
    o += inc ? " Pi:" : " Pe:";
    for (double v : s.get_PMF(probes.data(), static_cast<uint32_t>(probes.size()), inc == 1)) o += num(v) + ",";
  }
  return o;
}
template<typename S> static std::string ser_part(const S& s) {
  std::string o = " ser=" + hexv(s.serialize());
  std::ostringstream os; s.serialize(os); o += " sers=" + std::to_string(os.str().size());
  return o;
}

template<typename T, typename S> static void q_use(S& s, S& fresh) {
  Rng r(0x5eed);
  for (int i = 0; i < 50; ++i) s.update(Gen<T>::make(r));
  for (int i = 0; i < 40; ++i) fresh.update(Gen<T>::make(r));
  s.merge(fresh);
  for (int i = 0; i < 10; ++i) s.update(Gen<T>::make(r));
  if (!s.is_empty()) {
    (void)s.get_quantile(0.5); (void)s.get_rank(s.get_min_item()); (void)s.get_rank(s.get_max_item());
    uint64_t tw = 0; for (auto it = s.begin(); it != s.end(); ++it) tw += (*it).second;
    (void)tw;
  }
  (void)s.get_num_retained();
  (void)s.serialize();
  S copy(s);
  (void)copy.serialize();
}

// ------------------------------------------------------------------ KLL
template<typename T> static std::string kll_readout(const kll_sketch<T>& s) {
  std::string o = "kll " + q_common<T>(s);
  o += " nre=" + num(s.get_normalized_rank_error(false)) + "/" + num(s.get_normalized_rank_error(true));
  o += " str=" + std::to_string(s.to_string(true, true).size());
  o += ser_part(s);
  return o;
}
template<typename T> static void kll_use(kll_sketch<T>& s) { kll_sketch<T> fresh(16); q_use<T>(s, fresh); }
template<typename T> static std::string kll_bytes(const void* p, size_t n, bool use) {
  return accept([&] { return kll_sketch<T>::deserialize(p, n); }, kll_readout<T>, kll_use<T>, use);
}
template<typename T> static std::string kll_stream(std::istream& is, bool use) {
  return accept([&] { return kll_sketch<T>::deserialize(is); }, kll_readout<T>, kll_use<T>, use);
}

enum QK { Q_EMPTY, Q_SINGLE, Q_FEW, Q_EXACT, Q_EST, Q_MERGED, Q_BIGCFG };   // BIGCFG: large nominal k, tiny content

template<typename T> static Bytes kll_image(Rng& r, bool T_, int kind) {
  const uint16_t k = static_cast<uint16_t>(kind == Q_BIGCFG ? r.range(20000, 65535) : r.range(8, T_ ? 32 : 20));
  if (kind == Q_MERGED) {
    // a merge result whose level 0 is empty (levels[0] == levels[1] in the image); a few attempts, else whatever came last
    Bytes last;
    for (int a = 0; a < 40; ++a) {
      kll_sketch<T> s1(k), s2(k);
      const uint64_t n1 = static_cast<uint64_t>(r.range(3 * k, 8 * k)), n2 = static_cast<uint64_t>(r.range(3 * k, 8 * k));
      for (uint64_t i = 0; i < n1; ++i) s1.update(Gen<T>::make(r));
      for (uint64_t i = 0; i < n2; ++i) s2.update(Gen<T>::make(r));
      s1.merge(s2);
      auto v = s1.serialize();
      last.assign(v.begin(), v.end());
      if (last.size() >= 28 && memcmp(&last[20], &last[24], 4) == 0) break;
    }
    return last;
  }
  kll_sketch<T> s(k);
  uint64_t n = 0;
  switch (kind) {
    case Q_EMPTY: n = 0; break;
    case Q_SINGLE: n = 1; break;
    case Q_FEW: n = static_cast<uint64_t>(r.range(2, k / 2)); break;
    case Q_BIGCFG: n = static_cast<uint64_t>(r.range(3, 12)); break;
    default: n = static_cast<uint64_t>(r.range(4 * k, 12 * k)); break;
  }
  for (uint64_t i = 0; i < n; ++i) s.update(Gen<T>::make(r));
  auto v = s.serialize();
  return Bytes(v.begin(), v.end());
}

// ------------------------------------------------------------------ legacy / hand-built layouts the readers still accept
template<typename T> static void put_item(Wr& w, const T& v);
template<> void put_item<float>(Wr& w, const float& v) { w.f32(v); }
template<> void put_item<std::string>(Wr& w, const std::string& v) { w.str(v); }

// KLL, one level stored in the FULL layout (the current writer uses the short layout for a single item):
// byte0 preInts=5 1 serVer=1 2 family=15 3 flags 4-5 k 6 m=8 7 unused | u64 n | u16 minK u8 numLevels=1 u8 unused | u32 levels[0]=k-n | min | max | items
template<typename T> static Bytes kll_legacy_image(Rng& r, bool, bool single) {
  const uint16_t k = static_cast<uint16_t>(r.range(8, 40));
  const uint32_t n = single ? 1 : static_cast<uint32_t>(r.range(2, k - 1));
  std::vector<T> items; for (uint32_t i = 0; i < n; ++i) items.push_back(Gen<T>::make(r));
  const T mn = *std::min_element(items.begin(), items.end()), mx = *std::max_element(items.begin(), items.end());
  Wr w; w.u8(5).u8(1).u8(15).u8(0).u16(k).u8(8).u8(0).u64(n).u16(k).u8(1).u8(0).u32(uint32_t(k) - n);
  put_item<T>(w, mn); put_item<T>(w, mx); for (const T& v : items) put_item<T>(w, v);
  return w.b;
}

// classic quantiles: byte0 preLongs 1 serVer 2 family=8 3 flags (bit2 empty, bit3 compact, bit4 sorted) 4-5 k 6-7 unused | u64 n | min | max |
// serVer 1: preLongs 5 (one more, no longer used, long after max), never compact: 2k base-buffer slots, then the levels
// serVer 2: preLongs 2, compact flag not set but always stored compact: n mod 2k base-buffer items, then the levels whose bit is set
// serVer 3 without the compact flag: 2k base-buffer slots, then the levels
// form: 1, 2, 3 as above (non-empty); 11, 12 = empty serVer 1 / 2 (8 bytes); 13..16 = empty serVer 3 with preLongs 1|2 x compact flag
template<typename T> static Bytes cq_legacy_image(Rng& r, bool, int form) {
  const uint16_t k = static_cast<uint16_t>(1u << r.range(2, 4));
  Wr w;
  if (form >= 11) {
    if (form <= 12) { w.u8(1).u8(uint8_t(form - 10)).u8(8).u8(4).u16(k).u16(0); return w.b; }
    const uint8_t pre = (form - 13) & 1 ? 2 : 1; const bool compact = ((form - 13) & 2) != 0;
    w.u8(pre).u8(3).u8(8).u8(uint8_t(4 | (compact ? 8 : 0))).u16(k).u16(0);
    if (pre == 2) w.u64(0);
    return w.b;
  }
  static const uint64_t pats_full[] = {0, 1, 3, 7}; static const uint64_t pats_any[] = {0, 1, 2, 5, 6};
  const bool compact_storage = form == 2;
  const uint64_t pat = compact_storage ? pats_any[r.below(5)] : pats_full[r.below(4)];
  uint64_t bb = r.below(2 * k);
  if (pat == 0 && bb == 0) bb = 1;
  const uint64_t n = pat * 2 * k + bb, nbb = n % (2ULL * k);
  std::vector<T> base, all;
  for (uint64_t i = 0; i < nbb; ++i) { base.push_back(Gen<T>::make(r)); all.push_back(base.back()); }
  std::vector<std::vector<T>> levels;
  for (unsigned l = 0; (pat >> l) != 0; ++l) {
    std::vector<T> lv;
    if ((pat >> l) & 1) { for (unsigned i = 0; i < k; ++i) lv.push_back(Gen<T>::make(r)); std::sort(lv.begin(), lv.end()); for (const T& v : lv) all.push_back(v); }
    levels.push_back(lv);
  }
  const T mn = *std::min_element(all.begin(), all.end()), mx = *std::max_element(all.begin(), all.end());
  w.u8(form == 1 ? 5 : 2).u8(uint8_t(form)).u8(8).u8(0).u16(k).u16(0).u64(n);
  put_item<T>(w, mn); put_item<T>(w, mx);
  if (form == 1) w.u64(2 * k);   // formerly: allocated buffer size
  for (const T& v : base) put_item<T>(w, v);
  if (!compact_storage && pat != 0) for (uint64_t i = nbb; i < 2ULL * k; ++i) put_item<T>(w, Gen<T>::make(r));   // unused base-buffer slots
  for (const auto& lv : levels) for (const T& v : lv) put_item<T>(w, v);
  return w.b;
}

// ------------------------------------------------------------------ REQ
template<typename T> static std::string req_readout(const req_sketch<T>& s) {
  std::string o = "req hra=" + std::to_string(s.is_HRA()) + " " + q_common<T>(s);
  if (!s.is_empty()) {
    for (double rk : {0.0, 0.05, 0.5, 0.95, 1.0}) for (uint8_t sd = 1; sd <= 3; ++sd)
      o += " b" + std::to_string(sd) + "=" + num(s.get_rank_lower_bound(rk, sd)) + "/" + num(s.get_rank_upper_bound(rk, sd));
  }
  o += " str=" + std::to_string(s.to_string(true, !s.is_empty()).size());
  o += ser_part(s);
  return o;
}
template<typename T> static void req_use(req_sketch<T>& s) { req_sketch<T> fresh(6, s.is_HRA()); q_use<T>(s, fresh); }
template<typename T> static std::string req_bytes(const void* p, size_t n, bool use) {
  return accept([&] { return req_sketch<T>::deserialize(p, n); }, req_readout<T>, req_use<T>, use);
}
template<typename T> static std::string req_stream(std::istream& is, bool use) {
  return accept([&] { return req_sketch<T>::deserialize(is); }, req_readout<T>, req_use<T>, use);
}
// hra: 0 = LRA, 1 = HRA, 2 = random
template<typename T> static Bytes req_image(Rng& r, bool T_, int kind, int hra_sel) {
  const uint16_t k = static_cast<uint16_t>(kind == Q_BIGCFG ? 2 * r.range(256, 512) : 2 * r.range(2, T_ ? 8 : 6));
  const bool hra = hra_sel == 2 ? r.coin() : hra_sel == 1;
  req_sketch<T> s(k, hra);
  uint64_t n = 0;
  switch (kind) {
    case Q_EMPTY: n = 0; break;
    case Q_SINGLE: n = 1; break;
    case Q_FEW: n = static_cast<uint64_t>(r.range(2, 4)); break;
    case Q_EXACT: n = static_cast<uint64_t>(r.range(5, 2 * k)); break;
    case Q_BIGCFG: n = static_cast<uint64_t>(r.range(5, 20)); break;
    default: n = static_cast<uint64_t>(r.range(20 * k, 60 * k)); break;
  }
  for (uint64_t i = 0; i < n; ++i) s.update(Gen<T>::make(r));
  auto v = s.serialize();
  return Bytes(v.begin(), v.end());
}

// ------------------------------------------------------------------ classic quantiles
template<typename T> static std::string cq_readout(const quantiles_sketch<T>& s) {
  std::string o = "classic " + q_common<T>(s);
  o += " nre=" + num(s.get_normalized_rank_error(false)) + "/" + num(s.get_normalized_rank_error(true));
  o += " str=" + std::to_string(s.to_string(true, true).size());
  o += ser_part(s);
  return o;
}
template<typename T> static void cq_use(quantiles_sketch<T>& s) { quantiles_sketch<T> fresh(8); q_use<T>(s, fresh); }
template<typename T> static std::string cq_bytes(const void* p, size_t n, bool use) {
  return accept([&] { return quantiles_sketch<T>::deserialize(p, n); }, cq_readout<T>, cq_use<T>, use);
}
template<typename T> static std::string cq_stream(std::istream& is, bool use) {
  return accept([&] { return quantiles_sketch<T>::deserialize(is); }, cq_readout<T>, cq_use<T>, use);
}
template<typename T> static Bytes cq_image(Rng& r, bool T_, int kind) {
  const uint16_t k = static_cast<uint16_t>(1u << (kind == Q_BIGCFG ? r.range(13, 15) : r.range(2, T_ ? 5 : 4)));
  quantiles_sketch<T> s(k);
  uint64_t n = 0;
  switch (kind) {
    case Q_EMPTY: n = 0; break;
    case Q_SINGLE: n = 1; break;
    case Q_FEW: n = static_cast<uint64_t>(r.range(2, 2 * k - 1)); break;
    case Q_BIGCFG: n = static_cast<uint64_t>(r.range(3, 10)); break;
    default: n = static_cast<uint64_t>(r.range(2 * k * 3, 2 * k * 15)); break;
  }
  for (uint64_t i = 0; i < n; ++i) s.update(Gen<T>::make(r));
  auto v = s.serialize();
  return Bytes(v.begin(), v.end());
}

// ------------------------------------------------------------------ registration
template<typename T> static void add_family(std::vector<std::vector<Target>>& fam, const char* kll_name, const char* req_name, const char* cq_name) {
  struct KN { const char* name; int k; };
  {
    std::vector<Target> f;
    for (KN k : {KN{"empty", Q_EMPTY}, KN{"single", Q_SINGLE}, KN{"few", Q_FEW}, KN{"estimation", Q_EST}, KN{"merged_level0_empty", Q_MERGED}, KN{"bigcfg_few", Q_BIGCFG}}) {
      const int kk = k.k;
      BuildFn b = [kk](Rng& r, bool T_) { return kll_image<T>(r, T_, kk); };
      f.push_back({kll_name, k.name, "bytes", b, bytes_path(kll_bytes<T>)});
      f.push_back({kll_name, k.name, "stream", b, stream_path(kll_stream<T>)});
    }
    for (int single = 0; single < 2; ++single) {
      BuildFn b = [single](Rng& r, bool T_) { return kll_legacy_image<T>(r, T_, single != 0); };
      const char* name = single ? "legacy_single_item_full_layout" : "legacy_one_level_full_layout";
      f.push_back({kll_name, name, "bytes", b, bytes_path(kll_bytes<T>)});
      f.push_back({kll_name, name, "stream", b, stream_path(kll_stream<T>)});
    }
    fam.push_back(f);
  }
  {
    struct RN { const char* name; int k; int hra; };
    std::vector<Target> f;
    for (RN k : {RN{"empty", Q_EMPTY, 2}, RN{"single", Q_SINGLE, 2}, RN{"few_raw_hra", Q_FEW, 1}, RN{"few_raw_lra", Q_FEW, 0}, RN{"exact_hra", Q_EXACT, 1},
                 RN{"exact_lra", Q_EXACT, 0}, RN{"estimation_hra", Q_EST, 1}, RN{"estimation_lra", Q_EST, 0}, RN{"bigcfg_few", Q_BIGCFG, 2}}) {
      const int kk = k.k, hh = k.hra;
      BuildFn b = [kk, hh](Rng& r, bool T_) { return req_image<T>(r, T_, kk, hh); };
      // REQ preamble = preamble_ints (first byte: 2, or 4 when n follows the 8 fixed bytes) * 4; min/max items and the compactor
      // headers (state, section size, lg_weight, num_sections, num_items) come after it = "data" for the framework
      auto pre = [](const Bytes& img) -> size_t { return img.empty() ? 0 : std::max<size_t>(8, 4 * static_cast<size_t>(img[0])); };
      f.push_back({req_name, k.name, "bytes", b, bytes_path(req_bytes<T>), pre});
      f.push_back({req_name, k.name, "stream", b, stream_path(req_stream<T>), pre});
    }
    fam.push_back(f);
  }
  {
    std::vector<Target> f;
    for (KN k : {KN{"empty", Q_EMPTY}, KN{"single", Q_SINGLE}, KN{"few", Q_FEW}, KN{"estimation", Q_EST}, KN{"bigcfg_few", Q_BIGCFG}}) {
      const int kk = k.k;
      BuildFn b = [kk](Rng& r, bool T_) { return cq_image<T>(r, T_, kk); };
      f.push_back({cq_name, k.name, "bytes", b, bytes_path(cq_bytes<T>)});
      f.push_back({cq_name, k.name, "stream", b, stream_path(cq_stream<T>)});
    }
    for (KN k : {KN{"legacy_serial_version_1", 1}, KN{"legacy_serial_version_2", 2}, KN{"legacy_serial_version_3_not_compact", 3},
                 KN{"legacy_serial_version_1_empty", 11}, KN{"legacy_serial_version_2_empty", 12}, KN{"legacy_v3_empty_1_long", 13},
                 KN{"legacy_v3_empty_2_longs", 14}, KN{"legacy_v3_empty_1_long_compact", 15}, KN{"legacy_v3_empty_2_longs_compact", 16}}) {
      const int kk = k.k;
      BuildFn b = [kk](Rng& r, bool T_) { return cq_legacy_image<T>(r, T_, kk); };
      f.push_back({cq_name, k.name, "bytes", b, bytes_path(cq_bytes<T>)});
      f.push_back({cq_name, k.name, "stream", b, stream_path(cq_stream<T>)});
    }
    fam.push_back(f);
  }
}

std::vector<Target> targets() {
  std::vector<std::vector<Target>> fam;
  add_family<float>(fam, "kll_float", "req_float", "quantiles_float");
  add_family<std::string>(fam, "kll_string", "req_string", "quantiles_string");
  std::vector<Target> t;
  for (size_t i = 0;; ++i) {
    bool any = false;
    for (auto& f : fam) if (i < f.size()) { t.push_back(f[i]); any = true; }
    if (!any) break;
  }
  return t;
}

}} // namespace
