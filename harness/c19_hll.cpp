// C19 — value semantics / every byte returned: HLL sketch and union (allocator-templated classes)
#include "vf/c19_life.hpp"
#include <hll.hpp>
#include <sstream>

using namespace datasketches;
namespace vf {
const char* property_id() { return "C19"; }
unsigned case_timeout_s() { return 120; }
uint64_t num_cases(bool thorough) { return 2 * (thorough ? 3000 : 160); }
void final_report() {}

typedef track_alloc<uint8_t> A;
typedef hll_sketch_alloc<A> Hll;
typedef hll_union_alloc<A> HllU;

struct HCfg { uint8_t lg_k1, lg_k2; uint64_t domain; uint32_t max_batch; };
static HCfg gen_hcfg(Rng& r) {
  HCfg c; c.lg_k1 = static_cast<uint8_t>(r.range(4, 12)); c.lg_k2 = r.coin() ? c.lg_k1 : static_cast<uint8_t>(r.range(4, 12));
  c.domain = r.chance(0.3) ? 100 : (1ULL << 40);
  c.max_batch = r.chance(0.35) ? 6 : (r.coin() ? 80 : 3000);
  return c;
}
static std::string hcfg_str(const HCfg& c) { return "lg_k1=" + std::to_string(c.lg_k1) + " lg_k2=" + std::to_string(c.lg_k2) + " domain=" + std::to_string(c.domain) + " max_batch=" + std::to_string(c.max_batch); }
static target_hll_type pick_type(Rng& r) { return static_cast<target_hll_type>(r.below(3)); }

template<typename S> static void feed(S& s, const HCfg& c, Rng& r) {
  const uint64_t n = r.below(c.max_batch + 1);
  for (uint64_t i = 0; i < n; ++i) {
    const uint64_t v = r.below(c.domain);
    switch (r.below(4)) {
      case 0: s.update(v); break;
      case 1: s.update(std::string("s") + std::to_string(v)); break;
      case 2: s.update(static_cast<double>(v) * 0.5); break;
      default: s.update(&v, sizeof v); break;
    }
  }
}
static std::string hll_mode_of(const Hll& s) {
  auto b = s.serialize_compact();
  static const char* m[] = {"list", "set", "hll", "?"};
  static const char* t[] = {"4", "6", "8", "?"};
  if (s.is_empty() && (b[7] & 3) == 0) return std::string("empty") + t[(b[7] >> 2) & 3];
  return std::string(m[b[7] & 3]) + t[(b[7] >> 2) & 3];
}
static std::string hll_readout(const Hll& s) {
  return "lg_k=" + std::to_string(s.get_lg_config_k()) + " type=" + std::to_string(s.get_target_type()) + " empty=" + std::to_string(s.is_empty()) +
    " compact=" + std::to_string(s.is_compact()) + " est=" + dstr(s.get_estimate()) + " comp=" + dstr(s.get_composite_estimate()) + " lb=" + dstr(s.get_lower_bound(2)) + " ub=" + dstr(s.get_upper_bound(2)) +
    " cbytes=" + bytes_hex(s.serialize_compact()) + " ubytes=" + bytes_hex(s.serialize_updatable());
}

// Type-converting copies: hll_sketch(const hll_sketch&, tgt_type) / copyAs / get_result(type).  The converted copy is a
// different representation of the same sketch, so it must behave like its source through identical continued
// histories (reset() then updates, or just further updates): compared on a type-independent read-out (mode via
// the image, lg_k, emptiness, estimates, and the image after normalising both to HLL_8).
static std::string hll_type_free_readout(const Hll& s) {
  const Hll h8(s, HLL_8);
  auto img = s.serialize_compact();
  auto as8 = h8.serialize_updatable();
  // cur_min / num_at_cur_min are bookkeeping that HLL_8 arrays reached by different routes keep differently; not observable
  if (as8.size() >= 40 && (as8[7] & 3) == 2) { as8[6] = 0; memset(as8.data() + 32, 0, 4); }
  static const char* m[] = {"list", "set", "hll", "?"};
  return std::string("mode=") + m[img[7] & 3] + " lg_k=" + std::to_string(s.get_lg_config_k()) + " empty=" + std::to_string(s.is_empty()) +
    " est=" + dstr(s.get_estimate()) + " comp=" + dstr(s.get_composite_estimate()) + " lb=" + dstr(s.get_lower_bound(1)) + " ub=" + dstr(s.get_upper_bound(1)) +
    " as8=" + bytes_hex(as8);
}
// `ref` and `conv` describe the same sketch (conv was obtained by a type-converting copy); both are temporaries
static void hll_continue_both(Hll& ref, Hll& conv, const HCfg& c, Rng& r, const std::string& label) {
  const std::string fam = c19ctx().family;
  auto compare = [&](const char* stage) {
    const std::string a = hll_type_free_readout(ref), b = hll_type_free_readout(conv);
    checked();
    if (a != b) c19_fail("type-converting-copy|diverges-" + std::string(stage), label + ": " + first_diff(a, b));
  };
  compare("right-after-the-copy");
  const uint64_t seed = r.next();
  const bool with_reset = r.coin();
  for (Hll* s : {&ref, &conv}) {
    Rng t(seed);
    if (with_reset) s->reset();
    HCfg small = c; small.max_batch = t.coin() ? 3 : c.max_batch;
    feed(*s, small, t);
  }
  compare(with_reset ? "after-reset-and-updates" : "after-further-updates");
  xcount(fam + ".type_convert_" + label);
  xcount(fam + (with_reset ? ".type_convert_continued_with_reset" : ".type_convert_continued_without_reset"));
}
static void hll_type_convert_check(const Hll& o, const HCfg& c, Rng& r) {
  const target_hll_type to = pick_type(r);
  static const char* t[] = {"4", "6", "8"};
  const std::string label = std::string(t[o.get_target_type()]) + "to" + t[to] + (o.sketch_impl->isStartFullSize() ? "_full_size" : "_lazy");
  Hll ref(o);          // same-type copy (its own equality with o is checked by the copy-construct operations)
  Hll conv(o, to);     // converting copy
  hll_continue_both(ref, conv, c, r, label);
}

struct HllFam {
  typedef Hll Obj; typedef HCfg Cfg;
  static const char* name() { return "hll"; }
  static Cfg gen_cfg(Rng& r) { return gen_hcfg(r); }
  static std::string cfg_str(const Cfg& c) { return hcfg_str(c); }
  static void construct(void* mem, const Cfg& c, Arena* a, Rng& r) { new (mem) Hll(r.coin() ? c.lg_k1 : c.lg_k2, pick_type(r), r.chance(0.2), A(a)); }
  static void mutate(Obj& o, const Cfg& c, Rng& r, Arena*) { if (r.chance(0.35)) hll_type_convert_check(o, c, r); feed(o, c, r); }
  static std::string readout(const Obj& o, const Cfg&) { return hll_readout(o); }
  static void query(const Obj& o, const Cfg& c, Rng& r) {
    (void)o.get_lower_bound(1); (void)o.get_upper_bound(3);
    hll_type_convert_check(o, c, r);
    (void)o.get_compact_serialization_bytes(); (void)o.get_updatable_serialization_bytes();
  }
  static const bool SINGLE_INSTANCE = true;
  static Arena* arena_of(const Obj& o) { return o.sketch_impl->getAllocator().arena; }   // private member: -fno-access-control
  static const bool HAS_MERGE_REF = false, HAS_MERGE_MOVE = false, HAS_RESET = true, HAS_ROUNDTRIP = true;
  static void merge_ref(Obj&, const Obj&, const Cfg&) {}
  static void merge_move(Obj&, Obj&&, const Cfg&) {}
  static void reset(Obj& o, const Cfg&) { o.reset(); }
  static void roundtrip(void* mem, const Obj& src, const Cfg&, Arena* a, Rng& r) {
    const uint64_t how = r.below(4);
    if (how == 0) { auto b = src.serialize_compact(8); new (mem) Hll(Hll::deserialize(b.data() + 8, b.size() - 8, A(a))); }
    else if (how == 1) { auto b = src.serialize_updatable(); new (mem) Hll(Hll::deserialize(b.data(), b.size(), A(a))); }
    else {
      std::stringstream ss(std::ios::in | std::ios::out | std::ios::binary);
      if (how == 2) src.serialize_compact(ss); else src.serialize_updatable(ss);
      new (mem) Hll(Hll::deserialize(ss, A(a)));
    }
  }
  static std::string mode(const Obj& o, const Cfg&) { return hll_mode_of(o); }
};

struct HllUnionFam {
  typedef HllU Obj; typedef HCfg Cfg;
  static const char* name() { return "hll_union"; }
  static Cfg gen_cfg(Rng& r) { return gen_hcfg(r); }
  static std::string cfg_str(const Cfg& c) { return hcfg_str(c); }
  static void construct(void* mem, const Cfg& c, Arena* a, Rng& r) { new (mem) HllU(r.coin() ? c.lg_k1 : c.lg_k2, A(a)); }
  static void mutate(Obj& o, const Cfg& c, Rng& r, Arena* scratch) {
    if (r.chance(0.08)) {   // feed the union its own result: safety only
      Hll res = o.get_result(pick_type(r));
      if (r.coin()) o.update(res); else o.update(std::move(res));
      xcount("hll_union.update_with_own_result");
      return;
    }
    const uint64_t how = r.below(5);
    if (how == 0) { feed(o, c, r); return; }
    Hll s(static_cast<uint8_t>(r.chance(0.6) ? (r.coin() ? c.lg_k1 : c.lg_k2) : r.range(4, 12)), pick_type(r), r.chance(0.1), A(scratch));
    feed(s, c, r);
    if (how <= 2) { { OperandWatch w(scratch, false, "union-update"); o.update(s); } xcount("hll_union.merge_ref"); }
    else {
      { OperandWatch w(scratch, true, "union-update"); o.update(std::move(s)); } xcount("hll_union.merge_move");
      if (r.coin()) {   // the consumed sketch must remain assignable and usable
        Hll live(static_cast<uint8_t>(r.coin() ? c.lg_k1 : r.range(4, 12)), pick_type(r), r.chance(0.1), A(scratch));
        feed(live, c, r);
        reuse_consumed_operand(s, live, r, [](const Hll& x) { return hll_readout(x); }, [&](Hll& x) { if (r.coin()) x.reset(); feed(x, c, r); (void)x.get_estimate(); });
      }
    }
  }
  static std::string readout(const Obj& o, const Cfg&) {
    std::string s = "empty=" + std::to_string(o.is_empty()) + " lg_k=" + std::to_string(o.get_lg_config_k()) + " est=" + dstr(o.get_estimate()) + " comp=" + dstr(o.get_composite_estimate()) +
      " lb=" + dstr(o.get_lower_bound(1)) + " ub=" + dstr(o.get_upper_bound(1));
    for (int t = 0; t < 3; ++t) { Hll res = o.get_result(static_cast<target_hll_type>(t)); s += " res" + std::to_string(t) + "=" + bytes_hex(res.serialize_compact()); }
    return s;
  }
  static void query(const Obj& o, const Cfg& c, Rng& r) {
    const target_hll_type to = pick_type(r);
    static const char* t[] = {"4", "6", "8"};
    Hll ref = o.get_result(HLL_8);
    Hll conv = o.get_result(to);
    hll_continue_both(ref, conv, c, r, std::string("result8to") + t[to] + (ref.sketch_impl->isStartFullSize() ? "_full_size" : "_lazy"));
  }
  static Arena* arena_of(const Obj& o) { return o.gadget_.sketch_impl->getAllocator().arena; }   // private member: -fno-access-control
  static const bool HAS_MERGE_REF = false, HAS_MERGE_MOVE = false, HAS_RESET = true, HAS_ROUNDTRIP = false;
  static void merge_ref(Obj&, const Obj&, const Cfg&) {}
  static void merge_move(Obj&, Obj&&, const Cfg&) {}
  static void reset(Obj& o, const Cfg&) { o.reset(); }
  static void roundtrip(void*, const Obj&, const Cfg&, Arena*, Rng&) {}
  static std::string mode(const Obj& o, const Cfg&) { Hll res = o.get_result(HLL_8); return hll_mode_of(res); }
};

void run_case(uint64_t idx, Rng& r) {
  if (idx % 2 == 0) run_program<HllFam>(r); else run_program<HllUnionFam>(r);
}
} // namespace vf
