// C19 — value semantics / every byte returned: t-digest, count-min, Bloom filter, density sketch
#ifndef C19_PART
#define C19_PART 0
#endif
#include "vf/c19_life.hpp"
#include <tdigest.hpp>
#include <count_min.hpp>
#include <bloom_filter.hpp>
#include <density_sketch.hpp>
#include <sstream>

using namespace datasketches;
namespace vf {
const char* property_id() { return "C19"; }
unsigned case_timeout_s() { return 120; }
uint64_t num_cases(bool thorough) { return 2 * (thorough ? 3000 : 160); }
void final_report() {}

// ------------------------------------------------------------------ t-digest
struct TdFam {
  typedef track_alloc<double> A; typedef tdigest<double, A> Obj;
  struct Cfg { uint16_t k1, k2; uint32_t max_batch; int shape; };
  static const char* name() { return "tdigest"; }
  static Cfg gen_cfg(Rng& r) { Cfg c; static const uint16_t ks[] = {10, 20, 50, 100, 200}; c.k1 = ks[r.below(5)]; c.k2 = r.coin() ? c.k1 : ks[r.below(5)]; c.max_batch = r.chance(0.3) ? 5 : (r.coin() ? 200 : 5000); c.shape = static_cast<int>(r.below(3)); return c; }
  static std::string cfg_str(const Cfg& c) { return "k1=" + std::to_string(c.k1) + " k2=" + std::to_string(c.k2) + " max_batch=" + std::to_string(c.max_batch) + " shape=" + std::to_string(c.shape); }
  static void construct(void* mem, const Cfg& c, Arena* a, Rng& r) { new (mem) Obj(r.coin() ? c.k1 : c.k2, A(a)); }
  static void mutate(Obj& o, const Cfg& c, Rng& r, Arena*) {
    if (r.chance(0.1)) { o.compress(); return; }
    const uint64_t n = 1 + r.below(c.max_batch);
    for (uint64_t i = 0; i < n; ++i) o.update(c.shape == 0 ? r.unit() : (c.shape == 1 ? std::exp(10 * r.unit()) : static_cast<double>(r.below(20))));
  }
  static std::string readout(const Obj& o, const Cfg&) {
    std::string s = "k=" + std::to_string(o.get_k()) + " empty=" + std::to_string(o.is_empty()) + " w=" + std::to_string(o.get_total_weight());
    // const queries merge the pending buffer in place; settle first
    if (!o.is_empty()) s += " q50=" + dstr(o.get_quantile(0.5)) + " min=" + dstr(o.get_min_value()) + " max=" + dstr(o.get_max_value()) + " r=" + dstr(o.get_rank(1.0));
    s += " bytes=" + bytes_hex(o.serialize(0, true));
    return s;
  }
  static void query(const Obj& o, const Cfg&, Rng& r) {
    if (o.is_empty()) return;
    (void)o.get_quantile(r.unit()); (void)o.get_rank(r.unit());
    const double sp[2] = {0.25, 5.0};
    auto pmf = o.get_PMF(sp, 2); auto cdf = o.get_CDF(sp, 2); (void)pmf; (void)cdf;
    (void)o.get_serialized_size_bytes(r.coin());
  }
  static const bool HAS_MERGE_REF = true, HAS_MERGE_MOVE = false, HAS_RESET = false, HAS_ROUNDTRIP = true;
  static const bool SINGLE_INSTANCE = true;
  static Arena* arena_of(const Obj& o) { return o.get_allocator().arena; }
  static const int SELF_MERGE = SM_DOUBLES;   // total weight doubles, range and k stay
  static SelfMergeFacts self_merge_facts(const Obj& o, const Cfg&) {
    SelfMergeFacts f;
    f.doubles = {static_cast<double>(o.get_total_weight())};
    f.same = "k=" + std::to_string(o.get_k());
    if (!o.is_empty()) f.same += " min=" + dstr(o.get_min_value()) + " max=" + dstr(o.get_max_value());
    return f;
  }
  static void merge_ref(Obj& d, const Obj& s, const Cfg&) { d.merge(s); }
  static void merge_move(Obj&, Obj&&, const Cfg&) {}
  static void reset(Obj&, const Cfg&) {}
  static void roundtrip(void* mem, const Obj& src, const Cfg&, Arena* a, Rng& r) {
    const bool with_buffer = r.coin();
    if (r.coin()) { const unsigned hdr = r.coin() ? 0 : 8; auto b = src.serialize(hdr, with_buffer); new (mem) Obj(Obj::deserialize(b.data() + hdr, b.size() - hdr, A(a))); }
    else { std::stringstream ss(std::ios::in | std::ios::out | std::ios::binary); src.serialize(ss, with_buffer); new (mem) Obj(Obj::deserialize(ss, A(a))); }
  }
  static std::string mode(const Obj& o, const Cfg&) { return o.is_empty() ? "empty" : (o.get_total_weight() > 2u * o.get_k() ? "compressed" : "small"); }
};

// ------------------------------------------------------------------ count-min
struct CmFam {
  typedef track_alloc<uint64_t> A; typedef count_min_sketch<uint64_t, A> Obj;
  struct Cfg { uint8_t hashes; uint32_t buckets; uint64_t seed; uint32_t max_batch; uint8_t hashes2; uint32_t buckets2; uint64_t seed2; };
  static const char* name() { return "count_min"; }
  static Cfg gen_cfg(Rng& r) { Cfg c; c.hashes = static_cast<uint8_t>(r.range(1, 5)); c.buckets = static_cast<uint32_t>(r.range(3, 200)); c.seed = r.coin() ? DEFAULT_SEED : r.next(); c.max_batch = r.coin() ? 10 : 500;
    c.hashes2 = r.coin() ? c.hashes : static_cast<uint8_t>(r.range(1, 5)); c.buckets2 = r.coin() ? c.buckets : static_cast<uint32_t>(r.range(3, 200)); c.seed2 = r.coin() ? c.seed : r.next(); return c; }
  static std::string cfg_str(const Cfg& c) { return "hashes=" + std::to_string(c.hashes) + " buckets=" + std::to_string(c.buckets) + " seed=" + std::to_string(c.seed) + " max_batch=" + std::to_string(c.max_batch); }
  static void construct(void* mem, const Cfg& c, Arena* a, Rng& r) { if (r.coin()) new (mem) Obj(c.hashes, c.buckets, c.seed, A(a)); else new (mem) Obj(c.hashes2, c.buckets2, c.seed2, A(a)); }
  static void mutate(Obj& o, const Cfg& c, Rng& r, Arena*) {
    const uint64_t n = 1 + r.below(c.max_batch);
    for (uint64_t i = 0; i < n; ++i) {
      const uint64_t v = r.below(1000);
      switch (r.below(3)) { case 0: o.update(v, 1 + r.below(5)); break; case 1: o.update(std::string("x") + std::to_string(v), 1); break; default: o.update(&v, sizeof v, 2); break; }
    }
  }
  static std::string readout(const Obj& o, const Cfg&) {
    std::string s = "h=" + std::to_string(o.get_num_hashes()) + " b=" + std::to_string(o.get_num_buckets()) + " empty=" + std::to_string(o.is_empty()) + " w=" + std::to_string(o.get_total_weight()) + " cells=";
    for (auto it = o.begin(); it != o.end(); ++it) { s += std::to_string(*it); s += ','; }
    s += " bytes=" + bytes_hex(o.serialize());
    return s;
  }
  static void query(const Obj& o, const Cfg&, Rng& r) { const uint64_t v = r.below(1000); (void)o.get_estimate(v); (void)o.get_upper_bound(v); (void)o.get_lower_bound(v); (void)o.get_relative_error(); }
  static const bool HAS_MERGE_REF = true, HAS_MERGE_MOVE = false, HAS_RESET = false, HAS_ROUNDTRIP = true;
  static const bool SINGLE_INSTANCE = true;
  // count_min_sketch::get_allocator() is declared but defined nowhere (link error), so read the private member
  static Arena* arena_of(const Obj& o) { return o._allocator.arena; }
  static const int SELF_MERGE = SM_REFUSES;   // documented: "Cannot merge a sketch with itself."
  static SelfMergeFacts self_merge_facts(const Obj& o, const Cfg&) { SelfMergeFacts f; f.doubles = {static_cast<double>(o.get_total_weight())}; f.same = "shape=" + std::to_string(o.get_num_hashes()) + "x" + std::to_string(o.get_num_buckets()); return f; }
  // objects of differently shaped configurations cannot be merged (documented: throws); merge only compatible ones
  static void merge_ref(Obj& d, const Obj& s, const Cfg&) { if (d.get_num_hashes() == s.get_num_hashes() && d.get_num_buckets() == s.get_num_buckets() && d.get_seed() == s.get_seed()) d.merge(s); else xcount("count_min.merge_skipped_incompatible"); }
  static void merge_move(Obj&, Obj&&, const Cfg&) {}
  static void reset(Obj&, const Cfg&) {}
  static void roundtrip(void* mem, const Obj& src, const Cfg&, Arena* a, Rng& r) {
    const uint64_t seed = src.get_seed();
    if (r.coin()) { const unsigned hdr = r.coin() ? 0 : 8; auto b = src.serialize(hdr); new (mem) Obj(Obj::deserialize(b.data() + hdr, b.size() - hdr, seed, A(a))); }
    else { std::stringstream ss(std::ios::in | std::ios::out | std::ios::binary); src.serialize(ss); new (mem) Obj(Obj::deserialize(ss, seed, A(a))); }
  }
  static std::string mode(const Obj& o, const Cfg&) { return o.is_empty() ? "empty" : "nonempty"; }
};

// ------------------------------------------------------------------ Bloom filter (memory owned by the filter)
struct BloomFam {
  typedef track_alloc<uint8_t> A; typedef bloom_filter_alloc<A> Obj;
  struct Cfg { uint64_t bits; uint16_t hashes; uint64_t seed; uint32_t max_batch; uint64_t bits2; uint16_t hashes2; uint64_t seed2; };
  static const char* name() { return "bloom"; }
  static Cfg gen_cfg(Rng& r) { Cfg c; c.bits = 64 * static_cast<uint64_t>(r.range(1, 40)) - (r.coin() ? 0 : r.below(63)); c.hashes = static_cast<uint16_t>(r.range(1, 7)); c.seed = r.next(); c.max_batch = r.coin() ? 5 : 300;
    c.bits2 = r.coin() ? c.bits : 64 * static_cast<uint64_t>(r.range(1, 40)); c.hashes2 = r.coin() ? c.hashes : static_cast<uint16_t>(r.range(1, 7)); c.seed2 = r.coin() ? c.seed : r.next(); return c; }
  static std::string cfg_str(const Cfg& c) { return "bits=" + std::to_string(c.bits) + " hashes=" + std::to_string(c.hashes) + " seed=" + std::to_string(c.seed) + " max_batch=" + std::to_string(c.max_batch); }
  static void construct(void* mem, const Cfg& c, Arena* a, Rng& r) { if (r.coin()) new (mem) Obj(Obj::builder::create_by_size(c.bits, c.hashes, c.seed, A(a))); else new (mem) Obj(Obj::builder::create_by_size(c.bits2, c.hashes2, c.seed2, A(a))); }
  static void mutate(Obj& o, const Cfg& c, Rng& r, Arena*) {
    if (r.chance(0.07)) { o.invert(); return; }
    const uint64_t n = 1 + r.below(c.max_batch);
    for (uint64_t i = 0; i < n; ++i) {
      const uint64_t v = r.below(5000);
      switch (r.below(4)) { case 0: o.update(v); break; case 1: o.update(std::string("x") + std::to_string(v)); break; case 2: (void)o.query_and_update(v); break; default: o.update(&v, sizeof v); break; }
    }
    if (r.chance(0.3)) (void)o.get_bits_used();   // refreshes the cached count (non-const)
  }
  static std::string readout(const Obj& o, const Cfg&) {
    return "cap=" + std::to_string(o.get_capacity()) + " h=" + std::to_string(o.get_num_hashes()) + " seed=" + std::to_string(o.get_seed()) + " empty=" + std::to_string(o.is_empty()) +
      " owned=" + std::to_string(o.is_memory_owned()) + " ro=" + std::to_string(o.is_read_only()) + " bytes=" + bytes_hex(o.serialize());
  }
  static void query(const Obj& o, const Cfg&, Rng& r) { const uint64_t v = r.below(5000); (void)o.query(v); (void)o.query(std::string("x") + std::to_string(v)); (void)o.get_serialized_size_bytes(); }
  static const bool HAS_MERGE_REF = true, HAS_MERGE_MOVE = false, HAS_RESET = true, HAS_ROUNDTRIP = true;
  static const bool SINGLE_INSTANCE = true;
  static Arena* arena_of(const Obj& o) { return o.allocator_.arena; }   // private member: -fno-access-control
  static const int SELF_MERGE = SM_IDEMPOTENT;   // union / intersection with itself
  static SelfMergeFacts self_merge_facts(const Obj& o, const Cfg&) {
    SelfMergeFacts f;
    auto b = o.serialize();
    if (b.size() >= 32) memset(b.data() + 24, 0, 8);   // cached number of set bits / "dirty" marker: not content
    f.same = "cap=" + std::to_string(o.get_capacity()) + " h=" + std::to_string(o.get_num_hashes()) + " empty=" + std::to_string(o.is_empty()) + " bits=" + bytes_hex(b);
    return f;
  }
  static void merge_ref(Obj& d, const Obj& s, const Cfg&) { if (!d.is_compatible(s)) { xcount("bloom.merge_skipped_incompatible"); return; } if (s.is_empty() || (mix64(s.get_capacity(), d.get_seed()) & 1)) d.union_with(s); else d.intersect(s); }
  static void merge_move(Obj&, Obj&&, const Cfg&) {}
  static void reset(Obj& o, const Cfg&) { o.reset(); }
  static void roundtrip(void* mem, const Obj& src, const Cfg&, Arena* a, Rng& r) {
    if (r.coin()) { const unsigned hdr = r.coin() ? 0 : 8; auto b = src.serialize(hdr); new (mem) Obj(Obj::deserialize(b.data() + hdr, b.size() - hdr, A(a))); }
    else { std::stringstream ss(std::ios::in | std::ios::out | std::ios::binary); src.serialize(ss); new (mem) Obj(Obj::deserialize(ss, A(a))); }
  }
  static std::string mode(const Obj& o, const Cfg&) { return o.is_empty() ? "empty" : "nonempty"; }
};

// ------------------------------------------------------------------ density sketch
struct AnyVectorKernel {   // gaussian kernel that accepts vectors with any allocator
  template<typename V1, typename V2> double operator()(const V1& a, const V2& b) const {
    double d = 0; for (size_t i = 0; i < a.size(); ++i) d += (a[i] - b[i]) * (a[i] - b[i]);
    return std::exp(-d);
  }
};
struct DensityFam {
  typedef track_alloc<double> A; typedef density_sketch<double, AnyVectorKernel, A> Obj; typedef std::vector<double, A> Vec;
  struct Cfg { uint16_t k1, k2; uint32_t dim, dim2; uint32_t max_batch; };
  static const char* name() { return "density"; }
  static Cfg gen_cfg(Rng& r) { Cfg c; static const uint16_t ks[] = {2, 3, 8, 20}; c.k1 = ks[r.below(4)]; c.k2 = r.coin() ? c.k1 : ks[r.below(4)]; c.dim = static_cast<uint32_t>(r.range(1, 5)); c.dim2 = r.coin() ? c.dim : static_cast<uint32_t>(r.range(1, 5)); c.max_batch = r.chance(0.3) ? 4 : (r.coin() ? 60 : 600); return c; }
  static std::string cfg_str(const Cfg& c) { return "k1=" + std::to_string(c.k1) + " k2=" + std::to_string(c.k2) + " dim=" + std::to_string(c.dim) + " max_batch=" + std::to_string(c.max_batch); }
  static void construct(void* mem, const Cfg& c, Arena* a, Rng& r) { new (mem) Obj(r.coin() ? c.k1 : c.k2, r.coin() ? c.dim : c.dim2, AnyVectorKernel(), A(a)); }
  static void mutate(Obj& o, const Cfg& c, Rng& r, Arena* scratch) {
    const uint64_t n = 1 + r.below(c.max_batch);
    for (uint64_t i = 0; i < n; ++i) {
      Vec v(o.get_dim(), 0.0, A(scratch));
      for (auto& x : v) x = static_cast<double>(r.below(64)) / 16.0;
      if (r.coin()) o.update(v); else o.update(std::move(v));
    }
  }
  static std::string readout(const Obj& o, const Cfg&) {
    std::string s = "k=" + std::to_string(o.get_k()) + " dim=" + std::to_string(o.get_dim()) + " n=" + std::to_string(o.get_n()) + " ret=" + std::to_string(o.get_num_retained()) + " est=" + std::to_string(o.is_estimation_mode()) + " pts=";
    const auto e = o.end();
    for (auto it = o.begin(); it != e; ++it) { auto p = *it; for (double x : p.first) { s += dstr(x); s += ' '; } s += ":" + std::to_string(p.second) + ","; }
    s += " bytes=" + bytes_hex(o.serialize());
    return s;
  }
  static void query(const Obj& o, const Cfg&, Rng& r) { if (o.is_empty()) return; std::vector<double> p(o.get_dim(), r.unit()); (void)o.get_estimate(p); }
  static const bool HAS_MERGE_REF = true, HAS_MERGE_MOVE = true, HAS_RESET = false, HAS_ROUNDTRIP = true;
  static const bool SINGLE_INSTANCE = true;
  static const bool ITEM_PAYLOAD_DOUBLE = true;   // the points are std::vector<double, A> items carrying their own allocator
  static Arena* arena_of(const Obj& o) { return o.get_allocator().arena; }
  static const int SELF_MERGE = SM_DOUBLES;   // n doubles; k and dim stay
  static SelfMergeFacts self_merge_facts(const Obj& o, const Cfg&) { SelfMergeFacts f; f.doubles = {static_cast<double>(o.get_n())}; f.same = "k=" + std::to_string(o.get_k()) + " dim=" + std::to_string(o.get_dim()); return f; }
  // sketches of different dimension cannot be merged (documented: throws); merge only compatible ones
  static void merge_ref(Obj& d, const Obj& s, const Cfg&) { if (d.get_dim() == s.get_dim()) d.merge(s); else xcount("density.merge_skipped_incompatible"); }
  static void merge_move(Obj& d, Obj&& s, const Cfg&) { if (d.get_dim() == s.get_dim()) d.merge(std::move(s)); else xcount("density.merge_skipped_incompatible"); }
  static void reset(Obj&, const Cfg&) {}
  static void roundtrip(void* mem, const Obj& src, const Cfg&, Arena* a, Rng& r) {
    if (r.coin()) { const unsigned hdr = r.coin() ? 0 : 8; auto b = src.serialize(hdr); new (mem) Obj(Obj::deserialize(b.data() + hdr, b.size() - hdr, AnyVectorKernel(), A(a))); }
    else { std::stringstream ss(std::ios::in | std::ios::out | std::ios::binary); src.serialize(ss); new (mem) Obj(Obj::deserialize(ss, AnyVectorKernel(), A(a))); }
  }
  static std::string mode(const Obj& o, const Cfg&) { return o.is_empty() ? "empty" : (o.is_estimation_mode() ? "compacted" : "exact"); }
};

// the unit is compiled twice (registry flag -DC19_PART=0 / 1) to keep each compile short
void run_case(uint64_t idx, Rng& r) {
#if C19_PART == 0
  if (idx % 2 == 0) run_program<TdFam>(r); else run_program<CmFam>(r);
#else
  if (idx % 2 == 0) run_program<BloomFam>(r); else run_program<DensityFam>(r);
#endif
}
} // namespace vf
