// C14 — Count-min never under-estimates and is linear under merge.
// Exact-count oracle + independent cell model (reference MurmurHash3 per row) compared after every batch.
#include "vf/core.hpp"
#include "vf/refhash.hpp"
#include <count_min.hpp>
#include <random>
#include <sstream>
#include <memory>

using namespace datasketches;
namespace vf {

const char* property_id() { return "C14"; }
unsigned case_timeout_s() { return 120; }
uint64_t num_cases(bool thorough) { return thorough ? 60000 : 2000; }
void final_report() {}

struct Item { int kind; uint64_t u; std::string s; // kind 0 u64, 1 i64, 2 string, 3 bytes
  std::string bytes() const {
    if (kind <= 1) { std::string b(8, '\0'); for (int i = 0; i < 8; ++i) b[i] = char(u >> (8 * i)); return b; }
    return s;
  }
  bool ignored() const { return kind == 2 && s.empty(); }
};

template<typename W> struct Model {
  uint8_t nh; uint32_t nb; uint64_t seed;
  std::vector<uint64_t> row_seeds;
  std::vector<W> cells;
  std::map<std::string, W> truth;   // keyed by hashed bytes (kind does not matter for the hash)
  W total = 0;
  Model(uint8_t h, uint32_t b, uint64_t s): nh(h), nb(b), seed(s), cells(size_t(h) * b, 0) {
    // row seeds: same standard-library draw the sketch documents (self-consistency; not a cross-language contract)
    std::default_random_engine rng(seed);
    std::uniform_int_distribution<uint64_t> d(0, std::numeric_limits<uint64_t>::max());
    for (unsigned i = 0; i < nh; ++i) row_seeds.push_back(d(rng) + seed);
  }
  void add(const Item& it, W w) {
    if (it.ignored()) return;
    std::string b = it.bytes();
    total += w;
    truth[b] += w;
    for (unsigned r = 0; r < nh; ++r) {
      uint64_t h = ref_murmur3_x64_128(b.data(), b.size(), row_seeds[r]).h1;
      cells[size_t(r) * nb + (h % nb)] += w;
    }
  }
  void merge(const Model& o) {
    for (size_t i = 0; i < cells.size(); ++i) cells[i] += o.cells[i];
    for (auto& kv : o.truth) truth[kv.first] += kv.second;
    total += o.total;
  }
};

// raw-bytes keys are handed over at rotating addresses (offsets 0..7 from an 8-byte aligned buffer): the cells a key maps to
// must not depend on where its bytes happen to live
static const void* at_offset(const std::string& bytes, unsigned off) {
  static thread_local std::vector<uint64_t> buf;
  buf.assign((bytes.size() + 8) / 8 + 2, 0);
  char* p = reinterpret_cast<char*>(buf.data()) + (off & 7);
  if (!bytes.empty()) memcpy(p, bytes.data(), bytes.size());
  return p;
}
static unsigned g_addr_rot = 0;

template<typename W> static void sk_update(count_min_sketch<W>& s, const Item& it, W w) {
  switch (it.kind) {
    case 0: s.update(static_cast<uint64_t>(it.u), w); break;
    case 1: s.update(static_cast<int64_t>(it.u), w); break;
    case 2: s.update(it.s, w); break;
    default: { const unsigned off = g_addr_rot++; if (off & 7) count("bytes_key_updates_from_unaligned_address"); s.update(at_offset(it.s, off), it.s.size(), w); break; }
  }
}
template<typename W> static void sk_query(const count_min_sketch<W>& s, const Item& it, W& est, W& lb, W& ub) {
  switch (it.kind) {
    case 0: est = s.get_estimate(static_cast<uint64_t>(it.u)); lb = s.get_lower_bound(static_cast<uint64_t>(it.u)); ub = s.get_upper_bound(static_cast<uint64_t>(it.u)); break;
    case 1: est = s.get_estimate(static_cast<int64_t>(it.u)); lb = s.get_lower_bound(static_cast<int64_t>(it.u)); ub = s.get_upper_bound(static_cast<int64_t>(it.u)); break;
    case 2: est = s.get_estimate(it.s); lb = s.get_lower_bound(it.s); ub = s.get_upper_bound(it.s); break;
    default: { const void* p = at_offset(it.s, g_addr_rot++ * 3); est = s.get_estimate(p, it.s.size()); lb = s.get_lower_bound(p, it.s.size()); ub = s.get_upper_bound(p, it.s.size()); break; }
  }
}

static Item gen_item(Rng& r, uint64_t domain, int kind) {
  Item it; it.kind = kind < 0 ? int(r.below(4)) : kind;
  uint64_t x = r.below(domain);
  if (it.kind == 0) it.u = x * 0x9e3779b97f4a7c15ULL;
  else if (it.kind == 1) it.u = uint64_t(r.coin() ? -int64_t(x) : int64_t(x));
  else if (it.kind == 2) {
    if (r.chance(0.01)) it.s = "";
    else if (x % 3 == 0) { char b[32]; snprintf(b, sizeof b, "customer_%06llu", static_cast<unsigned long long>(x)); it.s = b; }   // equal length, common 9-byte prefix
    else {
      it.s = "k" + std::to_string(x);
      if (x % 7 == 0) it.s += std::string(20, 'z');
      if (x % 5 == 1) it.s += std::string(60 + x % 150, char('a' + x % 26));         // long keys (> 64 bytes)
      if (x % 6 == 2) { it.s += '\0'; it.s += "tail" + std::to_string(x % 3); }       // embedded NUL: the whole string is the key
      if (x % 11 == 3) it.s.insert(it.s.begin(), '\0');                              // leading NUL
    }
  }
  else if (x % 3 == 0) { it.s = std::string("\x01\x02record-hdr", 12); for (int i = 0; i < 4; ++i) it.s += char(x >> (8 * i)); }      // 16-byte records, common 12-byte header
  else { size_t len = 1 + x % 33 + (x % 4 == 0 ? 64 + x % 200 : 0); it.s.assign(len, char(x)); for (size_t i = 0; i < len; ++i) it.s[i] = char((x >> (i % 8)) + i * 31); }
  return it;
}

template<typename W> static const char* wname();
template<> const char* wname<uint64_t>() { return "u64"; }
template<> const char* wname<int64_t>() { return "i64"; }
template<> const char* wname<double>() { return "f64"; }

template<typename W>
static void observe(const count_min_sketch<W>& s, const Model<W>& m, const std::vector<Item>& universe, Rng& r, const char* after, bool stats) {
  const std::string ctx = std::string(wname<W>()) + " after " + after + " nh=" + std::to_string(m.nh) + " nb=" + std::to_string(m.nb) + " seed=" + std::to_string(m.seed) +
    " items=" + std::to_string(m.truth.size());
  const std::string T = std::string("cm|") + wname<W>() + "|";
  VF_CHECK(s.get_num_hashes() == m.nh && s.get_num_buckets() == m.nb && s.get_seed() == m.seed, T + "config-readback", ctx);
  VF_CHECK(s.get_total_weight() == m.total, T + "total-weight", ctx + " got=" + str(s.get_total_weight()) + " want=" + str(m.total));
  VF_CHECK(s.is_empty() == (m.total == 0), T + "is_empty", ctx);
  // cells
  {
    size_t i = 0; bool same = true; size_t bad = 0;
    for (auto it = s.begin(); it != s.end(); ++it, ++i) { if (i >= m.cells.size() || *it != m.cells[i]) { if (same) bad = i; same = false; } }
    VF_CHECK(i == m.cells.size(), T + "cell-count", ctx + " iterated=" + std::to_string(i));
    VF_CHECK(same, T + "cells-differ-from-model", ctx + " first bad cell=" + std::to_string(bad) + " row=" + std::to_string(bad / m.nb));
  }
  const double eps = s.get_relative_error();
  VF_CHECK(std::fabs(eps - std::exp(1.0) / m.nb) <= 1e-12, T + "relative-error-value", ctx + " eps=" + str(eps));
  // per item
  uint64_t over = 0, asked = 0;
  for (const Item& it : universe) {
    if (it.ignored()) {
      W e, l, u; sk_query(s, it, e, l, u);
      VF_CHECK(e == 0 && l == 0 && u == 0, T + "empty-string-not-zero", ctx);
      continue;
    }
    auto f = m.truth.find(it.bytes());
    const W truth = f == m.truth.end() ? W(0) : f->second;
    W est, lb, ub; sk_query(s, it, est, lb, ub);
    VF_CHECK(est >= truth, T + "estimate-below-truth", ctx + " est=" + str(est) + " truth=" + str(truth));
    VF_CHECK(est <= m.total, T + "estimate-above-total", ctx + " est=" + str(est) + " total=" + str(m.total));
    VF_CHECK(lb <= est && est <= ub, T + "bounds-order", ctx + " lb=" + str(lb) + " est=" + str(est) + " ub=" + str(ub));
    // exact expected estimate from the cell model
    W want = 0; bool first = true; std::string b = it.bytes();
    for (unsigned rr = 0; rr < m.nh; ++rr) {
      W c = m.cells[size_t(rr) * m.nb + (ref_murmur3_x64_128(b.data(), b.size(), m.row_seeds[rr]).h1 % m.nb)];
      if (first || c < want) want = c; first = false;
    }
    VF_CHECK(est == want, T + "estimate-not-row-minimum", ctx + " est=" + str(est) + " want=" + str(want));
    ++asked;
    if (static_cast<double>(est) - static_cast<double>(truth) > eps * static_cast<double>(m.total)) ++over;
  }
  if (stats && asked >= 300 && m.total > 0) {
    const double delta = std::exp(-double(m.nh));
    const double frac = double(over) / double(asked);
    const double tol = delta + 0.05 + 5.0 * std::sqrt(std::max(delta * (1 - delta), 1e-4) / double(asked));
    VF_CHECK(frac <= tol, T + "overestimate-frequency-exceeds-confidence", ctx + " frac=" + str(frac) + " allowed=" + str(tol));
    count("stat_cells");
  }
  (void)r;
}

template<typename W>
static count_min_sketch<W> roundtrip(const count_min_sketch<W>& s, Rng& r, const std::string& T) {
  if (r.coin()) {
    unsigned hdr = r.pick({0u, 0u, 1u, 8u, 13u});
    auto bytes = s.serialize(hdr);
    VF_CHECK(bytes.size() == hdr + s.get_serialized_size_bytes(), T + "serialized-size", "hdr=" + std::to_string(hdr));
    count("roundtrip_bytes");
    return count_min_sketch<W>::deserialize(bytes.data() + hdr, bytes.size() - hdr, s.get_seed());
  }
  std::stringstream ss; s.serialize(ss);
  count("roundtrip_stream");
  return count_min_sketch<W>::deserialize(ss, s.get_seed());
}

static uint32_t pick_buckets(Rng& r, bool T) {
  static const uint32_t primes[] = {67, 101, 257, 521, 1031, 2053, 4099, 8191, 9973};
  switch (r.below(4)) {
    case 0: return uint32_t(r.range(3, 8));
    case 1: return uint32_t(r.range(3, 64));
    case 2: return primes[r.below(T ? 9 : 6)];
    default: return uint32_t(1u << r.range(2, T ? 13 : 10));
  }
}

template<typename W>
static void run_program(Rng& r) {
  const bool T = G().thorough();
  static const uint8_t hs[] = {1, 2, 3, 4, 5, 6, 7, 8, 16, 64, 255};
  uint8_t nh = hs[r.below(r.chance(0.85) ? 8 : 11)];
  uint32_t nb = pick_buckets(r, T);
  if (size_t(nh) * nb > (T ? 400000u : 60000u)) nb = uint32_t((T ? 400000u : 60000u) / nh) | 3;
  const uint64_t seed = r.chance(0.5) ? DEFAULT_SEED : r.next();
  const std::string Tk = std::string("cm|") + wname<W>() + "|";
  const uint64_t domain = r.chance(0.3) ? 1 + r.below(20) : 1 + r.below(T ? 3000 : 800);
  const int kind = r.chance(0.5) ? -1 : int(r.below(4));
  const int nleaves = 1 + int(r.below(4));
  describe(std::string(wname<W>()) + " nh=" + std::to_string(nh) + " nb=" + std::to_string(nb) + " seed=" + std::to_string(seed) + " domain=" + std::to_string(domain) +
           " kind=" + std::to_string(kind) + " leaves=" + std::to_string(nleaves));
  count(std::string("w_") + wname<W>());
  std::vector<Item> universe;
  for (uint64_t i = 0; i < std::min<uint64_t>(domain, 600); ++i) universe.push_back(gen_item(r, domain, kind));
  for (int i = 0; i < 5; ++i) { Item it = gen_item(r, 1ULL << 50, kind); universe.push_back(it); }  // (almost surely) never-inserted items
  { Item e; e.kind = 2; e.s = ""; universe.push_back(e); }

  std::vector<std::unique_ptr<count_min_sketch<W>>> sk;
  std::vector<Model<W>> md;
  for (int l = 0; l < nleaves; ++l) {
    sk.emplace_back(new count_min_sketch<W>(nh, nb, seed));
    md.emplace_back(nh, nb, seed);
    const bool tiny_total = std::is_floating_point<W>::value && r.chance(0.08);   // a few updates of weight 1/64: total weight in (0, 1)
    const uint64_t nupd = tiny_total ? 1 + r.below(20) : (r.chance(0.15) ? 0 : r.below(T ? 4000 : 1200));
    if (tiny_total) count("fractional_total_below_one_leaves");
    const int wmode = int(r.below(4));
    int prev_kind = -1; std::string prev_key;
    for (uint64_t i = 0; i < nupd; ++i) {
      Item it = r.chance(0.9) && !universe.empty() ? universe[r.below(universe.size())] : gen_item(r, domain, kind);
      W w;
      switch (wmode) {
        case 0: w = 1; break;
        case 1: w = W(r.below(5)); break;                        // includes zero weights
        case 2: w = W(1 + r.below(1000)) ; break;
        default: w = W(r.chance(0.02) ? (uint64_t(1) << 40) : r.below(17)); break;
      }
      if (std::is_floating_point<W>::value && r.chance(0.3)) w = W(double(r.below(64)) / 8.0);   // dyadic fractions: sums stay exact
      if (tiny_total) w = W(1.0 / 64.0);
      if (w == 0) count("zero_weight");
      if (wmode == 0 && w == W(1) && r.coin()) {   // default-weight overload
        switch (it.kind) { case 0: sk[l]->update(static_cast<uint64_t>(it.u)); break; case 1: sk[l]->update(static_cast<int64_t>(it.u)); break;
                           case 2: sk[l]->update(it.s); break; default: sk[l]->update(it.s.data(), it.s.size(), W(1)); }
      } else sk_update(*sk[l], it, w);
      md[l].add(it, w);
      if (it.kind >= 2 && it.kind == prev_kind && it.s.size() > 8 && it.s.size() == prev_key.size() && it.s != prev_key && it.s.compare(0, 8, prev_key, 0, 8) == 0)
        count("consecutive_distinct_keys_same_length_same_8byte_prefix");
      prev_kind = it.kind; prev_key = it.s;
      if (it.ignored()) count("empty_string_update");
      if (it.kind >= 2 && it.s.size() > 64) count("long_key_updates");
      if (it.kind == 2 && it.s.find('\0') != std::string::npos) count("embedded_nul_string_updates");
    }
    observe(*sk[l], md[l], universe, r, "updates", true);
    if (tiny_total || r.chance(0.4)) {
      count_min_sketch<W> d = roundtrip(*sk[l], r, Tk);
      observe(d, md[l], universe, r, "roundtrip", false);
      if (r.coin()) { sk[l].reset(new count_min_sketch<W>(std::move(d))); count("continue_on_restored"); }
    }
  }
  // refused merges
  VF_CHECK(throws([&] { sk[0]->merge(*sk[0]); }), Tk + "self-merge-accepted", G().cur_desc);
  {
    count_min_sketch<W> o1(nh == 255 ? 254 : nh + 1, nb, seed), o2(nh, nb + 1, seed), o3(nh, nb, seed + 1);
    VF_CHECK(throws([&] { sk[0]->merge(o1); }), Tk + "incompatible-merge-accepted|num_hashes", G().cur_desc);
    VF_CHECK(throws([&] { sk[0]->merge(o2); }), Tk + "incompatible-merge-accepted|num_buckets", G().cur_desc);
    VF_CHECK(throws([&] { sk[0]->merge(o3); }), Tk + "incompatible-merge-accepted|seed", G().cur_desc);
    // a different seed whose 16-bit seed hash (the only seed information stored in images) collides
    {
      const uint16_t want = ref_seed_hash(seed);
      uint64_t s2 = seed;
      for (uint64_t t = 1; t < 2000000; ++t) { if (ref_seed_hash(seed + t * 0x9e3779b97f4a7c15ULL) == want) { s2 = seed + t * 0x9e3779b97f4a7c15ULL; break; } }
      if (s2 != seed) {
        count_min_sketch<W> o4(nh, nb, s2);
        o4.update(uint64_t(1), W(3));
        VF_CHECK(throws([&] { sk[0]->merge(o4); }), Tk + "incompatible-merge-accepted|seed-with-colliding-seed-hash", G().cur_desc + " other_seed=" + std::to_string(s2));
        count("colliding_seed_hash_merges");
      }
    }
    // every other shape with the same number of cells (same seed): the tables have equal size but another layout
    {
      const uint64_t cells = uint64_t(nh) * nb;
      unsigned tried = 0;
      for (uint64_t h2 = 1; h2 <= 255 && tried < 6; ++h2) {
        if (cells % h2 != 0 || h2 == nh || cells / h2 < 3 || cells / h2 > 0xffffffffULL) continue;
        count_min_sketch<W> o5(uint8_t(h2), uint32_t(cells / h2), seed);
        o5.update(uint64_t(7), W(2));
        VF_CHECK(throws([&] { sk[0]->merge(o5); }), Tk + "incompatible-merge-accepted|same-cell-count-other-shape",
                 G().cur_desc + " other=" + std::to_string(h2) + "x" + std::to_string(cells / h2));
        ++tried; count("same_cell_count_other_shape_merges");
      }
    }
    {  // the same refusals when the operand is an rvalue, also into a still-empty target (which must stay as configured)
      count_min_sketch<W> fresh(nh, nb, seed);
      for (int v = 0; v < 3; ++v) {
        count_min_sketch<W> bad(v == 0 ? uint8_t(nh == 255 ? 254 : nh + 1) : nh, v == 1 ? nb + 1 : nb, v == 2 ? seed + 1 : seed);
        bad.update(uint64_t(5), W(2));
        { count_min_sketch<W> t(bad); VF_CHECK(throws([&] { fresh.merge(std::move(t)); }), Tk + "incompatible-merge-accepted|rvalue-into-empty", G().cur_desc + " variant=" + std::to_string(v)); }
        { count_min_sketch<W> t(bad); VF_CHECK(throws([&] { sk[0]->merge(std::move(t)); }), Tk + "incompatible-merge-accepted|rvalue", G().cur_desc + " variant=" + std::to_string(v)); }
      }
      VF_CHECK(fresh.is_empty() && fresh.get_num_hashes() == nh && fresh.get_num_buckets() == nb && fresh.get_seed() == seed, Tk + "refused-merge-changed-empty-target", G().cur_desc);
      count("refused_rvalue_merges");
    }
    observe(*sk[0], md[0], universe, r, "refused-merges", false);
    count("refused_merges");
  }
  // merge tree: random order folding into random targets
  std::vector<size_t> alive(sk.size());
  for (size_t i = 0; i < alive.size(); ++i) alive[i] = i;
  while (alive.size() > 1) {
    size_t a = r.below(alive.size()), b = r.below(alive.size());
    if (a == b) continue;
    size_t ia = alive[a], ib = alive[b];
    sk[ia]->merge(*sk[ib]);
    md[ia].merge(md[ib]);
    count("merges");
    observe(*sk[ib], md[ib], universe, r, "merge-source-unchanged", false);
    alive.erase(alive.begin() + b);
    observe(*sk[ia], md[ia], universe, r, "merge", alive.size() == 1);
  }
  // linearity: one sketch fed the concatenation gives the same cells
  {
    const Model<W>& m = md[alive[0]];
    count_min_sketch<W> one(nh, nb, seed);
    for (auto& kv : m.truth) one.update(kv.first.data(), kv.first.size(), kv.second);
    bool same = std::equal(one.begin(), one.end(), sk[alive[0]]->begin());
    VF_CHECK(same, Tk + "merge-not-equal-to-concatenation", G().cur_desc);
    VF_CHECK(one.get_total_weight() == sk[alive[0]]->get_total_weight(), Tk + "merge-total-vs-concatenation", G().cur_desc);
  }
  uint64_t nz = 0; for (auto c : md[alive[0]].cells) nz += c != 0;
  sig(mix64(mix64(nh, nb), mix64(md[alive[0]].truth.size(), nz)));
  {  // assignment onto an existing sketch of the same shape (or another shape) built with ANOTHER seed: the target must take over
     // everything, including the per-row hash seeds, and then behave like the source under further updates
    const size_t fi = alive[0];
    for (int variant = 0; variant < 2; ++variant) {
      const bool same_shape = variant == 0;
      count_min_sketch<W> t(same_shape ? nh : uint8_t(nh == 255 ? 254 : nh + 1), same_shape ? nb : nb + 1, seed ^ 0x5bd1e995u);
      t.update(uint64_t(99), W(3));
      if (r.coin()) { t = *sk[fi]; count("assign_copy"); }
      else { count_min_sketch<W> tmp(*sk[fi]); t = std::move(tmp); count("assign_move"); }
      observe(t, md[fi], universe, r, "assignment", false);
      Model<W> mt = md[fi];
      for (int i = 0; i < 30 && !universe.empty(); ++i) { const Item& it = universe[r.below(universe.size())]; const W w = W(1 + r.below(3)); sk_update(t, it, w); mt.add(it, w); }
      observe(t, mt, universe, r, "updates-after-assignment", false);
      observe(*sk[fi], md[fi], universe, r, "assignment-source-unchanged", false);
      count(same_shape ? "assign_same_shape_other_seed" : "assign_other_shape_other_seed");
    }
  }
  if (want_sample()) sample("{\"config\":" + jstr(G().cur_desc) + ",\"total_weight\":" + jstr(str(md[alive[0]].total)) + ",\"distinct_items\":" + std::to_string(md[alive[0]].truth.size()) + "}");
}

static void config_limits(Rng& r) {
  // configurations whose cell count is >= 2^30 must be refused (and never touch memory out of bounds)
  describe("config limits");
  struct C { uint32_t h; uint64_t b; };
  std::vector<C> bad = {{4, (1ull << 30) + 1}, {1, 1ull << 30}, {2, 1ull << 29}, {255, 16843010}, {255, 4210753}, {8, (1ull << 29) + 3}, {16, 1ull << 28},
                        {3, 1431655766}, {4, 1ull << 30}, {64, (1ull << 26)}, {2, 0xffffffffull}, {255, 0xffffffffull}, {128, (1ull << 25) + 1}};
  for (int i = 0; i < 6; ++i) { uint32_t h = uint32_t(r.range(1, 255)); uint64_t need = ((1ull << 30) + h - 1) / h; uint64_t b = need + r.below(1000); if (b <= 0xffffffffull) bad.push_back({h, b});
                                uint64_t wrap = ((1ull << 32) + h - 1) / h + r.below(50); if (wrap <= 0xffffffffull) bad.push_back({h, wrap}); }
  for (auto c : bad) {
    if (uint64_t(c.h) * c.b < (1ull << 30)) continue;
    bool thrown = throws([&] { count_min_sketch<uint64_t> s(uint8_t(c.h), uint32_t(c.b)); });
    VF_CHECK(thrown, "cm|config|oversized-accepted", "num_hashes=" + std::to_string(c.h) + " num_buckets=" + std::to_string(c.b));
    count("oversized_configs");
  }
  for (uint32_t b = 0; b < 3; ++b) VF_CHECK(throws([&] { count_min_sketch<uint64_t> s(3, b); }), "cm|config|fewer-than-3-buckets-accepted", "b=" + std::to_string(b));
  // suggestions are consistent with the published error/confidence
  for (double e : {0.5, 0.1, 0.01, 0.001}) {
    uint32_t nb = count_min_sketch<uint64_t>::suggest_num_buckets(e);
    VF_CHECK(std::exp(1.0) / nb <= e * (1 + 1e-12), "cm|config|suggest_num_buckets-too-small", "e=" + str(e) + " nb=" + std::to_string(nb));
  }
  for (double c : {0.5, 0.9, 0.99, 0.999}) {
    uint8_t nh = count_min_sketch<uint64_t>::suggest_num_hashes(c);
    VF_CHECK(std::exp(-double(nh)) <= (1 - c) * (1 + 1e-9), "cm|config|suggest_num_hashes-too-small", "c=" + str(c) + " nh=" + std::to_string(nh));
  }
  sig(0xC14C0F);
}

void run_case(uint64_t idx, Rng& r) {
  if (idx % 200 == 7) { config_limits(r); return; }
  switch (r.below(3)) {
    case 0: run_program<uint64_t>(r); break;
    case 1: run_program<int64_t>(r); break;
    default: run_program<double>(r); break;
  }
}

} // namespace vf
