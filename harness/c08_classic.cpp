// C08 (classic quantiles unit) — ranks unbiased over the coin flips (exhaustive over the coin tree
// for small scenarios with equal k) and within the published normalized rank error (sampled, fixed
// seeds; includes the down-sampling merge whose stride offset comes from random_utils::rand).
#include "vf/c08_common.hpp"
#include <quantiles_sketch.hpp>

using namespace datasketches;
namespace vf {

struct ClassicFam {
  typedef quantiles_sketch<float> SK;
  static const char* name() { return "classic"; }
  static SK make(int cfg) { return SK(static_cast<uint16_t>(cfg)); }
  static std::string cfg_text(int cfg) { return "k=" + std::to_string(cfg); }
  static bool allow_rt() { return false; }
  static SK roundtrip(const SK& s) { return s; }
  // equal k inside an exhaustive scenario: a merge of different k draws its stride offset from
  // random_utils::rand, which is not a coin and is covered by the sampled part
  static void gen_cfgs(Rng& r, int nsk, std::vector<int>& cfg) {
    const int k = static_cast<int>(r.pick({2, 2, 4, 4, 4, 8}));
    cfg.assign(static_cast<size_t>(nsk), k);
  }
  static int mixed_cfg(int cfg, int i) { static const int mul[4] = {1, 2, 4, 2}; return cfg * mul[i]; }
};

const char* property_id() { return "C08"; }
unsigned case_timeout_s() { return 3000; }
void final_report() {}

static const int NEXH_Q = 48, NEXH_T = 480;
static std::vector<c08::Cell> cells(bool T) {
  std::vector<c08::Cell> v;
  const int tr = T ? 2000 : 160;
  if (T) for (int k : {16, 128}) for (int order : {1, 0}) for (int merge : {0, 1, 2}) v.push_back(c08::Cell{k, 1000000, order, merge, 400});
  for (uint64_t n : {100000ULL, 10000ULL}) for (int k : {16, 128}) for (int order : {0, 1, 2}) for (int merge : {0, 1}) v.push_back(c08::Cell{k, n, order, merge, tr});
  // down-sampling merges (k, 2k, 4k, 2k): the stride offset is drawn from random_utils::rand (pinned per trial)
  for (uint64_t n : {100000ULL, 10000ULL}) for (int k : {16, 128}) for (int order : {0, 1}) v.push_back(c08::Cell{k, n, order, 2, tr});
  v.push_back(c08::Cell{16, 10000, 3, 0, tr});
  v.push_back(c08::Cell{128, 10000, 3, 2, tr});
  if (T) { v.push_back(c08::Cell{2, 100000, 1, 0, tr}); v.push_back(c08::Cell{32, 100000, 2, 2, tr}); v.push_back(c08::Cell{1024, 100000, 1, 1, 1000}); }
  return v;
}
uint64_t num_cases(bool thorough) { return static_cast<uint64_t>(thorough ? NEXH_T : NEXH_Q) + cells(thorough).size(); }

void run_case(uint64_t idx, Rng& r) {
  const bool T = G().thorough();
  const uint64_t nexh = static_cast<uint64_t>(T ? NEXH_T : NEXH_Q);
  if (idx < nexh) {
    const bool want_merge = (idx % 2) == 1;
    int fmin, fmax;
    if (T) {
      if (idx < 32) { fmax = 18; fmin = 17; } else if (idx < 160) { fmax = static_cast<int>(r.range(14, 16)); fmin = fmax - 1; }
      else { fmax = static_cast<int>(r.range(1, 13)); fmin = std::max(0, fmax - 1); }
    } else {
      if (idx < 6) { fmax = 16; fmin = 15; } else if (idx < 20) { fmax = static_cast<int>(r.range(12, 14)); fmin = fmax - 1; }
      else { fmax = static_cast<int>(r.range(1, 11)); fmin = std::max(0, fmax - 1); }
    }
    // pin the non-coin engine too: it must not be consulted in these scenarios (equal k)
    random_utils::rand.seed(12345);
    c08::exhaustive_case<ClassicFam>(r, want_merge, fmin, fmax);
  } else {
    const auto cs = cells(T);
    c08::sampled_cell_eps<ClassicFam>(cs[idx - nexh], r);
  }
}

} // namespace vf
