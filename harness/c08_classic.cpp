// C08 (classic quantiles unit) — ranks unbiased over the coin flips (exhaustive over the coin tree
// for small scenarios with equal k) and within the published normalized rank error (sampled, fixed
// seeds; includes the down-sampling merge whose stride offset comes from random_utils::rand).
#include "vf/c08_common.hpp"
#include <quantiles_sketch.hpp>

using namespace datasketches;
namespace vf {

struct ClassicFam {
  typedef quantiles_sketch<c08::Item, c08::Cmp> SK;
  static const char* name() { static const std::string n = std::string("classic") + c08::item_tag(); return n.c_str(); }
  static SK make(int cfg) {
    SK fresh = SK(static_cast<uint16_t>(cfg), c08::cmp_instance());
#if defined(C08_CMP_DESC)
    // history 'serialize an empty sketch -> deserialize with the comparator instance -> keep using it' for 2 of 3 sketches
    const unsigned mode = static_cast<unsigned>((c08::make_salt() + c08::make_seq()++) % 3);
    if (mode == 1) { auto b = fresh.serialize(); return SK::deserialize(b.data(), b.size(), serde<c08::Item>(), c08::cmp_instance()); }
    if (mode == 2) { std::stringstream ss(std::ios::in | std::ios::out | std::ios::binary); fresh.serialize(ss); return SK::deserialize(ss, serde<c08::Item>(), c08::cmp_instance()); }
#endif
    return fresh;
  }
  static std::string cfg_text(int cfg) { return "k=" + std::to_string(cfg); }
  static bool allow_rt() { return false; }
  static int len_quantum(int cfg) { (void)cfg; return 2 * cfg; }
  static int chunk_quantum(int cfg) { (void)cfg; return 8 * cfg; }
  static bool has_exact_region() { return false; }
  static bool exact_claim(const SK&, double) { return false; }
  static SK roundtrip(const SK& s) { return s; }
  // serialize + deserialize through a stream image or a byte image
#if defined(C08_ITEM_SELFMOVE)
  static SK roundtrip_image(const SK& s, bool) { return s; }
#else
  static SK roundtrip_image(const SK& s, bool bytes) {
    if (bytes) { auto b = s.serialize(); return SK::deserialize(b.data(), b.size(), serde<c08::Item>(), c08::cmp_instance()); }
    std::stringstream ss(std::ios::in | std::ios::out | std::ios::binary);
    s.serialize(ss);
    return SK::deserialize(ss, serde<c08::Item>(), c08::cmp_instance());
  }
#endif
  static std::string published_error_text(const SK& s) { return "eps=" + str(s.get_normalized_rank_error(false)) + " eps_pmf=" + str(s.get_normalized_rank_error(true)); }
  static bool within_published(const SK& s, double est, double tr) { return std::fabs(est - tr) <= s.get_normalized_rank_error(false); }
  // equal k inside an exhaustive scenario: a merge of different k draws its stride offset from
  // random_utils::rand, which is not a coin and is covered by the sampled part
  static void gen_cfgs(Rng& r, int nsk, std::vector<int>& cfg) {
    const int k = static_cast<int>(r.pick({2, 2, 4, 4, 4, 8}));
    cfg.assign(static_cast<size_t>(nsk), k);
  }
  static int mixed_cfg(int cfg, int i) { static const int mul[4] = {1, 2, 4, 2}; return cfg * mul[i]; }
  static const double* mixed_cuts() { static const double c[5] = {0.0, 0.4, 0.7, 0.9, 1.0}; return c; }
};

static std::string FN() { return ClassicFam::name(); }
const char* property_id() { return "C08"; }
unsigned case_timeout_s() { return 3000; }
void final_report() {}

// the non-arithmetic item variants (-DC08_ITEM_STRING / -DC08_ITEM_SELFMOVE) run a reduced case list: no f >= 15 scenarios,
// sampled cells with n = 1e4 only
#ifdef C08_ITEM_NONARITH
static const bool VARIANT = true;
#else
static const bool VARIANT = false;
#endif
// Micro down-sampling cell: the stride offset of zip_buffer_with_stride comes from random_utils::rand, which cannot be
// scripted, so its fairness is tested statistically where it dominates the variance: a small source sketch (k_src = s*k_tgt,
// a few full buffers) merged with a small target; many cheap trials; z-test of the mean inclusive rank at every stream value.
struct Micro { int k_tgt, stride, src_buffers, src_extra, tgt_items, direction, trials; };
static void micro_downsample_cell(const Micro& m, Rng& r) {
  typedef ClassicFam::SK SK;
  const int k_src = m.k_tgt * m.stride;
  const int n_src = 2 * k_src * m.src_buffers + m.src_extra, n_tgt = m.tgt_items, n = n_src + n_tgt;
  const std::string ctx = "classic sampled micro-downsample k_tgt=" + std::to_string(m.k_tgt) + " k_src=" + std::to_string(k_src) + " n_src=" + std::to_string(n_src) +
    " n_tgt=" + std::to_string(n_tgt) + " direction=" + (m.direction == 0 ? "tgt.merge(src)" : "src.merge(tgt)") + " trials=" + std::to_string(m.trials);
  describe(ctx);
  const std::string kp = FN() + "|sampled|micro-downsampling-merge|";
  std::vector<float> vals(static_cast<size_t>(n));
  for (int i = 0; i < n; ++i) vals[static_cast<size_t>(i)] = static_cast<float>(i);
  r.shuffle(vals);
  std::vector<c08::Welford> acc(static_cast<size_t>(n));
  for (int t = 0; t < m.trials; ++t) {
    const uint64_t sd = r.next();
    random_utils::random_bit.script = nullptr;
    random_utils::random_bit.seed(static_cast<uint32_t>(sd));
    random_utils::rand.seed(sd ^ 0x9e3779b97f4a7c15ULL);
    SK tgt(ClassicFam::make(m.k_tgt)), src(ClassicFam::make(k_src));
    for (int i = 0; i < n_tgt; ++i) tgt.update(c08::enc(vals[static_cast<size_t>(i)]));
    for (int i = n_tgt; i < n; ++i) src.update(c08::enc(vals[static_cast<size_t>(i)]));
    SK* res;
    if (m.direction == 0) { tgt.merge(src); res = &tgt; } else { src.merge(std::move(tgt)); res = &src; }
    VF_CHECK(res->get_n() == static_cast<uint64_t>(n), kp + "n-not-true-n", ctx + " get_n=" + std::to_string(res->get_n()));
    if (res->get_k() == m.k_tgt) count(FN() + "_smp_micro_trials_downsampled");   // (an exact-mode target adopts the larger k instead: no stride drawn)
    for (int v = 0; v < n; ++v) acc[static_cast<size_t>(v)].add(res->get_rank(c08::enc(static_cast<float>(v)), true));
    count(FN() + "_smp_micro_trials");
  }
  const double floor_sigma = 0.5 / n;
  for (int v = 0; v < n; ++v) {
    const c08::Welford& w = acc[static_cast<size_t>(v)];
    const double tr = static_cast<double>(v + 1) / n;
    const double se = std::sqrt(std::max(w.var(), floor_sigma * floor_sigma) / w.n);
    const double dev = std::fabs(w.mean - tr);
    VF_CHECK(dev <= 6.5 * se + 1e-12, kp + "mean-estimated-rank-deviates-from-true-rank",
             ctx + " v=" + str(v) + " true_rank=" + str(tr) + " mean_est=" + str(w.mean) + " sample_sd=" + str(std::sqrt(w.var())) + " se_used=" + str(se) + " z=" + str(dev / se));
  }
  count(FN() + "_smp_micro_cells");
  count(FN() + "_smp_micro_cells_stride_" + std::to_string(m.stride));
  sig(mix64(mix64(static_cast<uint64_t>(m.k_tgt), static_cast<uint64_t>(m.stride)), mix64(static_cast<uint64_t>(n_src), static_cast<uint64_t>(n_tgt * 2 + m.direction))));
  if (getenv("C08_VERBOSE")) fprintf(stderr, "%s ok\n", ctx.c_str());
}
static std::vector<Micro> micros(bool T) {
  std::vector<Micro> v;
  const int tr = T ? 20000 : 3000;
  for (int stride : {2, 4, 8}) for (int k : {2, 4, 16}) {
    v.push_back(Micro{k, stride, 1, 3, 2 * k + 1, 0, tr});
    v.push_back(Micro{k, stride, 3, 0, 2 * k * 2 + 1, 0, tr});
    v.push_back(Micro{k, stride, 2, 5, 2 * k + 3, 1, tr});
    if (T) v.push_back(Micro{k, stride, 5, 1, 2 * k * 3, 1, tr});
  }
  if (VARIANT) v.resize(6);
  return v;
}

static const int NEXH_Q = VARIANT ? 28 : 48, NEXH_T = VARIANT ? 160 : 480;
static std::vector<c08::Cell> cells(bool T) {
  std::vector<c08::Cell> v;
  const int tr = T ? 2000 : 160;
  if (T) for (int k : {16, 128}) for (int order : {1, 0}) for (int merge : {0, 1, 2}) v.push_back(c08::Cell{k, 1000000, order, merge, 400});
  for (uint64_t n : {100000ULL, 10000ULL}) for (int k : {16, 128}) for (int order : {0, 1, 2}) for (int merge : {0, 1}) v.push_back(c08::Cell{k, n, order, merge, tr});
  // down-sampling merges (k, 2k, 4k, 2k): the stride offset is drawn from random_utils::rand (pinned per trial)
  for (uint64_t n : {100000ULL, 10000ULL}) for (int k : {16, 128}) for (int order : {0, 1}) v.push_back(c08::Cell{k, n, order, 2, tr});
  v.push_back(c08::Cell{16, 10000, 3, 0, tr});
  v.push_back(c08::Cell{128, 10000, 3, 2, tr});
  if (T) { v.push_back(c08::Cell{2, 100000, 1, 0, tr}); v.push_back(c08::Cell{32, 100000, 2, 2, tr}); v.push_back(c08::Cell{1024, 100000, 1, 1, 1000}); }
  if (VARIANT) { std::vector<c08::Cell> w; for (auto c : v) if (c.n == 10000) { c.trials = T ? 400 : 60; w.push_back(c); } return w; }
  return v;
}
uint64_t num_cases(bool thorough) { return static_cast<uint64_t>(thorough ? NEXH_T : NEXH_Q) + cells(thorough).size() + micros(thorough).size() + (VARIANT ? 0 : 2); }

void run_case(uint64_t idx, Rng& r) {
  c08::make_salt() = idx; c08::make_seq() = 0;
  const bool T = G().thorough();
  const uint64_t nexh = static_cast<uint64_t>(T ? NEXH_T : NEXH_Q);
  if (idx < nexh) {
    if (VARIANT) idx += T ? 32 : 8;   // skip the heaviest windows
    const bool want_merge = (idx % 2) == 1;
    int fmin, fmax;
    if (T) {
      if (idx < 32) { fmax = 18; fmin = 17; } else if (idx < 160) { fmax = static_cast<int>(r.range(14, 16)); fmin = fmax - 1; }
      else { fmax = static_cast<int>(r.range(1, 13)); fmin = std::max(0, fmax - 1); }
    } else {
      if (idx < 6) { fmax = 16; fmin = 15; } else if (idx < 20) { fmax = static_cast<int>(r.range(12, 14)); fmin = fmax - 1; }
      else { fmax = static_cast<int>(r.range(1, 11)); fmin = std::max(0, fmax - 1); }
    }
    // pin the non-coin engine too: it must not be consulted in these scenarios (equal k)
    random_utils::rand.seed(12345);
    c08::exhaustive_case<ClassicFam>(r, want_merge, fmin, fmax);
  } else {
    const auto cs = cells(T);
    try {
      if (idx - nexh < cs.size()) c08::sampled_cell_eps<ClassicFam>(cs[idx - nexh], r);
      else if (idx - nexh - cs.size() < micros(T).size()) micro_downsample_cell(micros(T)[idx - nexh - cs.size()], r);
      else if (idx - nexh - cs.size() - micros(T).size() == 0) c08::doubling_case<ClassicFam>(128, 4000, 34, T ? 6 : 2, r);
      else c08::doubling_case<ClassicFam>(16, 1000, 36, T ? 6 : 2, r);
    } catch (const std::exception& e) { checked(); fail(FN() + "|sampled|exception-in-valid-usage", G().cur_desc + " what=" + e.what()); }
  }
}

} // namespace vf
