// C13 — Tuple sketches keep theta-sketch keys and exact per-key summaries.
// Unit: Summary = double with the library's default policies (Summary() and +=): commutative, exact (values are multiples of 1/4).
#include "vf/c13_common.hpp"

using namespace datasketches;
namespace vf {
using namespace c13;

// ------------------------------------------------------------------ double, default policies (Summary() and +=)
struct DoubleT {
  static const char* name() { return "double"; }
  static int id() { return 1; }
  using Summary = double; using UV = double; using M = double;
  struct Cfg {};
  using UpdateSketch = update_tuple_sketch<double>;
  using CompactSketch = compact_tuple_sketch<double>;
  using BaseCompact = CompactSketch;
  using Union = tuple_union<double>;
  struct InterPolicy { void operator()(double& a, const double& b) const { a += b; } };
  using Intersection = tuple_intersection<double, InterPolicy>;
  using ANotB = tuple_a_not_b<double>;
  static const bool anotb_accepts_base_a = true;

  static Cfg gen_cfg(Rng&) { return Cfg(); }
  static std::string cfg_str(const Cfg&) { return ""; }
  // multiples of 1/4 of modest magnitude: every partial sum is exact in binary64, so equality is exact in any order
  static UV gen_uv(Rng& r, const Cfg&) { return r.chance(0.5) ? static_cast<double>(r.range(-1000, 1000)) : 0.25 * static_cast<double>(r.range(-4000, 4000)); }
  static std::string uv_str(const UV& v) { return str(v); }
  static M m_create(const Cfg&) { return 0; }
  static void m_update(M& m, const UV& v) { m += v; }
  static void m_merge(M& m, const M& o) { m += o; }
  static M read(const Summary& s) { return s; }
  static bool m_eq(const M& a, const M& b) { return a == b; }
  static std::string m_str(const M& m) { return str(m); }
  static bool pred(const M& m, int param) {
    switch (param) { case 0: return m > 0; case 1: return std::fmod(std::fabs(m), 1.0) == 0; case 2: return m < 100; default: return false; }
  }
  static Summary make_summary(const M& m, const Cfg&) { return m; }
  static UpdateSketch make_update(const Cfg&, uint8_t lg_k, int rf, float p, uint64_t seed) {
    return UpdateSketch::builder().set_lg_k(lg_k).set_resize_factor(static_cast<theta_constants::resize_factor>(rf)).set_p(p).set_seed(seed).build();
  }
  static void do_update(UpdateSketch& sk, const Val& key, const UV& uv, Rng& r, const Cfg&) {
    if (uv == std::floor(uv) && r.coin()) apply_update2(sk, key, static_cast<int>(uv));   // any type convertible to the Update type
    else if (r.coin()) apply_update2(sk, key, uv);
    else { double tmp = uv; apply_update2(sk, key, std::move(tmp)); }
  }
  static Union make_union(const Cfg&, uint8_t lg_k, int rf, float p, uint64_t seed) {
    return Union::builder().set_lg_k(lg_k).set_resize_factor(static_cast<theta_constants::resize_factor>(rf)).set_p(p).set_seed(seed).build();
  }
  static Intersection make_inter(const Cfg&, uint64_t seed) { return Intersection(seed); }
  static ANotB make_anotb(uint64_t seed) { return ANotB(seed); }
  template<typename A, typename B> static void anotb_compute(const ANotB& anb, A&& a, const B& b, bool ro, std::unique_ptr<CompactSketch>& res) {
    res.reset(new CompactSketch(anb.compute(std::forward<A>(a), b, ro)));
  }
  template<typename R> static void check_result_cfg(const R&, const Cfg&, const std::string&, const std::string&) {}
  static CompactSketch compact_ctor(const UpdateSketch& s, bool ord) { return CompactSketch(s, ord); }
  static std::string ser_bytes(const CompactSketch& c) { return ser_bytes_g(c, serde<double>()); }
  static std::string ser_stream(const CompactSketch& c) { return ser_stream_g(c, serde<double>()); }
  static CompactSketch deser_bytes(const std::string& b, uint64_t seed, const Cfg&) { return CompactSketch::deserialize(b.data(), b.size(), seed); }
  static CompactSketch deser_stream(const std::string& b, uint64_t seed, const Cfg&) { return deser_stream_g<CompactSketch>(b, seed, serde<double>()); }
};


const char* property_id() { return "C13"; }
unsigned case_timeout_s() { return 180; }
uint64_t num_cases(bool thorough) { return thorough ? 15000 : 700; }
void final_report() {}
void run_case(uint64_t idx, Rng& r) { run_typed<DoubleT>(idx, r); }

} // namespace vf
