// setup-time self test: reference hashes against known-answer vectors and against the library.
#include "vf/refhash.hpp"
#include "vf/core.hpp"
#include <MurmurHash3.h>
#include <xxhash64.h>
#include <cstdio>
namespace vf {
const char* property_id() { return "SELFTEST"; }
unsigned case_timeout_s() { return 60; }
uint64_t num_cases(bool) { return 1; }
void final_report() {}
void run_case(uint64_t, Rng& r) {
  std::string e = refhash_selftest();
  if (!e.empty()) { fprintf(stderr, "KAT failed: %s\n", e.c_str()); exit(3); }
  for (int i = 0; i < 20000; ++i) {
    size_t len = r.below(300); std::string b(len, 0); for (auto& c : b) c = char(r.next());
    uint64_t seed = r.coin() ? r.next() : r.below(10000);
    HashState hs; MurmurHash3_x64_128(b.data(), len, seed, hs);
    H128 h = ref_murmur3_x64_128(b.data(), len, seed);
    if (h.h1 != hs.h1 || h.h2 != hs.h2) { fprintf(stderr, "mm3 mismatch len=%zu\n", len); exit(4); }
    if (ref_xxh64(b.data(), len, seed) != XXHash64::hash(b.data(), len, seed)) { fprintf(stderr, "xxh mismatch len=%zu\n", len); exit(5); }
  }
  printf("selftest ok\n");
}
}
