// C19 — value semantics / every byte returned: sampling family (VarOpt sketch + union, EBPPS sketch)
#ifndef C19_VAROPT_UNION_COPY_ASSIGN
#define C19_VAROPT_UNION_COPY_ASSIGN 0
#endif
#ifndef C19_PART
#define C19_PART 0
#endif
#include "vf/c19_life.hpp"
#include <var_opt_sketch.hpp>
#include <var_opt_union.hpp>
#include <ebpps_sketch.hpp>
#include <sstream>

// ebpps_sketch::merge(const&) calls an unqualified swap(*this, copy) (ebpps_sketch_impl.hpp:205), which only
// compiles when argument-dependent lookup reaches namespace std through T or A.  With vf::Item and
// vf::track_alloc it does not, so give ADL something to find in namespace vf (same meaning: std::swap).
namespace vf {
template<typename T, typename A> void swap(datasketches::ebpps_sketch<T, A>& a, datasketches::ebpps_sketch<T, A>& b) { std::swap(a, b); }
}

using namespace datasketches;
namespace vf {
const char* property_id() { return "C19"; }
unsigned case_timeout_s() { return 120; }
uint64_t num_cases(bool thorough) { return (C19_PART == 0 ? 3 : 2) * (thorough ? 3000 : 160); }
void final_report() {}

struct SCfg { uint32_t k1, k2; uint64_t domain; uint32_t max_batch; bool heavy; };
static SCfg gen_scfg(Rng& r) {
  SCfg c; static const uint32_t ks[] = {1, 2, 5, 16, 40, 100};
  c.k1 = ks[r.below(6)]; c.k2 = r.coin() ? c.k1 : ks[r.below(6)];
  c.domain = 100000; c.max_batch = r.chance(0.3) ? 4 : (r.coin() ? 60 : 600);
  c.heavy = r.coin();
  return c;
}
static std::string scfg_str(const SCfg& c) { return "k1=" + std::to_string(c.k1) + " k2=" + std::to_string(c.k2) + " max_batch=" + std::to_string(c.max_batch) + " heavy=" + std::to_string(c.heavy); }
static double gen_weight(const SCfg& c, Rng& r) { return c.heavy && r.chance(0.1) ? 1000.0 * (1 + r.below(50)) : (r.chance(0.3) ? 1.0 : 0.25 * (1 + r.below(40))); }

template<typename T, typename Sk> static void feed(Sk& s, const SCfg& c, Rng& r, Arena* scratch) {
  typedef ItemKind<T> IK;
  const uint64_t n = 1 + r.below(c.max_batch);
  for (uint64_t i = 0; i < n; ++i) {
    const uint64_t id = r.below(c.domain);
    const double w = gen_weight(c, r);
    if (r.coin()) { T it = IK::make(id, scratch); s.update(it, w); }
    else s.update(IK::make(id, scratch), w);
  }
}

template<typename T> struct VarOptFam {
  typedef ItemKind<T> IK; typedef track_alloc<T> A;
  typedef var_opt_sketch<T, A> Obj; typedef SCfg Cfg;
  static const char* name() { static const std::string n = std::string("varopt_") + IK::tag(); return n.c_str(); }
  static Cfg gen_cfg(Rng& r) { return gen_scfg(r); }
  static std::string cfg_str(const Cfg& c) { return scfg_str(c); }
  static void construct(void* mem, const Cfg& c, Arena* a, Rng& r) { new (mem) Obj(r.coin() ? c.k1 : c.k2, static_cast<resize_factor>(r.below(4)), A(a)); }
  static void mutate(Obj& o, const Cfg& c, Rng& r, Arena* scratch) { feed<T>(o, c, r, scratch); }
  static std::string readout(const Obj& o, const Cfg&) {
    std::string s = "k=" + std::to_string(o.get_k()) + " n=" + std::to_string(o.get_n()) + " samples=" + std::to_string(o.get_num_samples()) + " empty=" + std::to_string(o.is_empty()) + " items=";
    for (auto it = o.begin(); it != o.end(); ++it) { auto p = *it; s += IK::show(p.first) + ":" + dstr(p.second) + ","; }
    s += " bytes=" + bytes_hex(o.serialize(0, IK::serde(nullptr)));
    return s;
  }
  static void query(const Obj& o, const Cfg&, Rng&) {
    auto ss = o.estimate_subset_sum([](const T&) { return true; });
    (void)ss.estimate;
    (void)o.get_serialized_size_bytes(IK::serde(nullptr));
  }
  static const bool SINGLE_INSTANCE = true;
  static Arena* arena_of(const Obj& o) { return o.allocator_.arena; }   // private member: -fno-access-control
  static const bool HAS_MERGE_REF = false, HAS_MERGE_MOVE = false, HAS_RESET = true, HAS_ROUNDTRIP = true;
  static void merge_ref(Obj&, const Obj&, const Cfg&) {}
  static void merge_move(Obj&, Obj&&, const Cfg&) {}
  static void reset(Obj& o, const Cfg&) { o.reset(); }
  static void roundtrip(void* mem, const Obj& src, const Cfg&, Arena* a, Rng& r) {
    if (r.coin()) {
      const unsigned hdr = r.coin() ? 0 : 8;
      auto b = src.serialize(hdr, IK::serde(a));
      new (mem) Obj(Obj::deserialize(b.data() + hdr, b.size() - hdr, IK::serde(a), A(a)));
    } else {
      std::stringstream ss(std::ios::in | std::ios::out | std::ios::binary);
      src.serialize(ss, IK::serde(a));
      new (mem) Obj(Obj::deserialize(ss, IK::serde(a), A(a)));
    }
  }
  static std::string mode(const Obj& o, const Cfg&) { return o.is_empty() ? "empty" : (o.get_n() > o.get_num_samples() ? "sampling" : (o.get_num_samples() == o.get_k() ? "full_exact" : "warmup")); }
};

template<typename T> struct VarOptUnionFam {
  typedef ItemKind<T> IK; typedef track_alloc<T> A;
  typedef var_opt_union<T, A> Obj; typedef var_opt_sketch<T, A> Sk; typedef SCfg Cfg;
  static const char* name() { static const std::string n = std::string("varopt_union_") + IK::tag(); return n.c_str(); }
  static Cfg gen_cfg(Rng& r) { return gen_scfg(r); }
  static std::string cfg_str(const Cfg& c) { return scfg_str(c); }
  static void construct(void* mem, const Cfg& c, Arena* a, Rng& r) { new (mem) Obj(r.coin() ? c.k1 : c.k2, A(a)); }
  static void mutate(Obj& o, const Cfg& c, Rng& r, Arena* scratch) {
    if (r.chance(0.08)) {   // feed the union its own result: safety only
      Sk res = o.get_result();
      if (r.coin()) o.update(res); else o.update(std::move(res));
      xcount(std::string(name()) + ".update_with_own_result");
      return;
    }
    Sk s(r.coin() ? c.k1 : c.k2, static_cast<resize_factor>(r.below(4)), A(scratch));
    const int rounds = static_cast<int>(r.below(3));
    for (int i = 0; i < rounds; ++i) feed<T>(s, c, r, scratch);
    if (r.coin()) { { OperandWatch w(scratch, false, "union-update"); o.update(s); } xcount(std::string(name()) + ".merge_ref"); }
    else {
      { OperandWatch w(scratch, true, "union-update"); o.update(std::move(s)); } xcount(std::string(name()) + ".merge_move");
      if (r.coin()) {   // the consumed sketch must remain assignable and usable
        Sk live(r.coin() ? c.k1 : c.k2, static_cast<resize_factor>(r.below(4)), A(scratch));
        feed<T>(live, c, r, scratch);
        reuse_consumed_operand(s, live, r,
          [](const Sk& x) { std::string t = "k=" + std::to_string(x.get_k()) + " n=" + std::to_string(x.get_n()) + " bytes=" + bytes_hex(x.serialize(0, IK::serde(nullptr))); return t; },
          [&](Sk& x) { if (r.coin()) x.reset(); feed<T>(x, c, r, scratch); (void)x.get_num_samples(); });
      }
    }
  }
  // get_result() may draw random numbers while resolving the gadget, so the deterministic read-out is the image
  static std::string readout(const Obj& o, const Cfg&) { return "bytes=" + bytes_hex(o.serialize(0, IK::serde(nullptr))); }
  static void query(const Obj& o, const Cfg&, Rng&) { Sk res = o.get_result(); (void)res.get_n(); (void)o.get_serialized_size_bytes(IK::serde(nullptr)); }
  static Arena* arena_of(const Obj& o) { return o.allocator_.arena; }   // private member: -fno-access-control
#if !C19_VAROPT_UNION_COPY_ASSIGN
  // var_opt_union::operator=(const var_opt_union&) cannot be instantiated in the pinned tree (it swaps with a
  // const object, var_opt_union_impl.hpp:82) -- reported by compile_probes(); until that is repaired the
  // copy-assignment forms are left out for this type (add -DC19_VAROPT_UNION_COPY_ASSIGN=1 to the unit's flags afterwards)
  static const bool NO_COPY_ASSIGN = true;
#endif
  static const bool HAS_MERGE_REF = false, HAS_MERGE_MOVE = false, HAS_RESET = true, HAS_ROUNDTRIP = true;
  static void merge_ref(Obj&, const Obj&, const Cfg&) {}
  static void merge_move(Obj&, Obj&&, const Cfg&) {}
  static void reset(Obj& o, const Cfg&) { o.reset(); }
  static void roundtrip(void* mem, const Obj& src, const Cfg&, Arena* a, Rng& r) {
    if (r.coin()) {
      const unsigned hdr = r.coin() ? 0 : 8;
      auto b = src.serialize(hdr, IK::serde(a));
      new (mem) Obj(Obj::deserialize(b.data() + hdr, b.size() - hdr, IK::serde(a), A(a)));
    } else {
      std::stringstream ss(std::ios::in | std::ios::out | std::ios::binary);
      src.serialize(ss, IK::serde(a));
      new (mem) Obj(Obj::deserialize(ss, IK::serde(a), A(a)));
    }
  }
  static std::string mode(const Obj& o, const Cfg&) { Sk res = o.get_result(); return res.is_empty() ? "empty" : (res.get_n() > res.get_num_samples() ? "sampling" : "exact"); }
};

template<typename T> struct EbppsFam {
  typedef ItemKind<T> IK; typedef track_alloc<T> A;
  typedef ebpps_sketch<T, A> Obj; typedef SCfg Cfg;
  static const char* name() { static const std::string n = std::string("ebpps_") + IK::tag(); return n.c_str(); }
  static Cfg gen_cfg(Rng& r) { return gen_scfg(r); }
  static std::string cfg_str(const Cfg& c) { return scfg_str(c); }
  static void construct(void* mem, const Cfg& c, Arena* a, Rng& r) { new (mem) Obj(r.coin() ? c.k1 : c.k2, A(a)); }
  static void mutate(Obj& o, const Cfg& c, Rng& r, Arena* scratch) { feed<T>(o, c, r, scratch); }
  // get_result()/iteration include the partial item at random, so they are queries, not read-out
  static std::string readout(const Obj& o, const Cfg&) {
    return "k=" + std::to_string(o.get_k()) + " n=" + std::to_string(o.get_n()) + " c=" + dstr(o.get_c()) + " cw=" + dstr(o.get_cumulative_weight()) + " empty=" + std::to_string(o.is_empty()) +
      " bytes=" + bytes_hex(o.serialize(0, IK::serde(nullptr)));
  }
  static void query(const Obj& o, const Cfg&, Rng&) {
    auto res = o.get_result(); (void)res.size();
    size_t n = 0; for (auto it = o.begin(); it != o.end(); ++it) { (void)IK::show(*it); ++n; }
    (void)o.get_serialized_size_bytes(IK::serde(nullptr));
  }
  static const bool HAS_MERGE_REF = true, HAS_MERGE_MOVE = true, HAS_RESET = true, HAS_ROUNDTRIP = true;
  static const bool SINGLE_INSTANCE = true;
  static Arena* arena_of(const Obj& o) { return o.get_allocator().arena; }
  // x.merge(x): n and the cumulative weight double, k stays
  static const int SELF_MERGE = SM_DOUBLES;
  static SelfMergeFacts self_merge_facts(const Obj& o, const Cfg&) {
    SelfMergeFacts f;
    f.doubles = {static_cast<double>(o.get_n()), o.get_cumulative_weight()};
    f.same = "k=" + std::to_string(o.get_k());
    return f;
  }
  static void merge_ref(Obj& d, const Obj& s, const Cfg&) { d.merge(s); }
  static void merge_move(Obj& d, Obj&& s, const Cfg&) { d.merge(std::move(s)); }
  static void reset(Obj& o, const Cfg&) { o.reset(); }
  static void roundtrip(void* mem, const Obj& src, const Cfg&, Arena* a, Rng& r) {
    if (r.coin()) {
      const unsigned hdr = r.coin() ? 0 : 8;
      auto b = src.serialize(hdr, IK::serde(a));
      new (mem) Obj(Obj::deserialize(b.data() + hdr, b.size() - hdr, IK::serde(a), A(a)));
    } else {
      std::stringstream ss(std::ios::in | std::ios::out | std::ios::binary);
      src.serialize(ss, IK::serde(a));
      new (mem) Obj(Obj::deserialize(ss, IK::serde(a), A(a)));
    }
  }
  static std::string mode(const Obj& o, const Cfg&) { return o.is_empty() ? "empty" : (o.get_n() > o.get_k() ? "sampling" : "exact"); }
};

// Compile-time availability of the lifecycle operations for user-defined item / allocator types is part of
// "for every sketch and operator type": operations whose body cannot be instantiated are reported here
// (run once, by compiling a three-line snippet against the tree under test with -fsyntax-only).
static void compile_probe(const char* key, const char* what, const std::string& code) {
  const char* repo = getenv("VERIF_REPO");
  if (!repo) { count("compile_probe_skipped_no_env"); return; }
  const std::string base = "/tmp/c19_probe_" + std::to_string(getpid()) + "_" + std::to_string(G().cur_case);
  { FILE* f = fopen((base + ".cpp").c_str(), "w"); if (!f) { count("compile_probe_skipped_io"); return; } fputs(code.c_str(), f); fclose(f); }
  const std::string cmd = std::string("g++ -std=gnu++17 -fsyntax-only -I") + repo + "/common/include -I" + repo + "/sampling/include " + base + ".cpp > " + base + ".err 2>&1";
  const int rc = system(cmd.c_str());
  std::string err;
  { FILE* f = fopen((base + ".err").c_str(), "r"); if (f) { char b[4096]; size_t n; while ((n = fread(b, 1, sizeof b, f)) > 0 && err.size() < 200000) err.append(b, n); fclose(f); } }
  remove((base + ".cpp").c_str()); remove((base + ".err").c_str());
  if (rc == -1 || (WIFEXITED(rc) && WEXITSTATUS(rc) == 127)) { count("compile_probe_skipped_no_compiler"); return; }
  count("compile_probes");
  const size_t at = err.find("error:");
  VF_CHECK(rc == 0, key, std::string(what) + ": " + (at == std::string::npos ? err.substr(0, 600) : err.substr(at > 200 ? at - 200 : 0, 700)));
}
static void compile_probes() {
  describe("compile probes (sampling family)");
  c19ctx().family = "sampling";
  compile_probe("varopt_union|copy-assign|does-not-compile", "var_opt_union copy assignment cannot be instantiated (even with std::allocator)",
    "#include <var_opt_union.hpp>\nvoid f(datasketches::var_opt_union<int>& a, const datasketches::var_opt_union<int>& b) { a = b; }\n");
  compile_probe("ebpps|merge-const-ref|does-not-compile-for-user-types", "ebpps_sketch::merge(const&) cannot be instantiated when neither the item type nor the allocator lives in namespace std (unqualified swap)",
    "#include <ebpps_sketch.hpp>\n#include <new>\nnamespace user { struct item { int v; };\n"
    "template<class T> struct al { using value_type = T; al() = default; template<class U> al(const al<U>&) {}\n"
    "  T* allocate(std::size_t n) { return static_cast<T*>(::operator new(n * sizeof(T))); } void deallocate(T* p, std::size_t) { ::operator delete(p); } };\n"
    "template<class T, class U> bool operator==(const al<T>&, const al<U>&) { return true; }\n"
    "template<class T, class U> bool operator!=(const al<T>&, const al<U>&) { return false; } }\n"
    "typedef datasketches::ebpps_sketch<user::item, user::al<user::item>> sk;\nvoid g(sk& a, const sk& b) { a.merge(b); }\n");
}

// the unit is compiled twice (registry flag -DC19_PART=0 / 1) to keep each compile short
void run_case(uint64_t idx, Rng& r) {
#if C19_PART == 0
  switch (idx % 3) {
    case 0: run_program<VarOptFam<Item>>(r); break;
    case 1: run_program<VarOptFam<tstring>>(r); break;
    default: run_program<VarOptUnionFam<Item>>(r); break;
  }
#else
  if (idx == 0) compile_probes();
  if (idx % 2 == 0) run_program<EbppsFam<Item>>(r); else run_program<EbppsFam<tstring>>(r);
#endif
}
} // namespace vf
