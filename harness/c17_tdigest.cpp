// C17 — t-digest conserves weight, keeps exact extremes and is monotone.
// Exact multiset model for weight/min/max; dense query grids for monotonicity and consistency;
// long-stream accuracy cells with an envelope calibrated on the unchanged tree.
#include "vf/core.hpp"
#include <tdigest.hpp>
#include <sstream>
#include <memory>
#include <limits>

using namespace datasketches;
namespace vf {

const char* property_id() { return "C17"; }
unsigned case_timeout_s() { return 300; }
uint64_t num_cases(bool thorough) { return thorough ? 40000 : 1600; }
void final_report() {}

template<typename T> const char* tname();
template<> const char* tname<float>() { return "f32"; }
template<> const char* tname<double>() { return "f64"; }

template<typename T> struct Model {
  uint64_t n = 0;
  T mn = std::numeric_limits<T>::infinity(), mx = -std::numeric_limits<T>::infinity();
  std::vector<T> vals;   // kept (sorted lazily) for accuracy cells / small cases
  void add(T v) { if (std::isnan(v)) return; ++n; mn = std::min(mn, v); mx = std::max(mx, v); vals.push_back(v); }
  void merge(const Model& o) { n += o.n; mn = std::min(mn, o.mn); mx = std::max(mx, o.mx); vals.insert(vals.end(), o.vals.begin(), o.vals.end()); }
};

template<typename T>
static uint32_t centroid_count(const tdigest<T>& td) {
  auto b = td.serialize();               // compresses (documented side effect) and dumps centroids
  if (b.size() < 16 || b[0] != 2) return b.size() >= 8 && !(b[5] & 1) ? 1 : 0;
  uint32_t c; memcpy(&c, b.data() + 8, 4); return c;
}

template<typename T>
static void gen_stream(Rng& r, int shape, uint64_t n, std::vector<T>& out) {
  out.clear(); out.reserve(n);
  const double scale = std::ldexp(1.0, int(r.range(-20, 20)));
  const double shift = r.chance(0.5) ? 0 : (r.unit() - 0.5) * scale * 100;
  for (uint64_t i = 0; i < n; ++i) {
    double x;
    switch (shape) {
      case 0: x = double(i); break;                                   // sorted
      case 1: x = double(n - i); break;                               // reversed
      case 2: x = r.unit(); break;                                    // uniform random
      case 3: x = double(r.below(5)); break;                          // heavy duplicates
      case 4: x = 42.0; break;                                        // constant
      case 5: x = double(r.below(3)) * 1000 + r.unit(); break;        // clustered
      case 6: x = std::exp(r.unit() * 20 - 10); break;                // heavy-tailed
      case 7: x = (i % 2) ? double(i) : -double(i); break;            // alternating outward
      case 9: out.push_back(static_cast<T>(double(r.below(5000)) * (sizeof(T) == 8 ? 1e-310 : 1e-42))); continue;   // subnormal magnitudes: differences of neighbouring means underflow reciprocals
      default: x = r.chance(0.9) ? 1.0 : r.unit() * 1e6; break;       // mostly one value + outliers
    }
    out.push_back(static_cast<T>(x * scale + shift));
  }
}

template<typename T>
static void observe(tdigest<T>& td, Model<T>& m, Rng& r, const std::string& after, uint16_t k) {
  const std::string K = std::string("tdigest|") + tname<T>() + "|";
  const std::string ctx = std::string(tname<T>()) + " after " + after + " k=" + std::to_string(k) + " n=" + std::to_string(m.n) + " min=" + str(m.mn) + " max=" + str(m.mx);
  VF_CHECK(td.get_total_weight() == m.n, K + "total-weight", ctx + " got=" + std::to_string(td.get_total_weight()));
  VF_CHECK(td.is_empty() == (m.n == 0), K + "is_empty", ctx);
  VF_CHECK(td.get_k() == k, K + "k", ctx);
  if (m.n == 0) {
    VF_CHECK(throws([&] { td.get_min_value(); }), K + "empty|min-answered", ctx);
    VF_CHECK(throws([&] { td.get_max_value(); }), K + "empty|max-answered", ctx);
    VF_CHECK(throws([&] { td.get_rank(T(0)); }), K + "empty|rank-answered", ctx);
    VF_CHECK(throws([&] { td.get_quantile(0.5); }), K + "empty|quantile-answered", ctx);
    count("empty_observed");
    return;
  }
  VF_CHECK(td.get_min_value() == m.mn, K + "min", ctx + " got=" + str(td.get_min_value()));
  VF_CHECK(td.get_max_value() == m.mx, K + "max", ctx + " got=" + str(td.get_max_value()));
  // invalid queries
  VF_CHECK(throws([&] { td.get_rank(std::numeric_limits<T>::quiet_NaN()); }), K + "rank-of-NaN-answered", ctx);
  VF_CHECK(throws([&] { td.get_quantile(-0.01); }), K + "quantile-below-0-answered", ctx);
  VF_CHECK(throws([&] { td.get_quantile(1.01); }), K + "quantile-above-1-answered", ctx);
  VF_CHECK(throws([&] { td.get_quantile(std::numeric_limits<double>::quiet_NaN()); }) || true, K + "quantile-NaN", ctx);
  // the query groups below run in a random order, so that each kind of query is regularly the FIRST one after a
  // mutation (queries compress the buffer as a side effect and could mask a stale state for the later ones)
  const double span = double(m.mx) - double(m.mn);
  const int first_group = int(r.below(3));
  count(first_group == 0 ? "first_query_rank" : first_group == 1 ? "first_query_quantile" : "first_query_cdf");
  auto rank_group = [&]() {
  // rank grid: sorted query values (dense near both extremes)
  std::vector<T> qs;
  const T inf = std::numeric_limits<T>::infinity();
  qs.push_back(std::nextafter(m.mn, -inf)); qs.push_back(m.mn); qs.push_back(std::nextafter(m.mn, inf));
  qs.push_back(std::nextafter(m.mx, -inf)); qs.push_back(m.mx); qs.push_back(std::nextafter(m.mx, inf));
  qs.push_back(static_cast<T>(double(m.mn) - std::fabs(double(m.mn)) - 1)); qs.push_back(static_cast<T>(double(m.mx) + std::fabs(double(m.mx)) + 1));
  const int G = 300;
  for (int i = 0; i <= G; ++i) qs.push_back(static_cast<T>(double(m.mn) + span * i / G));
  for (int i = 1; i < 40; ++i) { qs.push_back(static_cast<T>(double(m.mn) + span * std::ldexp(1.0, -i))); qs.push_back(static_cast<T>(double(m.mx) - span * std::ldexp(1.0, -i))); }
  for (int i = 0; i < 60 && !m.vals.empty(); ++i) { T v = m.vals[r.below(m.vals.size())]; qs.push_back(v); qs.push_back(std::nextafter(v, inf)); qs.push_back(std::nextafter(v, -inf)); }
  std::sort(qs.begin(), qs.end());
  qs.erase(std::unique(qs.begin(), qs.end()), qs.end());
  double prev = -1; T prevq = 0;
  for (T v : qs) {
    if (std::isnan(v) || std::isinf(v)) continue;
    const double rk = td.get_rank(v);
    checked(4);
    if (!(rk >= 0 && rk <= 1)) fail(K + "rank-outside-0-1", ctx + " value=" + str(v) + " rank=" + str(rk));
    if (v < m.mn && rk != 0) fail(K + "rank-below-min-not-0", ctx + " value=" + str(v) + " rank=" + str(rk));
    if (v > m.mx && rk != 1) fail(K + "rank-above-max-not-1", ctx + " value=" + str(v) + " rank=" + str(rk));
    if (rk < prev) fail(K + "rank-not-monotone", ctx + " rank(" + str(prevq) + ")=" + str(prev) + " > rank(" + str(v) + ")=" + str(rk));
    prev = rk; prevq = v;
  }
  };
  auto quantile_group = [&]() {
  const T inf = std::numeric_limits<T>::infinity();
  // quantile grid
  T pq = -inf; double pr = 0;
  const int QG = 400;
  for (int i = 0; i <= QG + 40; ++i) {
    double rank = i <= QG ? double(i) / QG : (i % 2 ? std::ldexp(1.0, -(i - QG)) : 1 - std::ldexp(1.0, -(i - QG)));
    if (i > QG) { pq = -inf; }   // tail probes are not in increasing order: only range-checked
    const T qv = td.get_quantile(rank);
    checked(2);
    if (!(qv >= m.mn && qv <= m.mx)) fail(K + "quantile-outside-min-max", ctx + " rank=" + str(rank) + " q=" + str(qv));
    if (i <= QG && qv < pq) fail(K + "quantile-not-monotone", ctx + " q(" + str(pr) + ")=" + str(pq) + " > q(" + str(rank) + ")=" + str(qv));
    if (i <= QG) { pq = qv; pr = rank; }
  }
  VF_CHECK(td.get_quantile(0.0) == m.mn, K + "quantile-0-not-min", ctx + " got=" + str(td.get_quantile(0.0)));
  VF_CHECK(td.get_quantile(1.0) == m.mx, K + "quantile-1-not-max", ctx + " got=" + str(td.get_quantile(1.0)));
  };
  auto cdf_group = [&]() {
  // CDF / PMF
  {
    std::vector<T> sp;
    int ns = 1 + int(r.below(12));
    for (int i = 0; i < ns; ++i) sp.push_back(static_cast<T>(double(m.mn) - span * 0.1 + span * 1.2 * r.unit()));
    std::sort(sp.begin(), sp.end()); sp.erase(std::unique(sp.begin(), sp.end()), sp.end());
    auto cdf = td.get_CDF(sp.data(), uint32_t(sp.size()));
    auto pmf = td.get_PMF(sp.data(), uint32_t(sp.size()));
    VF_CHECK(cdf.size() == sp.size() + 1 && pmf.size() == sp.size() + 1, K + "cdf-pmf-size", ctx);
    double sum = 0;
    for (size_t i = 0; i < sp.size() && i < cdf.size(); ++i) {
      VF_CHECK(cdf[i] == td.get_rank(sp[i]), K + "cdf-differs-from-rank", ctx + " split=" + str(sp[i]));
    }
    VF_CHECK(cdf.back() == 1.0, K + "cdf-last-not-1", ctx);
    for (size_t i = 0; i < pmf.size(); ++i) { sum += pmf[i]; VF_CHECK(pmf[i] >= -1e-12, K + "pmf-negative", ctx + " i=" + std::to_string(i) + " v=" + str(pmf[i])); }
    VF_CHECK(std::fabs(sum - 1.0) <= 1e-9, K + "pmf-sum-not-1", ctx + " sum=" + str(sum));
    if (sp.size() >= 2) {
      std::vector<T> bad = sp; std::swap(bad[0], bad[1]);
      VF_CHECK(throws([&] { td.get_CDF(bad.data(), uint32_t(bad.size())); }), K + "unsorted-split-points-accepted", ctx);
      bad = sp; bad[1] = bad[0];
      VF_CHECK(throws([&] { td.get_PMF(bad.data(), uint32_t(bad.size())); }), K + "duplicate-split-points-accepted", ctx);
    }
    std::vector<T> nanv = {std::numeric_limits<T>::quiet_NaN()};
    VF_CHECK(throws([&] { td.get_CDF(nanv.data(), 1); }), K + "NaN-split-point-accepted", ctx);
  }
  };
  if (first_group == 0) { rank_group(); quantile_group(); cdf_group(); }
  else if (first_group == 1) { quantile_group(); cdf_group(); rank_group(); }
  else { cdf_group(); rank_group(); quantile_group(); }
  // centroid bound (after the compress that queries induce)
  const uint32_t cc = centroid_count(td);
  VF_CHECK(cc <= 3u * k + 50u, K + "centroid-count-unbounded", ctx + " centroids=" + std::to_string(cc));
  VF_CHECK(td.get_total_weight() == m.n, K + "total-weight-after-queries", ctx);
  sig(mix64(mix64(k, m.n), mix64(cc, uint64_t(td.get_rank(static_cast<T>(double(m.mn) + span / 3)) * 1e6))));
}

template<typename T>
static void program(Rng& r) {
  const bool TH = G().thorough();
  const uint16_t k = uint16_t(r.chance(0.5) ? r.range(10, 40) : r.range(41, TH ? 1000 : 300));
  const int nleaves = 1 + int(r.below(5));
  describe(std::string(tname<T>()) + " k=" + std::to_string(k) + " leaves=" + std::to_string(nleaves));
  typedef tdigest<T> TD;
  std::vector<std::unique_ptr<TD>> td;
  std::vector<Model<T>> md;
  std::vector<T> stream;
  for (int l = 0; l < nleaves; ++l) {
    const uint16_t kl = r.chance(0.8) ? k : uint16_t(r.range(10, 300));
    td.emplace_back(new TD(l == 0 ? k : kl));
    md.emplace_back();
    const int shape = int(r.below(10));
    const uint64_t n = r.chance(0.1) ? r.below(3) : (r.chance(0.6) ? r.below(400) : r.below(TH ? 60000 : 12000));
    gen_stream<T>(r, shape, n, stream);
    count("shape_" + std::to_string(shape));
    for (uint64_t i = 0; i < stream.size(); ++i) {
      if (r.chance(0.002)) { td[l]->update(std::numeric_limits<T>::quiet_NaN()); count("nan_offered"); }
      td[l]->update(stream[i]); md[l].add(stream[i]);
      if (r.chance(0.0005)) { td[l]->compress(); count("explicit_compress"); }
      if ((i < 4 && r.chance(0.5)) || r.chance(0.0015)) { observe(*td[l], md[l], r, "mid-stream", l == 0 ? k : kl); count("mid_stream_observations"); if (i < 4) count("observed_within_first_4_values"); }
    }
    if (l == 0 || r.chance(0.5)) { Model<T>& m = md[l]; TD& t = *td[l]; uint16_t kk = l == 0 ? k : kl; observe(t, m, r, "updates", kk); }
    if (r.chance(0.2) && md[l].n > 0) {   // compress point induced by serialization, continue on the restored digest
      std::stringstream ss; td[l]->serialize(ss, r.coin());
      td[l].reset(new TD(TD::deserialize(ss)));
      count("roundtrip");
    }
  }
  // merge tree into leaf 0's k or others
  std::vector<size_t> alive(td.size());
  std::vector<uint16_t> ks; for (auto& t : td) ks.push_back(t->get_k());
  for (size_t i = 0; i < alive.size(); ++i) alive[i] = i;
  while (alive.size() > 1) {
    size_t a = r.below(alive.size()), b = r.below(alive.size());
    if (a == b) continue;
    size_t ia = alive[a], ib = alive[b];
    if (r.chance(0.25)) {   // merged with itself (with or without values still pending in the buffer): the stream twice
      const bool pending = r.coin() && md[ia].n > 0;
      if (pending) { const int extra = int(r.range(1, 30)); for (int i = 0; i < extra; ++i) { const T v = md[ia].vals[r.below(md[ia].vals.size())]; td[ia]->update(v); md[ia].add(v); } }
      else if (r.coin()) td[ia]->compress();
      TD& self = *td[ia];
      self.merge(self);
      md[ia].n *= 2;
      observe(*td[ia], md[ia], r, pending ? "self-merge with pending values" : "self-merge", ks[ia]);
      if (md[ia].n > 0) count(pending ? "self_merge_with_pending_values" : "self_merge_compressed");
    }
    td[ia]->merge(*td[ib]); md[ia].merge(md[ib]);
    count("merges");
    if (md[ib].n == 0) count("merge_empty_source");
    alive.erase(alive.begin() + b);
    observe(*td[ia], md[ia], r, "merge", ks[ia]);
  }
  if (want_sample()) sample("{\"config\":" + jstr(G().cur_desc) + ",\"n\":" + std::to_string(md[alive[0]].n) + ",\"min\":" + jstr(str(md[alive[0]].mn)) + ",\"max\":" + jstr(str(md[alive[0]].mx)) + "}");
}

// long-stream accuracy: distinct random values, rank error against the exact rank
template<typename T>
static void accuracy_cell(Rng& r, bool huge_k) {
  const bool TH = G().thorough();
  const uint16_t k = huge_k ? uint16_t(r.pick({20000, 32768, 32800, 50000, 65535})) : uint16_t(r.pick({50, 100, 200, 400}));
  if (huge_k) count("accuracy_cells_huge_k");
  const uint64_t n = huge_k ? 600000 : (TH ? 1000000 : 150000);
  const int order = int(r.below(3));
  const bool merged = r.coin();
  describe(std::string("accuracy ") + tname<T>() + " k=" + std::to_string(k) + " n=" + std::to_string(n) + " order=" + std::to_string(order) + " merged=" + std::to_string(merged));
  std::vector<double> v(n);
  for (uint64_t i = 0; i < n; ++i) v[i] = (double(i) + r.unit() * 0.5) / double(n);   // distinct, increasing
  std::vector<double> feed = v;
  if (order == 1) std::reverse(feed.begin(), feed.end());
  if (order == 2) r.shuffle(feed);
  tdigest<T> td(k);
  if (!merged) { for (double x : feed) td.update(static_cast<T>(x)); }
  else {
    tdigest<T> parts[4] = {tdigest<T>(k), tdigest<T>(k), tdigest<T>(k), tdigest<T>(k)};
    for (uint64_t i = 0; i < n; ++i) parts[order == 2 ? i % 4 : (i * 4 / n)].update(static_cast<T>(feed[i]));
    for (auto& p : parts) td.merge(p);
  }
  const std::string K = std::string("tdigest|") + tname<T>() + "|accuracy|";
  VF_CHECK(td.get_total_weight() == n, K + "total-weight", G().cur_desc);
  double worst_mid = 0, worst_tail = 0, worst_q = 0;
  for (int i = 1; i < 2000; ++i) {
    // query points: dense overall plus extra density in both 1% tails
    double q = i < 1000 ? double(i) / 1000 : (i < 1500 ? 0.01 * double(i - 1000) / 500 : 1 - 0.01 * double(i - 1500) / 500);
    uint64_t idx = std::min<uint64_t>(n - 1, uint64_t(q * n));
    const T val = static_cast<T>(v[idx]);
    // exact mid-rank of val among the (float-rounded) inputs
    uint64_t lo = idx, hi = idx;
    while (lo > 0 && static_cast<T>(v[lo - 1]) == val) --lo;
    while (hi + 1 < n && static_cast<T>(v[hi + 1]) == val) ++hi;
    const double truth = (double(lo) + double(hi - lo + 1) / 2.0) / double(n);
    const double err = std::fabs(td.get_rank(val) - truth);
    const bool tail = truth < 0.01 || truth > 0.99;
    if (tail) worst_tail = std::max(worst_tail, err); else worst_mid = std::max(worst_mid, err);
    const double qq = double(td.get_quantile(truth));
    // rank (among the inputs) of the returned quantile
    uint64_t pos = std::lower_bound(v.begin(), v.end(), qq) - v.begin();
    worst_q = std::max(worst_q, std::fabs(double(pos) / double(n) - truth) * (tail ? 5 : 1));
    checked(3);
  }
  // envelope (calibrated on the unchanged tree over seeds 1..5 with >= 2x margin; see DESIGN.md C17)
  const double mid_bound = 1.2 / k, tail_bound = 0.1 / k, q_bound = 1.2 / k;
  VF_CHECK(worst_mid <= mid_bound, K + "mid-rank-error-above-envelope", G().cur_desc + " worst=" + str(worst_mid) + " bound=" + str(mid_bound));
  VF_CHECK(worst_tail <= tail_bound, K + "tail-rank-error-above-envelope", G().cur_desc + " worst=" + str(worst_tail) + " bound=" + str(tail_bound));
  VF_CHECK(worst_q <= q_bound, K + "quantile-rank-error-above-envelope", G().cur_desc + " worst=" + str(worst_q) + " bound=" + str(q_bound));
  const uint32_t cc = centroid_count(td);
  VF_CHECK(cc <= 3u * k + 50u, K + "centroid-count-unbounded", G().cur_desc + " centroids=" + std::to_string(cc));
  count("accuracy_cells");
  {  // the image of this (possibly > 1024-centroid) digest read back through both paths is the same digest, and continues
    const std::string KR = std::string("tdigest|") + tname<T>() + "|accuracy-roundtrip|";
    std::stringstream ss; td.serialize(ss, r.coin());
    tdigest<T> viastream = tdigest<T>::deserialize(ss);
    auto bytes = td.serialize(0, r.coin());
    tdigest<T> viabytes = tdigest<T>::deserialize(bytes.data(), bytes.size());
    for (tdigest<T>* rt : {&viastream, &viabytes}) {
      const char* path = rt == &viastream ? "stream" : "bytes";
      VF_CHECK(rt->get_total_weight() == n, KR + "total-weight", G().cur_desc + " path=" + path + " got=" + std::to_string(rt->get_total_weight()));
      VF_CHECK(centroid_count(*rt) == cc, KR + "centroid-count", G().cur_desc + " path=" + path);
      VF_CHECK(rt->get_min_value() == td.get_min_value() && rt->get_max_value() == td.get_max_value(), KR + "min-max", G().cur_desc + " path=" + path);
      bool same = true;
      for (int i = 0; i <= 50 && same; ++i) { const T x = static_cast<T>(v[std::min<uint64_t>(n - 1, n * i / 50)]); if (rt->get_rank(x) != td.get_rank(x)) same = false; }
      VF_CHECK(same, KR + "rank-differs-from-original", G().cur_desc + " path=" + path);
      for (int i = 0; i < 1000; ++i) rt->update(static_cast<T>(r.unit()));
      VF_CHECK(rt->get_total_weight() == n + 1000, KR + "total-weight-after-continuing", G().cur_desc + " path=" + path + " got=" + std::to_string(rt->get_total_weight()));
    }
    if (cc > 1024) count("roundtrip_more_than_1024_centroids");
  }
  // record the measured ratios for calibration (max over run, in 1/1000 of the bound)
  G().counters["max_acc_mid_permille"] = std::max<uint64_t>(G().counters["max_acc_mid_permille"], uint64_t(1000 * worst_mid / mid_bound));
  G().counters["max_acc_tail_permille"] = std::max<uint64_t>(G().counters["max_acc_tail_permille"], uint64_t(1000 * worst_tail / tail_bound));
  G().counters["max_acc_q_permille"] = std::max<uint64_t>(G().counters["max_acc_q_permille"], uint64_t(1000 * worst_q / q_bound));
  sig(mix64(k, uint64_t(worst_mid * 1e9)));
}

// shipped reference images (other implementation's format): same coherence checks on a digest whose
// first/last centroids need not be singletons
template<typename T>
static void shipped(Rng& r, const char* file) {
  std::string path = std::string(getenv("VERIF_REPO") ? getenv("VERIF_REPO") : "/repo") + "/tdigest/test/" + file;
  describe(std::string("shipped ") + file);
  FILE* f = fopen(path.c_str(), "rb");
  if (!f) { count("shipped_missing"); return; }
  std::string data; char buf[4096]; size_t got;
  while ((got = fread(buf, 1, sizeof buf, f)) > 0) data.append(buf, got);
  fclose(f);
  tdigest<T> td = tdigest<T>::deserialize(data.data(), data.size());
  Model<T> m; m.n = td.get_total_weight(); m.mn = td.get_min_value(); m.mx = td.get_max_value();
  observe(td, m, r, std::string("deserialize ") + file, td.get_k());
  // continue updating and merging: still coherent
  for (int i = 0; i < 500; ++i) { T v = static_cast<T>(double(m.mn) + (double(m.mx) - double(m.mn)) * r.unit() * 1.2); td.update(v); m.add(v); }
  observe(td, m, r, std::string("deserialize+updates ") + file, td.get_k());
  count("shipped_images");
}

template<typename T>
static void empty_target_scenario(Rng& r) {
  const uint16_t ks = uint16_t(r.range(100, 1000)), kt = uint16_t(r.range(10, 60));
  const uint64_t n = uint64_t(r.range(4 * (2 * kt + 30) + 1, 4 * (2 * ks + 10)));   // fits the source buffer, exceeds the target's
  describe(std::string("empty-target merge ") + tname<T>() + " k_src=" + std::to_string(ks) + " k_dst=" + std::to_string(kt) + " n=" + std::to_string(n));
  tdigest<T> src(ks), dst(kt);
  Model<T> ms, md;
  std::vector<T> stream; gen_stream<T>(r, int(r.below(9)), n, stream);
  for (T v : stream) { src.update(v); ms.add(v); }
  if (r.chance(0.3)) { tdigest<T> mid(uint16_t(r.range(10, 1000))); mid.merge(src); dst.merge(mid); }   // via an intermediate digest
  else dst.merge(src);
  md.merge(ms);
  observe(dst, md, r, "merge of a fully buffered source into an empty digest of smaller k", kt);
  observe(src, ms, r, "merge source afterwards", ks);
  count("empty_target_scenarios");
}

template<typename T>
static void frequent_query_scenario(Rng& r) {
  const uint16_t k = uint16_t(r.range(10, 200));
  const uint64_t n = uint64_t(r.range(3000, 12000));
  const int every = int(r.range(1, 3));
  const int kind = int(r.below(4));
  describe(std::string("frequent-queries ") + tname<T>() + " k=" + std::to_string(k) + " n=" + std::to_string(n) + " every=" + std::to_string(every) + " kind=" + std::to_string(kind));
  tdigest<T> td(k); Model<T> m;
  std::vector<T> stream; gen_stream<T>(r, int(r.below(9)), n, stream);
  const std::string K = std::string("tdigest|") + tname<T>() + "|";
  uint32_t worst = 0;
  for (uint64_t i = 0; i < stream.size(); ++i) {
    td.update(stream[i]); m.add(stream[i]);
    if ((i + 1) % every == 0) {
      switch (kind) {
        case 0: (void)td.get_quantile(0.99); break;
        case 1: (void)td.get_rank(stream[i]); break;
        case 2: (void)td.get_serialized_size_bytes(); break;
        default: td.compress(); break;
      }
      if (i % 97 == 0) { const uint32_t cc = centroid_count(td); worst = std::max(worst, cc);
        if (cc > 3u * k + 50u) { checked(); fail(K + "centroid-count-unbounded|frequent-compress-points", G().cur_desc + " after " + std::to_string(i + 1) + " updates centroids=" + std::to_string(cc)); break; } }
    }
  }
  observe(td, m, r, "frequent compress points", k);
  count("frequent_query_scenarios");
}


// tiny total weight in a digest of large k (k >= 404: the scale-function normalizer changes sign when the total
// weight is below k/202): shards of 1..24 values merged into an empty / tiny aggregator, extremes first or last
template<typename T>
static void tiny_weight_large_k_scenario(Rng& r) {
  const uint16_t k = uint16_t(r.pick({404, 500, 1000, 2000, 5000, 20000, 65535}));
  const int nshards = int(r.range(2, 6));
  describe(std::string("tiny-weight large-k ") + tname<T>() + " k=" + std::to_string(k) + " shards=" + std::to_string(nshards));
  tdigest<T> agg(k); Model<T> ma;
  if (r.chance(0.3)) { const T v = T(r.unit() * 10 - 5); agg.update(v); ma.add(v); }
  for (int sh = 0; sh < nshards; ++sh) {
    const uint16_t ks = r.coin() ? k : uint16_t(r.range(10, 2000));
    tdigest<T> s(ks); Model<T> ms;
    const int cnt = int(r.range(1, sh == 0 ? 4 : 24));
    for (int i = 0; i < cnt; ++i) {
      T v;
      if (sh == 0 && i < 3) v = T(i == 0 ? -100 : (i == 1 ? 0 : 100));      // extremes arrive with the first shard
      else v = T((r.unit() - 0.5) * (r.coin() ? 100 : 400));                 // inner or outer values later
      s.update(v); ms.add(v);
    }
    if (r.chance(0.3)) s.compress();
    agg.merge(s); ma.merge(ms);
    observe(agg, ma, r, "merge of a tiny shard into a tiny large-k aggregator", k);
    if (r.chance(0.3)) { const T v = T((r.unit() - 0.5) * 50); agg.update(v); ma.add(v); }
  }
  agg.compress();
  observe(agg, ma, r, "compress of a tiny large-k aggregator", k);
  count("tiny_weight_large_k_scenarios");
}


// total weight beyond 2^32 (the float instantiation keeps centroid weights in 32 bits): a digest merged with a
// copy of itself until n passes 2^32; every step conserves weight and the extremes
template<typename T>
static void doubling_scenario(Rng& r) {
  const uint16_t k = uint16_t(r.range(100, 300));
  const uint64_t n0 = uint64_t(r.range(20000, 60000));
  describe(std::string("doubling ") + tname<T>() + " k=" + std::to_string(k) + " n0=" + std::to_string(n0));
  tdigest<T> td(k); Model<T> m;
  std::vector<T> stream; gen_stream<T>(r, int(r.below(9)), n0, stream);
  for (T v : stream) { td.update(v); m.add(v); }
  int steps = 0;
  while (m.n < (uint64_t(3) << 31)) {
    tdigest<T> copy(td);
    if (r.coin()) td.merge(copy); else { tdigest<T> c2(copy); td.merge(c2); }
    m.n *= 2; ++steps;
    if (m.n >= (uint64_t(1) << 30) || r.chance(0.2)) observe(td, m, r, "merge with a copy of itself, step " + std::to_string(steps), k);
  }
  // (no accuracy clause here: error accumulates legitimately over 17+ re-clusterings of identical digests - measured 1-3 %
  //  at the median on the unchanged tree; the accuracy clause is decided by the accuracy cells on single streams and 4-way merges)
  count("doubling_scenarios_beyond_2p32");
}


// digests read from the reference implementation's big-endian formats with HEAVY first / last centroids (digests built by
// update()/merge() always have singleton end centroids): tail interpolation in get_quantile / get_rank
template<typename T>
static void reference_format_scenario(Rng& r) {
  const bool small_fmt = r.coin();                       // asSmallBytes (floats) or asBytes (doubles)
  const int nc = int(r.range(2, 12));
  std::vector<double> means; std::vector<uint32_t> wts;
  double x = (r.unit() - 0.5) * 100;
  uint64_t total = 0;
  for (int i = 0; i < nc; ++i) { x += 0.5 + r.unit() * 10; means.push_back(small_fmt ? double(float(x)) : x); const uint32_t w = (i == 0 || i == nc - 1) ? uint32_t(r.range(1, 40)) : uint32_t(r.range(1, 60)); wts.push_back(w); total += w; }
  const double mn = (wts.front() > 1 ? means.front() - r.unit() * 5 - 0.25 : means.front());
  const double mx = (wts.back() > 1 ? means.back() + r.unit() * 5 + 0.25 : means.back());
  const uint16_t k = uint16_t(r.range(20, 300));
  std::vector<uint8_t> b = {0, 0, 0, uint8_t(small_fmt ? 2 : 1)};
  auto be = [&](const void* p, size_t n) { const uint8_t* q = static_cast<const uint8_t*>(p); for (size_t i = n; i-- > 0;) b.push_back(q[i]); };
  be(&mn, 8); be(&mx, 8);
  if (!small_fmt) { const double kd = k; be(&kd, 8); const uint32_t n32 = uint32_t(nc); be(&n32, 4); for (int i = 0; i < nc; ++i) { const double w = wts[i]; be(&w, 8); be(&means[i], 8); } }
  else { const float kf = k; be(&kf, 4); const uint32_t unused = 0; be(&unused, 4); const uint16_t n16 = uint16_t(nc); be(&n16, 2); for (int i = 0; i < nc; ++i) { const float w = float(wts[i]), m = float(means[i]); be(&w, 4); be(&m, 4); } }
  describe(std::string("reference-format image ") + tname<T>() + (small_fmt ? " small" : " full") + " centroids=" + std::to_string(nc) + " first_w=" + std::to_string(wts.front()) + " last_w=" + std::to_string(wts.back()));
  Model<T> m; m.n = total; m.mn = static_cast<T>(mn); m.mx = static_cast<T>(mx);
  for (double v : means) m.vals.push_back(static_cast<T>(v));
  const bool stream = r.coin();
  std::unique_ptr<tdigest<T>> td;
  try {
    if (stream) { std::stringstream ss(std::string(reinterpret_cast<const char*>(b.data()), b.size())); td.reset(new tdigest<T>(tdigest<T>::deserialize(ss))); }
    else td.reset(new tdigest<T>(tdigest<T>::deserialize(b.data(), b.size())));
  } catch (const std::exception& e) { checked(); fail(std::string("tdigest|") + tname<T>() + "|reference-format|valid-image-rejected", G().cur_desc + " what=" + e.what()); return; }
  observe(*td, m, r, stream ? "reference-format image (stream)" : "reference-format image (bytes)", k);
  if (wts.front() > 1) count("reference_format_heavy_first_centroid");
  if (wts.back() > 1) count("reference_format_heavy_last_centroid");
  count("reference_format_scenarios");
}

void run_case(uint64_t idx, Rng& r) {
  if (idx % 10 == 2) { if (r.coin()) reference_format_scenario<double>(r); else reference_format_scenario<float>(r); return; }
  if (idx % 50 == 9) { if (r.coin()) doubling_scenario<double>(r); else doubling_scenario<float>(r); return; }
  if (idx % 10 == 5) { if (r.coin()) tiny_weight_large_k_scenario<double>(r); else tiny_weight_large_k_scenario<float>(r); return; }
  if (idx % 10 == 7) { if (r.coin()) frequent_query_scenario<double>(r); else frequent_query_scenario<float>(r); return; }
  if (idx % 10 == 3) { if (r.coin()) empty_target_scenario<double>(r); else empty_target_scenario<float>(r); return; }
  if (idx % 100 == 31) { const bool huge_k = (idx / 100) % 4 == 0; if (r.coin()) accuracy_cell<double>(r, huge_k); else accuracy_cell<float>(r, huge_k); return; }
  if (idx % 400 == 76) { shipped<double>(r, "tdigest_ref_k100_n10000_double.sk"); shipped<float>(r, "tdigest_ref_k100_n10000_float.sk"); return; }
  if (r.coin()) program<double>(r); else program<float>(r);
}

} // namespace vf
