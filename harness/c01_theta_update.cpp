// C01 — Theta update sketch is an exact hash-threshold sample of the distinct inputs.
// Reference-model monitor: shadow set of reference hashes per live sketch, full read-out compared
// after every API call.
#include "vf/core.hpp"
#include "vf/gen.hpp"
#include <theta_sketch.hpp>
#include <memory>

using namespace datasketches;
namespace vf {

// strings are binary data: some carry NUL bytes (inside, leading) and bytes >= 0x80 -- decided from the content,
// without extra RNG draws (gen_val itself is shared with the recorded corpus recipes and must not change)
static Val gen_val_bin(Rng& r, uint64_t domain, int kind = -1) {
  Val v = gen_val(r, domain, kind);
  if (v.kind == V_STR && v.s.size() >= 2) {
    uint64_t h = 1469598103934665603ULL; for (unsigned char c : v.s) h = (h ^ c) * 1099511628211ULL;
    if (h % 5 == 0) { v.s[(h >> 8) % v.s.size()] = '\0'; count("string_inputs_with_nul_byte"); }
    else if (h % 7 == 0) { v.s[0] = '\0'; count("string_inputs_with_nul_byte"); }
    if (h % 6 == 1) v.s.back() = char(0x80 + (h >> 16) % 128);
  }
  return v;
}

const char* property_id() { return "C01"; }
unsigned case_timeout_s() { return 120; }
uint64_t num_cases(bool thorough) { return thorough ? 60000 : 2400; }
void final_report() {}

static const uint64_t MAXT = 0x7fffffffffffffffULL;

struct Model {
  uint8_t lg_k; int rf; float p; uint64_t seed;
  uint64_t theta0;
  std::set<uint64_t> seen;      // reference hashes (>>1) of accepted updates since last reset
  bool nonempty = false;
  uint64_t last_theta;          // last observed internal theta (monotonicity)
  bool last_valid = false;
};

struct Live {
  std::unique_ptr<update_theta_sketch> sk;
  Model m;
  std::vector<Val> offered;   // non-ignored values offered since the last reset (bounded)
};

static uint64_t model_theta0(float p) {
  return p < 1 ? static_cast<uint64_t>(static_cast<double>(MAXT) * p) : MAXT;
}

template<typename SK>
static std::vector<uint64_t> entries_of(const SK& s) {
  std::vector<uint64_t> v;
  for (auto it = s.begin(); it != s.end(); ++it) v.push_back(*it);
  return v;
}

static void observe(Live& L, const char* after) {
  const update_theta_sketch& s = *L.sk;
  Model& m = L.m;
  const uint64_t k = 1ULL << m.lg_k;
  const std::string ctx = std::string("after ") + after + " lg_k=" + std::to_string(m.lg_k) + " rf=" + std::to_string(m.rf) +
    " p=" + str(m.p) + " seed=" + std::to_string(m.seed) + " seen=" + std::to_string(m.seen.size());
  const uint64_t theta_rep = s.get_theta64();
  // emptiness
  VF_CHECK(s.is_empty() == !m.nonempty, "update|is_empty", ctx);
  // theta
  uint64_t theta;
  if (!m.nonempty) {
    VF_CHECK(theta_rep == MAXT, "update|theta-while-empty", ctx + " theta=" + std::to_string(theta_rep));
    theta = m.theta0;
  } else {
    theta = theta_rep;
    VF_CHECK(theta == m.theta0 || m.seen.count(theta), "update|theta-not-start-nor-seen-hash", ctx + " theta=" + std::to_string(theta));
    VF_CHECK(theta <= m.theta0, "update|theta-above-start", ctx);
    if (m.last_valid) VF_CHECK(theta <= m.last_theta, "update|theta-increased", ctx + " was=" + std::to_string(m.last_theta) + " now=" + std::to_string(theta));
    m.last_theta = theta; m.last_valid = true;
  }
  // entries
  std::vector<uint64_t> got = entries_of(s);
  std::vector<uint64_t> sorted = got;
  std::sort(sorted.begin(), sorted.end());
  bool dup = std::adjacent_find(sorted.begin(), sorted.end()) != sorted.end();
  VF_CHECK(!dup, "update|duplicate-entry", ctx);
  std::vector<uint64_t> exp;
  for (uint64_t h : m.seen) { if (h >= theta) break; if (h != 0) exp.push_back(h); }
  if (sorted != exp) {
    std::string d = ctx + " theta=" + std::to_string(theta) + " got=" + std::to_string(sorted.size()) + " expected=" + std::to_string(exp.size());
    std::vector<uint64_t> missing, extra;
    std::set_difference(exp.begin(), exp.end(), sorted.begin(), sorted.end(), std::back_inserter(missing));
    std::set_difference(sorted.begin(), sorted.end(), exp.begin(), exp.end(), std::back_inserter(extra));
    if (!missing.empty()) d += " first-missing=" + std::to_string(missing[0]);
    if (!extra.empty()) d += " first-extra=" + std::to_string(extra[0]) + (extra[0] >= theta ? "(>=theta)" : "(never offered)");
    checked();
    fail(!missing.empty() ? "update|entry-missing" : "update|entry-extra", d);
  } else checked();
  VF_CHECK(s.get_num_retained() == got.size(), "update|num_retained-vs-iteration", ctx);
  if (theta < m.theta0) VF_CHECK(got.size() >= k, "update|theta-lowered-with-fewer-than-k", ctx + " retained=" + std::to_string(got.size()));
  // estimation mode / estimate
  VF_CHECK(s.is_estimation_mode() == (m.nonempty && theta < MAXT), "update|is_estimation_mode", ctx);
  if (m.p == 1.0f && m.seen.size() <= k) {
    VF_CHECK(!s.is_estimation_mode(), "update|estimation-mode-though-fits", ctx);
    VF_CHECK(s.get_estimate() == static_cast<double>(m.seen.size()), "update|estimate-not-exact", ctx + " est=" + str(s.get_estimate()));
    count("exact_estimates");
  }
  {
    const double est = s.get_estimate();
    const double want = static_cast<double>(got.size()) / (static_cast<double>(theta_rep) / static_cast<double>(MAXT));
    VF_CHECK(std::fabs(est - want) <= 1e-9 * std::max(1.0, want), "update|estimate-formula", ctx + " est=" + str(est) + " want=" + str(want));
    for (uint8_t sd = 1; sd <= 3; ++sd) {
      VF_CHECK(s.get_lower_bound(sd) <= est && est <= s.get_upper_bound(sd), "update|bounds-order", ctx);
    }
  }
  if (m.nonempty && m.p < 1 && got.empty()) count("nonempty_zero_retained");
  // compact forms
  for (int ord = 0; ord < 2; ++ord) {
    compact_theta_sketch c = s.compact(ord == 1);
    VF_CHECK(c.get_theta64() == theta_rep, "compact|theta", ctx);
    VF_CHECK(c.is_empty() == s.is_empty(), "compact|is_empty", ctx);
    VF_CHECK(c.is_ordered() == (ord == 1) || got.size() <= 1, "compact|is_ordered", ctx);
    std::vector<uint64_t> ce = entries_of(c);
    VF_CHECK(c.get_num_retained() == ce.size(), "compact|num_retained", ctx);
    if (ord == 1) VF_CHECK(std::is_sorted(ce.begin(), ce.end()) && std::adjacent_find(ce.begin(), ce.end()) == ce.end(), "compact|ordered-not-strictly-ascending", ctx);
    std::sort(ce.begin(), ce.end());
    VF_CHECK(ce == sorted, "compact|entry-set", ctx + " compact=" + std::to_string(ce.size()) + " update=" + std::to_string(sorted.size()));
    VF_CHECK(c.get_estimate() == s.get_estimate(), "compact|estimate", ctx);
    VF_CHECK(c.get_seed_hash() == ref_seed_hash(m.seed), "compact|seed-hash", ctx);
  }
  VF_CHECK(s.get_lg_k() == m.lg_k, "update|lg_k", ctx);
  sig(mix64(mix64(theta, got.size()), mix64(m.lg_k, m.seen.size())));
}

void run_case(uint64_t idx, Rng& r) {
  const bool T = G().thorough();
  // configuration
  Model m;
  const bool big = T && r.chance(0.02);
  m.lg_k = static_cast<uint8_t>(big ? r.range(13, 17) : r.range(5, T ? 12 : 10));
  m.rf = static_cast<int>(r.below(4));
  static const float ps[] = {1.0f, 1.0f, 1.0f, 0.5f, 0.1f, 1e-3f, 1e-6f, 0.999f};
  m.p = ps[r.below(8)];
  m.seed = r.chance(0.5) ? DEFAULT_SEED : r.next();
  m.theta0 = model_theta0(m.p);
  const uint64_t k = 1ULL << m.lg_k;
  // stream shape
  const uint64_t nops_max = big ? 8 * k : (r.chance(0.3) ? 6 * k : k + k / 2);
  const uint64_t nops = r.below(std::min<uint64_t>(nops_max, T ? 400000 : 30000) + 1);
  const uint64_t domain = r.chance(0.3) ? std::max<uint64_t>(1, nops / 4) : (r.chance(0.5) ? nops * 4 + 1 : (1ULL << 40));
  const int fixed_kind = r.chance(0.4) ? -1 : static_cast<int>(r.below(V_NKINDS));
  describe("lg_k=" + std::to_string(m.lg_k) + " rf=" + std::to_string(m.rf) + " p=" + str(m.p) + " seed=" + std::to_string(m.seed) +
           " nops=" + std::to_string(nops) + " domain=" + std::to_string(domain) + " kind=" + std::to_string(fixed_kind));

  std::vector<Live> pool;
  auto make = [&]() {
    Live L; L.m = m;
    L.sk.reset(new update_theta_sketch(update_theta_sketch::builder().set_lg_k(m.lg_k).set_resize_factor(static_cast<resize_factor>(m.rf))
      .set_p(m.p).set_seed(m.seed).build()));
    return L;
  };
  pool.push_back(make());
  observe(pool[0], "construction");
  if (r.chance(0.35)) {
    // a second live sketch with a different configuration: assignment has to transfer every field
    Model m2 = m;
    m2.p = ps[r.below(8)]; m2.rf = static_cast<int>(r.below(4));
    if (r.coin()) m2.lg_k = static_cast<uint8_t>(r.range(5, 9));
    if (r.coin()) m2.seed = r.next();
    m2.theta0 = model_theta0(m2.p);
    Live L2; L2.m = m2;
    L2.sk.reset(new update_theta_sketch(update_theta_sketch::builder().set_lg_k(m2.lg_k).set_resize_factor(static_cast<resize_factor>(m2.rf))
      .set_p(m2.p).set_seed(m2.seed).build()));
    pool.push_back(std::move(L2));
    count("second_config_in_pool");
    observe(pool[1], "construction");
  }
  // how often to do the (expensive) full observation
  const uint64_t obs_every = nops <= 200 ? 1 : (nops <= 5000 ? 1 + r.below(40) : 1 + r.below(nops / 20 + 1));
  std::string sample_ops;
  for (uint64_t i = 0; i < nops; ++i) {
    size_t li = r.below(pool.size());
    pool.reserve(8);
    Live& L = pool[li];
    bool pool_changed = false;
    const uint64_t op = r.below(1000);
    const char* what = "update";
    if (op < 960) {
      Val v = gen_val_bin(r, domain, fixed_kind);
      apply_update(*L.sk, v);
      count(std::string("update_") + kind_name(v.kind));
      if (!v.ignored()) {
        const uint64_t h = v.ref_hash(L.m.seed).h1 >> 1;
        L.m.nonempty = true;
        L.m.seen.insert(h);
        if (L.offered.size() < 4000) L.offered.push_back(v);
      } else count("ignored_empty_string");
      if (v.kind == V_F64 && (std::isnan(v.d) || (v.d == 0 && std::signbit(v.d)))) count("special_double");
      if (want_sample() && i < 6) sample_ops += v.to_string() + ";";
    } else if (op < 962 && L.m.p == 1.0f && L.m.lg_k <= 9 && L.offered.size() < 4000) {
      // targeted: bring the sketch to exactly k + d retained entries (d = 0..3) while still below the first
      // rebuild, trim, then re-offer everything offered so far: duplicates must be recognised (no hole in the table)
      const uint64_t kl = 1ULL << L.m.lg_k;
      const uint64_t target = kl + r.below(4);
      uint64_t guard = 0;
      while (L.sk->get_num_retained() < target && L.sk->get_theta64() == MAXT && guard++ < 8 * kl) {
        Val v = gen_val(r, 1ULL << 40, V_U64);
        apply_update(*L.sk, v); L.m.seen.insert(v.ref_hash(L.m.seed).h1 >> 1); L.m.nonempty = true; L.offered.push_back(v);
      }
      if (L.sk->get_num_retained() == target && L.sk->get_theta64() == MAXT) {
        L.sk->trim(); count("trim_at_exact_count"); if (target == kl + 1) count("trim_at_k_plus_1");
        observe(L, "trim at exact count");
        for (const Val& v : L.offered) apply_update(*L.sk, v);
        observe(L, "re-offer after trim at exact count");
      }
    } else if (op < 970) {
      const uint32_t before = L.sk->get_num_retained();
      L.sk->trim(); what = "trim"; count("trim");
      const uint64_t kl = 1ULL << L.m.lg_k;
      if (before > kl) count("trim_effective");
      VF_CHECK(L.sk->get_num_retained() <= kl, "trim|more-than-k-after-trim", "retained=" + std::to_string(L.sk->get_num_retained()));
      observe(L, what);
    } else if (op < 975) {
      L.sk->reset(); what = "reset"; count("reset");
      L.m.seen.clear(); L.m.nonempty = false; L.m.last_valid = false; L.offered.clear();
      observe(L, what);
    } else if (op < 982) {
      // copy construct: equal and independent
      if (pool.size() < 3) {
        Live C; C.m = L.m; C.offered = L.offered; C.sk.reset(new update_theta_sketch(*L.sk));
        pool.push_back(std::move(C)); what = "copy-ctor"; count("copy");
        observe(pool.back(), what);
      }
    } else if (op < 991) {
      if (pool.size() >= 2) {
        size_t a = r.below(pool.size()), b = r.below(pool.size());
        if (a != b) {
          *pool[a].sk = *pool[b].sk; pool[a].m = pool[b].m; pool[a].offered = pool[b].offered; count("copy_assign"); observe(pool[a], "copy-assign"); observe(pool[b], "copy-assign-source");
          if (pool[a].m.p != m.p || pool[b].m.p != m.p) count("copy_assign_across_configs");
          if (r.coin()) {   // the assignee must behave like its source from now on, also after a reset
            pool[a].sk->reset(); pool[a].m.seen.clear(); pool[a].m.nonempty = false; pool[a].m.last_valid = false; pool[a].offered.clear(); count("reset_after_assign");
            observe(pool[a], "reset-after-copy-assign");
            for (int j = 0; j < 40; ++j) { Val v = gen_val_bin(r, domain, fixed_kind); apply_update(*pool[a].sk, v); if (!v.ignored()) { pool[a].m.seen.insert(v.ref_hash(pool[a].m.seed).h1 >> 1); pool[a].m.nonempty = true; } }
            observe(pool[a], "updates-after-reset-after-copy-assign");
          }
        }
      }
    } else {
      if (pool.size() >= 2) {
        size_t a = r.below(pool.size()), b = r.below(pool.size());
        if (a != b) {
          *pool[a].sk = std::move(*pool[b].sk); pool[a].m = pool[b].m; pool[a].offered = pool[b].offered; count("move_assign");
          observe(pool[a], "move-assign");
          if (r.coin()) {
            pool[a].sk->reset(); pool[a].m.seen.clear(); pool[a].m.nonempty = false; pool[a].m.last_valid = false; pool[a].offered.clear(); count("reset_after_assign");
            observe(pool[a], "reset-after-move-assign");
            for (int j = 0; j < 40; ++j) { Val v = gen_val_bin(r, domain, fixed_kind); apply_update(*pool[a].sk, v); if (!v.ignored()) { pool[a].m.seen.insert(v.ref_hash(pool[a].m.seed).h1 >> 1); pool[a].m.nonempty = true; } }
            observe(pool[a], "updates-after-reset-after-move-assign");
          }
          pool.erase(pool.begin() + b);   // moved-from must be destructible
          pool_changed = true;
        }
      }
    }
    if (!pool_changed && ((i % obs_every) == 0 || i + 1 == nops)) observe(L, what);
    // detect rebuild/resize for the coverage floor (theta below start)
  }
  for (auto& L : pool) {
    observe(L, "end");
    if (L.m.nonempty && L.sk->get_theta64() < L.m.theta0) count("rebuilt_sketches");
    if (L.m.seen.size() > 8 && L.m.rf > 0) count("resized_rf" + std::to_string(L.m.rf));
  }
  if (want_sample()) sample("{\"config\":" + jstr(G().cur_desc) + ",\"first_ops\":" + jstr(sample_ops) + ",\"final_retained\":" + std::to_string(pool[0].sk->get_num_retained()) + "}");
  (void)idx;
}

} // namespace vf
