// C11 unit: CPC sketch images — 5 flavors (EMPTY, SPARSE, HYBRID, PINNED, SLIDING) as written by an
// updated sketch (HIP present) and by a union result (no HIP).
// compiled with -fno-access-control (determine_flavor() is used to label/verify the image kind).
#include "vf/c11_fault.hpp"
#include <cpc_sketch.hpp>
#include <cpc_union.hpp>

using namespace datasketches;
namespace vf { namespace c11 {

unsigned variants(bool thorough) { return thorough ? 20 : 4; }

static uint64_t shash(const std::string& s) { uint64_t h = 1469598103934665603ULL; for (unsigned char c : s) h = mix64(h, c); return h; }

static std::string cpc_readout(const cpc_sketch& s) {
  std::string o;
  o += "lgk=" + std::to_string(s.get_lg_k()) + " empty=" + std::to_string(s.is_empty()) + " c=" + std::to_string(s.get_num_coupons()) +
       " est=" + num(s.get_estimate());
  for (unsigned kappa = 1; kappa <= 3; ++kappa) o += " b" + std::to_string(kappa) + "=" + num(s.get_lower_bound(kappa)) + "/" + num(s.get_upper_bound(kappa));
  if (s.get_lg_k() <= 12) o += " valid=" + std::to_string(s.validate());   // validate() builds a k x 64 bit matrix: too costly per fault for big k
  o += " str=" + std::to_string(shash(s.to_string()));
  o += " ser=" + hexv(s.serialize());
  std::ostringstream os; s.serialize(os); o += " sers=" + std::to_string(os.str().size());
  return o;
}

static void cpc_use(cpc_sketch& s) {
  for (int i = 0; i < 50; ++i) s.update(static_cast<uint64_t>(i) * 7919 + 3);
  (void)s.get_estimate(); (void)s.get_lower_bound(2); (void)s.get_upper_bound(2); (void)s.serialize();
  cpc_sketch fresh(8);
  for (int i = 0; i < 300; ++i) fresh.update(static_cast<uint64_t>(i) * 104729 + 11);
  cpc_union u(10);
  u.update(s); u.update(fresh);
  cpc_sketch r = u.get_result();
  (void)r.get_estimate(); (void)r.serialize(); if (r.get_lg_k() <= 12) (void)r.validate();
}

static std::string cpc_bytes(const void* p, size_t n, bool use) {
  return accept([&] { return cpc_sketch::deserialize(p, n); }, cpc_readout, cpc_use, use);
}
static std::string cpc_stream(std::istream& is, bool use) {
  return accept([&] { return cpc_sketch::deserialize(is); }, cpc_readout, cpc_use, use);
}

// flavor: 0 EMPTY 1 SPARSE 2 HYBRID 3 PINNED 4 SLIDING
static cpc_sketch cpc_state(Rng& r, bool T, int flavor, uint8_t& lg_k_out) {
  for (int attempt = 0; attempt < 50; ++attempt) {
    const uint8_t lg_k = static_cast<uint8_t>(r.range(flavor == 1 ? 6 : 4, T ? 9 : 7));
    const uint64_t k = 1ULL << lg_k;
    uint64_t n = 0;
    switch (flavor) {
      case 0: n = 0; break;
      case 1: n = 1 + r.below(std::max<uint64_t>(1, 3 * k / 32 - 1)); break;
      case 2: n = 3 * k / 32 + 1 + r.below(k / 2 - 3 * k / 32 - 1); break;
      case 3: n = k / 2 + k / 8 + r.below(2 * k); break;
      default: n = 5 * k + r.below(30 * k); break;
    }
    cpc_sketch s(lg_k);
    const uint64_t base = r.next();
    for (uint64_t i = 0; i < n; ++i) s.update(static_cast<uint64_t>(base + i * UINT64_C(0x9e3779b97f4a7c15)));
    if (static_cast<int>(s.determine_flavor()) == flavor) { lg_k_out = lg_k; return s; }
  }
  throw std::logic_error("c11_cpc: could not reach the requested flavor");
}

// large nominal configuration (lg_k 20..24), tiny content (sparse flavor): the count fields of the image are then bounded
// only by the large configured maximum
static Bytes cpc_big_image(Rng& r, bool) {
  cpc_sketch s(static_cast<uint8_t>(r.range(20, 24)));
  const uint64_t n = 1 + r.below(20), base = r.next();
  for (uint64_t i = 0; i < n; ++i) s.update(static_cast<uint64_t>(base + i * UINT64_C(0x9e3779b97f4a7c15)));
  auto v = s.serialize();
  return Bytes(v.begin(), v.end());
}

static Bytes cpc_image(Rng& r, bool T, int flavor, bool merged) {
  uint8_t lg_k = 0;
  cpc_sketch s = cpc_state(r, T, flavor, lg_k);
  if (merged) {
    // a union result of the same flavor (no HIP accumulator in the image); retry with another partner if the flavor moved on
    for (int attempt = 0; attempt < 20; ++attempt) {
      cpc_union u(lg_k);
      u.update(s);
      cpc_sketch other(static_cast<uint8_t>(lg_k + r.below(2)));
      const uint64_t m = r.below(attempt < 10 ? 4 : 1);
      for (uint64_t i = 0; i < m; ++i) other.update(static_cast<uint64_t>(r.next()));
      u.update(other);
      cpc_sketch res = u.get_result();
      if (static_cast<int>(res.determine_flavor()) == flavor) { auto v = res.serialize(); return Bytes(v.begin(), v.end()); }
    }
    throw std::logic_error("c11_cpc: union result left the requested flavor");
  }
  auto v = s.serialize();
  return Bytes(v.begin(), v.end());
}

std::vector<Target> targets() {
  std::vector<Target> t;
  const char* fn[] = {"empty", "sparse", "hybrid", "pinned", "sliding"};
  for (int merged = 0; merged < 2; ++merged) for (int f = 0; f < 5; ++f) {
    if (merged && f == 0) continue;
    const bool mg = merged != 0;
    BuildFn b = [f, mg](Rng& r, bool T) { return cpc_image(r, T, f, mg); };
    const std::string kind = std::string(mg ? "merged_" : "") + fn[f];
    t.push_back({"cpc", kind, "bytes", b, bytes_path(cpc_bytes)});
    t.push_back({"cpc", kind, "stream", b, stream_path(cpc_stream)});
  }
  t.push_back({"cpc", "bigcfg_sparse", "bytes", cpc_big_image, bytes_path(cpc_bytes)});
  t.push_back({"cpc", "bigcfg_sparse", "stream", cpc_big_image, stream_path(cpc_stream)});
  // an empty image that carries the HAS_HIP flag (written by other implementations) is accepted as well
  BuildFn eh = [](Rng& r, bool T) { Bytes img = cpc_image(r, T, 0, false); img[5] |= 0x04; return img; };
  t.push_back({"cpc", "legacy_empty_with_hip_flag", "bytes", eh, bytes_path(cpc_bytes)});
  t.push_back({"cpc", "legacy_empty_with_hip_flag", "stream", eh, stream_path(cpc_stream)});
  return t;
}

}} // namespace
