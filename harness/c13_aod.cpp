// C13 — Tuple sketches keep theta-sketch keys and exact per-key summaries.
// Unit: the array-of-doubles specialisation (update_array_of_doubles_sketch, compact_array_of_doubles_sketch,
// array_of_doubles_union / _intersection / _a_not_b): 1..6 values per key, per-column sums, exact (multiples of 1/4).
#include "vf/c13_common.hpp"
#include <array_of_doubles_sketch.hpp>

using namespace datasketches;
namespace vf {
using namespace c13;

using AodArray = datasketches::array<double>;

struct AodInterPolicy {
  explicit AodInterPolicy(uint8_t nv = 1): nv_(nv) {}
  void operator()(AodArray& a, const AodArray& b) const { for (uint8_t i = 0; i < nv_; ++i) a[i] += b[i]; }
  uint8_t get_num_values() const { return nv_; }
  uint8_t nv_;
};

template<typename S, typename = void> struct has_num_values: std::false_type {};
template<typename S> struct has_num_values<S, decltype(void(std::declval<const S&>().get_num_values()))>: std::true_type {};

struct AodT {
  static const char* name() { return "aod"; }
  static int id() { return 4; }
  using Summary = AodArray; using UV = std::vector<double>; using M = std::vector<double>;
  struct Cfg { uint8_t nv = 1; };
  using UpdateSketch = update_array_of_doubles_sketch;
  using CompactSketch = compact_array_of_doubles_sketch;
  using BaseCompact = compact_tuple_sketch<AodArray, std::allocator<double>>;   // what a Theta operand is turned into
  using Union = array_of_doubles_union;
  using Intersection = array_of_doubles_intersection<AodInterPolicy>;
  using ANotB = array_of_doubles_a_not_b;
  static const bool anotb_accepts_base_a = false;   // array_tuple_a_not_b needs A::get_num_values()

  static Cfg gen_cfg(Rng& r) { Cfg c; c.nv = static_cast<uint8_t>(r.chance(0.3) ? 1 : r.range(2, 6)); return c; }
  static std::string cfg_str(const Cfg& c) { return "num_values=" + std::to_string(c.nv); }
  static UV gen_uv(Rng& r, const Cfg& c) {
    UV v(c.nv);
    for (auto& x : v) x = r.chance(0.5) ? static_cast<double>(r.range(-1000, 1000)) : 0.25 * static_cast<double>(r.range(-4000, 4000));
    return v;
  }
  static std::string uv_str(const UV& v) { return m_str(v); }
  static M m_create(const Cfg& c) { return M(c.nv, 0.0); }
  static void m_update(M& m, const UV& v) { for (size_t i = 0; i < m.size(); ++i) m[i] += v[i]; }
  static void m_merge(M& m, const M& o) { for (size_t i = 0; i < m.size(); ++i) m[i] += o[i]; }
  static M read(const Summary& s) { return M(s.data(), s.data() + s.size()); }
  static bool m_eq(const M& a, const M& b) { return a == b; }   // same number of columns and every column equal
  static std::string m_str(const M& m) { std::string o = "["; for (size_t i = 0; i < m.size(); ++i) o += (i ? "," : "") + str(m[i]); return o + "]"; }
  static bool pred(const M& m, int param) {
    switch (param) {
      case 0: return !m.empty() && m[0] > 0;
      case 1: return !m.empty() && std::fmod(std::fabs(m.back()), 1.0) == 0;
      case 2: { double s = 0; for (double v : m) s += v; return s < 50; }
      default: return false;
    }
  }
  static Summary make_summary(const M& m, const Cfg& c) { AodArray a(c.nv, 0); for (uint8_t i = 0; i < c.nv; ++i) a[i] = m[i]; return a; }
  static UpdateSketch make_update(const Cfg& c, uint8_t lg_k, int rf, float p, uint64_t seed) {
    return UpdateSketch::builder(default_array_of_doubles_update_policy(c.nv)).set_lg_k(lg_k).set_resize_factor(static_cast<theta_constants::resize_factor>(rf)).set_p(p).set_seed(seed).build();
  }
  static void do_update(UpdateSketch& sk, const Val& key, const UV& uv, Rng& r, const Cfg&) {
    if (r.coin()) apply_update2(sk, key, uv);                 // any type with indexed access
    else { const double* p = uv.data(); apply_update2(sk, key, p); }
  }
  static Union make_union(const Cfg& c, uint8_t lg_k, int rf, float p, uint64_t seed) {
    return Union::builder(default_array_of_doubles_union_policy(c.nv)).set_lg_k(lg_k).set_resize_factor(static_cast<theta_constants::resize_factor>(rf)).set_p(p).set_seed(seed).build();
  }
  static Intersection make_inter(const Cfg& c, uint64_t seed) { return Intersection(seed, AodInterPolicy(c.nv)); }
  static ANotB make_anotb(uint64_t seed) { return ANotB(seed); }
  template<typename A, typename B> static void anotb_compute(const ANotB& anb, A&& a, const B& b, bool ro, std::unique_ptr<CompactSketch>& res) {
    if constexpr (has_num_values<typename std::decay<A>::type>::value) res.reset(new CompactSketch(anb.compute(std::forward<A>(a), b, ro)));
    else { (void)anb; (void)a; (void)b; (void)ro; (void)res; }
  }
  template<typename R> static void check_result_cfg(const R& res, const Cfg& c, const std::string& key, const std::string& ctx) {
    VF_CHECK(res.get_num_values() == c.nv, key + "|num_values", ctx + " got=" + std::to_string(res.get_num_values()) + " expected=" + std::to_string(c.nv));
  }
  static CompactSketch compact_ctor(const UpdateSketch& s, bool ord) { return CompactSketch(s, ord); }
  static std::string ser_bytes(const CompactSketch& c) { auto v = c.serialize(); return std::string(v.begin(), v.end()); }
  static std::string ser_stream(const CompactSketch& c) { std::stringstream ss(std::ios::in | std::ios::out | std::ios::binary); c.serialize(ss); return ss.str(); }
  static CompactSketch deser_bytes(const std::string& b, uint64_t seed, const Cfg&) { return CompactSketch::deserialize(b.data(), b.size(), seed); }
  static CompactSketch deser_stream(const std::string& b, uint64_t seed, const Cfg&) { std::stringstream ss(b, std::ios::in | std::ios::binary); return CompactSketch::deserialize(ss, seed); }
};

const char* property_id() { return "C13"; }
unsigned case_timeout_s() { return 180; }
uint64_t num_cases(bool thorough) { return thorough ? 15000 : 700; }
void final_report() {}
void run_case(uint64_t idx, Rng& r) { run_typed<AodT>(idx, r); }

} // namespace vf
