// C05 (unit 2) — cpc_union of sketches with unequal lg_k: result lg_k = min(union lg_k, lg_k of the
// non-empty inputs), coupon set = OR of the inputs' matrices folded to that many rows, independent of
// order; the merged-form estimate is a function of (lg_k, C) only; the result's image is lossless.
#include "vf/c05_cpc.hpp"

using namespace datasketches;
namespace vf {
using namespace c05;

const char* property_id() { return "C05"; }
unsigned case_timeout_s() { return 300; }
uint64_t num_cases(bool thorough) { return thorough ? 22000 : 1800; }
void final_report() {}

struct In {
  std::unique_ptr<cpc_sketch> sk;
  Model m;
  std::string how;
};

// feed `n` hashed values from a shared domain
static void fill_hashed(In& in, Rng& r, uint64_t n, uint64_t domain, int kind, uint64_t seed) {
  for (uint64_t i = 0; i < n; ++i) feed(*in.sk, in.m, gen_val(r, domain, kind), seed);
  count("updates", n);
}

// feed synthetic coupons in realistic arrival order until the model holds `target` coupons
static void fill_synthetic(In& in, Rng& r, uint64_t target) {
  const uint64_t k = in.m.k();
  struct Cell { double t; uint32_t rc; };
  std::vector<Cell> cells; cells.reserve(64 * k);
  for (uint32_t row = 0; row < k; ++row) for (unsigned col = 0; col < 64; ++col)
    cells.push_back(Cell{std::ldexp(-std::log(1.0 - r.unit()), static_cast<int>(std::min(col, 62u)) + 1), (row << 6) | col});
  std::sort(cells.begin(), cells.end(), [](const Cell& a, const Cell& b) { return a.t < b.t || (a.t == b.t && a.rc < b.rc); });
  for (size_t i = 0; i < cells.size() && in.m.C < target; ++i) { in.sk->row_col_update(cells[i].rc); in.m.add_rc(cells[i].rc); }
}

static In make_input(Rng& r, bool T, uint64_t seed, uint64_t domain, int kind, uint64_t& budget, int depth);

// a union result used as an input of another union ("any sketches")
static In make_nested(Rng& r, bool T, uint64_t seed, uint64_t domain, int kind, uint64_t& budget) {
  const uint8_t lu = static_cast<uint8_t>(r.range(4, T ? 12 : 10));
  cpc_union u(lu, seed);
  Model um(lu);
  const int parts = static_cast<int>(r.range(1, 3));
  for (int i = 0; i < parts; ++i) {
    In p = make_input(r, T, seed, domain, kind, budget, 1);
    u.update(*p.sk);
    if (p.m.C > 0) { if (p.m.lg_k < um.lg_k) um = um.folded(p.m.lg_k); um.or_folded(p.m); }
  }
  In in;
  in.sk.reset(new cpc_sketch(u.get_result()));
  in.m = um;
  in.how = "nested-union-result";
  count("input_nested_union_result");
  return in;
}

static In make_input(Rng& r, bool T, uint64_t seed, uint64_t domain, int kind, uint64_t& budget, int depth) {
  if (depth == 0 && r.chance(0.12)) return make_nested(r, T, seed, domain, kind, budget);
  In in;
  const uint8_t lg_k = static_cast<uint8_t>(r.chance(0.5) ? r.range(4, 8) : r.range(4, T ? 13 : 11));
  const uint64_t k = uint64_t(1) << lg_k;
  in.sk.reset(new cpc_sketch(lg_k, seed));
  in.m = Model(lg_k);
  const unsigned cls = static_cast<unsigned>(r.below(8));
  uint64_t n = 0;
  bool synth = false; uint64_t target = 0;
  switch (cls) {
    case 0: n = 0; break;                                                    // empty
    case 1: n = 1 + r.below(std::max<uint64_t>(1, 3 * k / 32)); break;       // sparse
    case 2: n = 3 * k / 32 + r.below(k / 2 - 3 * k / 32 + 1); break;         // hybrid-ish
    case 3: n = k / 2 + r.below(4 * k); break;                               // pinned
    case 4: n = 5 * k + r.below(30 * k); break;                              // sliding, first shifts
    case 5: n = 1 + r.below(4); break;                                       // a few coupons
    case 6: synth = depth == 0; target = 27 * k / 8 + r.below(max_coupons(lg_k) - 27 * k / 8 + 1); break;   // sliding at any offset
    default: n = r.below(8 * k); break;
  }
  if (synth && lg_k > 9) { synth = false; n = 5 * k + r.below(10 * k); }
  if (!synth) { if (n > budget) n = budget; budget -= n; fill_hashed(in, r, n, domain, kind, seed); in.how = "hashed n=" + std::to_string(n); }
  else { fill_synthetic(in, r, target); in.how = "synthetic C=" + std::to_string(target); count("input_synthetic"); }
  // rare coupons in columns >= 31: mined keys (default seed only) and synthetic pairs (any seed); in every flavor but
  // the sliding one at high offsets they sit in the surprising-value table, i.e. they reach a union through the table
  if (cls != 0 && seed == DEFAULT_SEED && !rare_keys().empty() && r.chance(0.3)) {
    const int nr = static_cast<int>(r.range(1, 3));
    for (int i = 0; i < nr; ++i) feed(*in.sk, in.m, rare_val(rare_keys()[r.below(rare_keys().size())]), seed);
    in.how += " +rare-keys"; count("input_rare_key_planted");
  }
  if (rare_keys().size() < 3) count("rare_keys_failed_verification");
  if (cls != 0 && r.chance(0.25) && in.m.C + 4 <= max_coupons(lg_k)) {
    const int np = static_cast<int>(r.range(1, 4));
    for (int i = 0; i < np; ++i) { const uint32_t rc = (static_cast<uint32_t>(r.below(k)) << 6) | static_cast<uint32_t>(r.range(31, 63)); in.sk->row_col_update(rc); in.m.add_rc(rc); }
    in.how += " +synthetic-cols>=31"; count("input_synthetic_hi_col_planted");
  }
  if (r.chance(0.25) && in.m.C > 0) {
    auto b = in.sk->serialize();
    in.sk.reset(new cpc_sketch(cpc_sketch::deserialize(b.data(), b.size(), seed)));
    in.how += " (deserialized)";
    count("input_deserialized");
  }
  count(std::string("input_flavor_") + flavor_name(flavor_of(lg_k, in.m.C)));
  return in;
}

// classify which branch of the union the next update takes, from the union's state before the call
static void classify(const cpc_union& u, const Model& um, const In& in) {
  const Flavor sf = flavor_of(in.m.lg_k, in.m.C);
  if (sf == F_EMPTY) { count("union_src_empty"); if (in.m.lg_k < u.lg_k) count("union_src_empty_with_smaller_lgk"); return; }
  bool acc = u.accumulator != nullptr;
  uint8_t lg = u.lg_k;
  uint64_t acc_c = acc ? u.accumulator->get_num_coupons() : 0;
  if (in.m.lg_k < lg) {
    if (acc) {
      if (acc_c == 0) count("reduce_k_accumulator_empty");
      else {
        count("reduce_k_accumulator_sparse");
        acc_c = um.folded(in.m.lg_k).C;
        if (flavor_of(in.m.lg_k, acc_c) > F_SPARSE) { count("reduce_k_accumulator_graduates_to_bit_matrix"); acc = false; }
      }
    } else count("reduce_k_bit_matrix");
    lg = in.m.lg_k;
  }
  if (sf == F_SPARSE && acc) {
    if (hi_col_coupons(in.m)) count("caseA_with_col_ge32");
    if (acc_c == 0 && lg == in.m.lg_k) count("caseA_copy_into_empty");
    else if (in.m.lg_k > lg) count("caseA_walk_downsampling");
    else count("caseA_walk_equal_k");
    return;
  }
  const bool mined = in.how.find("+rare-keys") != std::string::npos;
  const uint64_t hi = hi_col_coupons(in.m);      // coupons in columns >= 32 (in the source's table unless it is sliding)
  if (sf == F_SPARSE) { count(in.m.lg_k > lg ? "caseB_downsampling" : "caseB_equal_k"); if (hi) count("caseB_table_with_col_ge32_into_matrix"); if (hi && mined) count("caseB_mined_key_col_ge32_into_matrix"); return; }
  if (hi && (sf == F_HYBRID || sf == F_PINNED)) { count("caseC_table_with_col_ge32_into_matrix"); if (mined) count("caseC_mined_key_col_ge32_into_matrix"); }
  if (acc) count("switch_to_bit_matrix_before_windowed_source");
  if (sf == F_HYBRID) count(in.m.lg_k > lg ? "caseC_hybrid_downsampling" : "caseC_hybrid_equal_k");
  else if (sf == F_PINNED) count(in.m.lg_k > lg ? "caseC_pinned_downsampling" : "caseC_pinned_equal_k");
  else count(in.m.lg_k > lg ? "caseD_sliding_downsampling" : "caseD_sliding_equal_k");
}

static void program(Rng& r, bool T) {
  const uint64_t seed = r.chance(0.6) ? DEFAULT_SEED : r.next();
  const uint8_t lu = static_cast<uint8_t>(r.chance(0.2) ? r.range(10, T ? 14 : 12) : r.range(4, T ? 12 : 10));
  const int m0 = static_cast<int>(r.chance(0.15) ? 1 : r.range(2, r.chance(0.3) ? 6 : 4));
  uint64_t budget = T ? 400000 : 90000;
  const uint64_t domain = r.pick<uint64_t>({200, 3000, 40000, uint64_t(1) << 22, uint64_t(1) << 44});
  const int kind = r.chance(0.5) ? static_cast<int>(V_U64) : (r.chance(0.5) ? -1 : static_cast<int>(r.below(V_NKINDS)));
  std::vector<In> ins;
  std::string d = "union lg_k=" + std::to_string(lu) + " seed=" + std::to_string(seed) + " domain=" + std::to_string(domain) + " kind=" + std::to_string(kind) + " inputs:";
  for (int i = 0; i < m0; ++i) {
    ins.push_back(make_input(r, T, seed, domain, kind, budget, 0));
    d += " [" + std::to_string(i) + ": lg_k=" + std::to_string(ins.back().m.lg_k) + " C=" + std::to_string(ins.back().m.C) + " " + ins.back().how + "]";
    describe(d);
  }
  // The OR of folded matrices must itself be representable (window offset <= 56, i.e. C < (27/8 + 56) k):
  // folding rows raises C/k, so inputs with extreme synthetic offsets are dropped until the final union fits.
  // (C/k of every intermediate union state is <= C/k of the final one, so checking the final state suffices.)
  for (;;) {
    Model fm(lu);
    for (auto& in : ins) if (in.m.C > 0) { if (in.m.lg_k < fm.lg_k) fm = fm.folded(in.m.lg_k); fm.or_folded(in.m); }
    if (fm.C <= max_coupons(fm.lg_k)) break;
    size_t worst = 0; double wr = -1;
    for (size_t i = 0; i < ins.size(); ++i) { const double ratio = double(ins[i].m.C) / double(ins[i].m.k()); if (ratio > wr) { wr = ratio; worst = i; } }
    ins.erase(ins.begin() + worst);
    count("input_dropped_union_not_representable");
  }
  const int m = static_cast<int>(ins.size());
  // every input is itself checked against its model once (it may be a deserialized or merged sketch)
  for (auto& in : ins) { ObsOpt o; o.check_bounds = false; observe(*in.sk, in.m, "union-input", in.how, o); }

  // orders: all permutations for m <= 3, else identity, reverse and random ones
  std::vector<std::vector<int>> orders;
  std::vector<int> id(m); for (int i = 0; i < m; ++i) id[i] = i;
  if (m <= 3) { std::vector<int> p = id; do orders.push_back(p); while (std::next_permutation(p.begin(), p.end())); }
  else { orders.push_back(id); std::vector<int> rev(id.rbegin(), id.rend()); orders.push_back(rev); for (int j = 0; j < 2; ++j) { std::vector<int> p = id; r.shuffle(p); orders.push_back(p); } }

  std::unique_ptr<cpc_sketch> first_result;
  Model final_model;
  for (size_t oi = 0; oi < orders.size(); ++oi) {
    const std::vector<int>& ord = orders[oi];
    std::string os; for (int x : ord) os += std::to_string(x);
    cpc_union u(lu, seed);
    Model um(lu);
    try {
      { ObsOpt o; o.expect_merged = -1; observe(u.get_result(), um, "union-result", "empty union order=" + os, o); }
      for (size_t step = 0; step < ord.size(); ++step) {
        const In& in = ins[ord[step]];
        classify(u, um, in);
        const bool pre_acc = u.accumulator != nullptr;
        if (r.chance(0.3)) { cpc_sketch tmp(*in.sk); u.update(std::move(tmp)); count("union_update_rvalue"); }
        else u.update(*in.sk);
        if (pre_acc && u.accumulator == nullptr && flavor_of(in.m.lg_k, in.m.C) == F_SPARSE) count("sparse_source_graduates_accumulator_to_bit_matrix");
        if (in.m.C > 0) { if (in.m.lg_k < um.lg_k) um = um.folded(in.m.lg_k); um.or_folded(in.m); }
        const std::string ctx = "order=" + os + " after step " + std::to_string(step) + " (input " + std::to_string(ord[step]) + ")";
        cpc_sketch res = u.get_result();
        ObsOpt o; o.expect_merged = um.C > 0 ? 1 : -1;
        observe(res, um, "union-result", ctx, o);
        count(std::string("result_flavor_") + flavor_name(flavor_of(um.lg_k, um.C)));
        if (u.accumulator != nullptr) count("result_from_accumulator"); else count("result_from_bit_matrix");
        if (um.lg_k < lu) count("result_lgk_below_union_lgk");
        if (r.chance(step + 1 == ord.size() ? 0.6 : 0.15)) roundtrip(res, um, seed, "union-result", ctx);
        if (step + 1 == ord.size()) {
          if (!first_result) { first_result.reset(new cpc_sketch(res)); final_model = um; }
          else {
            // order independence, checked directly between the two real results
            auto a = first_result->build_bit_matrix(); auto b = res.build_bit_matrix();
            VF_CHECK(first_result->get_lg_k() == res.get_lg_k(), "union-result|order-dependent-lg_k", d + " " + ctx);
            VF_CHECK(a.size() == b.size() && std::equal(a.begin(), a.end(), b.begin()), "union-result|order-dependent-coupons", d + " " + ctx);
            VF_CHECK(dbits(first_result->get_estimate()) == dbits(res.get_estimate()), "union-result|order-dependent-estimate", d + " " + ctx);
            count("order_pairs_compared");
          }
        }
      }
    } catch (const std::exception& e) {
      fail("union|threw-on-valid-inputs", d + " order=" + os + " what=" + e.what());
    }
  }
  // lvalue inputs are left untouched by the unions they took part in
  for (auto& in : ins) { ObsOpt o; o.check_bounds = false; o.heavy_validate = false; observe(*in.sk, in.m, "union-input-after-use", in.how, o); }
  // a merged sketch stays an exact coupon matrix when it is updated further
  if (first_result && r.chance(0.25)) {
    try {
      const bool was_nonempty = final_model.C > 0;
      uint64_t extra = 1 + r.below(4 * final_model.k());
      for (uint64_t i = 0; i < extra; ++i) feed(*first_result, final_model, gen_val(r, domain, kind), seed);
      ObsOpt o; o.expect_merged = was_nonempty ? 1 : -1;
      observe(*first_result, final_model, "updated-union-result", "extra=" + std::to_string(extra), o);
      roundtrip(*first_result, final_model, seed, "updated-union-result", "extra=" + std::to_string(extra));
      count("union_result_updated_further");
    } catch (const std::exception& e) {
      fail("updated-union-result|threw", d + " what=" + e.what());
    }
  }
  count("union_programs");
  if (want_sample()) sample("{\"program\":" + jstr(d) + ",\"orders\":" + std::to_string(orders.size()) + ",\"final_lg_k\":" + std::to_string(final_model.lg_k) + ",\"final_C\":" + std::to_string(final_model.C) + "}");
}

// ---------------------------------------------------------------- assignment programs
// A pool of unions is driven by a random sequence of update / copy-assign / move-assign (from a used union,
// from a fresh lvalue union, from a `cpc_union(lg_k)` temporary) / self copy-assign through a reference.
// After an assignment the destination's model is the source's model (effective lg_k and coupon set), and the
// usual clauses apply to everything that follows: result lg_k = min(lg_k carried by the assignment, non-empty
// inputs since), exact OR-of-folded matrix; finally two copy-assigned unions get the remaining inputs in opposite
// orders and must agree.
struct Slot {
  std::unique_ptr<cpc_union> u;
  Model m;            // effective lg_k + coupon set
  uint8_t cfg = 0;    // lg_k the union (or the union it was assigned from) was constructed with
  bool live = false;
};

static void check_slot(const Slot& sl, const std::string& ctx) {
  cpc_sketch res = sl.u->get_result();
  ObsOpt o; o.expect_merged = sl.m.C > 0 ? 1 : -1;
  observe(res, sl.m, "union-assign-result", ctx, o);
}

static void slot_update(Slot& sl, const In& in, Rng& r) {
  classify(*sl.u, sl.m, in);
  if (r.chance(0.3)) { cpc_sketch tmp(*in.sk); sl.u->update(std::move(tmp)); } else sl.u->update(*in.sk);
  if (in.m.C > 0) { if (in.m.lg_k < sl.m.lg_k) sl.m = sl.m.folded(in.m.lg_k); sl.m.or_folded(in.m); }
}

static void assign_program(Rng& r, bool T) {
  const uint64_t seed = r.chance(0.7) ? DEFAULT_SEED : r.next();
  uint64_t budget = T ? 200000 : 60000;
  const uint64_t domain = r.pick<uint64_t>({200, 3000, 40000, uint64_t(1) << 22});
  const int kind = r.chance(0.6) ? static_cast<int>(V_U64) : -1;
  std::vector<In> ins;
  const int nin = static_cast<int>(r.range(3, 6));
  std::string d = "assign-program seed=" + std::to_string(seed) + " inputs:";
  for (int i = 0; i < nin; ++i) {
    ins.push_back(make_input(r, T, seed, domain, kind, budget, 1));     // depth 1: hashed inputs only
    d += " [" + std::to_string(i) + ": lg_k=" + std::to_string(ins.back().m.lg_k) + " C=" + std::to_string(ins.back().m.C) + "]";
  }
  // lg_k values of the unions that will be constructed (pool + temporaries), drawn up front
  std::vector<uint8_t> lgs; for (int i = 0; i < 24; ++i) lgs.push_back(static_cast<uint8_t>(r.chance(0.5) ? r.range(9, T ? 13 : 12) : r.range(4, 12)));
  size_t lgi = 0; auto next_lg = [&]() { return lgs[lgi++ % lgs.size()]; };
  // representability of every reachable state: all inputs folded to the smallest lg_k around
  { uint8_t gmin = 26; for (uint8_t x : lgs) gmin = std::min(gmin, x); for (auto& in : ins) gmin = std::min(gmin, in.m.lg_k);
    Model fm(gmin); for (auto& in : ins) fm.or_folded(in.m);
    if (fm.C > max_coupons(gmin)) { count("assign_program_skipped_not_representable"); return; } }
  describe(d);
  const int nslots = 3;
  Slot pool[nslots];
  for (auto& sl : pool) { sl.cfg = next_lg(); sl.u.reset(new cpc_union(sl.cfg, seed)); sl.m = Model(sl.cfg); sl.live = true; }
  const int nops = static_cast<int>(r.range(6, 16));
  std::string trace;
  try {
    for (int op = 0; op < nops; ++op) {
      const int i = static_cast<int>(r.below(nslots));
      Slot& dst = pool[i];
      const unsigned what = static_cast<unsigned>(r.below(100));
      std::string t;
      auto note_dst = [&]() {
        if (!dst.live) { count("assign_to_moved_from_union"); return; }
        if (dst.m.lg_k < dst.cfg) count("assign_dst_after_reduce_k");
        if (dst.u->accumulator == nullptr) count("assign_dst_had_bit_matrix");
        else if (dst.m.C > 0) count("assign_dst_had_sparse_accumulator");
      };
      if (what < 45 || (!dst.live && what < 60)) {
        if (!dst.live) continue;
        const int which = static_cast<int>(r.below(ins.size()));
        t = "u" + std::to_string(i) + ".update(in" + std::to_string(which) + ")";
        trace += t + "; "; describe(d + " ops: " + trace);
        slot_update(dst, ins[which], r);
        if (dst.cfg != 0 && dst.live) count("assign_program_updates");
        check_slot(dst, t);
      } else if (what < 60) {           // u = cpc_union(lg) temporary
        const uint8_t lg = next_lg();
        t = "u" + std::to_string(i) + " = cpc_union(" + std::to_string(lg) + ")";
        trace += t + "; "; describe(d + " ops: " + trace);
        note_dst();
        *dst.u = cpc_union(lg, seed);
        dst.m = Model(lg); dst.cfg = lg; dst.live = true;
        count("assign_move_from_fresh_temporary");
        check_slot(dst, t);
      } else if (what < 68) {           // copy-assign from a fresh lvalue
        const uint8_t lg = next_lg();
        t = "fresh(" + std::to_string(lg) + "); u" + std::to_string(i) + " = fresh";
        trace += t + "; "; describe(d + " ops: " + trace);
        note_dst();
        cpc_union fresh(lg, seed);
        *dst.u = fresh;
        dst.m = Model(lg); dst.cfg = lg; dst.live = true;
        count("assign_copy_from_fresh");
        check_slot(dst, t);
        // the source stays a working empty union
        ObsOpt o; observe(fresh.get_result(), Model(lg), "union-assign-result", t + " (source)", o);
      } else if (what < 76) {           // self copy-assign through a reference
        if (!dst.live) continue;
        t = "u" + std::to_string(i) + " = (ref to u" + std::to_string(i) + ")";
        trace += t + "; "; describe(d + " ops: " + trace);
        const cpc_union& ref = *dst.u;
        *dst.u = ref;
        count("assign_self_copy");
        if (dst.m.C > 0) count("assign_self_copy_nonempty");
        check_slot(dst, t);
      } else {                          // from another (used) union of the pool: copy or move
        const int j = static_cast<int>((i + 1 + r.below(nslots - 1)) % nslots);
        Slot& src = pool[j];
        if (!src.live) continue;
        const bool mv = what >= 88;
        t = "u" + std::to_string(i) + (mv ? " = std::move(u" : " = u") + std::to_string(j) + (mv ? ")" : "");
        trace += t + "; "; describe(d + " ops: " + trace);
        note_dst();
        if (src.m.lg_k < src.cfg) count("assign_src_reduced");
        if (src.u->accumulator == nullptr) count("assign_src_has_bit_matrix"); else if (src.m.C > 0) count("assign_src_has_sparse_accumulator"); else count("assign_src_empty");
        if (src.m.lg_k != dst.m.lg_k || !dst.live) count("assign_changes_lg_k");
        if (mv) { *dst.u = std::move(*src.u); src.live = false; count("assign_move_from_used"); }
        else { *dst.u = *src.u; count("assign_copy_from_used"); }
        dst.m = src.m; dst.cfg = src.cfg; dst.live = true;
        check_slot(dst, t);
        if (!mv) check_slot(src, t + " (source)");
      }
    }
    // order independence after an arbitrary history: two copy-assigned unions, remaining inputs in opposite orders
    for (int i = 0; i < nslots; ++i) {
      Slot& sl = pool[i];
      if (!sl.live) continue;
      Slot a, b;
      a.u.reset(new cpc_union(next_lg(), seed)); b.u.reset(new cpc_union(next_lg(), seed));
      *a.u = *sl.u; *b.u = *sl.u;
      a.m = sl.m; b.m = sl.m; a.cfg = b.cfg = sl.cfg; a.live = b.live = true;
      std::vector<int> ord(ins.size()); for (size_t x = 0; x < ins.size(); ++x) ord[x] = static_cast<int>(x);
      r.shuffle(ord);
      const size_t take = 1 + r.below(ins.size());
      for (size_t x = 0; x < take; ++x) slot_update(a, ins[ord[x]], r);
      for (size_t x = take; x-- > 0;) slot_update(b, ins[ord[x]], r);
      const std::string ctx = "u" + std::to_string(i) + " copy-assigned twice, " + std::to_string(take) + " inputs in opposite orders";
      describe(d + " ops: " + trace + ctx);
      check_slot(a, ctx + " (forward)"); check_slot(b, ctx + " (backward)");
      cpc_sketch ra = a.u->get_result(), rb = b.u->get_result();
      auto ma = ra.build_bit_matrix(); auto mb = rb.build_bit_matrix();
      VF_CHECK(ra.get_lg_k() == rb.get_lg_k(), "union-assign-result|order-dependent-lg_k", d + " ops: " + trace + ctx);
      VF_CHECK(ma.size() == mb.size() && std::equal(ma.begin(), ma.end(), mb.begin()), "union-assign-result|order-dependent-coupons", d + " ops: " + trace + ctx);
      VF_CHECK(dbits(ra.get_estimate()) == dbits(rb.get_estimate()), "union-assign-result|order-dependent-estimate", d + " ops: " + trace + ctx);
      count("assign_order_pairs_compared");
      check_slot(sl, ctx + " (source untouched)");
    }
  } catch (const std::exception& e) {
    fail("union-assign|threw", d + " ops: " + trace + " what=" + e.what());
  }
  count("assign_programs");
  if (want_sample()) sample("{\"program\":" + jstr(d) + ",\"ops\":" + jstr(trace) + "}");
}

// thorough only: lg_k = 26 union in the sparse representation, then reduced to a small lg_k
static void big_union(Rng& r) {
  const uint64_t seed = DEFAULT_SEED;
  describe("big union lg_k=26");
  cpc_union u(26, seed);
  Model um(26);
  In a, b, c;
  a.sk.reset(new cpc_sketch(26, seed)); a.m = Model(26);
  b.sk.reset(new cpc_sketch(26, seed)); b.m = Model(26);
  c.sk.reset(new cpc_sketch(12, seed)); c.m = Model(12);
  fill_hashed(a, r, 3000, 5000, V_U64, seed);
  fill_hashed(b, r, 3000, 5000, V_I64, seed);
  fill_hashed(c, r, 700, 5000, V_U64, seed);
  ObsOpt o; o.heavy_validate = false;
  try {
    classify(u, um, a); u.update(*a.sk); um.or_folded(a.m);
    { o.expect_merged = 1; observe(u.get_result(), um, "union-result", "big a", o); }
    classify(u, um, b); u.update(*b.sk); um.or_folded(b.m);
    { cpc_sketch res = u.get_result(); observe(res, um, "union-result", "big a+b", o); roundtrip(res, um, seed, "union-result", "big a+b", nullptr, 0, false); }
    classify(u, um, c); u.update(*c.sk); um = um.folded(12); um.or_folded(c.m);
    { ObsOpt o2; o2.expect_merged = 1; cpc_sketch res = u.get_result(); observe(res, um, "union-result", "big a+b+c(lg_k 12)", o2); roundtrip(res, um, seed, "union-result", "big a+b+c"); }
    count("big_union_lgk26");
  } catch (const std::exception& e) {
    fail("union|threw-on-valid-inputs", std::string("big union what=") + e.what());
  }
}

void run_case(uint64_t idx, Rng& r) {
  const bool T = G().thorough();
  if (T && idx == 13) { big_union(r); return; }
  try {
    if (idx % 5 == 2) assign_program(r, T); else program(r, T);
  } catch (const std::exception& e) {
    // building an input (updates, nested union, deserialization of the library's own image) must not throw either
    fail("union|threw-while-building-inputs", G().cur_desc + " what=" + e.what());
  }
}

} // namespace vf
