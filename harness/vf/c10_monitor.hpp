// C10 monitor skeleton shared by the image units c10_img_{a,b,c}.cpp.
// Case space of one unit:  [0,R) corpus v0 image i · [R,2R) corpus v1 image i · then the shipped reference images of the unit's
// families · then the unit's extras (synthesised legacy images, cross-language hash checks) · the rest: generated (family, state)
// decode-vs-API cases.
#ifndef VF_C10_MONITOR_HPP
#define VF_C10_MONITOR_HPP

#include "c10_common.hpp"

namespace vf { namespace c10 {

struct Extra { std::string name; std::function<void()> run; };
std::vector<Extra>& extras();          // defined by the unit
void register_unit_families();         // defined by the unit
uint64_t random_cases(bool thorough);  // defined by the unit

inline const std::vector<Recipe>& unit_recipes() {
  static std::vector<Recipe> rc;
  static bool init = false;
  if (!init) { register_unit_families(); rc = recipes(); init = true; }
  return rc;
}

inline uint64_t img_hash(const std::string& s) { uint64_t h = 0x1234; for (unsigned char ch : s) h = (h ^ ch) * 0x100000001b3ULL; return mix64(h, s.size()); }

// names listed in corpus/<gen>/MANIFEST.txt (written by the generator: recipes that ran to completion on that tree)
inline const std::set<std::string>& manifest(const std::string& gen) {
  static std::map<std::string, std::set<std::string>> m;
  auto it = m.find(gen);
  if (it != m.end()) return it->second;
  std::set<std::string>& out = m[gen];
  std::string txt;
  if (read_file(corpus_root() + "/" + gen + "/MANIFEST.txt", txt)) {
    std::istringstream is(txt); std::string line;
    while (std::getline(is, line)) { if (line.empty() || line[0] == '#') continue; out.insert(line.substr(0, line.find(' '))); }
  }
  return out;
}

inline void corpus_case(const Recipe& rc, const char* gen) {
  const std::string base = corpus_root() + "/" + gen + "/" + rc.name;
  describe(std::string("corpus ") + gen + " image " + rc.name);
  const std::string G = gen, F = rc.fam->name;
  std::string img, want;
  if (manifest(G).empty()) {
    // absent generation (e.g. v1 not yet regenerated): the coverage floor makes the run inconclusive
    count("corpus_" + G + "_absent");
    return;
  }
  if (!manifest(G).count(rc.name)) {
    // recipe did not complete on the tree that wrote this generation (known-broken state of the pinned tree)
    count("corpus_" + G + "_recipe_not_in_manifest");
    return;
  }
  if (!read_file(base + ".bin", img) || !read_file(base + ".json", want)) {
    checked(); fail("corpus|" + G + "|file-missing", base + ".bin/.json listed in MANIFEST.txt cannot be read (see the header comment of harness/c10_gen_corpus.cpp)");
    return;
  }
  for (int stream = 0; stream < 2; ++stream) {
    const std::string P = stream ? "stream" : "bytes";
    std::string got;
    try {
      pin_lib_rng(12345);
      got = rc.fam->read(img, stream != 0, rc.variant);
    } catch (const std::exception& e) {
      checked(); fail("corpus|" + G + "|" + F + "|" + P + "|deserialize-threw", rc.name + ": " + e.what());
      continue;
    }
    unsigned lenient = 0;
    const std::string diff = readout_diff(want, got, &lenient);
    VF_CHECK(diff.empty(), "corpus|" + G + "|" + F + "|" + P + "|readout-differs-from-recorded", rc.name + ": " + diff);
    if (lenient) count("query_answer_fields_differing_from_recorded_" + G, lenient);
    count("corpus_" + G + "_" + P + "_path");
  }
  count("corpus_" + G + "_" + F);
#if defined(__clang__)
  // the corpus was recorded by the g++ build of the recipes; argument evaluation order inside the recipes is
  // compiler specific, so the clang pass cannot reproduce the recorded bytes (it still reads and decodes them)
  if (G == "v1") count("corpus_v1_writer_stable_skipped_other_compiler");
  if (false) {
    try {
#else
  if (G == "v1") {
    // writer stability: the same recipe on the current tree must reproduce the recorded bytes
    try {
#endif
      Built b = run_recipe(rc);
      if (b.image != img) {
        size_t i = 0; while (i < img.size() && i < b.image.size() && img[i] == b.image[i]) ++i;
        const std::string rd = readout_diff(want, b.readout);
        checked();
        fail("corpus|v1|" + F + "|writer-bytes-changed", rc.name + ": first differing byte " + std::to_string(i) + " recorded size " + std::to_string(img.size()) +
             " now " + std::to_string(b.image.size()) + (rd.empty() ? " (same read-out: layout changed)" : " (read-out of the built sketch changed too: " + rd + ")"));
      } else checked();
      count("corpus_v1_writer_stable_checked");
    } catch (const std::exception& e) {
      checked(); fail("corpus|v1|" + F + "|recipe-threw", rc.name + ": " + e.what());
    }
  }
  sig(mix64(img_hash(img), G == "v1"));
}

inline void shipped_case(const Shipped& sh) {
  describe("shipped image " + sh.name);
  std::string img, want;
  const std::string path = repo_root() + "/" + sh.relpath;
  if (!read_file(path, img)) { checked(); fail("shipped|file-missing", path); return; }
  if (!read_file(corpus_root() + "/shipped/" + sh.name + ".json", want)) { checked(); fail("shipped|recorded-readout-missing", sh.name); return; }
  for (int stream = 0; stream < 2; ++stream) {
    const std::string P = stream ? "stream" : "bytes";
    try {
      const std::string got = sh.read(img, stream != 0);
      unsigned lenient = 0;
      const std::string diff = readout_diff(want, got, &lenient);
      VF_CHECK(diff.empty(), "shipped|" + sh.family + "|" + P + "|readout-differs-from-recorded", sh.name + ": " + diff);
      if (lenient) count("query_answer_fields_differing_from_recorded_shipped", lenient);
    } catch (const std::exception& e) { checked(); fail("shipped|" + sh.family + "|" + P + "|deserialize-threw", sh.name + ": " + e.what()); }
    count("shipped_" + P + "_path");
  }
  count("shipped_" + sh.family);
  sig(img_hash(img));
}

inline void decode_case_random(uint64_t idx, Rng& r) {
  const std::vector<Family>& fs = families();
  const Family& f = fs[idx % fs.size()];
  const bool T = G().thorough();
  const bool small = !T ? r.chance(0.7) : r.chance(0.3);
  // variants beyond the corpus table only change derived parameters (seed_for, ordering bits), so draw from a wider range
  const int variant = static_cast<int>(r.below(static_cast<uint64_t>(f.nvariants) * 3));
  describe("decode family=" + f.name + " variant=" + std::to_string(variant) + (small ? " small" : " big"));
  pin_lib_rng(r.next() & 0x7fffffff);
  try {
    f.decode_case(variant, r, small);
  } catch (const DecodeError& e) {
    checked(); fail("decode|" + e.key, std::string("image written by the current tree does not follow the documented layout: ") + e.what());
  }
  count("decode_cases_" + f.name);
}

} // namespace c10

const char* property_id() { return "C10"; }
unsigned case_timeout_s() { return 300; }
uint64_t num_cases(bool thorough) {
  const auto& rc = c10::unit_recipes();
  return 2 * rc.size() + c10::shipped().size() + c10::extras().size() + c10::random_cases(thorough);
}
void final_report() {}
void run_case(uint64_t idx, Rng& r) {
  const auto& rc = c10::unit_recipes();
  const uint64_t R = rc.size(), S = c10::shipped().size(), X = c10::extras().size();
  { uint16_t one = 1; uint8_t lo; memcpy(&lo, &one, 1); if (lo != 1) { fail("harness|host-not-little-endian", "decoders assume a little-endian host"); return; } }
  if (idx < R) { c10::corpus_case(rc[idx], "v0"); return; }
  if (idx < 2 * R) { c10::corpus_case(rc[idx - R], "v1"); return; }
  if (idx < 2 * R + S) { c10::shipped_case(c10::shipped()[idx - 2 * R]); return; }
  idx -= S;
  if (idx < 2 * R + X) {
    const c10::Extra& e = c10::extras()[idx - 2 * R];
    describe("extra " + e.name);
    try { e.run(); }
    catch (const c10::DecodeError& de) { checked(); fail("decode|" + de.key, e.name + ": " + de.what()); }
    count("extras_run");
    return;
  }
  c10::decode_case_random(idx - 2 * R - X, r);
}

} // namespace vf
#endif
