// C10 shared pieces: JSON read-out builder, family registry (state recipes), corpus file helpers.
// Used by the monitor units c10_img_{a,b,c}.cpp and by the corpus generator c10_gen_corpus.cpp.
#ifndef VF_C10_COMMON_HPP
#define VF_C10_COMMON_HPP

#include "core.hpp"
#include "gen.hpp"
#include "refhash.hpp"
#include "c10_decode.hpp"
#include <common_defs.hpp>
#include <fstream>
#include <sstream>
#include <functional>
#include <memory>

namespace vf { namespace c10 {

// ------------------------------------------------------------------ JSON read-out (flat object)
inline std::string jd(double d) {
  if (std::isnan(d)) return "\"nan\"";
  if (std::isinf(d)) return d > 0 ? "\"inf\"" : "\"-inf\"";
  char b[40]; snprintf(b, sizeof b, "%.17g", d);
  std::string s = b;
  if (s.find_first_of(".en") == std::string::npos) s += ".0";   // mark as floating
  return s;
}
inline std::string jv(double d) { return jd(d); }
inline std::string jv(float d) { return jd(static_cast<double>(d)); }
inline std::string jv(const std::string& s) { return jstr(s); }
inline std::string jv(uint64_t v) { return std::to_string(v); }
inline std::string jv(int64_t v) { return std::to_string(v); }
inline std::string jv(uint32_t v) { return std::to_string(v); }
inline std::string jv(int32_t v) { return std::to_string(v); }
inline std::string jv(uint16_t v) { return std::to_string(v); }
inline std::string jv(uint8_t v) { return std::to_string(v); }
inline std::string jv(bool v) { return v ? "true" : "false"; }

struct J {
  std::string s = "{"; bool first = true;
  void key(const std::string& k) { if (!first) s += ","; first = false; s += "\n " + jstr(k) + ":"; }
  template<typename T> J& put(const std::string& k, const T& v) { key(k); s += jv(v); return *this; }
  template<typename V> J& arr(const std::string& k, const V& v) {
    key(k); s += "["; bool f = true;
    for (const auto& x : v) { if (!f) s += ","; f = false; s += jv(x); }
    s += "]"; return *this;
  }
  J& raw(const std::string& k, const std::string& json) { key(k); s += json; return *this; }
  std::string done() const { return s + "\n}\n"; }
};

// tolerant comparison of two read-outs: identical token streams, floating tokens within rel 1e-12
inline bool is_float_tok(const std::string& t) { return !t.empty() && t[0] != '"' && t.find_first_of(".en") != std::string::npos && (isdigit((unsigned char)t[0]) || t[0] == '-'); }
inline std::vector<std::string> json_tokens(const std::string& s) {
  std::vector<std::string> t;
  for (size_t i = 0; i < s.size();) {
    const char ch = s[i];
    if (isspace((unsigned char)ch)) { ++i; continue; }
    if (ch == '"') { size_t j = i + 1; while (j < s.size() && s[j] != '"') { if (s[j] == '\\') ++j; ++j; } t.push_back(s.substr(i, j + 1 - i)); i = j + 1; continue; }
    if (strchr("{}[],:", ch)) { t.push_back(std::string(1, ch)); ++i; continue; }
    size_t j = i; while (j < s.size() && !isspace((unsigned char)s[j]) && !strchr("{}[],:\"", s[j])) ++j;
    t.push_back(s.substr(i, j - i)); i = j;
  }
  return t;
}
// A read-out is a flat JSON object with one field per line.  Fields whose key starts with "q_" are answers of query algorithms
// over the content (estimates, bounds, ranks, quantiles): they are recorded for information and compared leniently (a difference
// is counted, not reported as a violation), because a legitimate repair of a query algorithm changes them without any change to
// what an image contains.  Every other field is content and must match (floating tokens within rel 1e-12).
inline std::vector<std::pair<std::string, std::string>> readout_fields(const std::string& s) {
  std::vector<std::pair<std::string, std::string>> out;
  std::istringstream is(s); std::string line;
  while (std::getline(is, line)) {
    const size_t q1 = line.find('"'); if (q1 == std::string::npos) continue;
    const size_t q2 = line.find('"', q1 + 1); if (q2 == std::string::npos || q2 + 1 >= line.size() || line[q2 + 1] != ':') continue;
    std::string val = line.substr(q2 + 2);
    if (!val.empty() && val.back() == ',') val.pop_back();
    out.push_back({line.substr(q1 + 1, q2 - q1 - 1), val});
  }
  return out;
}
inline std::string value_diff(const std::string& want, const std::string& got) {
  if (want == got) return "";
  auto a = json_tokens(want), b = json_tokens(got);
  for (size_t i = 0; i < a.size() && i < b.size(); ++i) {
    if (a[i] == b[i]) continue;
    if (is_float_tok(a[i]) && is_float_tok(b[i])) {
      const double x = strtod(a[i].c_str(), nullptr), y = strtod(b[i].c_str(), nullptr);
      if (std::fabs(x - y) <= 1e-12 * std::max(std::fabs(x), std::fabs(y))) continue;
    }
    return "recorded " + a[i].substr(0, 60) + " now " + b[i].substr(0, 60) + " (element " + std::to_string(i / 2) + ")";
  }
  if (a.size() != b.size()) return "recorded " + std::to_string(a.size() / 2) + " elements, now " + std::to_string(b.size() / 2);
  return "";
}
// returns "" when all content fields agree, else a description of the first difference; *lenient gets the number of differing q_ fields
inline std::string readout_diff(const std::string& want, const std::string& got, unsigned* lenient = nullptr) {
  if (lenient) *lenient = 0;
  if (want == got) return "";
  auto a = readout_fields(want), b = readout_fields(got);
  std::map<std::string, std::string> mb(b.begin(), b.end());
  std::string first;
  for (const auto& kv : a) {
    const bool q = kv.first.compare(0, 2, "q_") == 0;
    auto it = mb.find(kv.first);
    std::string d;
    if (it == mb.end()) d = "field missing now"; else { d = value_diff(kv.second, it->second); mb.erase(it); }
    if (d.empty()) continue;
    if (q) { if (lenient) ++*lenient; continue; }
    if (first.empty()) first = "field \"" + kv.first + "\": " + d;
  }
  for (const auto& kv : mb) if (kv.first.compare(0, 2, "q_") != 0 && first.empty()) first = "field \"" + kv.first + "\" not in the recorded read-out";
  return first;
}

// ------------------------------------------------------------------ helpers
inline void pin_lib_rng(uint64_t x) {
  datasketches::random_utils::rand.seed(x);
  datasketches::random_utils::random_bit.seed(static_cast<uint32_t>(x));
}
// bitwise equality of two vectors of floating values (NaN-safe, distinguishes -0.0)
template<typename T> bool same_bits(const std::vector<T>& a, const std::vector<T>& b) {
  if (a.size() != b.size()) return false;
  for (size_t i = 0; i < a.size(); ++i) if (memcmp(&a[i], &b[i], sizeof(T)) != 0) return false;
  return true;
}
template<typename V> std::string to_str(const V& bytes) { return std::string(reinterpret_cast<const char*>(bytes.data()), bytes.size()); }

inline uint64_t seed_for(int variant) { return (variant % 3 == 2) ? 0x5eed0000ULL + uint64_t(variant) * 7919 : 9001ULL; }

// Generic clause for every bytes serializer that takes header_size_bytes: for header sizes 1, 4, 8, 16, 33 the image that follows
// the reserved header must equal the header-less image byte for byte, and the reserved bytes must be left zero-filled.
template<typename SER> void check_header_variants(const std::string& fam, const std::string& plain, SER ser, const std::string& ctx) {
  for (unsigned h : {1u, 4u, 8u, 16u, 33u}) {
    std::string v;
    try { v = to_str(ser(h)); }
    catch (const std::exception& e) { checked(); fail(fam + "|bytes-writer-with-header|threw", ctx + " header=" + std::to_string(h) + ": " + e.what()); continue; }
    const std::string c2 = ctx + " header=" + std::to_string(h) + " size=" + std::to_string(v.size()) + " headerless size=" + std::to_string(plain.size());
    VF_CHECK(v.size() == plain.size() + h, fam + "|bytes-writer-with-header|size", c2);
    if (v.size() != plain.size() + h) continue;
    size_t i = 0; while (i < plain.size() && v[h + i] == plain[i]) ++i;
    VF_CHECK(i == plain.size(), fam + "|bytes-writer-with-header|image-differs-from-headerless-image", c2 + " first differing image byte " + std::to_string(i));
    VF_CHECK(v.find_first_not_of('\0') >= h, fam + "|bytes-writer-with-header|reserved-header-bytes-written", c2);
  }
  count("header_variants_checked_" + fam);
}

struct Built {
  std::string image;       // bytes written by the designated writer path of the recipe
  std::string readout;     // public-API read-out of the sketch that was serialized
};

// One family = a set of deterministic state recipes + reader + (monitor only) decoder cross-check.
struct Family {
  std::string name;
  int group;                // 1 = A, 2 = B, 3 = C (compile unit)
  int nvariants;            // number of corpus recipes
  // build state `variant` with data from r (small = corpus-sized images); serialize; read out
  std::function<Built(int variant, Rng& r, bool small)> build;
  // deserialize (bytes path or stream path) and read out with the same observer
  std::function<std::string(const std::string& img, bool stream, int variant)> read;
  // monitor: build a state, serialize, decode independently, compare with the public API (uses VF_CHECK)
  std::function<void(int variant, Rng& r, bool small)> decode_case;
};

inline std::vector<Family>& families() { static std::vector<Family> f; return f; }

struct Recipe { const Family* fam; int variant; std::string name; };
inline std::vector<Recipe> recipes() {
  std::vector<Recipe> out;
  for (const Family& f : families()) for (int v = 0; v < f.nvariants; ++v) {
    char b[16]; snprintf(b, sizeof b, "%03d", v);
    out.push_back(Recipe{&f, v, f.name + "_" + b});
  }
  return out;
}
// the data rng of a corpus recipe: pure function of (family name, variant)
inline uint64_t recipe_seed(const Recipe& rc) {
  uint64_t h = 0xC10C10ULL;
  for (char ch : rc.fam->name) h = mix64(h, uint8_t(ch));
  return mix64(h, uint64_t(rc.variant));
}
inline Built run_recipe(const Recipe& rc) {
  Rng r(recipe_seed(rc));
  pin_lib_rng(recipe_seed(rc) & 0x7fffffff);
  return rc.fam->build(rc.variant, r, true);
}

// reference images shipped with the repository (<repo>/<relpath>), read with the given reader; read-outs recorded from the
// pinned tree live in corpus/shipped/<name>.json
struct Shipped { std::string relpath; std::string name; std::string family; std::function<std::string(const std::string& img, bool stream)> read; };
inline std::vector<Shipped>& shipped() { static std::vector<Shipped> s; return s; }

inline bool read_file(const std::string& path, std::string& out) {
  std::ifstream f(path, std::ios::binary);
  if (!f) return false;
  std::ostringstream ss; ss << f.rdbuf(); out = ss.str();
  return true;
}
inline std::string verif_root() { const char* e = getenv("VERIF_ROOT"); return e && *e ? std::string(e) : std::string("."); }
// corpus directory (holding v0/, v1/, shipped/): $VERIF_C10_CORPUS if set (trial generations), else <verif root>/corpus
inline std::string corpus_root() { const char* e = getenv("VERIF_C10_CORPUS"); return e && *e ? std::string(e) : verif_root() + "/corpus"; }
inline std::string repo_root() { const char* e = getenv("VERIF_REPO"); return e && *e ? std::string(e) : std::string("/repo"); }

// iterate entries of a theta-like sketch
template<typename SK> std::vector<uint64_t> theta_entries(const SK& s) { std::vector<uint64_t> v; for (auto it = s.begin(); it != s.end(); ++it) v.push_back(*it); return v; }

} } // namespace vf::c10
#endif
