// C06 shared helpers: bound-chain read-out, small-range (collision-limited) accuracy window,
// Monte-Carlo cell statistics with the stated tolerances.
#ifndef VF_C06_COMMON_HPP
#define VF_C06_COMMON_HPP

#include "core.hpp"
#include <cmath>
#include <limits>

namespace vf { namespace c06 {

// bijection on 64-bit integers (splitmix64 finaliser): distinct inputs -> distinct keys
inline uint64_t bij(uint64_t x) {
  x ^= x >> 30; x *= 0xbf58476d1ce4e5b9ULL;
  x ^= x >> 27; x *= 0x94d049bb133111ebULL;
  x ^= x >> 31;
  return x;
}

// ------------------------------------------------------------------ bound chain
struct Chain {
  double est = 0;
  double lb[4] = {0, 0, 0, 0};   // index = number of std devs (1..3)
  double ub[4] = {0, 0, 0, 0};
  std::string to_string() const {
    return "lb3=" + str(lb[3]) + " lb2=" + str(lb[2]) + " lb1=" + str(lb[1]) + " est=" + str(est) +
           " ub1=" + str(ub[1]) + " ub2=" + str(ub[2]) + " ub3=" + str(ub[3]);
  }
};

template<typename S> Chain read_chain(const S& s) {
  Chain c;
  c.est = s.get_estimate();
  for (uint8_t sd = 1; sd <= 3; ++sd) { c.lb[sd] = s.get_lower_bound(sd); c.ub[sd] = s.get_upper_bound(sd); }
  return c;
}

// lb(3) <= lb(2) <= lb(1) <= est <= ub(1) <= ub(2) <= ub(3), everything finite and >= 0.
// `fam` is the key prefix (family / object kind), ctxf() the witness description (built on failure only).
template<typename F> inline bool check_chain_lazy(const Chain& c, const char* fam, F&& ctxf) {
  bool finite = std::isfinite(c.est);
  for (int sd = 1; sd <= 3; ++sd) finite = finite && std::isfinite(c.lb[sd]) && std::isfinite(c.ub[sd]);
  VF_CHECK(finite, std::string(fam) + "|bounds|not-finite", ctxf() + " " + c.to_string());
  if (!finite) return false;
  VF_CHECK(c.lb[3] >= 0, std::string(fam) + "|bounds|negative-lower-bound", ctxf() + " " + c.to_string());
  VF_CHECK(c.lb[1] <= c.est, std::string(fam) + "|bounds|lb-above-estimate", ctxf() + " " + c.to_string());
  VF_CHECK(c.est <= c.ub[1], std::string(fam) + "|bounds|ub-below-estimate", ctxf() + " " + c.to_string());
  VF_CHECK(c.lb[3] <= c.lb[2] && c.lb[2] <= c.lb[1], std::string(fam) + "|bounds|lb-not-nested-in-stddevs", ctxf() + " " + c.to_string());
  VF_CHECK(c.ub[1] <= c.ub[2] && c.ub[2] <= c.ub[3], std::string(fam) + "|bounds|ub-not-nested-in-stddevs", ctxf() + " " + c.to_string());
  return true;
}
inline void check_chain(const Chain& c, const std::string& fam, const std::string& ctx) {
  check_chain_lazy(c, fam.c_str(), [&] { return ctx; });
}

// ------------------------------------------------------------------ Poisson tails
// P(X >= d) for X ~ Poisson(lam)
inline double poisson_sf(double lam, long d) {
  if (d <= 0) return 1.0;
  // sum_{j>=d} e^-lam lam^j / j!   (start at the first term, sum forward until negligible)
  double logt = -lam + d * std::log(lam) - std::lgamma(static_cast<double>(d) + 1.0);
  double t = std::exp(logt), s = 0;
  for (long j = d; j < d + 2000; ++j) { s += t; t *= lam / static_cast<double>(j + 1); if (t < s * 1e-17) break; }
  return std::min(1.0, s);
}
// P(X <= d)
inline double poisson_cdf(double lam, long d) {
  if (d < 0) return 0.0;
  double t = std::exp(-lam), s = 0;
  for (long j = 0; j <= d; ++j) { s += t; t *= lam / static_cast<double>(j + 1); }
  return std::min(1.0, s);
}
// smallest d such that P(X > d) <= eps
inline long poisson_hi(double lam, double eps) {
  if (lam <= 0) return 0;
  long d = static_cast<long>(std::floor(lam));
  while (poisson_sf(lam, d + 1) > eps) ++d;
  return d;
}
// largest d such that P(X < d) <= eps
inline long poisson_lo(double lam, double eps) {
  if (lam <= 0) return 0;
  long d = static_cast<long>(std::floor(lam));
  while (d > 0 && poisson_cdf(lam, d - 1) > eps) --d;
  return d;
}

// Small-range accuracy window.  While a coupon sketch (HLL LIST/SET: 26 address bits, CPC: lg_k row
// bits, both with a geometric value/column) has seen n distinct keys, the only information it loses
// is coupon collisions.  Two keys collide with probability 1/(3*K) (K = 2^26 resp. k), so the number
// of lost keys D = n - C is (dominated by) Poisson(lam), lam = n(n-1)/(6K), and every estimator the
// library uses there (interpolated inverse of E[C|n] for HLL, HIP / ICON for CPC) returns
// C + corr(C), corr(C) ~ C(C-1)/(6K) to first order (for HIP a random quantity with that mean and
// s.d. 0.103*C^1.5/K).  Window:  (n-Dhi) + corr(n-Dhi) - slack <= est <= (n-Dlo) + corr(n-Dlo) + slack
// with the Poisson quantiles Dlo, Dhi at 1e-14 and
// slack = 0.05*lam + 7*0.103*n^1.5/K + 2e-5*n + 1e-9 (higher-order terms, HIP fluctuation, accuracy
// of the interpolation tables).
struct Window { double lo, hi, lam; };
inline Window small_range_window(uint64_t n, double K) {
  Window w;
  const double dn = static_cast<double>(n);
  w.lam = dn * (dn - 1.0) / (6.0 * K);
  const double dhi = static_cast<double>(std::min<long>(poisson_hi(w.lam, 1e-14), n > 0 ? static_cast<long>(n - 1) : 0));
  const double dlo = static_cast<double>(poisson_lo(w.lam, 1e-14));
  const double slack = 0.05 * w.lam + 7.0 * 0.103 * dn * std::sqrt(dn) / K + 2e-5 * dn + 1e-9;
  auto corr = [&](double c) { return c > 1 ? c * (c - 1.0) / (6.0 * K) : 0.0; };
  w.lo = (dn - dhi) + corr(dn - dhi) - slack;
  w.hi = (dn - dlo) + corr(dn - dlo) + slack;
  return w;
}

// ------------------------------------------------------------------ Monte-Carlo cell
struct Trial { Chain c; double aux = std::numeric_limits<double>::quiet_NaN(); bool exact_class = false; };

struct CellResult {
  double mean = 0, sd = 0, rse = 0, kurt = 3;
  double cov[4] = {0, 0, 0, 0};
  std::string to_string() const {
    return "mean_rel_err=" + str(mean) + " sd_rel_err=" + str(sd) + " RSE*=" + str(rse) + " sd/RSE*=" + str(rse > 0 ? sd / rse : 0.0) + " kurtosis=" + str(kurt) +
      " cov1=" + str(cov[1]) + " cov2=" + str(cov[2]) + " cov3=" + str(cov[3]);
  }
};

inline void mean_sd(const std::vector<double>& v, double& mean, double& sd) {
  const double T = static_cast<double>(v.size());
  double s = 0; for (double x : v) s += x;
  mean = s / T;
  double q = 0; for (double x : v) q += (x - mean) * (x - mean);
  sd = v.size() > 1 ? std::sqrt(q / (T - 1.0)) : 0.0;
}

static const double NOMINAL[4] = {0, 0.682689492137086, 0.954499736103642, 0.997300203936740};

// The stated tolerances of the property (frozen after calibration on the unchanged tree):
//   |mean relative error|      <= 0.2*RSE* + 4*RSE*/sqrt(T)
//   s.d. of relative error     <= 1.20*RSE* * (1 + 4*sqrt((kurt-1)/(4T)))   (4 s.e. of an s.d. estimate; kurt = sample
//                                 kurtosis clamped to [3, 12]: the relative error of small sketches is right-skewed)
//   coverage at kappa std devs >= nominal - 0.05 - 4*sqrt(nominal(1-nominal)/T)
inline CellResult check_cell(const std::vector<Trial>& tr, uint64_t n, double rse, const std::string& fam, const std::string& ctx,
                             bool do_bias_spread, bool do_coverage) {
  CellResult R; R.rse = rse;
  const double T = static_cast<double>(tr.size());
  const double dn = static_cast<double>(n);
  std::vector<double> rel; rel.reserve(tr.size());
  for (auto& t : tr) rel.push_back(t.c.est / dn - 1.0);
  mean_sd(rel, R.mean, R.sd);
  double m4 = 0; for (double x : rel) m4 += (x - R.mean) * (x - R.mean) * (x - R.mean) * (x - R.mean);
  const double var = R.sd * R.sd;
  const double kurt = std::min(12.0, std::max(3.0, var > 0 ? (m4 / T) / (var * var) : 3.0));
  const double sd_allow = 1.0 + 4.0 * std::sqrt((kurt - 1.0) / (4.0 * T));
  R.kurt = kurt;
  for (int sd = 1; sd <= 3; ++sd) {
    uint64_t in = 0;
    for (auto& t : tr) if (t.c.lb[sd] <= dn && dn <= t.c.ub[sd]) ++in;
    R.cov[sd] = static_cast<double>(in) / T;
  }
  const std::string d = ctx + " T=" + std::to_string(tr.size()) + " " + R.to_string();
  {   // one record per cell in the shard output (ignored by the driver; kept with --keep for calibration)
    const double bt = 0.2 * rse + 4.0 * rse / std::sqrt(T), st = 1.20 * rse * sd_allow;
    char buf[256];
    snprintf(buf, sizeof buf, " | bias/tol=%.3f sd/tol=%.3f covmargin=%.3f,%.3f,%.3f stats=%d", bt > 0 ? std::fabs(R.mean) / bt : 0.0, st > 0 ? R.sd / st : 0.0,
             R.cov[1] - (NOMINAL[1] - 0.05 - 4.0 * std::sqrt(NOMINAL[1] * (1 - NOMINAL[1]) / T)),
             R.cov[2] - (NOMINAL[2] - 0.05 - 4.0 * std::sqrt(NOMINAL[2] * (1 - NOMINAL[2]) / T)),
             R.cov[3] - (NOMINAL[3] - 0.05 - 4.0 * std::sqrt(NOMINAL[3] * (1 - NOMINAL[3]) / T)), do_bias_spread ? 1 : 0);
    emit(std::string("{\"t\":\"cell\",\"d\":") + jstr("CELL " + d + buf) + "}");
  }
  if (do_bias_spread) {
    const double bias_tol = 0.2 * rse + 4.0 * rse / std::sqrt(T);
    VF_CHECK(std::fabs(R.mean) <= bias_tol, fam + "|mc|bias", d + " tol=" + str(bias_tol));
    const double sd_tol = 1.20 * rse * sd_allow;
    VF_CHECK(R.sd <= sd_tol, fam + "|mc|spread-above-published-rse", d + " tol=" + str(sd_tol));
  }
  if (do_coverage) {
    for (int sd = 1; sd <= 3; ++sd) {
      const double p = NOMINAL[sd];
      const double need = p - 0.05 - 4.0 * std::sqrt(p * (1.0 - p) / T);
      VF_CHECK(R.cov[sd] >= need, fam + "|mc|coverage-" + std::to_string(sd) + "sd", d + " need>=" + str(need));
    }
  }
  return R;
}

// cardinalities of the Monte-Carlo cells as multiples of k (num/den)
struct Mult { uint32_t num, den; };
static const Mult MULTS[] = {{1,32},{1,8},{1,2},{1,1},{2,1},{3,1},{5,1},{8,1},{16,1},{32,1},{64,1}};
static const int NMULTS = sizeof(MULTS) / sizeof(MULTS[0]);
inline uint64_t cardinality(uint8_t lg_k, int mi) {
  const uint64_t k = 1ULL << lg_k;
  return std::max<uint64_t>(1, k * MULTS[mi].num / MULTS[mi].den);
}
inline const char* range_class(uint8_t lg_k, uint64_t n) {
  const uint64_t k = 1ULL << lg_k;
  return n <= k ? "small" : (n <= 4 * k ? "transition" : "asymptotic");
}

// Deterministic cell table: (family, lg_k, multiplier index, trials).  Order: descending cost, then
// interleaved with stride 8 (cells 0,8,16,.. then 1,9,17,.. ...): round-robin sharding stays balanced
// and every prefix of the case list (--max-cases) is a representative sample of all sizes.
struct Cell { int fam; uint8_t lg_k; int mi; uint32_t trials; uint64_t n; double cost; };
inline void order_cells(std::vector<Cell>& cells) {
  std::stable_sort(cells.begin(), cells.end(), [](const Cell& a, const Cell& b) { return a.cost > b.cost; });
  std::vector<Cell> out; out.reserve(cells.size());
  const size_t S = 8;
  for (size_t o = 0; o < S; ++o) for (size_t i = o; i < cells.size(); i += S) out.push_back(cells[i]);
  cells.swap(out);
}

}} // namespace vf::c06
#endif
