// C06 shared helpers: bound-chain read-out, small-range (collision-limited) accuracy window,
// Monte-Carlo cell statistics with the stated tolerances.
#ifndef VF_C06_COMMON_HPP
#define VF_C06_COMMON_HPP

#include "core.hpp"
#include <cmath>
#include <limits>

namespace vf { namespace c06 {

// bijection on 64-bit integers (splitmix64 finaliser): distinct inputs -> distinct keys
inline uint64_t bij(uint64_t x) {
  x ^= x >> 30; x *= 0xbf58476d1ce4e5b9ULL;
  x ^= x >> 27; x *= 0x94d049bb133111ebULL;
  x ^= x >> 31;
  return x;
}

// ------------------------------------------------------------------ bound chain
// Accessor order.  A read-out calls get_estimate / get_lower_bound(1..3) / get_upper_bound(1..3) (and
// get_composite_estimate where it exists) in a random order drawn from a per-case stream (seed_order(r) at the
// start of run_case), so that every accessor is regularly the FIRST call after a mutation (lazily rebuilt state
// must not depend on which accessor triggers the rebuild).  One read-out in four calls a single accessor only.
// Then everything is read again in a fixed order; a value that differs between the two passes is recorded in
// Chain::unstable and reported by check_chain as <family>|accessor-order|value-changes-when-read-again.
inline uint64_t& order_state() { static uint64_t s = 0x6f72646572ULL; return s; }
inline uint64_t order_next() { return Rng::splitmix(order_state()); }
inline void seed_order(Rng& r) { order_state() = r.next(); }
static const char* const ACC_NAME[8] = {"est", "lb", "lb", "lb", "ub", "ub", "ub", "composite"};

struct Chain {
  double est = 0;
  double lb[4] = {0, 0, 0, 0};   // index = number of std devs (1..3)
  double ub[4] = {0, 0, 0, 0};
  double comp = std::numeric_limits<double>::quiet_NaN();   // composite estimate (HLL only)
  int first = -1;                // accessor called first (index into ACC_NAME)
  bool single = false;           // first pass called that accessor only
  std::string unstable;          // non-empty: values that changed between the first (random order) and second pass
  std::string to_string() const {
    return "lb3=" + str(lb[3]) + " lb2=" + str(lb[2]) + " lb1=" + str(lb[1]) + " est=" + str(est) +
           " ub1=" + str(ub[1]) + " ub2=" + str(ub[2]) + " ub3=" + str(ub[3]);
  }
};

template<bool COMP, typename S> Chain read_chain_impl(const S& s) {
  const int N = COMP ? 8 : 7;
  int perm[8] = {0, 1, 2, 3, 4, 5, 6, 7};
  for (int i = N; i > 1; --i) std::swap(perm[i - 1], perm[order_next() % static_cast<uint64_t>(i)]);
  const int len = (order_next() & 3) == 0 ? 1 : N;
  auto call = [&](int a) -> double {
    if (a == 0) return s.get_estimate();
    if (a <= 3) return s.get_lower_bound(static_cast<uint8_t>(a));
    if (a <= 6) return s.get_upper_bound(static_cast<uint8_t>(a - 3));
    if constexpr (COMP) return s.get_composite_estimate(); else return 0.0;
  };
  double v1[8];
  for (int i = 0; i < len; ++i) v1[perm[i]] = call(perm[i]);
  Chain c; c.first = perm[0]; c.single = len == 1;
  c.est = s.get_estimate();
  for (uint8_t sd = 1; sd <= 3; ++sd) { c.lb[sd] = s.get_lower_bound(sd); c.ub[sd] = s.get_upper_bound(sd); }
  if constexpr (COMP) c.comp = s.get_composite_estimate();
  for (int i = 0; i < len; ++i) {
    const int a = perm[i];
    const double v2 = a == 0 ? c.est : (a <= 3 ? c.lb[a] : (a <= 6 ? c.ub[a - 3] : c.comp));
    if (!(v1[a] == v2) && !(std::isnan(v1[a]) && std::isnan(v2)))
      c.unstable += std::string(" ") + ACC_NAME[a] + (a >= 1 && a <= 6 ? std::to_string(a <= 3 ? a : a - 3) : std::string()) + "(call #" + std::to_string(i + 1) + " of first pass)=" + str(v1[a]) + " later=" + str(v2);
  }
  count(std::string("first_accessor_") + ACC_NAME[perm[0]]);
  if (len == 1) count("single_accessor_readouts");
  return c;
}
template<typename S> Chain read_chain(const S& s) { return read_chain_impl<false>(s); }
template<typename S> Chain read_chain_c(const S& s) { return read_chain_impl<true>(s); }   // types with get_composite_estimate
// floor counters: which accessor was the first call on a union object right after a merge
inline void count_first_after_merge(const Chain& c) { count(std::string("first_accessor_after_merge_") + ACC_NAME[c.first]); }
inline bool same_chain(const Chain& a, const Chain& b) {
  bool same = a.est == b.est;
  for (int sd = 1; sd <= 3; ++sd) same = same && a.lb[sd] == b.lb[sd] && a.ub[sd] == b.ub[sd];
  return same;
}

// lb(3) <= lb(2) <= lb(1) <= est <= ub(1) <= ub(2) <= ub(3), everything finite and >= 0.
// `fam` is the key prefix (family / object kind), ctxf() the witness description (built on failure only).
template<typename F> inline bool check_chain_lazy(const Chain& c, const char* fam, F&& ctxf) {
  VF_CHECK(c.unstable.empty(), std::string(fam) + "|accessor-order|value-changes-when-read-again", ctxf() + " first accessor=" + ACC_NAME[c.first >= 0 ? c.first : 0] + ":" + c.unstable + " | second pass: " + c.to_string());
  bool finite = std::isfinite(c.est);
  for (int sd = 1; sd <= 3; ++sd) finite = finite && std::isfinite(c.lb[sd]) && std::isfinite(c.ub[sd]);
  VF_CHECK(finite, std::string(fam) + "|bounds|not-finite", ctxf() + " " + c.to_string());
  if (!finite) return false;
  VF_CHECK(c.lb[3] >= 0, std::string(fam) + "|bounds|negative-lower-bound", ctxf() + " " + c.to_string());
  VF_CHECK(c.lb[1] <= c.est, std::string(fam) + "|bounds|lb-above-estimate", ctxf() + " " + c.to_string());
  VF_CHECK(c.est <= c.ub[1], std::string(fam) + "|bounds|ub-below-estimate", ctxf() + " " + c.to_string());
  VF_CHECK(c.lb[3] <= c.lb[2] && c.lb[2] <= c.lb[1], std::string(fam) + "|bounds|lb-not-nested-in-stddevs", ctxf() + " " + c.to_string());
  VF_CHECK(c.ub[1] <= c.ub[2] && c.ub[2] <= c.ub[3], std::string(fam) + "|bounds|ub-not-nested-in-stddevs", ctxf() + " " + c.to_string());
  return true;
}
inline void check_chain(const Chain& c, const std::string& fam, const std::string& ctx) {
  check_chain_lazy(c, fam.c_str(), [&] { return ctx; });
}

// ------------------------------------------------------------------ Poisson tails
// P(X >= d) for X ~ Poisson(lam)
inline double poisson_sf(double lam, long d) {
  if (d <= 0) return 1.0;
  // sum_{j>=d} e^-lam lam^j / j!   (start at the first term, sum forward until negligible)
  double logt = -lam + d * std::log(lam) - std::lgamma(static_cast<double>(d) + 1.0);
  double t = std::exp(logt), s = 0;
  for (long j = d; j < d + 2000; ++j) { s += t; t *= lam / static_cast<double>(j + 1); if (t < s * 1e-17) break; }
  return std::min(1.0, s);
}
// P(X <= d)
inline double poisson_cdf(double lam, long d) {
  if (d < 0) return 0.0;
  double t = std::exp(-lam), s = 0;
  for (long j = 0; j <= d; ++j) { s += t; t *= lam / static_cast<double>(j + 1); }
  return std::min(1.0, s);
}
// smallest d such that P(X > d) <= eps
inline long poisson_hi(double lam, double eps) {
  if (lam <= 0) return 0;
  long d = static_cast<long>(std::floor(lam));
  while (poisson_sf(lam, d + 1) > eps) ++d;
  return d;
}
// largest d such that P(X < d) <= eps
inline long poisson_lo(double lam, double eps) {
  if (lam <= 0) return 0;
  long d = static_cast<long>(std::floor(lam));
  while (d > 0 && poisson_cdf(lam, d - 1) > eps) --d;
  return d;
}

// Small-range accuracy window.  While a coupon sketch (HLL LIST/SET: 26 address bits, CPC: lg_k row
// bits, both with a geometric value/column) has seen n distinct keys, the only information it loses
// is coupon collisions.  Two keys collide with probability 1/(3*K) (K = 2^26 resp. k), so the number
// of lost keys D = n - C is (dominated by) Poisson(lam), lam = n(n-1)/(6K), and every estimator the
// library uses there (interpolated inverse of E[C|n] for HLL, HIP / ICON for CPC) returns
// C + corr(C), corr(C) ~ C(C-1)/(6K) to first order (for HIP a random quantity with that mean and
// s.d. 0.103*C^1.5/K).  Window:  (n-Dhi) + corr(n-Dhi) - slack <= est <= (n-Dlo) + corr(n-Dlo) + slack
// with the Poisson quantiles Dlo, Dhi at 1e-14 and
// slack = 0.05*lam + 7*0.103*n^1.5/K + 2e-5*n + 1e-9 (higher-order terms, HIP fluctuation, accuracy
// of the interpolation tables).
struct Window { double lo, hi, lam; };
inline Window small_range_window(uint64_t n, double K) {
  Window w;
  const double dn = static_cast<double>(n);
  w.lam = dn * (dn - 1.0) / (6.0 * K);
  const double dhi = static_cast<double>(std::min<long>(poisson_hi(w.lam, 1e-14), n > 0 ? static_cast<long>(n - 1) : 0));
  const double dlo = static_cast<double>(poisson_lo(w.lam, 1e-14));
  const double slack = 0.05 * w.lam + 7.0 * 0.103 * dn * std::sqrt(dn) / K + 2e-5 * dn + 1e-9;
  auto corr = [&](double c) { return c > 1 ? c * (c - 1.0) / (6.0 * K) : 0.0; };
  w.lo = (dn - dhi) + corr(dn - dhi) - slack;
  w.hi = (dn - dlo) + corr(dn - dlo) + slack;
  return w;
}

// ------------------------------------------------------------------ Monte-Carlo cell
struct Trial { Chain c; double aux = std::numeric_limits<double>::quiet_NaN(); bool exact_class = false; };

struct CellResult {
  double mean = 0, sd = 0, rse = 0, kurt = 3;
  double cov[4] = {0, 0, 0, 0};
  std::string to_string() const {
    return "mean_rel_err=" + str(mean) + " sd_rel_err=" + str(sd) + " RSE*=" + str(rse) + " sd/RSE*=" + str(rse > 0 ? sd / rse : 0.0) + " kurtosis=" + str(kurt) +
      " cov1=" + str(cov[1]) + " cov2=" + str(cov[2]) + " cov3=" + str(cov[3]);
  }
};

inline void mean_sd(const std::vector<double>& v, double& mean, double& sd) {
  const double T = static_cast<double>(v.size());
  double s = 0; for (double x : v) s += x;
  mean = s / T;
  double q = 0; for (double x : v) q += (x - mean) * (x - mean);
  sd = v.size() > 1 ? std::sqrt(q / (T - 1.0)) : 0.0;
}

static const double NOMINAL[4] = {0, 0.682689492137086, 0.954499736103642, 0.997300203936740};

// The stated tolerances of the property (frozen after calibration on the unchanged tree):
//   |mean relative error|      <= 0.2*RSE* + 4*RSE*/sqrt(T)
//   s.d. of relative error     <= 1.20*RSE* * (1 + 4*sqrt((kurt-1)/(4T)))   (4 s.e. of an s.d. estimate; kurt = sample
//                                 kurtosis clamped to [3, 12]: the relative error of small sketches is right-skewed)
//   coverage at kappa std devs >= nominal - 0.05 - 4*sqrt(nominal(1-nominal)/T)
inline CellResult check_cell(const std::vector<Trial>& tr, uint64_t n, double rse, const std::string& fam, const std::string& ctx,
                             bool do_bias_spread, bool do_coverage) {
  CellResult R; R.rse = rse;
  const double T = static_cast<double>(tr.size());
  const double dn = static_cast<double>(n);
  std::vector<double> rel; rel.reserve(tr.size());
  for (auto& t : tr) rel.push_back(t.c.est / dn - 1.0);
  mean_sd(rel, R.mean, R.sd);
  double m4 = 0; for (double x : rel) m4 += (x - R.mean) * (x - R.mean) * (x - R.mean) * (x - R.mean);
  const double var = R.sd * R.sd;
  const double kurt = std::min(12.0, std::max(3.0, var > 0 ? (m4 / T) / (var * var) : 3.0));
  const double sd_allow = 1.0 + 4.0 * std::sqrt((kurt - 1.0) / (4.0 * T));
  R.kurt = kurt;
  for (int sd = 1; sd <= 3; ++sd) {
    uint64_t in = 0;
    for (auto& t : tr) if (t.c.lb[sd] <= dn && dn <= t.c.ub[sd]) ++in;
    R.cov[sd] = static_cast<double>(in) / T;
  }
  const std::string d = ctx + " T=" + std::to_string(tr.size()) + " " + R.to_string();
  {   // one record per cell in the shard output (ignored by the driver; kept with --keep for calibration)
    const double bt = 0.2 * rse + 4.0 * rse / std::sqrt(T), st = 1.20 * rse * sd_allow;
    char buf[256];
    snprintf(buf, sizeof buf, " | bias/tol=%.3f sd/tol=%.3f covmargin=%.3f,%.3f,%.3f stats=%d", bt > 0 ? std::fabs(R.mean) / bt : 0.0, st > 0 ? R.sd / st : 0.0,
             R.cov[1] - (NOMINAL[1] - 0.05 - 4.0 * std::sqrt(NOMINAL[1] * (1 - NOMINAL[1]) / T)),
             R.cov[2] - (NOMINAL[2] - 0.05 - 4.0 * std::sqrt(NOMINAL[2] * (1 - NOMINAL[2]) / T)),
             R.cov[3] - (NOMINAL[3] - 0.05 - 4.0 * std::sqrt(NOMINAL[3] * (1 - NOMINAL[3]) / T)), do_bias_spread ? 1 : 0);
    emit(std::string("{\"t\":\"cell\",\"d\":") + jstr("CELL " + d + buf) + "}");
  }
  if (do_bias_spread) {
    const double bias_tol = 0.2 * rse + 4.0 * rse / std::sqrt(T);
    VF_CHECK(std::fabs(R.mean) <= bias_tol, fam + "|mc|bias", d + " tol=" + str(bias_tol));
    const double sd_tol = 1.20 * rse * sd_allow;
    VF_CHECK(R.sd <= sd_tol, fam + "|mc|spread-above-published-rse", d + " tol=" + str(sd_tol));
  }
  if (do_coverage) {
    for (int sd = 1; sd <= 3; ++sd) {
      const double p = NOMINAL[sd];
      const double need = p - 0.05 - 4.0 * std::sqrt(p * (1.0 - p) / T);
      // the 4-standard-error allowance is a normal approximation; for cells with few trials (T = 6 in the large-n
      // down-sampling cells) it is not valid, so a shortfall must also be significant under the exact binomial law
      // (same one-sided 4-sigma level, 3.2e-5) at the tolerated coverage p - 0.05
      bool significant = true;
      if (R.cov[sd] < need) {
        const uint64_t in = static_cast<uint64_t>(std::llround(R.cov[sd] * T));
        const double pt = p - 0.05;
        double tail = 0;
        for (uint64_t j = 0; j <= in; ++j)
          tail += std::exp(std::lgamma(T + 1.0) - std::lgamma(j + 1.0) - std::lgamma(T - j + 1.0) + j * std::log(pt) + (T - j) * std::log(1.0 - pt));
        significant = tail < 3.2e-5;
      }
      VF_CHECK(R.cov[sd] >= need || !significant, fam + "|mc|coverage-" + std::to_string(sd) + "sd", d + " need>=" + str(need));
    }
  }
  return R;
}

// High-resolution interval coverage (cells with thousands of cheap trials).  The property promises that the reported
// interval contains the true count at least as often as its nominal confidence, allowing a small stated tolerance.  With the
// plain 5pp tolerance a 3-sigma interval could miss the truth 20 times too often unnoticed, so in these cells the stated
// tolerance scales with kappa:
//   P(truth outside [lb(kappa), ub(kappa)]) <= (1 - conf(kappa)) + HIRES_TOL[kappa] + 4 binomial s.e. (at the allowed rate)
// with conf = 68.27 / 95.45 / 99.73 % and HIRES_TOL = 5pp / 1pp / 0.5pp.  The per-side miss rates are reported in the cell
// record and the sample only (an asymmetric interval with correct total coverage is not a violation).
static const double HIRES_TOL[4] = {0, 0.050, 0.010, 0.005};
inline std::string check_interval_miss(const std::vector<Trial>& tr, uint64_t n, const std::string& fam, const std::string& ctx) {
  const double T = static_cast<double>(tr.size()), dn = static_cast<double>(n);
  std::string rec = ctx + " T=" + std::to_string(tr.size());
  for (int sd = 1; sd <= 3; ++sd) {
    uint64_t above = 0, below = 0;
    for (auto& t : tr) { if (dn > t.c.ub[sd]) ++above; else if (dn < t.c.lb[sd]) ++below; }
    const double allowed0 = (1.0 - NOMINAL[sd]) + HIRES_TOL[sd];
    const double allowed = allowed0 + 4.0 * std::sqrt(allowed0 * (1.0 - allowed0) / T);
    const double ra = static_cast<double>(above) / T, rb = static_cast<double>(below) / T, miss = ra + rb;
    const double headroom_se = (allowed - miss) / std::sqrt(std::max(miss, 1.0 / T) * (1.0 - miss) / T);
    const std::string d = " sd" + std::to_string(sd) + ": miss=" + str(miss) + " (truth above ub " + str(ra) + ", below lb " + str(rb) + ") nominal=" + str(1.0 - NOMINAL[sd]) +
      " allowed=" + str(allowed) + " headroom_se=" + str(headroom_se);
    VF_CHECK(miss <= allowed, fam + "|mc|interval-misses-truth-too-often-" + std::to_string(sd) + "sd", ctx + " T=" + std::to_string(tr.size()) + d);
    rec += d;
  }
  emit(std::string("{\"t\":\"cell\",\"d\":") + jstr("CELLHR " + rec) + "}");
  return rec;
}

// cardinalities of the Monte-Carlo cells as multiples of k (num/den)
struct Mult { uint32_t num, den; };
static const Mult MULTS[] = {{1,32},{1,8},{1,2},{1,1},{2,1},{3,1},{5,1},{8,1},{16,1},{32,1},{64,1}};
static const int NMULTS = sizeof(MULTS) / sizeof(MULTS[0]);
inline uint64_t cardinality(uint8_t lg_k, int mi) {
  const uint64_t k = 1ULL << lg_k;
  return std::max<uint64_t>(1, k * MULTS[mi].num / MULTS[mi].den);
}
inline const char* range_class(uint8_t lg_k, uint64_t n) {
  const uint64_t k = 1ULL << lg_k;
  return n <= k ? "small" : (n <= 4 * k ? "transition" : "asymptotic");
}

// Deterministic cell table: (family, lg_k, multiplier index, trials).  Order: descending cost, then
// interleaved with stride 8 (cells 0,8,16,.. then 1,9,17,.. ...): round-robin sharding stays balanced
// and every prefix of the case list (--max-cases) is a representative sample of all sizes.
struct Cell { int fam; uint8_t lg_k; int mi; uint32_t trials; uint64_t n; double cost; };
inline void order_cells(std::vector<Cell>& cells) {
  std::stable_sort(cells.begin(), cells.end(), [](const Cell& a, const Cell& b) { return a.cost > b.cost; });
  std::vector<Cell> out; out.reserve(cells.size());
  const size_t S = 8;
  for (size_t o = 0; o < S; ++o) for (size_t i = o; i < cells.size(); i += S) out.push_back(cells[i]);
  cells.swap(out);
}

}} // namespace vf::c06
#endif
