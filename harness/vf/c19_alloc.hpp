// C19 shared helper: stateful tracking allocator.
//
//  * `vf::Arena` is a pool identity.  Every block handed out by a `track_alloc` is recorded in the
//    arena that issued it (address -> bytes, element size, operation in flight).
//  * `vf::track_alloc<T>` holds an Arena* that travels with copies and rebinds; operator== <=> same
//    arena; is_always_equal = false.
//    Propagation traits: propagate_on_container_copy_assignment = move_assignment = swap = true and
//    select_on_container_copy_construction() returns the same arena.  Reason: the library's classes
//    implement assignment as copy/move-and-swap of *all* members including their allocator_ member,
//    i.e. memory always travels together with the allocator that issued it; a container-level
//    allocator that refused to travel (POCS=false with unequal allocators) would make the library's
//    plain std::swap of std::vector members undefined behaviour by the standard's own rules, which is
//    outside what the property promises.  With "everything propagates" every block must come back to
//    the arena that issued it whatever sequence of copies, moves and swaps happened in between.
//  * monitors (reported through vf::fail with key "<family>|alloc|..."):
//      - deallocate size (n*sizeof(T)) equals the size at allocate
//      - block is returned to the arena that issued it
//      - no double free / free of a block that is not live
//      - no allocation through a default-constructed (= not user supplied) allocator instance
//      - per-arena live bytes == 0 at the end of the case (checked by the driver via Arena::live_*)
//  Underlying memory is ::operator new / delete so ASan red zones, use-after-free and LSan stay active.
#ifndef VF_C19_ALLOC_HPP
#define VF_C19_ALLOC_HPP

#include "core.hpp"
#include <unordered_map>
#include <memory>
#include <new>
#include <type_traits>

namespace vf {

// ---- context shared by the C19 helpers ------------------------------------------------------
// allocations made while exempt_depth() > 0 are harness bookkeeping (arena maps, item payloads)
// and are ignored by the global-heap hook
inline int& exempt_depth() { static int d = 0; return d; }
struct Exempt { Exempt() { ++exempt_depth(); } ~Exempt() { --exempt_depth(); } };

// coverage counter bumped from inside an adapter (i.e. while a library call scope is open): the
// counter map node is harness bookkeeping, not library memory
inline void xcount(const std::string& name, uint64_t by = 1) { Exempt e; count(name, by); }

struct C19Ctx {
  std::string family = "?";   // family/object kind of the program in flight (part of violation keys)
  std::string op = "?";       // lifecycle operation in flight
  const char* op_lit = "?";   // same, as the string literal it was set from
  void set_op(const char* lit) { op = lit; op_lit = lit; }
  // per-instance attribution (see TrafficSnap): arena of the object the operation in flight works on, and
  // whether blocks of `double` are item payload for this family (points / summaries that carry their own allocator)
  struct Arena* target = nullptr;
  const struct Arena* forbidden = nullptr;   // debugging aid (C19_TRAP_FOREIGN=1): crash on the first call through this arena
  bool double_is_item_payload = false;
};
inline C19Ctx& c19ctx() { static C19Ctx c; return c; }
// coarse, stable origin class of a block for violation keys: allocated while a const call was in flight
// (lazily built caches) or during a lifecycle operation; the exact operations go into the detail
inline const char* block_origin(const char* op) {
  return (strcmp(op, "read-out") == 0 || strcmp(op, "query") == 0) ? "block-cached-by-const-call" : "block-from-lifecycle-operation";
}
inline std::string during() { return "|during-" + c19ctx().op; }
inline void c19_fail(const std::string& what, const std::string& detail) {
  Exempt e;
  checked();
  fail(c19ctx().family + "|" + what, "during op '" + c19ctx().op + "': " + detail);
}

struct Arena {
  struct Block { size_t bytes; size_t elem; const char* op; };   // op: operation in flight at allocate (static string)
  int id;
  std::unordered_map<const void*, Block> live;
  std::unordered_map<const void*, size_t> freed;    // released in this case and not handed out again
  size_t live_bytes = 0, total_allocs = 0, total_bytes = 0, peak_bytes = 0, total_frees = 0;
  // calls made THROUGH allocator instances of this arena, item payload excluded (characters of tstring items,
  // and doubles where the family's items are vectors of double): items carry their own allocator by design
  uint64_t n_alloc = 0, n_dealloc = 0;
  explicit Arena(int i);
  ~Arena();
  Arena(const Arena&) = delete;
  Arena& operator=(const Arena&) = delete;
};
inline std::vector<Arena*>& all_arenas() { static std::vector<Arena*> v; return v; }
inline Arena::Arena(int i): id(i) { Exempt e; all_arenas().push_back(this); }
inline Arena::~Arena() {
  Exempt e;
  // release whatever is still recorded (already reported by the driver) so LSan does not double report
  for (auto& kv : live) ::operator delete(const_cast<void*>(kv.first));
  auto& v = all_arenas();
  v.erase(std::remove(v.begin(), v.end(), this), v.end());
}
// arena behind default-constructed allocators: memory obtained through it was NOT obtained through
// the instance supplied by the user
inline Arena& default_arena() { static Arena a(-1); return a; }

enum { TAG_OTHER = 0, TAG_CHAR = 1, TAG_DOUBLE = 2 };
inline bool is_item_payload(int tag) { return tag == TAG_CHAR || (tag == TAG_DOUBLE && c19ctx().double_is_item_payload); }
inline void* arena_allocate(Arena* a, size_t n, size_t elem, int tag = TAG_OTHER) {
  Exempt e;
  if (!is_item_payload(tag)) {
    a->n_alloc++;
    static const bool trap_foreign = getenv("C19_TRAP_FOREIGN") != nullptr;
    if (trap_foreign && a == c19ctx().forbidden) { --exempt_depth(); char* volatile nil = nullptr; *nil = 0; }
  }
  if (a == &default_arena()) {
    count("alloc_via_default_constructed_allocator");
    static const bool trap = getenv("C19_TRAP_DEFAULT_ALLOC") != nullptr;   // debugging aid: stack trace of the offender
    if (trap) { --exempt_depth(); char* volatile nil = nullptr; *nil = 0; }
    c19_fail("alloc|allocation-through-default-constructed-allocator",
             "allocate(" + std::to_string(n) + " x " + std::to_string(elem) + " bytes) on an allocator instance that was default-constructed inside the library, not the one supplied");
  }
  if (n > (size_t(1) << 40) / (elem ? elem : 1)) throw std::bad_alloc();
  const size_t bytes = n * elem;
  void* p = ::operator new(bytes ? bytes : 1);
  a->freed.erase(p);
  for (Arena* o : all_arenas()) if (o != a) o->freed.erase(p);
  a->live[p] = Arena::Block{bytes, elem, c19ctx().op_lit};
  a->live_bytes += bytes; a->total_bytes += bytes; a->total_allocs++;
  if (a->live_bytes > a->peak_bytes) a->peak_bytes = a->live_bytes;
  return p;
}

// called with (address, bytes) just before a tracked block is really released; c19_item.hpp installs a
// scanner that reports Items still alive inside the block (storage released without destruction)
typedef void (*release_hook_t)(const void*, size_t);
inline release_hook_t& storage_release_hook() { static release_hook_t h = nullptr; return h; }

inline void arena_deallocate(Arena* a, void* p, size_t n, size_t elem, int tag = TAG_OTHER) noexcept {
  Exempt e;
  checked();
  if (!is_item_payload(tag)) a->n_dealloc++;
  if (p == nullptr) {
    // deallocate(nullptr, n) is not allowed by the allocator requirements, but harmless; count only
    count("alloc_deallocate_nullptr");
    return;
  }
  const size_t bytes = n * elem;
  auto it = a->live.find(p);
  Arena* owner = a;
  if (it == a->live.end()) {
    owner = nullptr;
    for (Arena* o : all_arenas()) {
      auto jt = o->live.find(p);
      if (jt != o->live.end()) { owner = o; it = jt; break; }
    }
    if (!owner) {
      bool was_freed = false; size_t old = 0;
      for (Arena* o : all_arenas()) { auto ft = o->freed.find(p); if (ft != o->freed.end()) { was_freed = true; old = ft->second; } }
      c19_fail(was_freed ? "alloc|double-free" : "alloc|free-of-unknown-block",
               "deallocate(" + std::to_string(bytes) + " bytes) on arena " + std::to_string(a->id) +
               (was_freed ? " of a block already released (was " + std::to_string(old) + " bytes)" : " of a block no arena issued"));
      return;   // do not touch the memory
    }
    c19_fail(std::string("alloc|block-returned-to-wrong-arena|") + block_origin(it->second.op),
             "block of " + std::to_string(it->second.bytes) + " bytes issued by arena " + std::to_string(owner->id) +
             " (allocated during '" + it->second.op + "') was deallocated through an allocator of arena " + std::to_string(a->id));
  }
  checked();
  if (it->second.bytes != bytes) {
    c19_fail(std::string("alloc|deallocate-size-mismatch|") + block_origin(it->second.op),
             "allocated " + std::to_string(it->second.bytes) + " bytes (elem " + std::to_string(it->second.elem) + "), deallocate says " +
             std::to_string(n) + " x " + std::to_string(elem) + " = " + std::to_string(bytes) + " bytes");
  } else if (it->second.elem != elem) {
    count("alloc_rebound_elem_size_differs");   // evidence only: same bytes through a differently sized rebind
  }
  if (storage_release_hook()) storage_release_hook()(p, it->second.bytes);
  owner->live_bytes -= it->second.bytes;
  owner->total_frees++;
  owner->freed[p] = it->second.bytes;
  owner->live.erase(it);
  ::operator delete(p);
}

template<typename T> class track_alloc {
public:
  using value_type = T;
  using size_type = std::size_t;
  using difference_type = std::ptrdiff_t;
  using pointer = T*;
  using const_pointer = const T*;
  using reference = typename std::add_lvalue_reference<T>::type;
  using const_reference = typename std::add_lvalue_reference<const T>::type;
  using propagate_on_container_copy_assignment = std::true_type;
  using propagate_on_container_move_assignment = std::true_type;
  using propagate_on_container_swap = std::true_type;
  using is_always_equal = std::false_type;
  template<typename U> struct rebind { using other = track_alloc<U>; };

  Arena* arena;
  track_alloc() noexcept: arena(&default_arena()) { Exempt e; count("alloc_default_constructed_instances"); }
  explicit track_alloc(Arena* a) noexcept: arena(a) {}
  track_alloc(const track_alloc& o) noexcept = default;
  template<typename U> track_alloc(const track_alloc<U>& o) noexcept: arena(o.arena) {}
  track_alloc& operator=(const track_alloc&) noexcept = default;

  static constexpr int TAG = std::is_same<typename std::remove_const<T>::type, char>::value ? TAG_CHAR : (std::is_same<typename std::remove_const<T>::type, double>::value ? TAG_DOUBLE : TAG_OTHER);
  T* allocate(size_type n) { return static_cast<T*>(arena_allocate(arena, n, sizeof(T), TAG)); }
  T* allocate(size_type n, const void*) { return allocate(n); }
  void deallocate(T* p, size_type n) noexcept { arena_deallocate(arena, const_cast<typename std::remove_const<T>::type*>(p), n, sizeof(T), TAG); }
  track_alloc select_on_container_copy_construction() const { return *this; }
  size_type max_size() const noexcept { return (size_type(1) << 40) / sizeof(T); }
};

template<typename T, typename U> bool operator==(const track_alloc<T>& a, const track_alloc<U>& b) noexcept { return a.arena == b.arena; }
template<typename T, typename U> bool operator!=(const track_alloc<T>& a, const track_alloc<U>& b) noexcept { return a.arena != b.arena; }

// ---- per-instance attribution --------------------------------------------------------------
// Snapshot of the per-arena call counters; afterwards tells how many (non-payload) allocate / deallocate calls
// went through the allocator instances of a given arena, or through any arena other than the allowed ones.
struct TrafficSnap {
  static const int N = 16;
  Arena* ar[N]; uint64_t a[N], d[N]; int n = 0;
  TrafficSnap() { for (Arena* x : all_arenas()) if (n < N) { ar[n] = x; a[n] = x->n_alloc; d[n] = x->n_dealloc; ++n; } }
  int idx(const Arena* x) const { for (int i = 0; i < n; ++i) if (ar[i] == x) return i; return -1; }
  bool still_exists(const Arena* x) const { for (Arena* y : all_arenas()) if (y == x) return true; return false; }
  uint64_t allocs(const Arena* x) const { const int i = idx(x); return i < 0 || !still_exists(x) ? 0 : x->n_alloc - a[i]; }
  uint64_t deallocs(const Arena* x) const { const int i = idx(x); return i < 0 || !still_exists(x) ? 0 : x->n_dealloc - d[i]; }
  // allocations through arenas that existed at the snapshot and are neither ok1 nor ok2; *which = id of one of them
  uint64_t foreign_allocs(const Arena* ok1, const Arena* ok2, int* which = nullptr) const {
    uint64_t t = 0;
    for (int i = 0; i < n; ++i) {
      if (ar[i] == ok1 || ar[i] == ok2 || !still_exists(ar[i])) continue;
      const uint64_t k = ar[i]->n_alloc - a[i];
      if (k && which) *which = ar[i]->id;
      t += k;
    }
    return t;
  }
};
// Brackets ONE library call made inside an adapter that takes an operand living in arena `operand` while the
// object operated on lives in c19ctx().target: by const& the operand's allocator instance must see no call at
// all, by && it may release (be emptied) but must not allocate.
struct OperandWatch {
  TrafficSnap s; const Arena* operand; bool by_move; const char* what;
  OperandWatch(const Arena* op, bool mv, const char* w): operand(op), by_move(mv), what(w) {}
  ~OperandWatch() {
    if (operand == nullptr || operand == c19ctx().target || c19ctx().target == nullptr) { xcount(c19ctx().family + ".operand_same_instance_unchecked"); return; }
    const uint64_t al = s.allocs(operand), de = s.deallocs(operand);
    checked();
    if (al > 0 || (!by_move && de > 0))
      c19_fail(std::string("alloc-instance|") + what + (by_move ? "|allocated-through-consumed-operands-allocator" : "|used-const-operands-allocator"),
               std::to_string(al) + " allocate and " + std::to_string(de) + " deallocate calls went through the allocator instance of the " + (by_move ? "rvalue" : "const") +
               " operand (arena " + std::to_string(operand->id) + ") while the object operated on owns arena " + std::to_string(c19ctx().target->id));
    xcount(c19ctx().family + (by_move ? ".merge_move_operand_instance_checked" : ".merge_ref_operand_instance_checked"));
  }
};

// std::string whose characters come from a tracked arena (non-trivial item type for the templated sketches)
using tstring = std::basic_string<char, std::char_traits<char>, track_alloc<char>>;

} // namespace vf
#endif
