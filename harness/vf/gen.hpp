// Typed input values for the hash-based sketches (Theta, Tuple, HLL, CPC) with the documented
// canonicalisation written independently of the library, plus stream-shape generators.
#ifndef VF_GEN_HPP
#define VF_GEN_HPP

#include "core.hpp"
#include "refhash.hpp"
#include <limits>

namespace vf {

enum ValKind { V_U64, V_I64, V_U32, V_I32, V_U16, V_I16, V_U8, V_I8, V_F64, V_F32, V_STR, V_BYTES, V_NKINDS };
inline bool& str_nul_enabled() { static bool b = false; return b; }   // set by monitors that want NUL-carrying string keys
inline const char* kind_name(int k) {
  static const char* n[] = {"u64","i64","u32","i32","u16","i16","u8","i8","f64","f32","str","bytes"};
  return n[k];
}

struct Val {
  ValKind kind = V_U64;
  uint64_t u = 0;      // integer payload (bit pattern)
  double d = 0;        // f64 payload
  float f = 0;         // f32 payload
  std::string s;       // str / bytes payload

  // is the value ignored by update()?  (empty string is documented as ignored; raw bytes of length 0 are hashed)
  bool ignored() const { return kind == V_STR && s.empty(); }

  // canonical bytes that get hashed (documented behaviour)
  std::string canon_bytes() const {
    auto le8 = [](uint64_t v) { std::string b(8, '\0'); for (int i = 0; i < 8; ++i) b[i] = char(v >> (8 * i)); return b; };
    switch (kind) {
      case V_U64: return le8(u);
      case V_I64: return le8(u);
      case V_U32: return le8(uint64_t(int64_t(int32_t(uint32_t(u)))));   // uint32 -> int32 -> int64 (Java compatible)
      case V_I32: return le8(uint64_t(int64_t(int32_t(uint32_t(u)))));
      case V_U16: return le8(uint64_t(int64_t(int16_t(uint16_t(u)))));
      case V_I16: return le8(uint64_t(int64_t(int16_t(uint16_t(u)))));
      case V_U8:  return le8(uint64_t(int64_t(int8_t(uint8_t(u)))));
      case V_I8:  return le8(uint64_t(int64_t(int8_t(uint8_t(u)))));
      case V_F64: return le8(canon_double_bits(d));
      case V_F32: return le8(canon_double_bits(static_cast<double>(f)));
      case V_STR: return s;
      case V_BYTES: return s;
      default: return std::string();
    }
  }
  H128 ref_hash(uint64_t seed) const { std::string b = canon_bytes(); return ref_murmur3_x64_128(b.data(), b.size(), seed); }

  std::string to_string() const {
    switch (kind) {
      case V_F64: return std::string("f64:") + str(d);
      case V_F32: return std::string("f32:") + str(f);
      case V_STR: return std::string("str:") + hexbytes(s.data(), s.size(), 24);
      case V_BYTES: return std::string("bytes:") + hexbytes(s.data(), s.size(), 24);
      default: return std::string(kind_name(kind)) + ":" + std::to_string(u);
    }
  }
};

// raw-bytes inputs are handed over at rotating addresses (offsets 0..7 from an 8-byte aligned buffer): what a sketch
// does with a key must not depend on where its bytes happen to live
inline const void* raw_at_rotating_address(const std::string& bytes) {
  static thread_local std::vector<uint64_t> buf;
  static thread_local unsigned rot = 0;
  buf.assign((bytes.size() + 8) / 8 + 2, 0);
  const unsigned off = rot++ & 7;
  if (off) count("raw_bytes_inputs_from_unaligned_address");
  char* p = reinterpret_cast<char*>(buf.data()) + off;
  if (!bytes.empty()) memcpy(p, bytes.data(), bytes.size());
  return p;
}

// call the matching update overload of a sketch
template<typename S> void apply_update(S& sk, const Val& v) {
  switch (v.kind) {
    case V_U64: sk.update(static_cast<uint64_t>(v.u)); break;
    case V_I64: sk.update(static_cast<int64_t>(v.u)); break;
    case V_U32: sk.update(static_cast<uint32_t>(v.u)); break;
    case V_I32: sk.update(static_cast<int32_t>(static_cast<uint32_t>(v.u))); break;
    case V_U16: sk.update(static_cast<uint16_t>(v.u)); break;
    case V_I16: sk.update(static_cast<int16_t>(static_cast<uint16_t>(v.u))); break;
    case V_U8:  sk.update(static_cast<uint8_t>(v.u)); break;
    case V_I8:  sk.update(static_cast<int8_t>(static_cast<uint8_t>(v.u))); break;
    case V_F64: sk.update(v.d); break;
    case V_F32: sk.update(v.f); break;
    case V_STR: sk.update(v.s); break;
    case V_BYTES: sk.update(raw_at_rotating_address(v.s), v.s.size()); break;
    default: break;
  }
}

inline double special_double(Rng& r) {
  static const double sp[] = {0.0, -0.0, 1.0, -1.0, std::numeric_limits<double>::infinity(), -std::numeric_limits<double>::infinity(),
    std::numeric_limits<double>::quiet_NaN(), -std::numeric_limits<double>::quiet_NaN(), std::numeric_limits<double>::denorm_min(),
    std::numeric_limits<double>::max(), std::numeric_limits<double>::min(), 0.5, 1e300, -1e-300};
  return sp[r.below(sizeof(sp) / sizeof(sp[0]))];
}

// Generate a value of a random (or given) kind from a domain of roughly `domain` distinct values.
inline Val gen_val(Rng& r, uint64_t domain, int kind = -1) {
  Val v;
  v.kind = static_cast<ValKind>(kind < 0 ? r.below(V_NKINDS) : kind);
  uint64_t x = r.below(domain ? domain : 1);
  switch (v.kind) {
    case V_U64: v.u = r.chance(0.1) ? (UINT64_MAX - x) : x * 0x9e3779b97f4a7c15ULL; break;
    case V_I64: v.u = r.chance(0.5) ? uint64_t(-int64_t(x)) : x; break;
    case V_U32: v.u = uint32_t(r.chance(0.3) ? (0xffffffffu - x) : x * 2654435761u); break;
    case V_I32: v.u = uint32_t(int32_t(r.chance(0.5) ? -int64_t(x) : int64_t(x))); break;
    case V_U16: v.u = uint16_t(r.chance(0.3) ? 0xffffu - x : x); break;
    case V_I16: v.u = uint16_t(int16_t(r.chance(0.5) ? -int64_t(x % 32768) : int64_t(x % 32768))); break;
    case V_U8:  v.u = uint8_t(x); break;
    case V_I8:  v.u = uint8_t(x); break;
    case V_F64: v.d = r.chance(0.05) ? special_double(r) : (r.chance(0.5) ? double(x) * 0.37 - 11.0 : std::ldexp(double(x) + 0.5, int(r.range(-60, 60)))); break;
    case V_F32: { double d = r.chance(0.05) ? special_double(r) : double(x) * 0.25 - 3.0; v.f = static_cast<float>(d); break; }
    case V_STR: {
      if (r.chance(0.02)) { v.s.clear(); break; }
      size_t len = 1 + r.below(r.chance(0.1) ? 40 : 9);
      uint64_t t = x; v.s.clear();
      for (size_t i = 0; i < len; ++i) { v.s += char('a' + (t % 26)); t = t / 26 + (i + 1) * 7; }
      // opt-in (C13): a std::string key may carry an embedded NUL; the whole length() is the key, not the C string
      if (str_nul_enabled() && r.chance(0.15)) v.s[size_t(x % len)] = '\0';
      break;
    }
    case V_BYTES: {
      size_t len = r.below(r.chance(0.1) ? 70 : 20);
      uint64_t t = x * 0x2545F4914F6CDD1DULL + 1; v.s.clear();
      for (size_t i = 0; i < len; ++i) { v.s += char(t & 0xff); t = (t >> 8) | (t << 56); t += i; }
      break;
    }
    default: break;
  }
  return v;
}

} // namespace vf
#endif
