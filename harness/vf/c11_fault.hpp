// C11 — shared fault-enumeration machinery: truncation / preamble corruption of serialized images.
//
// A unit (one translation unit per family group) registers TARGETS = (family, image kind, path,
// image builder, reader).  One CASE = one (target, image variant): the image is built from the
// current tree, then EVERY truncation length and every (preamble byte, replacement) pair is applied
// and fed to the reader.  Faults run inside forked children in slices; the child reports through a
// shared-memory page which fault is in flight and how each one ended, so the monitor process itself
// never dies: a child killed by ASan/UBSan/a signal/the CPU limit is turned into a violation with
// its own key  family|kind|path|trunc-or-corrupt|<fault class>|<innermost library frame>  and a new
// child continues with the next fault.
#ifndef VF_C11_FAULT_HPP
#define VF_C11_FAULT_HPP

#include "core.hpp"
#include <common_defs.hpp>
#include <sys/mman.h>
#include <sys/wait.h>
#include <sys/resource.h>
#include <sys/types.h>
#include <poll.h>
#include <dlfcn.h>
#include <cerrno>
#include <memory>
#include <exception>

extern "C" size_t __sanitizer_get_current_allocated_bytes();
extern "C" int __lsan_do_recoverable_leak_check();
extern "C" void __sanitizer_symbolize_pc(void* pc, const char* fmt, char* out_buf, size_t out_buf_size);
extern "C" void __sanitizer_print_stack_trace();
extern "C" int __sanitizer_install_malloc_and_free_hooks(void (*malloc_hook)(const volatile void*, size_t),
                                                         void (*free_hook)(const volatile void*));

namespace vf { namespace c11 {

typedef std::vector<uint8_t> Bytes;

// Reader contract: deserialize / wrap the image [p, p+n) through this target's path; on acceptance do
// the family's full public read-out and return it as a canonical string (it must include the
// re-serialized bytes); if `use`, additionally apply ~50 updates and/or a merge with a fresh sketch and
// re-serialize (the returned string is not compared then).  The sketch is destroyed before return.
// A rejected image is signalled by a std::exception leaving the function.
// `p` is an exact-size heap block (right red zone directly behind byte n-1); writable for the
// writable_wrap path.
typedef std::function<std::string(uint8_t* p, size_t n, bool use)> ReadFn;
typedef std::function<Bytes(Rng& r, bool thorough)> BuildFn;

struct Target {
  std::string family, kind, path;   // path: bytes | stream | wrap | writable_wrap
  BuildFn build;
  ReadFn read;
  // number of PREAMBLE bytes of this image (the property speaks of "changing any preamble byte"); optional:
  // without it the family table in default_preamble() applies
  std::function<size_t(const Bytes&)> preamble;
};

// Length of the preamble as the image itself declares it (first byte = preamble ints / longs in every
// DataSketches layout).  Corruption is enumerated over min(size, 64) leading bytes; a finding at a position
// inside the preamble is a violation of C11, one behind it (entry / item / register data) is outside the
// property text and only recorded in the counters ("outside-property:...").
inline size_t default_preamble(const std::string& family, const Bytes& img) {
  if (img.empty()) return 0;
  auto starts = [&](const char* p) { return family.rfind(p, 0) == 0; };
  const size_t b0 = img[0];
  size_t n = 64;
  if (starts("theta") || starts("tuple")) n = 8 * (b0 & 0x3f);
  else if (starts("array_of_doubles")) n = img.size() > 16 ? 24 : 16;       // fixed header; count + padding follow theta when there are entries
  else if (starts("hll")) n = 4 * b0;
  else if (starts("cpc")) n = 4 * b0;
  else if (starts("kll") || starts("density")) n = 4 * b0;
  else if (starts("req")) n = 8;                                              // + what follows is covered by the unit's own rule if it sets one
  else if (starts("quantiles") || starts("fi_") || starts("count_min") || starts("bloom") || starts("tdigest") || starts("ebpps")) n = 8 * (b0 & 0x3f);
  else if (starts("varopt")) n = 8 * (b0 & 0x3f);
  if (n < 8) n = 8;
  return std::min(n, img.size());
}

// helper: turn a stream-based reader into a ReadFn (std::istringstream over the prefix, exception mask
// left at the default = off, as a user would)
template<typename F> ReadFn stream_path(F f) {
  return [f](uint8_t* p, size_t n, bool use) -> std::string {
    std::istringstream is(std::string(reinterpret_cast<const char*>(p), n), std::ios::binary);
    return f(static_cast<std::istream&>(is), use);
  };
}
template<typename F> ReadFn bytes_path(F f) {
  return [f](uint8_t* p, size_t n, bool use) -> std::string { return f(static_cast<const void*>(p), n, use); };
}

inline std::string hex(const void* p, size_t n) { return hexbytes(p, n, 1u << 20); }
template<typename V> std::string hexv(const V& v) { return hex(v.data(), v.size()); }
inline std::string num(double d) { char b[40]; snprintf(b, sizeof b, "%.17g", d); return b; }

// Heap-owning items.  Families with non-trivial items (std::string) must also be fed images whose items own heap memory
// in EVERY region of the image (beyond the 15-char small-string buffer), otherwise an item that is constructed and then
// forgotten when a later part of the image is rejected leaks nothing visible.  The framework switches the mode per image
// (odd variants); the units' item generators append long_pad() to every string item they make.
inline bool& long_items() { static bool b = false; return b; }
inline uint64_t& long_items_made() { static uint64_t n = 0; return n; }
inline std::string long_pad(Rng& r) {
  if (!long_items()) return std::string();
  ++long_items_made();
  std::string s(static_cast<size_t>(r.range(20, 40)), 'x');
  for (char& c : s) c = static_cast<char>('A' + r.below(26));
  return s;
}
inline std::string long_pad(uint64_t i) {   // deterministic flavour for generators without an Rng
  if (!long_items()) return std::string();
  ++long_items_made();
  return std::string(static_cast<size_t>(20 + i % 21), static_cast<char>('A' + i % 26));
}

// little-endian byte writer for images that are hand-built from the documented layouts (legacy / foreign formats that the
// readers still accept but the current writers never produce)
struct Wr {
  Bytes b;
  Wr& u8(uint8_t v) { b.push_back(v); return *this; }
  Wr& u16(uint16_t v) { for (int i = 0; i < 2; ++i) b.push_back(static_cast<uint8_t>(v >> (8 * i))); return *this; }
  Wr& u32(uint32_t v) { for (int i = 0; i < 4; ++i) b.push_back(static_cast<uint8_t>(v >> (8 * i))); return *this; }
  Wr& u64(uint64_t v) { for (int i = 0; i < 8; ++i) b.push_back(static_cast<uint8_t>(v >> (8 * i))); return *this; }
  Wr& f32(float v) { uint32_t x; memcpy(&x, &v, 4); return u32(x); }
  Wr& f64(double v) { uint64_t x; memcpy(&x, &v, 8); return u64(x); }
  Wr& str(const std::string& s) { u32(static_cast<uint32_t>(s.size())); b.insert(b.end(), s.begin(), s.end()); return *this; }
  Wr& zeros(size_t n) { b.insert(b.end(), n, 0); return *this; }
};

// to be provided by the unit
std::vector<Target> targets();
unsigned variants(bool thorough);

// ------------------------------------------------------------------------------------------------
enum FaultType : uint8_t { F_TRUNC = 0, F_CORRUPT = 1 };
struct Fault { FaultType type; uint32_t a; uint8_t b; };   // trunc: a = L; corrupt: a = pos, b = new value

enum Outcome : uint8_t { O_NONE = 0, O_REJECT, O_ACCEPT_IDENT, O_ACCEPT_USABLE, O_ACCEPT_THREW, O_VIOL };
enum Phase : uint32_t { P_IDLE = 0, P_BASELINE, P_READ, P_TAILCHECK, P_LEAKCHECK };

static const uint32_t MAXF = 12000;
static const unsigned CPU_LIMIT_S = 120;   // CPU seconds per child; hit twice (slice, then the fault alone) = hang
static const uint64_t LARGE_BEFORE_REJECT = 64ull << 20;   // a rejected image may not have requested a block larger than its size + 64 MiB
static const uint32_t MAXREC = 48;
static const uint32_t BASELINE_IDX = 0xffffffffu;

struct Rec { uint32_t idx; char cls[48]; char detail[600]; };
struct Shm {
  volatile uint32_t cur;
  volatile uint32_t phase;
  volatile uint32_t slice_done;
  volatile uint32_t nrec;
  volatile uint64_t max_alloc;       // largest single allocation request seen in the child
  volatile uint64_t n_large_alloc;   // requests > 64 MiB (counter only)
  volatile uint32_t mem_blowup;
  volatile uint32_t tail_zero_ident; // accepted-identical whose missing tail was all zero
  volatile uint32_t n_huge_cheap;    // accepted objects that own a block > 64 MiB: cheap read-out only
  uint8_t outcome[MAXF];
  Rec recs[MAXREC];
};

inline Shm*& shm() { static Shm* s = nullptr; return s; }

inline void shm_rec(uint32_t idx, const char* cls, const std::string& detail) {
  Shm* s = shm();
  if (s->nrec >= MAXREC) return;
  Rec& r = s->recs[s->nrec];
  r.idx = idx;
  snprintf(r.cls, sizeof r.cls, "%s", cls);
  snprintf(r.detail, sizeof r.detail, "%s", detail.c_str());
  s->nrec = s->nrec + 1;
}

// ---- child-side allocation watch
inline uint64_t& fault_max_alloc() { static uint64_t m = 0; return m; }   // largest single request while the current fault is read
inline void malloc_hook(const volatile void*, size_t sz) {
  Shm* s = shm();
  if (!s) return;
  if (sz > fault_max_alloc()) fault_max_alloc() = sz;
  if (sz > s->max_alloc) s->max_alloc = sz;
  if (sz > (64u << 20)) {
    s->n_large_alloc = s->n_large_alloc + 1;
    if (__sanitizer_get_current_allocated_bytes() > (size_t(3) << 30)) { s->mem_blowup = 1; _exit(95); }
  }
  static uint32_t tick = 0;
  if ((++tick & 0xfff) == 0 && __sanitizer_get_current_allocated_bytes() > (size_t(3) << 30)) { s->mem_blowup = 1; _exit(95); }
}
inline void free_hook(const volatile void*) {}

inline void on_cpu_limit(int) { _exit(98); }

// exact-size heap block holding [src, src+n): right red zone starts directly behind the last byte.
// For n == 0 a 16-byte block is allocated and its END is handed out, so that reading byte 0 is an
// out-of-bounds access as well.
struct ExactBuf {
  uint8_t* block; uint8_t* p; size_t n;
  ExactBuf(const uint8_t* src, size_t len): n(len) {
    if (len == 0) { block = static_cast<uint8_t*>(malloc(16)); p = block + 16; }
    else { block = static_cast<uint8_t*>(malloc(len)); p = block; memcpy(p, src, len); }
  }
  ~ExactBuf() { free(block); }
  ExactBuf(const ExactBuf&) = delete;
  ExactBuf& operator=(const ExactBuf&) = delete;
};

// The two-stage form used for corruption: acceptance (deserialize + read-out) and use are one call
// of the reader with use=true; an exception cannot tell the two apart, so readers signal
// "accepted, then a later public call threw" by throwing UseThrew.
struct UseThrew : std::runtime_error { explicit UseThrew(const std::string& w): std::runtime_error(w) {} };
// helper for readers: run the use phase; std::exceptions inside it are converted
template<typename F> void use_phase(F&& f) {
  try { f(); } catch (const UseThrew&) { throw; } catch (const std::exception& e) { throw UseThrew(std::string("use: ") + e.what()); }
}

struct ReadoutThrew : std::runtime_error { explicit ReadoutThrew(const std::string& w): std::runtime_error(w) {} };
// The standard shape of a reader: deser() -> sketch (an exception = the image is rejected);
// readout(sketch) -> canonical string; usefn(sketch) = updates / merge / re-serialize.
// An ACCEPTED object for which the reader obtained a single block above HUGE_OBJECT (a corrupted size field that the format
// allows) gets only the cheap read-out (configuration getters, a query, one update, destroy): the monitor's own per-fault work
// must not scale with a size chosen by the fault, otherwise the CPU-limit verdict would depend on the speed of the machine.
// The allocation rules themselves are unchanged (an accepted image is held to the 1 GiB rule only).
static const uint64_t HUGE_OBJECT = 64ull << 20;
template<typename D, typename R, typename U, typename C> std::string accept(D&& deser, R&& readout, U&& usefn, bool use, C&& cheap) {
  auto s = deser();
  static const bool no_cheap = getenv("C11_NO_CHEAP") != nullptr;   // measurement knob only
  if (fault_max_alloc() > HUGE_OBJECT && !no_cheap) {
    if (shm()) shm()->n_huge_cheap = shm()->n_huge_cheap + 1;
    try { cheap(s); } catch (const std::exception& e) { throw ReadoutThrew(std::string("cheap read-out of the accepted huge object threw: ") + e.what()); }
    return "accepted-huge-object(cheap read-out only, largest block " + std::to_string(fault_max_alloc()) + ")";
  }
  std::string o;
  try { o = readout(s); } catch (const std::exception& e) { throw ReadoutThrew(std::string("read-out of the accepted sketch threw: ") + e.what()); }
  if (use) use_phase([&] { usefn(s); });
  return o;
}
struct NoCheap { template<typename S> void operator()(S&) const {} };
template<typename D, typename R, typename U> std::string accept(D&& deser, R&& readout, U&& usefn, bool use) {
  return accept(std::forward<D>(deser), std::forward<R>(readout), std::forward<U>(usefn), use, NoCheap());
}
struct Attempt { int status; bool same; };   // status: 0 rejected, 1 accepted, 2 accepted but the use phase threw, 3 non-std exception, 4 accepted but the read-out threw

// one deserialize + read-out; everything it allocates is released before it returns
__attribute__((noinline)) inline Attempt attempt(const Target& t, uint8_t* p, size_t n, bool use, const std::string* baseline,
                                                 char* diff, size_t diffcap, char* what, size_t whatcap) {
  Attempt a{0, false};
  fault_max_alloc() = 0;
  try {
    std::string ro = t.read(p, n, use);
    a.status = 1;
    if (baseline) {
      a.same = (ro == *baseline);
      if (!a.same && diff) {
        size_t i = 0; while (i < ro.size() && i < baseline->size() && ro[i] == (*baseline)[i]) ++i;
        size_t from = i > 40 ? i - 40 : 0;
        snprintf(diff, diffcap, "read-outs differ at char %zu: original '...%s' vs prefix '...%s'", i,
                 baseline->substr(from, 100).c_str(), ro.substr(from, 100).c_str());
      }
    }
  } catch (const UseThrew& e) {
    a.status = 2;
    if (what) snprintf(what, whatcap, "%s", e.what());
  } catch (const ReadoutThrew& e) {
    a.status = 4;
    if (what) snprintf(what, whatcap, "%s", e.what());
  } catch (const std::exception& e) {
    a.status = 0;
    if (what) snprintf(what, whatcap, "%s", e.what());
  } catch (...) {
    a.status = 3;
  }
  return a;
}

inline void child_run(const Target& t, const Bytes& img, const std::vector<Fault>& faults, uint32_t from, uint32_t to, bool single) {
  Shm* s = shm();
  // --- child environment
  G().out_fd = -1;                       // never write the driver's record file from a child
  __sanitizer_set_death_callback(nullptr);
  signal(SIGABRT, SIG_DFL);
  signal(SIGVTALRM, SIG_DFL);
  signal(SIGXCPU, on_cpu_limit);
  signal(SIGALRM, on_cpu_limit);
  struct rlimit rc0; rc0.rlim_cur = rc0.rlim_max = 0; setrlimit(RLIMIT_CORE, &rc0);
  struct rlimit rl; rl.rlim_cur = CPU_LIMIT_S; rl.rlim_max = CPU_LIMIT_S + 30; (void)single; setrlimit(RLIMIT_CPU, &rl);
  alarm(20 * CPU_LIMIT_S);   // wall-clock safety net only
  __sanitizer_install_malloc_and_free_hooks(malloc_hook, free_hook);

  // --- baseline read-out of the intact image (same path)
  std::string baseline;
  s->cur = BASELINE_IDX; s->phase = P_BASELINE;
  {
    ExactBuf b(img.data(), img.size());
    datasketches::random_utils::rand.seed(12345); datasketches::random_utils::random_bit.seed(12345);
    baseline = t.read(b.p, b.n, false);     // a throw here kills the child: reported as harness|baseline by the parent
  }
  char diff[420], what[160];
  for (uint32_t i = from; i < to; ++i) {
    const Fault& f = faults[i];
    s->cur = i; s->phase = P_READ;
    const bool trunc = f.type == F_TRUNC;
    const size_t n = trunc ? f.a : img.size();
    Outcome out = O_NONE;
    long growth = 0;
    int leak_reps = 0;
    bool accepted_leak = false;
    for (int rep = 0; rep < 3; ++rep) {
      ExactBuf b(img.data(), n);
      if (!trunc) b.p[f.a] = f.b;
      datasketches::random_utils::rand.seed(12345); datasketches::random_utils::random_bit.seed(12345);   // same engine state as for the baseline read-out
      diff[0] = 0; what[0] = 0;
      const size_t before = __sanitizer_get_current_allocated_bytes();
      fault_max_alloc() = 0;
      const Attempt a = attempt(t, b.p, n, !trunc, trunc ? &baseline : nullptr, diff, sizeof diff, what, sizeof what);
      const bool use_threw = a.status == 2;
      const size_t after = __sanitizer_get_current_allocated_bytes();
      if (rep == 0) {
        if (a.status == 3) { out = O_VIOL; shm_rec(i, "non-std-exception", "an exception not derived from std::exception left the reader"); }
        else if (a.status == 0) {
          out = O_REJECT;
          // second, tighter allocation oracle: an image that ends up rejected must not have asked for a block far beyond
          // anything its own size could justify on the way (corpus images are < 8 KiB)
          if (fault_max_alloc() > n + LARGE_BEFORE_REJECT) {
            out = O_VIOL;
            shm_rec(i, "large-allocation-before-reject", "the reader requested a block of " + std::to_string(fault_max_alloc()) +
                    " bytes for an image of " + std::to_string(n) + " bytes and only then rejected it (" + what + ")");
          }
        }
        else if (a.status == 2) out = O_ACCEPT_THREW;
        else if (a.status == 4) {
          if (trunc) { out = O_VIOL; shm_rec(i, "accepted-different", std::string("prefix accepted by the reader, then ") + what); }
          else out = O_ACCEPT_THREW;
        }
        else if (trunc) {
          if (a.same) out = O_ACCEPT_IDENT;
          else { out = O_VIOL; shm_rec(i, "accepted-different", diff); }
        } else out = O_ACCEPT_USABLE;
      }
      growth = static_cast<long>(after) - static_cast<long>(before);
      if (growth > 0) { ++leak_reps; accepted_leak = (a.status == 1 || a.status == 4 || use_threw); } else break;   // one-time lazy initialisation does not repeat
    }
    if (leak_reps == 3) {
      // confirmed: every repetition left more heap behind.  Ask LeakSanitizer for the allocation stack (goes to stderr).
      s->phase = P_LEAKCHECK;
      __lsan_do_recoverable_leak_check();
      shm_rec(i, accepted_leak ? "leak-after-accept" : "leak-after-reject",
              "heap grew by " + std::to_string(growth) + " bytes on each of 3 repetitions of this fault (" + (what[0] ? what : "accepted") + ")");
      if (out != O_VIOL) out = O_VIOL;
      s->phase = P_READ;
    }
    if (trunc && out == O_ACCEPT_IDENT) {
      // "only where the missing tail is reserved padding that carries no information": the reader's
      // result on the FULL image must not depend on the content of that tail.
      s->phase = P_TAILCHECK;
      bool tail_zero = true;
      for (size_t k = n; k < img.size(); ++k) if (img[k]) { tail_zero = false; break; }
      ExactBuf b(img.data(), img.size());
      for (size_t k = n; k < img.size(); ++k) b.p[k] ^= 0xff;
      datasketches::random_utils::rand.seed(12345); datasketches::random_utils::random_bit.seed(12345);
      Attempt a = attempt(t, b.p, b.n, false, &baseline, diff, sizeof diff, what, sizeof what);
      if (!(a.status == 1 && a.same)) {
        out = O_VIOL;
        shm_rec(i, "accepted-informative-tail",
                std::string("prefix accepted with the original read-out, but the missing tail is not information-free: the full image with that tail inverted ") +
                (a.status == 1 ? std::string("reads differently: ") + diff : std::string("is rejected: ") + what));
      } else if (tail_zero) s->tail_zero_ident = s->tail_zero_ident + 1;
      s->phase = P_READ;
    }
    s->outcome[i] = out;
  }
  s->phase = P_IDLE;
  s->slice_done = 1;
  _exit(0);
}

// ---- parent side -------------------------------------------------------------------------------
inline std::string repo_prefix() { const char* e = getenv("VERIF_REPO"); return std::string(e && *e ? e : "/repo") + "/"; }

// reduce a sanitizer report to (class, frame)
inline void classify_report(const std::string& err, std::string& cls, std::string& frame, std::string* trace = nullptr) {
  cls.clear(); frame = "?";
  size_t p;
  if ((p = err.find("ERROR: AddressSanitizer: ")) != std::string::npos) {
    p += strlen("ERROR: AddressSanitizer: ");
    size_t e = p; while (e < err.size() && (isalnum(static_cast<unsigned char>(err[e])) || err[e] == '-' || err[e] == '_')) ++e;
    cls = err.substr(p, e - p);
    if (cls == "requested") cls = "allocation-size-too-big";
    if (cls == "SEGV") {
      if (err.find("caused by a WRITE") != std::string::npos) cls = "SEGV-write";
      else if (err.find("caused by a READ") != std::string::npos) cls = "SEGV-read";
    }
    if (cls == "heap-buffer-overflow" || cls == "stack-buffer-overflow" || cls == "heap-use-after-free" || cls == "global-buffer-overflow") {
      size_t q = err.find("\nWRITE of size", p), r = err.find("\nREAD of size", p);
      if (q != std::string::npos && (r == std::string::npos || q < r)) cls += "-WRITE";
      else if (r != std::string::npos) cls += "-READ";
    }
  } else if ((p = err.find("runtime error: ")) != std::string::npos) {
    p += strlen("runtime error: ");
    size_t e = err.find('\n', p);
    std::string t = err.substr(p, (e == std::string::npos ? err.size() : e) - p);
    std::string o;
    for (size_t i = 0; i < t.size() && o.size() < 50; ++i) {
      if (t[i] == '0' && i + 1 < t.size() && t[i + 1] == 'x') { o += "ADDR"; i += 2; while (i < t.size() && isxdigit(static_cast<unsigned char>(t[i]))) ++i; --i; }
      else if (isdigit(static_cast<unsigned char>(t[i])) || (t[i] == '-' && i + 1 < t.size() && isdigit(static_cast<unsigned char>(t[i + 1])))) {
        o += "N"; ++i; while (i < t.size() && (isdigit(static_cast<unsigned char>(t[i])) || t[i] == '.' || t[i] == 'e' || t[i] == '+')) ++i; --i;
      } else if (t[i] == '\'') {   // drop quoted type names' template arguments
        o += t[i];
      } else o += t[i];
    }
    while (!o.empty() && o.back() == ' ') o.pop_back();
    cls = "ubsan:" + o;
  } else if (err.find("ERROR: LeakSanitizer") != std::string::npos) cls = "leak";
  else if (err.find("terminate called") != std::string::npos) cls = "terminate";
  else if (err.find("Assertion") != std::string::npos) cls = "assert";
  // innermost frame inside the library
  const std::string pre = repo_prefix();
  auto shorten = [](std::string fn, std::string file, std::string& out) {
    size_t colon = file.find(':'); if (colon != std::string::npos) file = file.substr(0, colon);
    size_t sl = file.rfind('/'); if (sl != std::string::npos) file = file.substr(sl + 1);
    // strip template arguments and parameter list
    std::string g; int depth = 0;
    for (char c : fn) { if (c == '<') ++depth; else if (c == '>') { if (depth) --depth; } else if (c == '(' && depth == 0) break; else if (depth == 0) g += c; }
    size_t cc = g.rfind("::"); if (cc != std::string::npos) g = g.substr(cc + 2);
    while (!g.empty() && g.back() == ' ') g.pop_back();
    size_t sp = g.rfind(' '); if (sp != std::string::npos) g = g.substr(sp + 1);
    out = file + ":" + g;
  };
  size_t pos = 0;
  int unsym = 0;
  while (pos < err.size()) {
    size_t e = err.find('\n', pos); if (e == std::string::npos) e = err.size();
    std::string line = err.substr(pos, e - pos);
    pos = e + 1;
    size_t h = line.find('#');
    if (h == std::string::npos) continue;
    size_t in = line.find(" in ", h);
    if (in == std::string::npos) {
      // frame printed without symbols ("#3 0x55d0c0de  (/path/unit+0xc0de)"): the child is a fork of this very process, so
      // the address can be symbolized here, with the symbolizer that was warmed up once
      size_t x = line.find("0x", h);
      if (x == std::string::npos || unsym > 40) continue;
      ++unsym;
      const uintptr_t pc = static_cast<uintptr_t>(strtoull(line.c_str() + x, nullptr, 16));
      if (!pc) continue;
      char buf[4096]; memset(buf, 0, sizeof buf);
      __sanitizer_symbolize_pc(reinterpret_cast<void*>(pc), "%f\t%s:%l", buf, sizeof buf - 2);
      // several null-separated entries when functions were inlined; innermost first
      const char* q = buf;
      while (*q) {
        std::string ent(q); q += ent.size() + 1;
        size_t tab = ent.find('\t');
        if (tab == std::string::npos) continue;
        std::string fn = ent.substr(0, tab), file = ent.substr(tab + 1);
        if (trace && unsym <= 10) *trace += (trace->empty() ? "" : " <- ") + fn.substr(0, 120) + " " + file;
        if (frame == "?" && file.compare(0, pre.size(), pre) == 0) shorten(fn, file, frame);
      }
      if (frame != "?" && (!trace || unsym >= 10)) break;
      continue;
    }
    size_t fp = line.find(" " + pre, in);
    if (fp == std::string::npos) continue;
    shorten(line.substr(in + 4, fp - (in + 4)), line.substr(fp + 1), frame);
    break;
  }
}

inline std::string fault_str(const Fault& f, const Bytes& img) {
  char b[96];
  if (f.type == F_TRUNC) snprintf(b, sizeof b, "L=%u of %zu", f.a, img.size());
  else snprintf(b, sizeof b, "byte[%u] 0x%02x->0x%02x (size %zu)", f.a, img[f.a], f.b, img.size());
  return b;
}

struct RunStats { uint64_t forks = 0, deaths = 0; };

// per-process: first witness per key is recorded through vf::fail, the rest only counted
inline void report(const std::string& key, const std::string& detail, bool outside = false) {
  if (outside) { count("outside_property_data_byte_findings"); count("outside-property:" + key); return; }
  static std::map<std::string, uint64_t> seen;
  uint64_t& n = seen[key];
  ++n;
  count("violations_all");
  count("viol:" + key);
  if (n <= 2) fail(key, detail);
}

struct ChildEnd { int kind; int code; std::string err; };   // kind: 0 exit, 1 signal

inline ChildEnd fork_slice(const Target& t, const Bytes& img, const std::vector<Fault>& faults, uint32_t from, uint32_t to, bool single) {
  Shm* s = shm();
  s->cur = BASELINE_IDX; s->phase = P_IDLE; s->slice_done = 0;
  int pfd[2];
  if (pipe(pfd) != 0) throw std::runtime_error("pipe failed");
  fflush(nullptr);
  pid_t pid = fork();
  if (pid < 0) { close(pfd[0]); close(pfd[1]); throw std::runtime_error("fork failed"); }
  if (pid == 0) {
    close(pfd[0]);
    dup2(pfd[1], 2);
    int dn = open("/dev/null", O_WRONLY); if (dn >= 0) dup2(dn, 1);
    close(pfd[1]);
    child_run(t, img, faults, from, to, single);
    _exit(0);
  }
  close(pfd[1]);
  ChildEnd ce{0, 0, std::string()};
  char buf[8192];
  for (;;) {
    ssize_t r = ::read(pfd[0], buf, sizeof buf);
    if (r > 0) { if (ce.err.size() < (1u << 18)) ce.err.append(buf, static_cast<size_t>(r)); }
    else if (r == 0) break;
    else if (errno != EINTR) break;
  }
  close(pfd[0]);
  int st = 0;
  while (waitpid(pid, &st, 0) < 0 && errno == EINTR) {}
  if (WIFEXITED(st)) { ce.kind = 0; ce.code = WEXITSTATUS(st); }
  else if (WIFSIGNALED(st)) { ce.kind = 1; ce.code = WTERMSIG(st); }
  return ce;
}

inline std::vector<Fault> enumerate_faults(const Bytes& img, Rng& r, size_t pre) {
  std::vector<Fault> fs;
  const size_t S = img.size();
  if (S <= 4096) {
    for (size_t L = 0; L < S; ++L) fs.push_back({F_TRUNC, static_cast<uint32_t>(L), 0});
  } else {
    std::set<uint32_t> ls;
    for (size_t L = 0; L < 512; ++L) ls.insert(static_cast<uint32_t>(L));
    for (size_t L = S - 96; L < S; ++L) ls.insert(static_cast<uint32_t>(L));           // tail incl. every trailing field
    for (size_t b = 512; b < S; b += 512) for (size_t L = b - 8; L <= b + 8 && L < S; ++L) ls.insert(static_cast<uint32_t>(L));
    for (int i = 0; i < 200; ++i) ls.insert(static_cast<uint32_t>(r.below(S)));
    for (uint32_t L : ls) fs.push_back({F_TRUNC, L, 0});
  }
  const size_t np = std::min<size_t>(S, 64);
  for (size_t pos = 0; pos < np; ++pos) {
    const uint8_t b = img[pos];
    const uint8_t cand[8] = {0x00, 0x01, 0x7f, 0x80, 0xff, static_cast<uint8_t>(b ^ 1), static_cast<uint8_t>(b ^ 0x80), static_cast<uint8_t>(b + 1)};
    // preamble bytes additionally take every single-bit value and b<<1, b>>1, so that each size / count field is driven
    // through all magnitudes (also the ones between "still plausible" and "rejected as absurd")
    const uint8_t wide[8] = {0x02, 0x04, 0x08, 0x10, 0x20, 0x40, static_cast<uint8_t>(b << 1), static_cast<uint8_t>(b >> 1)};
    bool used[256] = {false};
    used[b] = true;
    for (uint8_t c : cand) if (!used[c]) { used[c] = true; fs.push_back({F_CORRUPT, static_cast<uint32_t>(pos), c}); }
    if (pos < pre) for (uint8_t c : wide) if (!used[c]) { used[c] = true; fs.push_back({F_CORRUPT, static_cast<uint32_t>(pos), c}); }
  }
  if (fs.size() > MAXF) fs.resize(MAXF);
  return fs;
}

inline void run_target_case(const Target& t, uint64_t variant, Rng& r) {
  const bool T = G().thorough();
  if (!shm()) {
    void* m = mmap(nullptr, sizeof(Shm), PROT_READ | PROT_WRITE, MAP_SHARED | MAP_ANONYMOUS, -1, 0);
    if (m == MAP_FAILED) throw std::runtime_error("mmap failed");
    shm() = static_cast<Shm*>(m);
    // warm up the in-process symbolizer once in the parent: every child inherits the parsed debug
    // info instead of re-reading it for each sanitizer report (0.4 s -> a few ms per report)
    char sb[512]; sb[0] = 0;
    __sanitizer_symbolize_pc(reinterpret_cast<void*>(reinterpret_cast<uintptr_t>(&classify_report) + 8), "%f %s:%l", sb, sizeof sb);
    // ... the same for the UBSan runtime, which keeps a symbolizer of its own (libubsan.so.1 next to libasan)
    if (void* ub = dlopen("libubsan.so.1", RTLD_NOW | RTLD_NOLOAD)) {
      typedef void (*sym_fn)(void*, const char*, char*, size_t);
      if (sym_fn f = reinterpret_cast<sym_fn>(dlsym(ub, "__sanitizer_symbolize_pc")))
        f(reinterpret_cast<void*>(reinterpret_cast<uintptr_t>(&classify_report) + 8), "%f %s:%l", sb, sizeof sb);
    }
    // ... and the unwinder (one full stack trace into /dev/null)
    fflush(nullptr);
    const int saved = dup(2), dn = open("/dev/null", O_WRONLY);
    if (saved >= 0 && dn >= 0) { dup2(dn, 2); __sanitizer_print_stack_trace(); dup2(saved, 2); }
    if (dn >= 0) close(dn);
    if (saved >= 0) close(saved);
  }
  Shm* s = shm();
  // image: function of (seed, family, kind, variant) only, so that all paths of a kind see the same images
  uint64_t h = mix64(G().seed, variant);
  for (char c : t.family + "/" + t.kind) h = mix64(h, static_cast<uint8_t>(c));
  Rng ir(h);
  datasketches::random_utils::rand.seed(h); datasketches::random_utils::random_bit.seed(static_cast<uint32_t>(h));
  long_items() = (variant & 1) != 0;
  long_items_made() = 0;
  const Bytes img = t.build(ir, T);
  if (long_items_made() > 0) count("heap_owning_item_images_" + t.family);
  const std::string tk = t.family + "|" + t.kind + "|" + t.path;
  describe(tk + " variant=" + std::to_string(variant) + " size=" + std::to_string(img.size()) + " image=" + hexbytes(img.data(), img.size(), 96));
  count("images");
  count("target:" + tk);
  count("image_bytes", img.size());
  if (img.size() > 8192) count("images_over_8k");
  const size_t pre = t.preamble ? std::min(t.preamble(img), img.size()) : default_preamble(t.family, img);
  std::vector<Fault> faults = enumerate_faults(img, r, pre);
  auto outside = [&](const Fault& f) { return f.type == F_CORRUPT && f.a >= pre; };
  count("preamble_bytes", pre);
  memset(s->outcome, 0, sizeof s->outcome);
  const uint32_t N = static_cast<uint32_t>(faults.size());
  const uint32_t SLICE = 400;
  uint32_t next = 0;
  uint64_t nrej = 0, nident = 0, nusable = 0, nthrew = 0, nviol = 0, ndeaths = 0, nskipped = 0;
  uint32_t nhang[2] = {0, 0};
  const uint32_t HANG_CAP = 2;
  uint64_t sigacc = mix64(h, img.size());
  for (char c : t.path) sigacc = mix64(sigacc, static_cast<uint8_t>(c));
  auto process_recs = [&](const ChildEnd& ce) {
    // oracle verdicts recorded by the child
    for (uint32_t k = 0; k < s->nrec && k < MAXREC; ++k) {
      const Rec& rc = s->recs[k];
      const Fault& f = faults[rc.idx < N ? rc.idx : 0];
      std::string cls = rc.cls;
      std::string detail = fault_str(f, img) + ": " + rc.detail;
      std::string key = tk + "|" + (f.type == F_TRUNC ? "trunc" : outside(f) ? "corrupt-data" : "corrupt") + "|" + cls;
      if (cls.rfind("leak", 0) == 0) {
        // allocation site inside the library, taken from the LeakSanitizer report the child printed
        std::string c2, frame; classify_report(ce.err, c2, frame);
        key += "|" + frame;
        detail += " | " + ce.err.substr(0, 2500);
      }
      report(key, detail, outside(f));
    }
    count("tail_zero_accepted_identical", s->tail_zero_ident);
    count("large_allocations_over_64MiB", s->n_large_alloc);
    count("accepted_huge_object_cheap_readout", s->n_huge_cheap);
    s->nrec = 0; s->tail_zero_ident = 0; s->n_large_alloc = 0; s->n_huge_cheap = 0;
  };
  auto account = [&](uint32_t from, uint32_t upto) {
    for (uint32_t i = from; i < upto; ++i) {
      switch (s->outcome[i]) {
        case O_REJECT: ++nrej; break;
        case O_ACCEPT_IDENT: ++nident; break;
        case O_ACCEPT_USABLE: ++nusable; break;
        case O_ACCEPT_THREW: ++nthrew; break;
        case O_VIOL: ++nviol; break;
        default: break;
      }
      sigacc = mix64(sigacc, s->outcome[i]);
    }
  };
  while (next < N) {
    const uint32_t to = std::min(N, next + SLICE);
    s->nrec = 0; s->max_alloc = 0; s->n_large_alloc = 0; s->mem_blowup = 0; s->tail_zero_ident = 0; s->n_huge_cheap = 0;
    ChildEnd ce = fork_slice(t, img, faults, next, to, false);
    count("forks");
    process_recs(ce);
    const bool finished = (ce.kind == 0 && ce.code == 0 && s->slice_done);
    const uint32_t curv = s->cur;
    account(next, finished ? to : std::min<uint32_t>(curv == BASELINE_IDX ? next : curv, to));
    if (finished) { next = to; continue; }
    // ---- the child died
    ++ndeaths; count("child_deaths");
    if (curv == BASELINE_IDX) {
      std::string cls, frame; classify_report(ce.err, cls, frame);
      report("harness|" + tk + "|baseline-readout-failed|" + cls + "|" + frame,
             "reading the INTACT image failed in the child (exit kind " + std::to_string(ce.kind) + " code " + std::to_string(ce.code) + "): " + ce.err.substr(0, 3000));
      count("baseline_failed");
      return;
    }
    const uint32_t bad = curv;
    const Fault& f = faults[bad];
    uint32_t phase = s->phase;
    const bool blow = s->mem_blowup || (ce.kind == 0 && ce.code == 95);
    std::string cls, frame, trace;
    classify_report(ce.err, cls, frame, &trace);
    bool hang = false;
    if (ce.kind == 0 && ce.code == 98) {
      // CPU limit: confirm by running this fault alone with a fresh budget
      s->outcome[bad] = O_NONE;
      ChildEnd ce2 = fork_slice(t, img, faults, bad, bad + 1, true);
      count("forks");
      process_recs(ce2);
      if (ce2.kind == 0 && ce2.code == 98) { hang = true; cls = "hang"; frame = "cpu-limit-twice"; }
      else if (ce2.kind == 0 && ce2.code == 0 && s->slice_done) { count("cpu_limit_not_reproduced"); account(bad, bad + 1); next = bad + 1; continue; }
      else { ce = ce2; phase = s->phase; trace.clear(); classify_report(ce.err, cls, frame, &trace); }
    }
    if (hang) ++nhang[f.type];
    if (!hang) {
      if (blow) { cls = "memory-blowup-over-3GiB"; }
      else if (cls.empty()) {
        if (ce.kind == 1) cls = std::string("signal-") + std::to_string(ce.code);
        else cls = "exit-" + std::to_string(ce.code);
      }
    }
    std::string mode = f.type == F_TRUNC ? "trunc" : outside(f) ? "corrupt-data" : "corrupt";
    if (phase == P_TAILCHECK) mode = "tail-inverted";   // crash while reading the full image with an inverted tail (a corruption, not a truncation)
    std::string key = tk + "|" + mode + "|" + cls + "|" + frame;
    report(key, fault_str(f, img) + (phase == P_TAILCHECK ? " (prefix was accepted identically; crash while reading the full image with the missing tail inverted)" : "") +
           " | child " + (ce.kind ? "signal " : "exit ") + std::to_string(ce.code) + " | " + ce.err.substr(0, 3500) +
           (trace.empty() ? "" : " | symbolized: " + trace), outside(f));
    if (!outside(f)) ++nviol;
    sigacc = mix64(sigacc, 0xdead);
    next = bad + 1;
    // every confirmed hang costs ~20 CPU-seconds: after HANG_CAP of them on this image stop enumerating faults of that type
    // (an image whose every truncation hangs would otherwise take hours); the skipped faults are counted
    if (hang && nhang[f.type] >= HANG_CAP) {
      uint32_t skipped = 0;
      while (next < N && faults[next].type == f.type) { ++next; ++skipped; }
      count("faults_skipped_after_hang_cap", skipped);
      nskipped += skipped;
    }
  }
  count("faults", N - nskipped);
  uint64_t ntr = 0; for (auto& f : faults) if (f.type == F_TRUNC) ++ntr;
  count("faults_trunc", ntr);
  count("faults_corrupt", N - ntr);
  count("rejected", nrej);
  count("accepted_identical", nident);
  count("accepted_usable", nusable);
  count("accepted_then_threw_in_use", nthrew);
  count("fault_violations", nviol);
  count("path:" + t.path);
  checked(N - nskipped);
  sig(sigacc);
  if (want_sample()) sample("{\"target\":" + jstr(tk) + ",\"image_size\":" + std::to_string(img.size()) + ",\"faults\":" + std::to_string(N) +
                            ",\"rejected\":" + std::to_string(nrej) + ",\"accepted_identical\":" + std::to_string(nident) +
                            ",\"accepted_usable\":" + std::to_string(nusable) + ",\"violations\":" + std::to_string(nviol) + "}");
}

}} // namespace vf::c11

// ---- the monitor entry points, identical for every C11 unit
namespace vf {
inline const std::vector<c11::Target>& c11_targets() { static std::vector<c11::Target> t = c11::targets(); return t; }
const char* property_id() { return "C11"; }
unsigned case_timeout_s() { return 600; }
uint64_t num_cases(bool thorough) { return c11_targets().size() * c11::variants(thorough); }
void final_report() {}
void run_case(uint64_t idx, Rng& r) {
  const auto& ts = c11_targets();
  // image kinds are interleaved across the case index: consecutive cases visit different targets
  const c11::Target& t = ts[idx % ts.size()];
  c11::run_target_case(t, idx / ts.size(), r);
}
}
#endif
