// C10 group B: KLL, REQ, classic quantiles (B1) and frequent items, count-min (B2).
#ifndef VF_C10_FAM_B_HPP
#define VF_C10_FAM_B_HPP

#include "c10_common.hpp"
#if !defined(C10_B1) && !defined(C10_B2)
#define C10_B1
#define C10_B2
#endif
#ifdef C10_B1
#include <kll_sketch.hpp>
#include <req_sketch.hpp>
#include <quantiles_sketch.hpp>
#endif
#ifdef C10_B2
#include <frequent_items_sketch.hpp>
#include <count_min.hpp>
#endif

namespace vf { namespace c10 {
using namespace datasketches;

// item generators (deterministic, from the case rng)
template<typename T> struct GenItem;
template<> struct GenItem<float> { static float make(Rng& r, uint64_t dom) { return r.chance(0.02) ? float(r.range(-3, 3)) : static_cast<float>(double(r.below(dom)) * 0.5 - 1000.0); } };
template<> struct GenItem<double> { static double make(Rng& r, uint64_t dom) { return r.chance(0.02) ? double(r.range(-3, 3)) : std::ldexp(double(r.below(dom)) - double(dom / 2), int(r.range(-8, 8))); } };
template<> struct GenItem<int64_t> { static int64_t make(Rng& r, uint64_t dom) { return int64_t(r.below(dom)) - int64_t(dom / 3); } };
template<> struct GenItem<std::string> { static std::string make(Rng& r, uint64_t dom) {
  uint64_t x = r.below(dom); std::string s; const size_t len = r.below(r.chance(0.1) ? 30 : 8);
  for (size_t i = 0; i < len; ++i) { s += char('a' + x % 26); x = x / 26 + 11 * (i + 1); }
  return s; } };

inline uint64_t img_hash_b(const std::string& s) { uint64_t h = 0x51; for (unsigned char ch : s) h = (h ^ ch) * 0x100000001b3ULL; return h; }
template<typename T> using IW = std::pair<T, uint64_t>;
template<typename T> void sort_iw(std::vector<IW<T>>& v) { std::sort(v.begin(), v.end()); }

#ifdef C10_B1
// (item, weight) multiset as the public sorted view reports it
template<typename T, typename SK> std::vector<IW<T>> view_pairs(const SK& s) {
  std::vector<IW<T>> v;
  if (s.is_empty()) return v;
  auto view = s.get_sorted_view();
  for (auto it = view.begin(); it != view.end(); ++it) v.push_back(IW<T>(T((*it).first), it.get_weight()));
  sort_iw(v);
  return v;
}

template<typename T, typename SK> void quantile_family_readout(J& j, const SK& s) {
  j.put("is_empty", s.is_empty()).put("k", s.get_k()).put("n", s.get_n()).put("num_retained", s.get_num_retained())
   .put("is_estimation_mode", s.is_estimation_mode());
  if (s.is_empty()) return;
  j.put("min_item", T(s.get_min_item())).put("max_item", T(s.get_max_item()));
  std::vector<IW<T>> v = view_pairs<T>(s);
  std::vector<T> items; std::vector<uint64_t> w;
  for (auto& p : v) { items.push_back(p.first); w.push_back(p.second); }
  j.arr("view_items", items).arr("view_weights", w);
  std::vector<double> ranks; std::vector<T> qs;
  for (size_t i = 0; i < 5; ++i) { const T& probe = items[(items.size() - 1) * i / 4]; ranks.push_back(s.get_rank(probe, true)); ranks.push_back(s.get_rank(probe, false)); }
  for (double q : {0.0, 0.1, 0.5, 0.9, 1.0}) qs.push_back(T(s.get_quantile(q, true)));
  j.arr("q_ranks", ranks).arr("q_quantiles", qs);
}

template<typename T, typename D> void quantile_decode_vs_api(const std::string& fam, const D& d, const std::vector<IW<T>>& api, const std::string& ctx) {
  std::vector<IW<T>> img;
  for (size_t i = 0; i < d.items.size(); ++i) img.push_back(IW<T>(d.items[i], d.weights[i]));
  sort_iw(img);
  if (img != api) {
    size_t i = 0; while (i < img.size() && i < api.size() && img[i] == api[i]) ++i;
    checked(); fail(fam + "|image-vs-api|retained-items-and-weights", ctx + " image=" + std::to_string(img.size()) + " api=" + std::to_string(api.size()) + " first difference at sorted position " + std::to_string(i));
  } else checked();
  uint64_t tw = 0; for (auto& p : img) tw += p.second;
  VF_CHECK(d.items.empty() || tw == d.n, fam + "|image|sum-of-weights-vs-n", ctx + " sum=" + std::to_string(tw) + " n=" + std::to_string(d.n));
}

// ------------------------------------------------------------------- KLL
// generated (non-corpus) cases only: merge with an estimation-mode operand of SMALLER k, which is the only way the documented
// minK field (bytes 16-17 of the full image) differs from k; the model value is min(k, k of estimation-mode operands)
inline bool& kll_smaller_k_merge_mode() { static bool m = false; return m; }
inline int& kll_expected_min_k() { static int v = -1; return v; }

template<typename T> struct KllFam {
  using SK = kll_sketch<T>;
  static SK gen(int variant, Rng& r, bool small) {
    const int state = variant % 6;
    static const uint16_t ks[] = {8, 20, 200, 33};
    const uint16_t k = small ? ks[(variant / 6) % 3] : ks[r.below(4)];
    const uint64_t dom = 1ULL << 20;
    SK s(k);
    kll_expected_min_k() = -1;
    if (kll_smaller_k_merge_mode()) {
      const uint16_t ko = static_cast<uint16_t>(8 + r.below(k - 8 + 1));          // 8 <= ko <= k
      SK o(ko);
      for (uint64_t i = 0, m = r.chance(0.2) ? r.below(ko) : ko + 1 + r.below(small ? 10 * ko : 200 * ko); i < m; ++i) o.update(GenItem<T>::make(r, dom));
      for (uint64_t i = 0, m = r.below(small ? 6 * k : 100 * k); i < m; ++i) s.update(GenItem<T>::make(r, dom));
      int want = k;
      if (o.is_estimation_mode()) want = std::min<int>(want, ko);
      if (r.coin()) s.merge(o); else { o.merge(s); if (s.is_estimation_mode()) want = std::min<int>(ko, k); else want = ko; kll_expected_min_k() = want; count("kll_merge_into_smaller_k"); return o; }
      kll_expected_min_k() = want;
      if (want < k) count("kll_min_k_below_k");
      return s;
    }
    uint64_t n = 0;
    switch (state) {
      case 0: n = 0; break;
      case 1: n = 1; break;
      case 2: n = 2 + r.below(k - 2); break;
      case 3: n = k + r.below(small ? 10 * k : 300 * k); break;
      case 4: n = small ? 3000 + r.below(3000) : 20000 + r.below(200000); break;
      default: {
        SK o(r.coin() ? k : uint16_t(k + 7));
        for (uint64_t i = 0, m = r.below(small ? 6 * k : 100 * k); i < m; ++i) o.update(GenItem<T>::make(r, dom));
        for (uint64_t i = 0, m = r.below(small ? 6 * k : 100 * k) + 1; i < m; ++i) s.update(GenItem<T>::make(r, dom));
        s.merge(o);
        return s;
      }
    }
    for (uint64_t i = 0; i < n; ++i) s.update(GenItem<T>::make(r, dom));
    // a query sorts level zero as a side effect: the image then carries the level-zero-sorted flag
    if (!s.is_empty() && r.coin()) (void)s.get_rank(s.get_min_item());
    return s;
  }
  static bool extra_case(Rng&) { return false; }
  static std::string write(const SK& s, bool stream) { if (stream) { std::ostringstream os; s.serialize(os); return os.str(); } return to_str(s.serialize()); }
  static SK read(const std::string& img, bool stream) { if (stream) { std::istringstream is(img); return SK::deserialize(is); } return SK::deserialize(img.data(), img.size()); }
  static std::string readout(const SK& s) {
    J j; j.put("family", std::string("kll"));
    quantile_family_readout<T>(j, s);
    return j.done();
  }
  static void check(const SK& s, const std::string& img, const std::string& ctx) {
    Kll<T> d = decode_kll<T>(img.data(), img.size());
    VF_CHECK(d.k == s.get_k(), "kll|image-vs-api|k", ctx);
    VF_CHECK(d.empty == s.is_empty(), "kll|image-vs-api|empty-flag", ctx);
    if (d.empty) { count("kll_empty"); sig(mix64(0x4b11, d.k)); return; }
    VF_CHECK(d.n == s.get_n(), "kll|image-vs-api|n", ctx + " stored=" + std::to_string(d.n));
    VF_CHECK(d.single == (s.get_n() == 1), "kll|image|single-item-flag-vs-n", ctx);
    VF_CHECK(d.items.size() == s.get_num_retained(), "kll|image-vs-api|num-retained", ctx);
    const T mn = d.single ? d.items[0] : d.min_item, mx = d.single ? d.items[0] : d.max_item;
    VF_CHECK(mn == s.get_min_item() && mx == s.get_max_item(), "kll|image-vs-api|min-max", ctx);
    VF_CHECK(d.min_k <= d.k, "kll|image|min-k-above-k", ctx);
    if (!d.single) {
      // minK is what the a-priori error of the sketch is computed from
      VF_CHECK(s.get_normalized_rank_error(false) == SK::get_normalized_rank_error(d.min_k, false) && s.get_normalized_rank_error(true) == SK::get_normalized_rank_error(d.min_k, true),
               "kll|image-vs-api|min-k-vs-normalized-rank-error", ctx + " stored min_k=" + std::to_string(d.min_k) + " k=" + std::to_string(d.k));
      if (kll_expected_min_k() >= 0) VF_CHECK(d.min_k == kll_expected_min_k(), "kll|image-vs-model|min-k-after-merge-with-smaller-k", ctx + " stored=" + std::to_string(d.min_k) + " model=" + std::to_string(kll_expected_min_k()));
      const SK back = read(img, false);
      VF_CHECK(back.get_normalized_rank_error(false) == s.get_normalized_rank_error(false), "kll|restored|normalized-rank-error", ctx + " restored=" + str(back.get_normalized_rank_error(false)) + " original=" + str(s.get_normalized_rank_error(false)));
      if (d.min_k < d.k) count("kll_image_min_k_below_k");
    }
    // (flag compared with the state before any query below sorts level zero as a side effect)
    if (!d.single) {
      const size_t l0 = (d.num_levels > 1 ? d.levels[1] : d.levels[0] + uint32_t(d.items.size())) - d.levels[0];
      if (d.l0_sorted) { VF_CHECK(std::is_sorted(d.items.begin(), d.items.begin() + l0), "kll|image|level-zero-sorted-flag-but-level-zero-unsorted", ctx); count("kll_level_zero_sorted_flag"); }
      else count("kll_level_zero_unsorted_flag");
      VF_CHECK(d.l0_sorted == s.is_level_zero_sorted_, "kll|image-vs-state|level-zero-sorted-flag-bit1", ctx);
    }
    quantile_decode_vs_api<T>("kll", d, view_pairs<T>(s), ctx);
    count(d.single ? "kll_single" : d.num_levels > 1 ? "kll_multi_level" : "kll_one_level");
    sig(mix64(mix64(d.n, d.k), mix64(d.num_levels, d.items.size())));
  }
};

// ------------------------------------------------------------------- REQ
template<typename T> struct ReqFam {
  using SK = req_sketch<T>;
  static SK gen(int variant, Rng& r, bool small) {
    const int state = variant % 7; const bool hra = (variant / 7) % 2;
    static const uint16_t ks[] = {4, 12, 50};
    const uint16_t k = small ? ks[(variant / 14) % 2] : ks[r.below(3)];
    const uint64_t dom = 1ULL << 20;
    SK s(k, hra);
    uint64_t n = 0;
    switch (state) {
      case 0: n = 0; break;
      case 1: n = 1; break;
      case 2: n = 2 + r.below(3); break;                 // raw items 2..4 (byte image padded on the pinned tree: stream image is the reference)
      case 3: n = 5 + r.below(2 * k); break;             // one level, n not stored
      case 4: n = 8 * k + r.below(small ? 40 * k : 400 * k); break;
      case 5: n = small ? 2000 + r.below(2000) : 20000 + r.below(100000); break;
      default: {
        SK o(k, hra);
        for (uint64_t i = 0, m = 1 + r.below(small ? 30 * k : 300 * k); i < m; ++i) o.update(GenItem<T>::make(r, dom));
        for (uint64_t i = 0, m = 1 + r.below(small ? 30 * k : 300 * k); i < m; ++i) s.update(GenItem<T>::make(r, dom));
        s.merge(o);
        return s;
      }
    }
    for (uint64_t i = 0; i < n; ++i) s.update(GenItem<T>::make(r, dom));
    if (!s.is_empty() && r.coin()) (void)s.get_rank(s.get_min_item());   // sorts level zero: level-zero-sorted flag in the image
    return s;
  }
  // generated cases only: raw-items images (n = 2..4) whose level zero is UNSORTED at serialize time (never queried before):
  // the sorted flag must say so, and both restored sketches must rank every item exactly (all weights are 1)
  static bool extra_case(Rng& r) {
    if (!r.chance(0.3)) return false;
    static const uint16_t ks[] = {4, 12, 50};
    const uint16_t k = ks[r.below(3)]; const bool hra = r.coin();
    const uint32_t n = 2 + static_cast<uint32_t>(r.below(3));
    std::vector<T> items;
    for (uint32_t i = 0; i < n; ++i) items.push_back(GenItem<T>::make(r, r.chance(0.2) ? 3 : (1ULL << 20)));
    const int order = static_cast<int>(r.below(3));     // 0 descending, 1 shuffled, 2 ascending arrival
    std::sort(items.begin(), items.end());
    if (order == 0) std::reverse(items.begin(), items.end()); else if (order == 1) r.shuffle(items);
    const bool unsorted = !std::is_sorted(items.begin(), items.end());
    SK s(k, hra);
    for (const T& x : items) s.update(x);
    const std::string ctx = std::string("raw items n=") + std::to_string(n) + " hra=" + std::to_string(hra) + " k=" + std::to_string(k) + " arrival " + (unsorted ? "unsorted" : "ascending");
    describe("decode family=req " + ctx);
    const std::string b = write(s, false), st = write(s, true);      // no query before serializing
    VF_CHECK(b == st, "req|image|bytes-path-image-differs-from-stream-path-image", ctx);
    Req<T> d = decode_req<T>(b.data(), b.size());
    VF_CHECK(d.raw && d.items.size() == n, "req|image|raw-items-form-expected", ctx);
    { std::vector<T> a = d.items, e = items; std::sort(a.begin(), a.end()); std::sort(e.begin(), e.end());
      VF_CHECK(a == e, "req|image-vs-inputs|raw-items-multiset", ctx); }   // (storage order inside level zero is the compactor's business)
    if (d.l0_sorted) VF_CHECK(std::is_sorted(d.items.begin(), d.items.end()), "req|image|level-zero-sorted-flag-but-level-zero-unsorted", ctx);
    if (!std::is_sorted(d.items.begin(), d.items.end())) count("req_raw_image_items_unsorted");
    VF_CHECK(d.hra == hra, "req|image-vs-api|hra-flag-bit3", ctx);
    for (int stream = 0; stream < 2; ++stream) {
      const std::string P = stream ? "stream" : "bytes";
      try {
        const SK back = read(stream ? st : b, stream != 0);
        VF_CHECK(back.get_n() == n && back.get_num_retained() == n && back.is_HRA() == hra && back.get_k() == k, "req|restored-raw-items|" + P + "|counts", ctx);
        bool ok = true; std::string bad;
        for (const T& x : items) {
          uint32_t le = 0, lt = 0; for (const T& y : items) { if (!(x < y)) ++le; if (y < x) ++lt; }
          const double ri = back.get_rank(x, true), re = back.get_rank(x, false);
          if (ri != double(le) / n || re != double(lt) / n) { ok = false; bad = " inclusive " + str(ri) + " want " + str(double(le) / n) + " exclusive " + str(re) + " want " + str(double(lt) / n); }
        }
        VF_CHECK(ok, "req|restored-raw-items|" + P + "|rank-vs-exact-multiset", ctx + bad);
        T mn = items[0], mx = items[0]; for (const T& x : items) { if (x < mn) mn = x; if (mx < x) mx = x; }
        VF_CHECK(back.get_min_item() == mn && back.get_max_item() == mx, "req|restored-raw-items|" + P + "|min-max", ctx);
      } catch (const std::exception& e) { checked(); fail("req|restored-raw-items|" + P + "|threw", ctx + ": " + e.what()); }
    }
    count(unsorted ? (hra ? "req_raw_unsorted_hra" : "req_raw_unsorted_lra") : "req_raw_ascending_arrival");
    sig(mix64(mix64(n, k), mix64(hra, order) + img_hash_b(b)));
    return true;
  }
  static std::string write(const SK& s, bool stream) { if (stream) { std::ostringstream os; s.serialize(os); return os.str(); } return to_str(s.serialize()); }
  static SK read(const std::string& img, bool stream) { if (stream) { std::istringstream is(img); return SK::deserialize(is); } return SK::deserialize(img.data(), img.size()); }
  static std::string readout(const SK& s) {
    J j; j.put("family", std::string("req")).put("is_hra", s.is_HRA());
    quantile_family_readout<T>(j, s);
    return j.done();
  }
  static void check(const SK& s, const std::string& img, const std::string& ctx) {
    Req<T> d = decode_req<T>(img.data(), img.size());
    VF_CHECK(d.k == s.get_k(), "req|image-vs-api|k", ctx);
    VF_CHECK(d.hra == s.is_HRA(), "req|image-vs-api|hra-flag-bit3", ctx);
    VF_CHECK(d.empty == s.is_empty(), "req|image-vs-api|empty-flag", ctx);
    if (d.empty) { count("req_empty"); sig(mix64(0x4e9, d.k)); return; }
    uint64_t n = 0; for (uint64_t w : d.weights) n += w;
    if (d.has_n) VF_CHECK(d.n == s.get_n(), "req|image-vs-api|n", ctx); else { d.n = n; VF_CHECK(n == s.get_n(), "req|image-vs-api|n-from-item-count", ctx); }
    VF_CHECK(d.raw == (s.get_n() <= 4), "req|image|raw-items-flag-vs-n", ctx);
    VF_CHECK(d.items.size() == s.get_num_retained(), "req|image-vs-api|num-retained", ctx);
    VF_CHECK((d.pre_ints == 4) == s.is_estimation_mode(), "req|image-vs-api|estimation-preamble", ctx);
    if (d.has_minmax) VF_CHECK(d.min_item == s.get_min_item() && d.max_item == s.get_max_item(), "req|image-vs-api|min-max", ctx);
    else { T mn = d.items[0], mx = d.items[0]; for (const T& x : d.items) { if (x < mn) mn = x; if (mx < x) mx = x; }
      VF_CHECK(mn == s.get_min_item() && mx == s.get_max_item(), "req|image-vs-api|min-max-from-items", ctx); }
    {
      const size_t l0 = d.raw ? d.items.size() : d.lv[0].num_items;
      if (d.l0_sorted) { VF_CHECK(std::is_sorted(d.items.begin(), d.items.begin() + l0), "req|image|level-zero-sorted-flag-but-level-zero-unsorted", ctx); count("req_level_zero_sorted_flag"); }
      else count("req_level_zero_unsorted_flag");
      VF_CHECK(d.l0_sorted == s.compactors_[0].is_sorted(), "req|image-vs-state|level-zero-sorted-flag-bit5", ctx);
    }
    quantile_decode_vs_api<T>("req", d, view_pairs<T>(s), ctx);
    count(d.raw ? "req_raw_items" : d.pre_ints == 4 ? "req_estimation" : "req_one_level");
    sig(mix64(mix64(d.n, d.k), mix64(d.num_levels, d.flags)));
  }
};

// ------------------------------------------------------------------- classic quantiles
template<typename T> struct QuantFam {
  using SK = quantiles_sketch<T>;
  static SK gen(int variant, Rng& r, bool small) {
    const int state = variant % 7;
    static const uint16_t ks[] = {8, 16, 128, 2};
    const uint16_t k = small ? ks[(variant / 7) % 2] : ks[r.below(4)];
    const uint64_t dom = 1ULL << 20;
    SK s(k);
    uint64_t n = 0;
    switch (state) {
      case 0: n = 0; break;
      case 1: n = 1; break;
      case 2: n = 2 + r.below(2 * k - 2); break;                    // base buffer only
      case 3: n = 2ULL * k * (1 + r.below(6)); break;               // empty base buffer
      case 4: n = 2ULL * k * (2 + 2 * r.below(small ? 8 : 200)) + r.below(2 * k); break;   // bit pattern with a hole at level 0
      case 5: n = 2ULL * k + r.below(small ? 40 * k : 2000 * k); break;
      default: {
        SK o(r.coin() ? k : uint16_t(2 * k));
        for (uint64_t i = 0, m = r.below(small ? 20 * k : 500 * k); i < m; ++i) o.update(GenItem<T>::make(r, dom));
        for (uint64_t i = 0, m = 1 + r.below(small ? 20 * k : 500 * k); i < m; ++i) s.update(GenItem<T>::make(r, dom));
        s.merge(o);
        return s;
      }
    }
    for (uint64_t i = 0; i < n; ++i) s.update(GenItem<T>::make(r, dom));
    return s;
  }
  static bool extra_case(Rng&) { return false; }
  static std::string write(const SK& s, bool stream) { if (stream) { std::ostringstream os; s.serialize(os); return os.str(); } return to_str(s.serialize()); }
  static SK read(const std::string& img, bool stream) { if (stream) { std::istringstream is(img); return SK::deserialize(is); } return SK::deserialize(img.data(), img.size()); }
  static std::string readout(const SK& s) {
    J j; j.put("family", std::string("quantiles"));
    quantile_family_readout<T>(j, s);
    return j.done();
  }
  static void check(const SK& s, const std::string& img, const std::string& ctx) {
    Quant<T> d = decode_quantiles<T>(img.data(), img.size());
    VF_CHECK(d.k == s.get_k(), "quantiles|image-vs-api|k", ctx);
    VF_CHECK(d.empty == s.is_empty(), "quantiles|image-vs-api|empty-flag", ctx);
    if (d.empty) { count("quantiles_empty"); sig(mix64(0x9a, d.k)); return; }
    VF_CHECK(d.n == s.get_n(), "quantiles|image-vs-api|n", ctx);
    VF_CHECK(d.items.size() == s.get_num_retained(), "quantiles|image-vs-api|num-retained", ctx);
    VF_CHECK(d.min_item == s.get_min_item() && d.max_item == s.get_max_item(), "quantiles|image-vs-api|min-max", ctx);
    const uint64_t bb = d.n % (2ULL * d.k);
    VF_CHECK(std::is_sorted(d.items.begin(), d.items.begin() + bb), "quantiles|image|sorted-flag-but-base-buffer-unsorted", ctx);
    quantile_decode_vs_api<T>("quantiles", d, view_pairs<T>(s), ctx);
    const uint64_t pat = d.n / (2ULL * d.k);
    count(pat == 0 ? "quantiles_base_buffer_only" : (pat & (pat + 1)) != 0 ? "quantiles_pattern_with_hole" : "quantiles_levels");
    sig(mix64(mix64(d.n, d.k), d.items.size()));
  }
};

template<typename Fam> void register_quantile_family(const std::string& name, int nvariants) {
  Family f; f.name = name; f.group = 2; f.nvariants = nvariants;
  const bool is_req = name.compare(0, 3, "req") == 0;
  // REQ recipes record the stream image (the byte image of 2..4 items is padded on the pinned tree, DESIGN.md §7 #6)
  f.build = [is_req](int v, Rng& r, bool small) { auto s = Fam::gen(v, r, small); return Built{Fam::write(s, is_req), Fam::readout(s)}; };
  f.read = [](const std::string& img, bool stream, int) { return Fam::readout(Fam::read(img, stream)); };
  const bool is_kll = name.compare(0, 3, "kll") == 0;
  f.decode_case = [name, is_req, is_kll](int v, Rng& r, bool small) {
    if (is_req && Fam::extra_case(r)) { count("decoded_" + name); return; }
    kll_smaller_k_merge_mode() = is_kll && r.chance(0.3);
    auto s = Fam::gen(v, r, small);
    kll_smaller_k_merge_mode() = false;
    const std::string ctx = "variant=" + std::to_string(v) + " k=" + std::to_string(s.get_k()) + " n=" + std::to_string(s.get_n());
    const std::string b = Fam::write(s, false), st = Fam::write(s, true);
    check_header_variants(name.substr(0, name.find('_')), b, [&](unsigned h) { return s.serialize(h); }, ctx);
    Fam::check(s, st, ctx + " path=stream");
    if (b != st) {
      size_t i = 0; while (i < b.size() && i < st.size() && b[i] == st[i]) ++i;
      checked(); fail(name.substr(0, name.find('_')) + "|image|bytes-path-image-differs-from-stream-path-image", ctx + " first differing byte " + std::to_string(i) + " sizes " + std::to_string(b.size()) + "/" + std::to_string(st.size()));
      count(name + "_paths_differ");
      // REQ 2..4 items: byte image longer than the stream image (superfluous trailing zeros) is C09's finding, not a layout question
      const bool padded = is_req && b.size() > st.size() && b.compare(0, st.size(), st) == 0 && b.find_first_not_of('\0', st.size()) == std::string::npos;
      if (!padded) Fam::check(s, b, ctx + " path=bytes"); else count("req_bytes_image_zero_padded");
    }
    count("decoded_" + name);
  };
  families().push_back(f);
}
#endif // C10_B1

#ifdef C10_B2
// ------------------------------------------------------------------- frequent items
template<typename T> struct FiFam {
  using SK = frequent_items_sketch<T>;
  static SK gen(int variant, Rng& r, bool small) {
    const int state = variant % 5;
    const uint8_t lg_max = static_cast<uint8_t>(small ? 3 + (variant / 5) % 3 : 3 + r.below(8));
    SK s(lg_max);
    const uint64_t cap = (1ULL << lg_max) * 3 / 4;
    auto feed = [&](SK& sk, uint64_t n, uint64_t dom) {
      for (uint64_t i = 0; i < n; ++i) {
        // skewed: low ids heavy, so that purges never remove every counter (DESIGN.md §7 #9 is C12's finding)
        uint64_t id = r.chance(0.5) ? r.below(3) : r.below(dom);
        Rng ir(id * 977 + 5); T item = GenItem<T>::make(ir, 1ULL << 30);
        sk.update(item, id < 3 ? 1000 + r.below(1000) : 1 + r.below(20));
      }
    };
    switch (state) {
      case 0: break;
      case 1: feed(s, 1, 1); break;
      case 2: feed(s, 1 + r.below(cap), cap / 2 + 1); break;                // no purge
      case 3: feed(s, cap * 4 + r.below(small ? 200 : 20000), cap * 6); break;  // purges -> offset > 0
      default: { SK o(lg_max); feed(o, cap * 3, cap * 5); feed(s, cap * 2, cap * 5); s.merge(o); break; }
    }
    return s;
  }
  static std::string write(const SK& s, bool stream) { if (stream) { std::ostringstream os; s.serialize(os); return os.str(); } return to_str(s.serialize()); }
  static SK read(const std::string& img, bool stream) { if (stream) { std::istringstream is(img); return SK::deserialize(is); } return SK::deserialize(img.data(), img.size()); }
  static std::string readout(const SK& s) {
    J j; j.put("family", std::string("fi"));
    j.put("is_empty", s.is_empty()).put("num_active_items", s.get_num_active_items()).put("total_weight", uint64_t(s.get_total_weight()))
     .put("maximum_error", uint64_t(s.get_maximum_error())).put("epsilon", s.get_epsilon());
    // rows sorted by item (the map order is not part of the contract)
    std::vector<std::pair<T, std::vector<uint64_t>>> rows;
    for (const auto& row : s.get_frequent_items(NO_FALSE_NEGATIVES, 0)) rows.push_back({row.get_item(), {row.get_estimate(), row.get_lower_bound(), row.get_upper_bound()}});
    std::sort(rows.begin(), rows.end());
    std::vector<T> items; std::vector<uint64_t> nums;
    for (auto& p : rows) { items.push_back(p.first); for (uint64_t x : p.second) nums.push_back(x); }
    j.arr("items", items).arr("estimate_lb_ub", nums);
    return j.done();
  }
  static void check(const SK& s, const std::string& img, const std::string& ctx) {
    Fi<T> d = decode_fi<T>(img.data(), img.size());
    VF_CHECK(d.empty == s.is_empty(), "fi|image-vs-api|empty-flags", ctx);
    if (d.empty) { count("fi_empty"); sig(0xf1); return; }
    VF_CHECK(d.num_active == s.get_num_active_items(), "fi|image-vs-api|num-active", ctx);
    VF_CHECK(d.total_weight == uint64_t(s.get_total_weight()), "fi|image-vs-api|total-weight", ctx);
    VF_CHECK(d.offset == uint64_t(s.get_maximum_error()), "fi|image-vs-api|offset-vs-maximum-error", ctx);
    std::set<T> seen;
    for (size_t i = 0; i < d.items.size(); ++i) {
      VF_CHECK(seen.insert(d.items[i]).second, "fi|image|duplicate-item", ctx);
      VF_CHECK(uint64_t(s.get_lower_bound(d.items[i])) == d.weights[i], "fi|image-vs-api|weight-vs-lower-bound", ctx + " i=" + std::to_string(i));
      VF_CHECK(uint64_t(s.get_estimate(d.items[i])) == d.weights[i] + d.offset, "fi|image-vs-api|weight-plus-offset-vs-estimate", ctx + " i=" + std::to_string(i));
    }
    count(d.offset > 0 ? "fi_with_offset" : "fi_no_purge");
    sig(mix64(mix64(d.total_weight, d.offset), mix64(d.num_active, d.lg_max)));
  }
};

template<typename Fam> void register_fi_family(const std::string& name, int nvariants) {
  Family f; f.name = name; f.group = 2; f.nvariants = nvariants;
  f.build = [](int v, Rng& r, bool small) { auto s = Fam::gen(v, r, small); return Built{Fam::write(s, false), Fam::readout(s)}; };
  f.read = [](const std::string& img, bool stream, int) { return Fam::readout(Fam::read(img, stream)); };
  f.decode_case = [name](int v, Rng& r, bool small) {
    auto s = Fam::gen(v, r, small);
    const std::string ctx = "variant=" + std::to_string(v) + " active=" + std::to_string(s.get_num_active_items());
    const std::string b = Fam::write(s, false), st = Fam::write(s, true);
    check_header_variants(name.substr(0, name.find('_')), b, [&](unsigned h) { return s.serialize(h); }, ctx);
    Fam::check(s, b, ctx + " path=bytes");
    if (b != st) { count(name + "_paths_differ"); Fam::check(s, st, ctx + " path=stream"); }
    count("decoded_" + name);
  };
  families().push_back(f);
}

// ------------------------------------------------------------------- count-min
template<typename W> struct CmFam {
  using SK = count_min_sketch<W>;
  static SK gen(int variant, Rng& r, bool small) {
    const int state = variant % 4;
    static const uint8_t hs[] = {1, 3, 5, 8}; static const uint32_t bs[] = {3, 16, 64, 211};
    const int c = small ? (variant / 4) % 3 : int(r.below(4));
    SK s(hs[c], bs[c], seed_for(variant));
    uint64_t n = state == 0 ? 0 : state == 1 ? 1 : state == 2 ? 5 + r.below(50) : 200 + r.below(small ? 500 : 20000);
    for (uint64_t i = 0; i < n; ++i) {
      const W w = std::is_signed<W>::value && r.chance(0.2) ? W(-int64_t(r.below(5))) : W(1 + r.below(9));
      switch (r.below(3)) {
        case 0: s.update(uint64_t(r.below(300)), w); break;
        case 1: s.update(int64_t(r.below(300)) - 150, w); break;
        default: s.update(GenItem<std::string>::make(r, 300), w); break;
      }
    }
    return s;
  }
  static std::string write(const SK& s, bool stream) { if (stream) { std::ostringstream os; s.serialize(os); return os.str(); } return to_str(s.serialize()); }
  static SK read(const std::string& img, bool stream, uint64_t seed) { if (stream) { std::istringstream is(img); return SK::deserialize(is, seed); } return SK::deserialize(img.data(), img.size(), seed); }
  static std::string readout(const SK& s) {
    J j; j.put("family", std::string("countmin"));
    j.put("is_empty", s.is_empty()).put("num_hashes", s.get_num_hashes()).put("num_buckets", s.get_num_buckets()).put("seed", s.get_seed())
     .put("total_weight", s.get_total_weight());
    std::vector<W> cells(s.begin(), s.end());
    j.arr("cells", cells);
    std::vector<W> est;
    for (uint64_t i = 0; i < 12; ++i) { est.push_back(s.get_estimate(uint64_t(i * 7))); est.push_back(s.get_estimate(int64_t(i) - 6)); }
    j.arr("q_estimates", est);   // row seeds come from std::default_random_engine: same-platform self-consistency only
    return j.done();
  }
  static void check(const SK& s, const std::string& img, const std::string& ctx) {
    Cm<W> d = decode_cm<W>(img.data(), img.size());
    VF_CHECK(d.seed_hash == ref_seed_hash(s.get_seed()), "countmin|image-vs-api|seed-hash-not-low16-of-murmur-of-seed", ctx);
    VF_CHECK(d.num_hashes == s.get_num_hashes() && d.num_buckets == s.get_num_buckets(), "countmin|image-vs-api|shape", ctx);
    VF_CHECK(d.empty == s.is_empty(), "countmin|image-vs-api|empty-flag", ctx);
    if (d.empty) { count("countmin_empty"); sig(mix64(0xc3, d.num_buckets)); return; }
    VF_CHECK(d.total_weight == s.get_total_weight(), "countmin|image-vs-api|total-weight", ctx);
    std::vector<W> cells(s.begin(), s.end());
    VF_CHECK(d.cells == cells, "countmin|image-vs-api|cells-row-major", ctx);
    count("countmin_nonempty");
    sig(mix64(mix64(uint64_t(int64_t(d.total_weight)), d.num_buckets), d.num_hashes));
  }
};

template<typename Fam> void register_cm_family(const std::string& name, int nvariants) {
  Family f; f.name = name; f.group = 2; f.nvariants = nvariants;
  f.build = [](int v, Rng& r, bool small) { auto s = Fam::gen(v, r, small); return Built{Fam::write(s, false), Fam::readout(s)}; };
  f.read = [](const std::string& img, bool stream, int v) { return Fam::readout(Fam::read(img, stream, seed_for(v))); };
  f.decode_case = [name](int v, Rng& r, bool small) {
    auto s = Fam::gen(v, r, small);
    const std::string ctx = "variant=" + std::to_string(v);
    const std::string b = Fam::write(s, false), st = Fam::write(s, true);
    check_header_variants(name.substr(0, name.find('_')), b, [&](unsigned h) { return s.serialize(h); }, ctx);
    Fam::check(s, b, ctx + " path=bytes");
    if (b != st) { count(name + "_paths_differ"); Fam::check(s, st, ctx + " path=stream"); }
    count("decoded_" + name);
  };
  families().push_back(f);
}
#endif // C10_B2

inline void register_group_b() {
#ifdef C10_B1
  register_quantile_family<KllFam<float>>("kll_float", 18);
  register_quantile_family<KllFam<double>>("kll_double", 6);
  register_quantile_family<KllFam<std::string>>("kll_string", 6);
  register_quantile_family<ReqFam<float>>("req_float", 28);
  register_quantile_family<ReqFam<std::string>>("req_string", 7);
  register_quantile_family<QuantFam<double>>("quantiles_double", 14);
  register_quantile_family<QuantFam<float>>("quantiles_float", 7);
  register_quantile_family<QuantFam<std::string>>("quantiles_string", 7);
  shipped().push_back(Shipped{"kll/test/kll_sketch_float_one_item_v1.sk", "kll_sketch_float_one_item_v1.sk", "kll",
    [](const std::string& img, bool stream) { return KllFam<float>::readout(KllFam<float>::read(img, stream)); }});
  for (const char* n : {"50", "1000"}) for (const char* v : {"0.3.0", "0.6.0", "0.8.0", "0.8.3"}) {
    const std::string f = std::string("Qk128_n") + n + "_v" + v + ".sk";
    shipped().push_back(Shipped{"quantiles/test/" + f, f, "quantiles",
      [](const std::string& img, bool stream) { return QuantFam<double>::readout(QuantFam<double>::read(img, stream)); }});
  }
#endif
#ifdef C10_B2
  register_fi_family<FiFam<int64_t>>("fi_int64", 15);
  register_fi_family<FiFam<std::string>>("fi_string", 10);
  register_cm_family<CmFam<uint64_t>>("countmin_u64", 12);
  register_cm_family<CmFam<int64_t>>("countmin_i64", 8);
  register_cm_family<CmFam<double>>("countmin_double", 4);
#endif
}

} } // namespace vf::c10
#endif
